import PlzVerif.Lemmas.Walk
import PlzVerif.Lemmas.WalkDecl
import PlzVerif.Generated.C22
/-!
C22  `//dir/...` expands to exactly the packages under the directory.

"Expanding `//dir/...` yields exactly the directories under dir that contain a BUILD file, excluding plz-out,
hidden directories, and configured blacklisted directories.  Blacklisted directories are matched as whole path
components, so blacklisting `out` does not hide `output/`."

* code  : `findAll facts cfg p t` -- `plz.FindAllBuildFiles` + `godirwalk.Walk`, the callback interpreted from
          the formulas regenerated from src/plz/plz.go on this run (`Generated.C22`);
* spec  : `specNames plzOut cfg p t` -- BUILD files of the non-excluded directories, exclusion decided on lists
          of path components (`specExcluded`, `compMatch`), no string prefixes anywhere.

The property as stated is FALSE for the pinned code (two independent root causes, both with a machine-checked
witness below); what does hold: soundness without any condition, exactness on benign trees, exactness of the
repaired callback; and the recursive specification is characterised declaratively
(`C22_spec_declarative`).
-/
namespace PlzVerif.Props.C22
open PlzVerif.Walk PlzVerif.Generated

/-- The facts read from /repo on this run. -/
def facts : Facts :=
  { outDir := C22.outDir, chain := C22.chain, blCond := C22.blCond,
    cutOnNonDir := C22.cutOnNonDir, sorted := C22.sorted }

/-- Side condition on the regenerated facts (decidable: formulas compared under all 256 resp. 32 valuations of the atoms they may mention). -/
def FactsOK : Bool :=
  decide (C22.outDir = plzOut) &&
  decide (ChainEquiv C22.chain Facts.canon.chain) &&
  (decide (CondEquiv C22.blCond Facts.canon.blCond) || decide (CondEquiv C22.blCond blCondComponent)) &&
  C22.sorted && C22.walkPassesIsDir && C22.rootEmptyBecomesDot && C22.expandPrefixArg == ""

/-- Obligation a code change can break. -/
theorem C22_facts_ok : FactsOK = true := by decide +kernel

/-- The blacklist test in effect: today `strings.HasPrefix(name, dir)`; `blComp` once matching is by component. -/
def blTest : Name → Name → Name → Bool :=
  if CondEquiv C22.blCond Facts.canon.blCond then blStr else blComp

theorem callback_facts : callback facts = cbCanon blTest := by
  have h := C22_facts_ok
  simp only [FactsOK, Bool.and_eq_true, Bool.or_eq_true, decide_eq_true_eq] at h
  obtain ⟨⟨⟨⟨⟨⟨ho, hc⟩, hb⟩, _⟩, _⟩, _⟩, _⟩ := h
  unfold blTest
  by_cases h1 : CondEquiv C22.blCond Facts.canon.blCond
  · rw [if_pos h1, ← callback_canon]
    exact callback_congr facts Facts.canon ho hc h1
  · rw [if_neg h1, ← callback_canonComp]
    rcases hb with hb | hb
    · exact absurd hb h1
    · exact callback_congr facts Facts.canonComp ho hc hb

theorem blTest_sound (q : List Name) (d : Name) (g : goodPath q = true)
    (h : (d == lastOr q || compMatch d q) = true) : blTest (nameOf q) (lastOr q) d = true := by
  unfold blTest; split
  · exact blStr_of_comp q d h
  · rw [blComp_eq q d g]; exact h

theorem findAll_eq (cfg : Config) (p : List Name) (t : Tree) :
    findAll facts cfg p t = (walk (cbCanon blTest cfg) C22.cutOnNonDir (nameOf p) t.sort).1 := by
  have hs : facts.sorted = true := by
    have h := C22_facts_ok
    simp only [FactsOK, Bool.and_eq_true] at h
    exact h.1.1.1.2
  simp only [findAll, hs, if_true, callback_facts]; rfl

/-- **Soundness, unconditional.**  Every name `FindAllBuildFiles` sends is a BUILD file of a directory under
    `p` that the specification does not exclude: no configuration, prefix argument, tree shape or listing
    order makes the expansion contain a package it should not. -/
theorem C22_sound (cfg : Config) (p : List Name) (cs : Forest) (w : Forest.wf cs = true) (g : goodPath p = true) :
    ∀ x ∈ findAll facts cfg p (.dir cs), x ∈ specNames plzOut cfg p (.dir cs) := by
  intro x hx
  rw [findAll_eq] at hx
  have w' : Forest.wf cs.sort = true := by rw [wfF_sort]; exact w
  have := walk_sound (cbCanon blTest cfg) C22.cutOnNonDir plzOut cfg
    (fun q gq => cbCanon_sound_dir blTest cfg (fun q d gq h => blTest_sound q d gq h) q gq)
    (fun q gq => cbCanon_sound_leaf blTest cfg q gq) cs.sort p w' g x (by simpa [Tree.sort] using hx)
  have hp := (spec_sort plzOut cfg (.dir cs) p).map nameOf
  exact hp.mem_iff.mp (by simpa [specNames, Tree.sort] using this)

example : findAll facts ⟨[['B']], [], [], []⟩ [] (.dir (.cons ['a'] (.dir (.cons ['B'] (.leaf .file) .nil)) .nil))
    = [['a', '/', 'B']] := by decide

/-- **Exactness on benign trees (partial).**  If, on the part of the tree the specification walks, every
    blacklist entry that string-matches a directory also matches it by whole components, and no non-directory
    entry gives the callback a reason to return `filepath.SkipDir`, then the expansion is *exactly* the
    specified list -- same elements, same order (the sorted listing's order).
    Full statement (false today, see the witnesses): the same without the `benign` hypothesis. -/
theorem C22_exact_partial (cfg : Config) (p : List Name) (cs : Forest) (w : Forest.wf cs = true)
    (g : goodPath p = true) (hc : cfgOK plzOut cfg = true)
    (hb : benign blTest plzOut cfg p (.dir cs) = true) :
    findAll facts cfg p (.dir cs) = specNames plzOut cfg p (Tree.dir cs).sort := by
  rw [findAll_eq]
  have w' : Forest.wf cs.sort = true := by rw [wfF_sort]; exact w
  have hb' : benign blTest plzOut cfg p (Tree.dir cs).sort = true := by
    unfold benign at hb ⊢; rw [allNodes_sort]; exact hb
  have ha := allNodes_mono _ (agreeAt (cbCanon blTest cfg) C22.cutOnNonDir plzOut cfg) (specExcluded plzOut cfg)
    (fun q k gq h => agree_of_benign blTest C22.cutOnNonDir cfg (fun q d gq h => blTest_sound q d gq h) hc q k gq h)
    (Tree.dir cs).sort p (by simpa [Tree.sort, Tree.wf] using w') g hb'
  simp only [Tree.sort] at ha ⊢
  rw [walk_eq_spec _ _ plzOut cfg cs.sort p w' g ha]

/-- ... and the specified list of the sorted listing is a permutation of the specified list of the listing in
    any other order: as a set of packages the expansion does not depend on directory order. -/
theorem C22_exact_partial_set (cfg : Config) (p : List Name) (cs : Forest) (w : Forest.wf cs = true)
    (g : goodPath p = true) (hc : cfgOK plzOut cfg = true)
    (hb : benign blTest plzOut cfg p (.dir cs) = true) :
    (findAll facts cfg p (.dir cs)).Perm (specNames plzOut cfg p (.dir cs)) := by
  rw [C22_exact_partial cfg p cs w g hc hb]
  exact (spec_sort plzOut cfg (.dir cs) p).map nameOf

-- the hypotheses are satisfiable by a non-trivial tree: blacklist `out`, directories `out/` and `pkg/`
example : benign blTest plzOut ⟨[['B']], [], [['o', 'u', 't']], []⟩ []
    (.dir (.cons ['o', 'u', 't'] (.dir (.cons ['B'] (.leaf .file) .nil))
      (.cons ['p', 'k', 'g'] (.dir (.cons ['B'] (.leaf .file) .nil)) .nil))) = true := by decide

/-! ### the property as stated fails: two root causes -/

/-- Configuration of the first witness: BUILD file name `B`, blacklist `out`. -/
def cfgW1 : Config := ⟨[['B']], [], [['o', 'u', 't']], []⟩
/-- `output/B` exists. -/
def treeW1 : Tree := .dir (.cons ['o', 'u', 't', 'p', 'u', 't'] (.dir (.cons ['B'] (.leaf .file) .nil)) .nil)

/-- **Witness 1 (blacklist by string prefix, src/plz/plz.go:263).**  Blacklisting `out` hides `output/`:
    the specification lists `output/B`, the walk (with today's structure, `Facts.canon`) yields nothing. -/
theorem C22_witness_blacklist_string_prefix :
    Tree.wf treeW1 = true ∧ cfgOK plzOut cfgW1 = true ∧
    findAll Facts.canon cfgW1 [] treeW1 = [] ∧
    specNames plzOut cfgW1 [] treeW1 = [['o', 'u', 't', 'p', 'u', 't', '/', 'B']] := by decide

/-- Configuration of the second witness: BUILD file name `B`, blacklist `m` (whole-component semantics would
    not help: the entry *is* named `m`). -/
def cfgW2 : Config := ⟨[['B']], [], [['m']], []⟩
/-- A regular file `m` next to a package `q/`. -/
def treeW2 : Tree := .dir (.cons ['m'] (.leaf .file) (.cons ['q'] (.dir (.cons ['B'] (.leaf .file) .nil)) .nil))

/-- **Witness 2 (`filepath.SkipDir` returned for a non-directory, src/plz/plz.go:251/259/264 with
    godirwalk walk.go "stop processing remaining siblings").**  A regular *file* whose name matches a
    blacklist entry (or is `plz-out`, or equals an experimental path) makes godirwalk drop every later
    sibling: `q/B` is never found.  Independent of witness 1: it also fails with the whole-component test. -/
theorem C22_witness_nondir_skipdir_cuts_siblings :
    Tree.wf treeW2 = true ∧ cfgOK plzOut cfgW2 = true ∧
    findAll Facts.canon cfgW2 [] treeW2 = [] ∧
    findAll Facts.canonComp cfgW2 [] treeW2 = [] ∧
    specNames plzOut cfgW2 [] treeW2 = [['q', '/', 'B']] := by decide

/-- The same with a file literally named `plz-out` and an empty blacklist. -/
theorem C22_witness_plzout_file :
    findAll Facts.canon ⟨[['B']], [], [], []⟩ []
      (.dir (.cons plzOut (.leaf .file) (.cons ['q'] (.dir (.cons ['B'] (.leaf .file) .nil)) .nil))) = [] ∧
    specNames plzOut ⟨[['B']], [], [], []⟩ []
      (.dir (.cons plzOut (.leaf .file) (.cons ['q'] (.dir (.cons ['B'] (.leaf .file) .nil)) .nil))) = [['q', '/', 'B']] := by
  decide

/-- The two witnesses tied to the facts read from /repo ON THIS RUN (the theorems above are about the hand-written
    `Facts.canon`): while the blacklist test extracted from the source is the string-prefix one, `findAll facts`
    misses `output/B`; while godirwalk's cut on a non-directory `SkipDir` is in effect, it misses `q/B`.  After an
    upstream repair the hypotheses become false and these stop applying, instead of silently describing old code. -/
theorem C22_witness_blacklist_today (h : CondEquiv C22.blCond Facts.canon.blCond) :
    findAll facts cfgW1 [] treeW1 = [] ∧ specNames plzOut cfgW1 [] treeW1 ≠ [] := by
  refine ⟨?_, by decide⟩
  rw [findAll_eq]; unfold blTest; rw [if_pos h]
  cases C22.cutOnNonDir <;> decide

theorem C22_witness_nondir_skipdir_today (hc : C22.cutOnNonDir = true) :
    findAll facts cfgW2 [] treeW2 = [] ∧ specNames plzOut cfgW2 [] treeW2 ≠ [] := by
  refine ⟨?_, by decide⟩
  rw [findAll_eq, hc]; unfold blTest
  split <;> decide

example : CondEquiv C22.blCond Facts.canon.blCond ∧ C22.cutOnNonDir = true := by decide +kernel

/-- **The full-strength statement is refuted** for the structure the source has today. -/
theorem C22_exact_refuted :
    ¬ ∀ (cfg : Config) (p : List Name) (cs : Forest), Forest.wf cs = true → goodPath p = true →
        cfgOK plzOut cfg = true →
        (findAll Facts.canon cfg p (.dir cs)).Perm (specNames plzOut cfg p (.dir cs)) := by
  intro h
  have := h cfgW1 [] (.cons ['o', 'u', 't', 'p', 'u', 't'] (.dir (.cons ['B'] (.leaf .file) .nil)) .nil)
    (by decide) (by decide) (by decide)
  have e1 : findAll Facts.canon cfgW1 [] treeW1 = [] := by decide
  have e2 : specNames plzOut cfgW1 [] treeW1 = [['o', 'u', 't', 'p', 'u', 't', '/', 'B']] := by decide
  simp only [treeW1] at e1 e2
  rw [e1, e2] at this
  exact absurd this.length_eq (by decide)

/-- The facts read on this run are (up to propositional equivalence of the formulas) that structure, or the
    structure with the whole-component blacklist test. -/
theorem C22_facts_are_canon : callback facts = callback Facts.canon ∨ callback facts = callback Facts.canonComp := by
  rw [callback_facts, callback_canon, callback_canonComp]
  unfold blTest; split
  · exact Or.inl rfl
  · exact Or.inr rfl

/-! ### the proposed repair restores the property -/

/-- **Exactness of the repaired callback, unconditional.**  With the blacklist matched by whole components
    (`dir == basename || name == dir || strings.HasPrefix(name, dir+"/")`) and `filepath.SkipDir` returned for
    directories only, the walk yields exactly the specified list for every well-formed tree and every
    configuration -- whatever godirwalk does with `SkipDir` on a non-directory (`cut`). -/
theorem C22_fixed_exact (cut : Bool) (cfg : Config) (p : List Name) (cs : Forest) (w : Forest.wf cs = true)
    (g : goodPath p = true) (hc : cfgOK plzOut cfg = true) :
    (walk (cbFixed cfg) cut (nameOf p) (Tree.dir cs).sort).1 = specNames plzOut cfg p (Tree.dir cs).sort := by
  have w' : Forest.wf cs.sort = true := by rw [wfF_sort]; exact w
  have ha := allNodes_mono (fun _ _ => true) (agreeAt (cbFixed cfg) cut plzOut cfg) (specExcluded plzOut cfg)
    (fun q k gq _ => agree_fixed cut cfg hc q k gq)
    (Tree.dir cs).sort p (by simpa [Tree.sort, Tree.wf] using w') g (allNodes_true _ _ _)
  simp only [Tree.sort] at ha ⊢
  rw [walk_eq_spec _ _ plzOut cfg cs.sort p w' g ha]

-- on both witnesses the repaired callback finds the package
example : (walk (cbFixed cfgW1) true (nameOf []) treeW1.sort).1 = [['o', 'u', 't', 'p', 'u', 't', '/', 'B']] := by decide
example : (walk (cbFixed cfgW2) true (nameOf []) treeW2.sort).1 = [['q', '/', 'B']] := by decide

/-- String prefix vs component prefix, the heart of root cause 1: on clean paths the whole-component test on
    strings coincides with equality of component sequences. -/
theorem C22_component_test (q : List Name) (d : Name) (g : goodPath q = true) :
    blComp (nameOf q) (lastOr q) d = (d == lastOr q || compMatch d q) := blComp_eq q d g

/-! ### the specification, declaratively -/

/-- **The recursive specification says what the property says.**  `x` is listed by `spec` for the directory `p` with
    listing `cs` iff it is `p/rel/b` where `p/rel` is a directory reached through directories only, `b` is a
    non-directory entry of it named like a BUILD file, and none of the directories `p`, `p/rel₁`, …, `p/rel` is
    `plz-out`, hidden, an experimental directory or blacklisted by whole path components (`specExcluded`). -/
theorem C22_spec_declarative (cfg : Config) (p : List Name) (cs : Forest) (hn : Forest.nodup cs = true) (x : List Name) :
    x ∈ spec plzOut cfg p (.dir cs) ↔
      ∃ rel ds b k, x = p ++ rel ++ [b] ∧ dirAt cs rel = some ds ∧ Forest.get b ds = some (.leaf k) ∧
        cfg.buildNames.contains b = true ∧ ∀ j, j ≤ rel.length → specExcluded plzOut cfg (p ++ rel.take j) = false := by
  rw [mem_spec_iff plzOut cfg x cs p hn]
  constructor
  · rintro ⟨rel, ds, b, k, h1, h2, h3, h4, h5⟩
    exact ⟨rel, ds, b, k, h1, h2, h3, h4, fun j hj => h5 j (Nat.zero_le _) hj⟩
  · rintro ⟨rel, ds, b, k, h1, h2, h3, h4, h5⟩
    exact ⟨rel, ds, b, k, h1, h2, h3, h4, fun j _ hj => h5 j hj⟩

end PlzVerif.Props.C22
