import PlzVerif.Lemmas.TestCache
import PlzVerif.Model.TestFacts
import PlzVerif.Model.BuildFacts
import PlzVerif.Model.TestE2E
/-!
C11  Test results are reused only when the test's runtime inputs are unchanged; failing results are never
     reused; so the pass/fail outcome of an incremental `plz test` equals that of a fresh run on the same tree.

All theorems are about the model of `test()` (Model/TestCache.lean) instantiated with the facts regenerated on this
run from `RuntimeHash`, `ruleHash`, `IterRuntimeFiles`, `needToRun`, `cachedTestResults`, `cacheOutputFiles`
(`TestCache.generatedFacts`) on top of the build model instantiated with `Build.generatedFacts`.

The model covers both configurations: without an artifact cache, and with `[cache] dir` (build outputs AND results
files stored into / retrieved from the cache under (label, hash)); `TRepo.cacheOn` is part of the tree.

* FULL, for every history and every deterministic test semantics `outcome`:
  `C11_no_fail_reuse` (every results file — in plz-out and in the artifact cache — is a pass), `C11_cached_is_pass`, `C11_cached_only_if`,
  `C11_fail_not_stored`, `C11_no_result_runs` (a failing run is executed again).
* `C11_outcome_eq_fresh`: incremental = fresh for every history, every flag combination, with and without the
  artifact cache — given only C08's statement for the (runtime) rule pre-image and C09's for the path pre-image
  (whose violations stay known findings: unframed rule text, content-only directory hashes).  This rests on the
  regenerated fact that `RuntimeHash` writes, per runtime file, its path hash AND its NUL-terminated destination
  name (`facts_names`), i.e. on the repair of `runtime-hash-omits-file-names` (fix commit in /repo).
* The theorems use `facts_link`: the path hash RuntimeHash gets for a hard-linked filegroup output comes from the
  file's current contents, never from an xattr on the inode it shares with a source file (facts from src/fs/hash.go
  moveOrCopyHash / Hash / hash and src/build/filegroup.go).  `C11_witness_stale_hash_on_shared_inode`: with that fact
  flipped an in-place edit of such a source leaves a stale cached PASS.
* The defect as it was: `C11_old_witness_stale_pass` / `C11_old_witness_not_injective` are stated for the OLD fact
  value (`hashesNames := false`): a data dependency whose output is renamed with the same bytes gave a cached PASS
  where a fresh run errors.  `C11_renamed_output_detected` is the same history on the code as it is now.
  `C11_fixed_by_names` is the generic reason.
-/
namespace PlzVerif.Props.C11
set_option linter.unusedSectionVars false
open PlzVerif.Build PlzVerif.TestCache

variable {K A F N C S H A' S' G : Type}
variable [DecidableEq K] [DecidableEq S] [DecidableEq N] [DecidableEq H] [DecidableEq S'] [DecidableEq G]
variable (exec : A → List (N × C) → C) (ruleSer : A → S) (pathSer : C → H)
variable (ruleSerRT : A' → S') (outcome : A' → List (N × C) → Outcome)

/-- Obligation a code change can break: the facts regenerated from the test step satisfy the side condition. -/
theorem C11_facts_ok : TestCache.FactsOK = true := by decide

/-- …and so do those of the build step underneath (same obligation as C01's). -/
theorem C11_build_facts_ok : Build.FactsOK = true := by decide

theorem facts_store : TestCache.generatedFacts.storeIfAllSucceeded = true := by decide
theorem facts_verify : TestCache.generatedFacts.verifiesHash = true := by decide
theorem facts_removes : TestCache.generatedFacts.removesBefore = true := by decide
theorem facts_rule : TestCache.generatedFacts.hashesRule = true := by decide
theorem facts_files : TestCache.generatedFacts.hashesFiles = true := by decide
/-- No stored path hash is trusted on an inode that a filegroup output shares with a user-editable source file
    (CopyHash marks the destination unconditionally, Hash / hash respect the mark, the filegroup builder always calls
    CopyHash, RuntimeHash goes through PathHasher.Hash): the hash of a runtime file is a function of its contents. -/
theorem facts_link : TestCache.generatedFacts.linkXattr = false := by decide
theorem facts_cmp : Build.generatedFacts.cmpRule = true ∧ Build.generatedFacts.cmpSource = true := by decide

/-- One `plz test` / history in the model at the regenerated facts. -/
abbrev plzTest := @testAll K A F N C S H A' S' G _ _ _ _ _ _ TestCache.generatedFacts ruleSerRT pathSer outcome
  Build.generatedFacts (mvCoded Build.generatedFacts pathSer) rsCoded exec ruleSer
abbrev hist := @runHistT K A F N C S H A' S' G _ _ _ _ _ _ TestCache.generatedFacts ruleSerRT pathSer outcome
  Build.generatedFacts (mvCoded Build.generatedFacts pathSer) rsCoded exec ruleSer
abbrev fresh := @freshRun K A F N C S H A' S' G _ _ _ _ _ _ TestCache.generatedFacts ruleSerRT pathSer outcome
  Build.generatedFacts (mvCoded Build.generatedFacts pathSer) rsCoded exec ruleSer

/-! ### Failing results are never stored, never reused (full; no injectivity) -/

/-- Invariant over ALL histories (any `plz test` / `plz build` of any intermediate tree with any flags, any
    removal of outputs or results files): every results file is all-succeeded. -/
theorem C11_no_fail_reuse (history : List (TOp K A F N C S H A' G (RStamp S' G N H))) :
    (∀ k s, (hist exec ruleSer pathSer ruleSerRT outcome history TState.empty).res k = some s → s.res = .pass) ∧
    (∀ q s, (hist exec ruleSer pathSer ruleSerRT outcome history TState.empty).rcache q = some s → s.res = .pass) := by
  have := runHistT_rinv TestCache.generatedFacts ruleSerRT pathSer outcome Build.generatedFacts
    (mvCoded Build.generatedFacts pathSer) rsCoded exec ruleSer
    (fun (_ : A') (_ : List (N × C)) => True) facts_store facts_link history TState.empty (rinv_empty _ _ _ _ _) (rcinv_empty _ _ _ _ _)
    (admHist_true _ _ _ _ _ _ _ _ _ history _)
  exact ⟨fun k s h => (this.1 k s h).1, fun q s h => (this.2 q.1 q.2 s h).2.1⟩

/-- After any history, whatever a `plz test` reports as cached is a pass, and the command was not executed. -/
theorem C11_cached_is_pass (history : List (TOp K A F N C S H A' G (RStamp S' G N H))) (r : TRepo K A F N C A' G)
    (sel tsel : K → Bool) (fl : Flags) :
    ∀ k rep, (k, some rep) ∈ (plzTest exec ruleSer pathSer ruleSerRT outcome r sel tsel fl
        (hist exec ruleSer pathSer ruleSerRT outcome history TState.empty)).2.2 →
      rep.cached = true → rep.res = .pass ∧ rep.runs = 0 := by
  have hinv := runHistT_rinv TestCache.generatedFacts ruleSerRT pathSer outcome Build.generatedFacts (mvCoded Build.generatedFacts pathSer) rsCoded exec ruleSer
    (fun (_ : A') (_ : List (N × C)) => True) facts_store facts_link history TState.empty (rinv_empty _ _ _ _ _) (rcinv_empty _ _ _ _ _)
    (admHist_true _ _ _ _ _ _ _ _ _ history _)
  intro k rep hm hc
  exact testList_cached_pass TestCache.generatedFacts ruleSerRT pathSer outcome (fun (_ : A') (_ : List (N × C)) => True) facts_store facts_link r tsel fl
    _ _ _ _ r.repo.targets _ _ hinv.1 hinv.2 (fun _ _ _ _ _ _ _ => trivial) k rep hm hc

/-- "Cached only if a passing run exists for the current pre-image": a cached report means there was a passing
    results file whose recorded hash equals the current runtime hash, or a passing entry in the artifact cache filed
    under the current runtime hash. -/
theorem C11_cached_only_if {R : Type} [DecidableEq R] (fl : Flags) (bs : BState) (noOut : Bool) (a : A')
    (files : List (N × C)) (h : R) (stored hit : Option (Stored R))
    (hg : ∀ s, stored = some s → s.res = .pass) (hh : ∀ s, hit = some s → s.res = .pass)
    (hc : (testOne TestCache.generatedFacts outcome fl bs noOut a files h stored hit).2.2.cached = true) :
    ∃ s, s.res = .pass ∧ ((stored = some s ∧ s.stamp = h) ∨ hit = some s) := by
  obtain ⟨_, _, s, h1, h2⟩ := testOne_cached_pass TestCache.generatedFacts outcome fl bs noOut a files h stored hit hg hh hc
  rcases h2 with ⟨h3, h4⟩ | h3
  · exact ⟨s, h1, Or.inl ⟨h3, h4 facts_verify⟩⟩
  · exact ⟨s, h1, Or.inr h3⟩

/-- A run that does not pass leaves no results file and puts nothing into the cache … -/
theorem C11_fail_not_stored {R : Type} [DecidableEq R] (fl : Flags) (bs : BState) (noOut : Bool) (a : A')
    (files : List (N × C)) (h : R) (stored hit : Option (Stored R))
    (hg : ∀ s, stored = some s → s.res = .pass) (hh : ∀ s, hit = some s → s.res = .pass)
    (hne : (testOne TestCache.generatedFacts outcome fl bs noOut a files h stored hit).2.2.res ≠ .pass) :
    (testOne TestCache.generatedFacts outcome fl bs noOut a files h stored hit).1 = none ∧
    (testOne TestCache.generatedFacts outcome fl bs noOut a files h stored hit).2.1 = none :=
  testOne_not_pass_clears TestCache.generatedFacts outcome facts_store facts_removes fl bs noOut a files h stored hit hg hh hne

/-- … and with no results file (and no cache entry for the current hash) the command is executed again, whatever
    the flags and the target state. -/
theorem C11_no_result_runs {R : Type} [DecidableEq R] (fl : Flags) (bs : BState) (noOut : Bool) (a : A')
    (files : List (N × C)) (h : R) (hn : fl.numRuns ≥ 1) :
    (testOne TestCache.generatedFacts outcome fl bs noOut a files h none none).2.2.runs ≥ 1 ∧
    (testOne TestCache.generatedFacts outcome fl bs noOut a files h none none).2.2.cached = false :=
  testOne_none_runs TestCache.generatedFacts outcome fl bs noOut a files h hn

/-! ### Incremental = fresh -/

/-- Core statement with an admissibility predicate `P` on runtime inputs: along any history whose tested inputs
    satisfy `P`, if the runtime pre-image determines the inputs on `P`, every reported outcome equals that of a
    fresh run of the same tree. -/
theorem outcome_eq_fresh_on (P : A' → List (N × C) → Prop)
    (hR : Function.Injective ruleSer) (hP : Function.Injective pathSer)
    (hRT : InjOn (G := G) TestCache.generatedFacts ruleSerRT pathSer P)
    (history : List (TOp K A F N C S H A' G (RStamp S' G N H))) (r : TRepo K A F N C A' G) (sel tsel : K → Bool) (fl : Flags)
    (hadm : AdmHist TestCache.generatedFacts ruleSerRT pathSer outcome Build.generatedFacts (mvCoded Build.generatedFacts pathSer) rsCoded exec ruleSer P
      (history ++ [.test r sel tsel fl]) TState.empty)
    (hadmF : Adm P r tsel (buildPhase pathSer Build.generatedFacts (mvCoded Build.generatedFacts pathSer) rsCoded exec ruleSer r sel
      (fun _ => none) (fun _ => none)).1 r.repo.targets)
    (hwf : WFList sel [] r.repo.targets) (hdc : DataClosed r tsel (selKeys sel r.repo.targets)) :
    outcomes (plzTest exec ruleSer pathSer ruleSerRT outcome r sel tsel fl
        (hist exec ruleSer pathSer ruleSerRT outcome history TState.empty)).2.2 =
    outcomes (fresh exec ruleSer pathSer ruleSerRT outcome r sel tsel) := by
  -- split the admissibility of history ++ [test]
  have hsplit : ∀ (ops : List (TOp K A F N C S H A' G (RStamp S' G N H))) (st : TState K C S N H (RStamp S' G N H)),
      AdmHist TestCache.generatedFacts ruleSerRT pathSer outcome Build.generatedFacts (mvCoded Build.generatedFacts pathSer) rsCoded exec ruleSer P (ops ++ [.test r sel tsel fl]) st →
      AdmHist TestCache.generatedFacts ruleSerRT pathSer outcome Build.generatedFacts (mvCoded Build.generatedFacts pathSer) rsCoded exec ruleSer P ops st ∧
      Adm P r tsel (buildPhase pathSer Build.generatedFacts (mvCoded Build.generatedFacts pathSer) rsCoded exec ruleSer r sel
        (hist exec ruleSer pathSer ruleSerRT outcome ops st).out (hist exec ruleSer pathSer ruleSerRT outcome ops st).bcache).1 r.repo.targets := by
    intro ops
    induction ops with
    | nil => intro st h; exact ⟨trivial, h.1⟩
    | cons op ops ih =>
      intro st h
      cases op with
      | test r' sel' tsel' fl' => exact ⟨⟨h.1, (ih _ h.2).1⟩, (ih _ h.2).2⟩
      | build r' sel' => exact ih _ h
      | rmOut keep => exact ih _ h
      | rmRes keep => exact ih _ h
      | evictB keep => exact ih _ h
      | evictR keep => exact ih _ h
  obtain ⟨hadmH, hadmL⟩ := hsplit history TState.empty hadm
  have hinv := runHistT_inv TestCache.generatedFacts ruleSerRT pathSer outcome Build.generatedFacts (mvCoded Build.generatedFacts pathSer) rsCoded
    exec ruleSer (mvCoded_ok _ _) (fun _ _ => rfl) hP history TState.empty (inv_empty exec ruleSer pathSer) (invC_empty exec ruleSer pathSer)
  have hrinv := runHistT_rinv TestCache.generatedFacts ruleSerRT pathSer outcome Build.generatedFacts (mvCoded Build.generatedFacts pathSer) rsCoded exec ruleSer
    P facts_store facts_link history TState.empty (rinv_empty _ _ _ _ _) (rcinv_empty _ _ _ _ _) hadmH
  -- both reports are the expected outcomes over the respective plz-out
  have hL := (testList_spec TestCache.generatedFacts ruleSerRT pathSer outcome P facts_store facts_link r tsel fl
    (hist exec ruleSer pathSer ruleSerRT outcome history TState.empty).out
    (buildPhase pathSer Build.generatedFacts (mvCoded Build.generatedFacts pathSer) rsCoded exec ruleSer r sel
      (hist exec ruleSer pathSer ruleSerRT outcome history TState.empty).out
      (hist exec ruleSer pathSer ruleSerRT outcome history TState.empty).bcache).1
    (buildPhase pathSer Build.generatedFacts (mvCoded Build.generatedFacts pathSer) rsCoded exec ruleSer r sel
      (hist exec ruleSer pathSer ruleSerRT outcome history TState.empty).out
      (hist exec ruleSer pathSer ruleSerRT outcome history TState.empty).bcache).2.2
    (hist exec ruleSer pathSer ruleSerRT outcome history TState.empty).xh r.repo.targets _ _ hrinv.1 hrinv.2 hadmL).2.2 facts_verify hRT
  have hF := (testList_spec TestCache.generatedFacts ruleSerRT pathSer outcome P facts_store facts_link r tsel ({} : Flags)
    (fun _ => none)
    (buildPhase pathSer Build.generatedFacts (mvCoded Build.generatedFacts pathSer) rsCoded exec ruleSer r sel (fun _ => none) (fun _ => none)).1
    (buildPhase pathSer Build.generatedFacts (mvCoded Build.generatedFacts pathSer) rsCoded exec ruleSer r sel (fun _ => none) (fun _ => none)).2.2
    (fun _ => none) r.repo.targets (fun _ => none) (fun _ => none) (rinv_empty _ _ _ _ _) (rcinv_empty _ _ _ _ _) hadmF).2.2 facts_verify hRT
  -- the two plz-outs agree on the closure (C01 / C02: both equal the clean build)
  have hA := buildPhase_clean pathSer Build.generatedFacts (mvCoded Build.generatedFacts pathSer) rsCoded exec ruleSer (mvCoded_ok _ _) (fun _ _ => rfl) facts_cmp hR hP r sel
    _ _ hinv.1 hinv.2 hwf
  have hB := buildPhase_clean pathSer Build.generatedFacts (mvCoded Build.generatedFacts pathSer) rsCoded exec ruleSer (mvCoded_ok _ _) (fun _ _ => rfl) facts_cmp hR hP r sel
    (fun _ => none) (fun _ => none) (inv_empty exec ruleSer pathSer) (invC_empty exec ruleSer pathSer) hwf
  have hag : AgreeOn (selKeys sel r.repo.targets)
      (buildPhase pathSer Build.generatedFacts (mvCoded Build.generatedFacts pathSer) rsCoded exec ruleSer r sel
        (hist exec ruleSer pathSer ruleSerRT outcome history TState.empty).out
        (hist exec ruleSer pathSer ruleSerRT outcome history TState.empty).bcache).1
      (buildPhase pathSer Build.generatedFacts (mvCoded Build.generatedFacts pathSer) rsCoded exec ruleSer r sel (fun _ => none) (fun _ => none)).1 := by
    intro k hk
    obtain ⟨c1, s1, h1, l1⟩ := hA k hk
    obtain ⟨c2, s2, h2, l2⟩ := hB k hk
    have : c1 = c2 := by rw [l1] at l2; exact Option.some.inj l2
    rw [h1, h2, this]; rfl
  have hE := expected_congr outcome r tsel _ _ (selKeys sel r.repo.targets) hag r.repo.targets hdc
  show outcomes (testList _ _ _ _ _ _ _ _ _ _ _ _ _ _).2.2 = outcomes (testList _ _ _ _ _ _ _ _ _ _ _ _ _ _).2.2
  exact hL.trans (hE.trans hF.symm)

theorem facts_names : TestCache.generatedFacts.hashesNames = true := by decide

/-- THE PROPERTY: after ANY history (plz test / plz build of arbitrary intermediate trees with any flags, removal of
    outputs and results files, cache evictions; artifact cache configured or not) the outcome reported for every
    requested test by `plz test` equals the outcome of a fresh run of the same tree in an empty directory —
    for every deterministic test semantics, given that the rule pre-images (build-time and runtime) and the path
    pre-image are injective (the statements of C08 and C09; the build phase needs them as in C01 / C02).
    The runtime pre-image itself needs no further hypothesis: names are hashed (`facts_names`), and the hash of every
    runtime file is a function of its CURRENT contents (`facts_link`: no stored hash is trusted on an inode that a
    filegroup output shares with an editable source file — `C11_witness_stale_hash_on_shared_inode` is what happens
    otherwise). -/
theorem C11_outcome_eq_fresh (hR : Function.Injective ruleSer) (hP : Function.Injective pathSer)
    (hRTr : Function.Injective ruleSerRT)
    (history : List (TOp K A F N C S H A' G (RStamp S' G N H))) (r : TRepo K A F N C A' G) (sel tsel : K → Bool) (fl : Flags)
    (hwf : WFList sel [] r.repo.targets) (hdc : DataClosed r tsel (selKeys sel r.repo.targets)) :
    outcomes (plzTest exec ruleSer pathSer ruleSerRT outcome r sel tsel fl
        (hist exec ruleSer pathSer ruleSerRT outcome history TState.empty)).2.2 =
    outcomes (fresh exec ruleSer pathSer ruleSerRT outcome r sel tsel) :=
  outcome_eq_fresh_on exec ruleSer pathSer ruleSerRT outcome (fun (_ : A') (_ : List (N × C)) => True) hR hP
    (injOn_of_hashesNames TestCache.generatedFacts ruleSerRT pathSer facts_rule facts_files facts_names hRTr hP)
    history r sel tsel fl
    (admHist_true _ _ _ _ _ _ _ _ _ _ _) (fun _ _ _ _ _ _ _ => trivial) hwf hdc

/-- The fix: with the entry names written into the digest (`hashesNames`), the hypothesis of
    `C11_outcome_eq_fresh` follows from C08's and C09's statements alone. -/
theorem C11_fixed_by_names (fx : TestCache.Facts) (hr : fx.hashesRule = true) (hf : fx.hashesFiles = true)
    (hn : fx.hashesNames = true) (hRTr : Function.Injective ruleSerRT) (hP : Function.Injective pathSer) :
    InjOn (G := G) fx ruleSerRT pathSer (fun (_ : A') (_ : List (N × C)) => True) :=
  injOn_of_hashesNames fx ruleSerRT pathSer hr hf hn hRTr hP

/-! ### Witnesses -/

/-- The facts as they were before the repair: entry names not hashed. -/
def oldFacts : TestCache.Facts := { TestCache.generatedFacts with hashesNames := false }

/-- With the OLD fact value the runtime pre-image did not determine the runtime inputs, even with injective (here:
    identity) rule and path pre-images: the same file under two names. -/
theorem C11_old_witness_not_injective :
    ¬ InjOn (G := Nat) (A' := Nat) (N := Nat) (C := Nat) oldFacts id id (fun (_ : Nat) (_ : List (Nat × Nat)) => True) := by
  intro h
  have := h 0 0 0 [(1, 7)] 0 [(2, 7)] trivial trivial (by decide)
  exact absurd this.2 (by decide)

namespace Witness
/-! Target 0: a generated file (content 7) whose output NAME is a parameter of the tree (1, then 2).
    Target 1: a test with `data = [:0]` that passes iff a file named 1 is in its runtime directory. -/
def dep (a : Nat) : Target Nat Nat Nat := ⟨0, a, [], []⟩
def tst : Target Nat Nat Nat := ⟨1, 9, [], []⟩
def execW (_ : Nat) (_ : List (Nat × Nat)) : Nat := 7
def outcomeW (_ : Nat) (files : List (Nat × Nat)) : Outcome := if files.any (·.1 == 1) then .pass else .error
def tree (outName : Nat) : TRepo Nat Nat Nat Nat Nat Nat Nat :=
  { repo := { files := fun _ => 0, fname := id, outName := fun k => if k = 0 then outName else 100,
              targets := [dep outName, tst] },
    tests := fun k => if k = 1 then some ⟨5, false, true, [.inr 0]⟩ else none,
    ownName := id, cfg := 0, cacheOn := false, linkOf := fun _ => none }
def all : Nat → Bool := fun _ => true
abbrev T := TState Nat Nat Nat Nat Nat (RStamp Nat Nat Nat Nat)
def runWith (fx : TestCache.Facts) (r : TRepo Nat Nat Nat Nat Nat Nat Nat) (st : T) :=
  testAll fx id id outcomeW Build.generatedFacts (mvCoded Build.generatedFacts id) rsCoded execW id r all (fun k => k == 1) {} st
def run := runWith TestCache.generatedFacts
def st1 : T := (run (tree 1) TState.empty).1
def st1old : T := (runWith oldFacts (tree 1) TState.empty).1
end Witness

open Witness in
/-- OLD fact value (names not hashed): the dependency's output is renamed 1 → 2 with the same bytes. The first
    `plz test` passes and stores the result; after the rename the incremental `plz test` reported a CACHED PASS
    without running anything, while a fresh run of the same tree ERRORS. -/
theorem C11_old_witness_stale_pass :
    (runWith oldFacts (tree 1) TState.empty).2.2 = [(1, some ⟨.pass, false, 1⟩)] ∧
    (runWith oldFacts (tree 2) st1old).2.2 = [(1, some ⟨.pass, true, 0⟩)] ∧
    freshRun oldFacts id id outcomeW Build.generatedFacts (mvCoded Build.generatedFacts id) rsCoded execW id (tree 2) all (fun k => k == 1)
      = [(1, some ⟨.error, false, 1⟩)] := by
  decide

open Witness in
/-- The same history on the code as it is: the rename changes the runtime hash, the test is executed and errors,
    as in a fresh run. -/
theorem C11_renamed_output_detected :
    (run (tree 1) TState.empty).2.2 = [(1, some ⟨.pass, false, 1⟩)] ∧
    (run (tree 2) st1).2.2 = [(1, some ⟨.error, false, 1⟩)] ∧
    freshRun TestCache.generatedFacts id id outcomeW Build.generatedFacts (mvCoded Build.generatedFacts id) rsCoded execW id (tree 2) all (fun k => k == 1)
      = [(1, some ⟨.error, false, 1⟩)] := by
  decide

namespace Witness2
/-! The inherited collisions (C09: a directory's pre-image has no entry names; C08: unframed strings). A test
    with one data directory passes iff the directory has an entry named 1; contents are lists of (name, bytes). -/
abbrev Dir := List (Nat × Nat)
def pserBad (d : Dir) : List Nat := d.map (·.2)                    -- fs/hash.go: contents only
def outcomeD (_ : List Nat) (files : List (Nat × Dir)) : Outcome :=
  if files.any (fun p => p.2.any (·.1 == 1)) then .pass else .error
def tstD : Target Nat Nat Nat := ⟨1, 9, [], []⟩
def treeD (d : Dir) : TRepo Nat Nat Nat Nat Dir (List Nat) Nat :=
  { repo := { files := fun _ => d, fname := id, outName := id, targets := [tstD] },
    tests := fun k => if k = 1 then some ⟨[5], false, true, [.inl 3]⟩ else none, ownName := id, cfg := 0, cacheOn := false, linkOf := fun _ => none }
def all : Nat → Bool := fun _ => true
abbrev T := TState Nat Dir Nat Nat (List Nat) (RStamp (List Nat) Nat Nat (List Nat))
def execD (_ : Nat) (_ : List (Nat × Dir)) : Dir := []
def run (r : TRepo Nat Nat Nat Nat Dir (List Nat) Nat) (st : T) :=
  testAll TestCache.generatedFacts id pserBad outcomeD Build.generatedFacts (mvCoded Build.generatedFacts pserBad) rsCoded execD id r all (fun k => k == 1) {} st
/-- data entries `[ab, c]` vs `[a, bc]` written unframed: names as digit lists, pre-image = their concatenation -/
def ruleBad (names : List (List Nat)) : List Nat := names.flatten
end Witness2

open Witness2 in
/-- A file inside a data DIRECTORY renamed 1 → 2 (same bytes): cached pass, fresh error (C09's root cause). -/
theorem C11_witness_dir_entry_renamed :
    (run (treeD [(2, 7)]) (run (treeD [(1, 7)]) TState.empty).1).2.2 = [(1, some ⟨.pass, true, 0⟩)] ∧
    freshRun TestCache.generatedFacts id pserBad outcomeD Build.generatedFacts (mvCoded Build.generatedFacts pserBad) rsCoded execD id (treeD [(2, 7)]) all (fun k => k == 1)
      = [(1, some ⟨.error, false, 1⟩)] := by
  decide

open Witness2 in
/-- Unframed data names collide in the runtime rule pre-image (C08's root cause): `[ab, c]` and `[a, bc]`. -/
theorem C11_witness_unframed_data_names : ruleBad [[1, 2], [3]] = ruleBad [[1], [2, 3]] ∧ [[1, 2], [3]] ≠ [[1], [2, 3]] := by
  decide

theorem facts_no_output : TestCache.hashesNoOutput = true := by decide

/-- `no_test_output` is part of the runtime rule pre-image (repair of `runtime-hash-omits-no-test-output`): in the
    concrete end-to-end instance equal pre-images have equal `no_test_output`. -/
theorem C11_no_test_output_hashed (a b : PlzVerif.TestE2E.TAttrs)
    (h : PlzVerif.TestE2E.ruleSerRT a = PlzVerif.TestE2E.ruleSerRT b) : a.noOutput = b.noOutput := by
  unfold PlzVerif.TestE2E.ruleSerRT at h
  rw [facts_no_output] at h
  have := congrArg (fun s => s.toList.head?) h
  cases ha : a.noOutput <;> cases hb : b.noOutput <;>
    simp [PlzVerif.TestE2E.ruleSerRTWith, ha, hb, String.toList_append] at this ⊢

/-- As long as `no_test_output` is written into no hash (`ruleSerRTWith false`; the concrete instance follows the
    regenerated fact `hashesNoOutput`): in the concrete end-to-end instance two test definitions that differ
    only in that attribute have the same runtime rule pre-image and different outcomes on the same (empty) runtime
    directory — `ruleSerRT` is not injective, so `hRTr` of `C11_outcome_eq_fresh` fails for it. -/
theorem C11_witness_no_test_output_not_hashed :
    ∃ a b : PlzVerif.TestE2E.TAttrs, PlzVerif.TestE2E.ruleSerRTWith false a = PlzVerif.TestE2E.ruleSerRTWith false b ∧
      PlzVerif.TestE2E.outcomeT a [] = .pass ∧ PlzVerif.TestE2E.outcomeT b [] = .error :=
  ⟨{ b := { label := "//p:t", cmd := .cat, srcs := [], out := "" }, kind := .puretest, data := [], tcmd := .tt,
     noOutput := true, writes := false },
   { b := { label := "//p:t", cmd := .cat, srcs := [], out := "" }, kind := .puretest, data := [], tcmd := .tt,
     noOutput := false, writes := false }, rfl, rfl, rfl⟩

namespace WitnessC
/-! With the artifact cache: a test whose data file holds `c`; it passes iff the file holds 7. -/
def tstC : Target Nat Nat Nat := ⟨1, 9, [], []⟩
def outcomeC (_ : Nat) (files : List (Nat × Nat)) : Outcome := if files.any (·.2 == 7) then .pass else .error
def treeC (c : Nat) : TRepo Nat Nat Nat Nat Nat Nat Nat :=
  { repo := { files := fun _ => c, fname := id, outName := id, targets := [tstC] },
    tests := fun k => if k = 1 then some ⟨5, false, true, [.inl 3]⟩ else none, ownName := id, cfg := 0, cacheOn := true, linkOf := fun _ => none }
abbrev T := TState Nat Nat Nat Nat Nat (RStamp Nat Nat Nat Nat)
def run (r : TRepo Nat Nat Nat Nat Nat Nat Nat) (st : T) :=
  testAll TestCache.generatedFacts id id outcomeC Build.generatedFacts (mvCoded Build.generatedFacts id) rsCoded (fun _ _ => 0) id r
    (fun _ => true) (fun k => k == 1) {} st
def s1 : T := (run (treeC 7) TState.empty).1
def s2 : T := (run (treeC 8) s1).1
end WitnessC

open WitnessC in
/-- The cache path is live and sound here: pass on A, error on B (results file removed, nothing cached), back to A:
    the result is RESTORED from the artifact cache — a cached pass after a failing run, legitimately. -/
theorem C11_cache_restores_earlier_pass :
    (run (treeC 7) TState.empty).2.2 = [(1, some ⟨.pass, false, 1⟩)] ∧
    (run (treeC 8) s1).2.2 = [(1, some ⟨.error, false, 1⟩)] ∧ s2.res 1 = none ∧
    (run (treeC 7) s2).2.2 = [(1, some ⟨.pass, true, 0⟩)] := by
  decide

namespace WitnessL
/-! A test whose data file (contents `c`) reaches it through a filegroup: the runtime file named 3 is a HARD LINK of
    the source inode `ino`.  Editing the source in place keeps `ino`; replacing it (rename) gives a new one.
    The test passes iff the file holds 7. -/
def tstL : Target Nat Nat Nat := ⟨1, 9, [], []⟩
def outcomeL (_ : Nat) (files : List (Nat × Nat)) : Outcome := if files.any (·.2 == 7) then .pass else .error
def treeL (c ino : Nat) : TRepo Nat Nat Nat Nat Nat Nat Nat :=
  { repo := { files := fun _ => c, fname := id, outName := id, targets := [tstL] },
    tests := fun k => if k = 1 then some ⟨5, false, true, [.inl 3]⟩ else none, ownName := id, cfg := 0, cacheOn := false,
    linkOf := fun n => if n = 3 then some ino else none }
/-- The facts with the defect in: stored hashes are read from / written to the shared inode. -/
def badFacts : TestCache.Facts := { TestCache.generatedFacts with linkXattr := true }
abbrev T := TState Nat Nat Nat Nat Nat (RStamp Nat Nat Nat Nat)
def runWith (fx : TestCache.Facts) (r : TRepo Nat Nat Nat Nat Nat Nat Nat) (st : T) :=
  testAll fx id id outcomeL Build.generatedFacts (mvCoded Build.generatedFacts id) rsCoded (fun _ _ => 0) id r
    (fun _ => true) (fun k => k == 1) {} st
def sBad : T := (runWith badFacts (treeL 7 0) TState.empty).1
def sGood : T := (runWith TestCache.generatedFacts (treeL 7 0) TState.empty).1
end WitnessL

open WitnessL in
/-- If the path hasher trusted the hash stored on an inode that a filegroup output SHARES with a source file
    (`linkXattr`, e.g. CopyHash no longer marking destinations under plz-out/): the first `plz test` passes and plants
    the stored hash; the source is then overwritten IN PLACE (same inode, contents 7 → 8): the stale stored hash is what
    RuntimeHash sees, the results file still matches, and the old PASS is reported as cached — a fresh run errors.
    Replacing the file instead (new inode) is detected even then; and on the code as it is (`generatedFacts`) the
    in-place edit is detected too. -/
theorem C11_witness_stale_hash_on_shared_inode :
    (runWith badFacts (treeL 7 0) TState.empty).2.2 = [(1, some ⟨.pass, false, 1⟩)] ∧ sBad.xh 0 = some 7 ∧
    (runWith badFacts (treeL 8 0) sBad).2.2 = [(1, some ⟨.pass, true, 0⟩)] ∧
    freshRun badFacts id id outcomeL Build.generatedFacts (mvCoded Build.generatedFacts id) rsCoded (fun _ _ => 0) id (treeL 8 0)
      (fun _ => true) (fun k => k == 1) = [(1, some ⟨.error, false, 1⟩)] ∧
    (runWith badFacts (treeL 8 1) sBad).2.2 = [(1, some ⟨.error, false, 1⟩)] ∧
    (runWith TestCache.generatedFacts (treeL 8 0) sGood).2.2 = [(1, some ⟨.error, false, 1⟩)] := by
  decide

/-! ### Non-vacuity -/

-- the hypotheses of `C11_outcome_eq_fresh` are satisfiable (identity pre-images), and with THIS RUN's facts record the
-- runtime pre-image then determines the runtime inputs (before fix 168aeab this was refuted: `C11_old_witness_not_injective`)
example : InjOn (G := Nat) (A' := Nat) (N := Nat) (C := Nat) TestCache.generatedFacts id id (fun (_ : Nat) (_ : List (Nat × Nat)) => True) :=
  injOn_of_hashesNames _ id id facts_rule facts_files facts_names (fun _ _ h => h) (fun _ _ h => h)

-- a well-formed, data-closed tree with a test that has a data dependency
open Witness in
example : WFList all [] (tree 1).repo.targets ∧ DataClosed (tree 1) (fun k => k == 1) (selKeys all (tree 1).repo.targets) := by
  refine ⟨by simp [WFList, tree, dep, tst, all], ?_⟩
  intro t ht hs td htd
  simp only [tree, List.mem_cons, List.not_mem_nil, or_false] at ht
  rcases ht with rfl | rfl
  · simp [dep] at hs
  · simp only [tree, tst, if_true, Option.some.injEq] at htd
    subst htd
    simp [selKeys, tree, dep, tst, all]

-- the admissible class of the partial theorem is inhabited by runs that really reuse a result
open Witness in
example : (run (tree 1) st1).2.2 = [(1, some ⟨.pass, true, 0⟩)] := by decide

end PlzVerif.Props.C11
