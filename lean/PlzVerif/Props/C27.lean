import PlzVerif.Lemmas.Coverage
import PlzVerif.Generated.C27
/-!
C27  Coverage aggregation does not depend on test completion order.

All theorems are about `merge := mergeWith (cmpOf Generated.C27.mergeCmp)`, i.e. the model instantiated
with the comparison operator read from /repo's `MergeCoverageLines` on this run.
-/
namespace PlzVerif.Props.C27
open PlzVerif.Coverage PlzVerif.Generated

/-- Side condition on the regenerated facts (decidable). -/
def FactsOK : Bool :=
  (C27.mergeCmp == ">" || C27.mergeCmp == ">=") &&
  C27.mergeNew == "param1" && C27.mergeOld == "local" &&
  C27.enumOrder == ["NotExecutable", "Unreachable", "Uncovered", "Covered"]

/-- Obligation a code change can break: the facts extracted from /repo satisfy the side condition. -/
theorem C27_facts_ok : FactsOK = true := by decide

theorem cmp_is_max : CmpIsMax (cmpOf C27.mergeCmp) := by
  have h := C27_facts_ok
  simp only [FactsOK, Bool.and_eq_true, Bool.or_eq_true, beq_iff_eq] at h
  rcases h.1.1.1 with h | h <;> rw [h]
  · exact cmpIsMax_gt
  · exact cmpIsMax_ge

/-- The model of `MergeCoverageLines` at the extracted operator. -/
def merge := mergeWith (cmpOf C27.mergeCmp)

theorem merge_eq_max (xs ys) : merge xs ys = mergeMax xs ys := mergeWith_eq_max cmp_is_max xs ys

/-- The index-based transcription of the Go loop (append past the end / overwrite when better) is the model. -/
theorem C27_loop_is_model (existing coverage : List Nat) :
    mergeLoop (cmpOf C27.mergeCmp) existing coverage = merge existing coverage :=
  mergeLoop_eq_mergeWith _ existing coverage

/-- Order of two runs does not matter. -/
theorem C27_comm (xs ys : List Nat) : merge xs ys = merge ys xs := by
  simp only [merge_eq_max, mergeMax_comm]

theorem C27_assoc (xs ys zs : List Nat) : merge (merge xs ys) zs = merge xs (merge ys zs) := by
  simp only [merge_eq_max, mergeMax_assoc]

/-- Merging the same run twice changes nothing. -/
theorem C27_idem (xs : List Nat) : merge xs xs = xs := by simp only [merge_eq_max, mergeMax_idem]

theorem C27_absorb (xs ys : List Nat) : merge (merge xs ys) ys = merge xs ys := by
  rw [C27_assoc, C27_idem]

/-- A line is reported with the best state any run observed for it. -/
theorem C27_best (xs ys : List Nat) (i : Nat) : (merge xs ys)[i]? = bestAt xs[i]? ys[i]? := by
  rw [merge_eq_max]; exact mergeMax_get xs ys i

/-- Any completion order (permutation) of any number of runs gives the same aggregate. -/
theorem C27_any_order {runs₁ runs₂ : List (List Nat)} (p : runs₁.Perm runs₂) (init : List Nat) :
    runs₁.foldl merge init = runs₂.foldl merge init := by
  have e : merge = mergeMax := by funext xs ys; exact merge_eq_max xs ys
  rw [e]; exact foldl_mergeMax_perm p init

/-- `TestCoverage.Aggregate` over whole coverage objects (file name ↦ vector): any completion order of any number
    of test runs gives the same per-file vectors, and aggregating a run twice changes nothing. -/
theorem C27_aggregate_any_order {runs₁ runs₂ : List FMap} (p : runs₁.Perm runs₂) (init : FMap) :
    runs₁.foldl aggF init = runs₂.foldl aggF init := foldl_aggF_perm p init

theorem C27_aggregate_idem (a : FMap) : aggF a a = a := aggF_idem a

/-- …and per file it is the model of `MergeCoverageLines` at the extracted operator. -/
theorem C27_aggregate_is_merge (acc cov : FMap) (k : String) (c : List Nat) (h : cov k = some c) :
    aggF acc cov k = some (merge ((acc k).getD []) c) := by
  simp [aggF, h, merge_eq_max]

/-- "Best" is with respect to the enum order Covered > Uncovered > Unreachable > NotExecutable. -/
theorem C27_enum_order : C27.enumOrder.idxOf "Covered" > C27.enumOrder.idxOf "Uncovered" ∧
    C27.enumOrder.idxOf "Uncovered" > C27.enumOrder.idxOf "Unreachable" ∧
    C27.enumOrder.idxOf "Unreachable" > C27.enumOrder.idxOf "NotExecutable" := by decide

-- non-vacuity: a concrete non-trivial merge
example : merge [0, 3, 2] [3, 1] = [3, 3, 2] := by decide

end PlzVerif.Props.C27

