import PlzVerif.Lemmas.AspOps
import PlzVerif.Lemmas.AspOpsPrefix
import PlzVerif.Lemmas.AspReadOnly
import PlzVerif.Lemmas.AspIntProgram
import PlzVerif.Lemmas.AspSort
import PlzVerif.Model.AspInterp
import PlzVerif.Model.PyInterp
import PlzVerif.Model.AspGenerated
/-!
C16  The BUILD language agrees with Python on its documented subset.

`runProgram F opt` is the asp model at the facts read from /repo on this run (`opt = false`: a package file;
`opt = true`: a file that goes through `parseSubinclude`), `Py.runProgram` the Python reference.

* full statement `AgreesWithPython`: whenever both evaluate a program, the rendered globals are equal;
* it does **not** hold for the pinned code: one witness per root cause (each is a known finding whose class
  predicate is implemented in harness/asplib/c16.go), and `C16_main_fails`;
* three root causes have been repaired in /repo (`%` with Go's sign, `//` through float64, `sorted`/`reversed`
  in place).  For each: the witness is now a theorem about the model at the *old* fact value (`C16_old_…`), the
  same program agrees at today's facts (`C16_fixed_…`), and the repaired code path has a theorem for all inputs
  (`C16_intop_agrees`, `C16_sorted_copies`, `C16_reversed_copies`);
* what holds of the operator layer, for all inputs: `interpretOps` evaluates exactly the tree `aspGroup` as long as
  evaluating operands does not change the truthiness of values (`C16_interpretOps_is_tree`; the side condition is
  needed: `C16_witness_lazy_recheck`); that tree is the Python tree whenever no operator "swallows" — in
  particular for at most two operators and for non-increasing precedences.
-/
namespace PlzVerif.Props.C16
open PlzVerif.Asp PlzVerif.Generated

abbrev raw : RawFacts := genRaw

/-- The asp model at the regenerated facts. -/
abbrev F : Facts := genF

def knownIntKinds : List String :=
  ["+", "-", "*", "/", "%", "floormod", "floor(float/float)", "floordiv", "<", ">", "<=", ">=", "==", "!="]

/-- Side condition on the regenerated facts (decidable):
    the precedence table orders the operators as the Python grammar does; `and`/`or` are the lazy operators;
    the token map is the expected one; every integer operator has a shape the model knows, the arithmetic ones
    being Go's `+ - *`, `%` and `//` the helpers `floorMod` / `floorDiv`; `sorted` and `reversed` work on a copy. -/
def FactsOK : Bool :=
  precOrderOK F.prec && raw.listAddClips &&
  raw.lazyOps == ["And", "Or"] &&
  raw.operators == expectedTokens &&
  raw.intOps.all (fun e => knownIntKinds.contains e.2) &&
  F.intKind .add == "+" && F.intKind .sub == "-" && F.intKind .mul == "*" &&
  F.intKind .fdiv == "floordiv" && F.intKind .mod == "floormod" &&
  F.intKind .lt == "<" && F.intKind .gt == ">" && F.intKind .le == "<=" && F.intKind .ge == ">=" &&
  !F.sortedInPlace && !F.reversedInPlace &&
  -- the shape of `interpretOps` that Model/AspOps.lean transcribes: one precedence comparison `ops[0] >= ops[1]`,
  -- a recursion on `ops[1:]` in each of the three branches, the evaluated rest handed back to `interpretOp`
  raw.opsCompare == "ops[0] >= ops[1]" && raw.opsRestCalls == 3 && raw.opsRecheck &&
  -- `sorted(reverse=True)` runs the same sort with the comparison flipped (tied elements keep their original order);
  -- the sort is a stable one (for every length)
  raw.sortedReverse == "flip-comparator" && raw.sortedSortFns == ["sort.SliceStable"] && F.sortedStable

/-- Obligation a code change can break. -/
theorem C16_facts_ok : FactsOK = true := by decide

/-! ### The full statement and why it fails today -/

/-- Both evaluators succeed on `p` and render different globals (asp model at the facts `F'`). -/
def disagreeF (F' : Facts) (opt : Bool) (fuel : Nat) (p : Program) : Bool :=
  match runProgram F' opt fuel p, Py.runProgram fuel p with
  | .ok g, .ok g' => !(g == g')
  | _, _ => false

/-- … at the facts of this run. -/
def disagree (opt : Bool) (fuel : Nat) (p : Program) : Bool := disagreeF F opt fuel p

/-- Both evaluators succeed on `p` (so that `disagree … = false` means "same globals", not "one of them failed"). -/
def bothRun (F' : Facts) (opt : Bool) (fuel : Nat) (p : Program) : Bool :=
  match runProgram F' opt fuel p, Py.runProgram fuel p with
  | .ok _, .ok _ => true
  | _, _ => false

/-- C16 at full strength: no program on which both evaluators succeed is rendered differently. -/
def AgreesWithPython (opt : Bool) : Prop := ∀ (fuel : Nat) (p : Program), disagree opt fuel p = false

/-- `a = 1 - 2 * 3 - 4`: asp -1, Python -9 (interpreter.go:633). -/
def wOps : Program :=
  [.assign "a" (.chain none (.int 1) [(.sub, none, .int 2), (.mul, none, .int 3), (.sub, none, .int 4)])]

/-- `a = -7 % 3`: was -1 in asp, Python 2 (objects.go, `case Modulo: return i % o`). -/
def wMod : Program := [.assign "a" (.chain none (.int (-7)) [(.mod, none, .int 3)])]

/-- `a = 9007199254740993 // 1`: was 9007199254740992 in asp (objects.go, `math.Floor(float64(i) / float64(o))`). -/
def wFdiv : Program := [.assign "a" (.chain none (.int 9007199254740993) [(.fdiv, none, .int 1)])]

/-- `l = [3, 1, 2]; s = sorted(l)`: asp used to reorder `l` (builtins.go, `l = l[:]`). -/
def wSorted : Program :=
  [.assign "l" (.list 1 [.int 3, .int 1, .int 2]), .assign "s" (.call "sorted" [(none, .name "l")])]

/-- `def f(): return [1, 2]`, `r1 = f(); r1[0] = 9; r2 = f()` in a subincluded file: `r2` is `[9, 2]`
    (interpreter.go:271, 1052). -/
def wConst : Program :=
  [.def_ "f" [] [.ret [.list 1 [.int 1, .int 2]]],
   .assign "r1" (.call "f" []), .idxAssign "r1" (.int 0) (.int 9), .assign "r2" (.call "f" [])]

/-- `a = [1, 2, 3]; b = a[0:2]; b[0] = 9`: `a[0]` is 9 (interpreter.go:856). -/
def wSlice : Program :=
  [.assign "a" (.list 1 [.int 1, .int 2, .int 3]),
   .assign "b" (.slice (.name "a") (some (.int 0)) (some (.int 2))), .idxAssign "b" (.int 0) (.int 9)]

/-- `c = [x for x in a if x < 3]; d = c + [5]; e = c + [6]`: `d` ends in 6 (objects.go:362). -/
def wAppend : Program :=
  [.assign "a" (.list 1 [.int 1, .int 2, .int 3, .int 4]),
   .assign "c" (.comp 2 (.name "x") ["x"] (.name "a") (some (.chain none (.name "x") [(.lt, none, .int 3)]))),
   .assign "d" (.chain none (.name "c") [(.add, none, .list 3 [.int 5])]),
   .assign "e" (.chain none (.name "c") [(.add, none, .list 4 [.int 6])])]

/-- `a = [1]; b = a; a += [2]`: `b` stays `[1]` (interpreter.go:917). -/
def wAug : Program :=
  [.assign "a" (.list 1 [.int 1]), .assign "b" (.name "a"), .augAssign "a" (.list 2 [.int 2])]

/-- `d = {}`, `def f(): d["k"] = 1; return True`, `x = d or f() and 7`: asp gives `x = d` (now `{"k": 1}`), Python
    7.  `interpretOps` asks `d.IsTruthy()` once before it evaluates the rest of the list and again, through
    `interpretOp`, afterwards (interpreter.go:633-686). -/
def wLazy : Program :=
  [.assign "d" (.dict []),
   .def_ "f" [] [.idxAssign "d" (.str "k") (.int 1), .ret [.tru]],
   .assign "x" (.chain none (.name "d") [(.or_, none, .call "f" []), (.and_, none, .int 7)])]

set_option maxRecDepth 100000 in
theorem C16_witness_ops_swallow : disagree false 50 wOps = true := by decide +kernel

set_option maxRecDepth 100000 in
theorem C16_witness_lazy_recheck : disagree false 50 wLazy = true := by decide +kernel

set_option maxRecDepth 100000 in
theorem C16_witness_constant_shared : disagree true 50 wConst = true := by decide +kernel

set_option maxRecDepth 100000 in
theorem C16_witness_slice_shares : disagree false 50 wSlice = true := by decide +kernel

set_option maxRecDepth 100000 in
theorem C16_witness_add_appends : disagree false 50 wAppend = true := by decide +kernel

set_option maxRecDepth 100000 in
theorem C16_witness_augassign_rebinds : disagree false 50 wAug = true := by decide +kernel

/-- The constant-list witness needs an optimised file: evaluated as a package file, this program agrees (both
    evaluators run it).  One sample, not a theorem about package files. -/
theorem C16_sample_constant_fresh_in_package_file :
    disagree false 50 wConst = false ∧ bothRun F false 50 wConst = true := by decide +kernel

/-- The property as stated does not hold of the pinned code (either kind of file). -/
theorem C16_main_fails : ¬ AgreesWithPython false ∧ ¬ AgreesWithPython true := by
  constructor
  · intro h; have := h 50 wOps; rw [C16_witness_ops_swallow] at this; cases this
  · intro h; have := h 50 wConst; rw [C16_witness_constant_shared] at this; cases this

/-! ### Repaired root causes: the old witnesses at the old fact values, and the same programs today -/

/-- The facts before `fix: % …`: Go's remainder. -/
def oldMod : Facts := { F with intKind := fun b => if b == .mod then "%" else F.intKind b }
/-- The facts before `fix: // …`: the float64 detour. -/
def oldFdiv : Facts := { F with intKind := fun b => if b == .fdiv then "floor(float/float)" else F.intKind b }
/-- The facts before `fix: sorted/reversed …`: `l = l[:]`. -/
def oldSort : Facts := { F with sortedInPlace := true, reversedInPlace := true }

/-- `a = 1 // 0`: the float64 detour produced -2^63 where Python (and the repaired code) raise. -/
def wFdivZero : Program := [.assign "a" (.chain none (.int 1) [(.fdiv, none, .int 0)])]

set_option maxRecDepth 100000 in
theorem C16_old_mod_sign : disagreeF oldMod false 50 wMod = true := by decide +kernel
set_option maxRecDepth 100000 in
theorem C16_old_floordiv_float : disagreeF oldFdiv false 50 wFdiv = true := by decide +kernel
set_option maxRecDepth 100000 in
theorem C16_old_sorted_in_place : disagreeF oldSort false 50 wSorted = true := by decide +kernel

/-- With the float64 detour a zero divisor evaluated (to -2^63); now it is an error, as in Python. -/
theorem C16_floordiv_zero :
    (runProgram oldFdiv false 50 wFdivZero).toOption.isSome = true ∧
    (runProgram F false 50 wFdivZero).toOption.isSome = false ∧
    (Py.runProgram 50 wFdivZero).toOption.isSome = false := by decide +kernel

set_option maxRecDepth 100000 in
/-- The three programs agree at today's facts (and both evaluators run them). -/
theorem C16_fixed_samples :
    (disagree false 50 wMod = false ∧ bothRun F false 50 wMod = true) ∧
    (disagree false 50 wFdiv = false ∧ bothRun F false 50 wFdiv = true) ∧
    (disagree false 50 wSorted = false ∧ bothRun F false 50 wSorted = true) := by decide +kernel

/-- **`sorted` copies** (all heaps, all lists): a successful `sorted(l)` changes the heap by one new array, the
    result, without spare capacity; every list that existed before the call — `l` included — is untouched. -/
theorem C16_sorted_copies (a o l c : Nat) (st st' : St) (v : Val)
    (hr : (callBuiltin F "sorted" [(none, .list false a o l c)]).run st = .ok (v, st')) :
    ∃ ys, st' = { st with arrays := st.arrays ++ [ys] } ∧ v = .list false st.arrays.length 0 ys.length ys.length :=
  sorted_copies F (by decide) false (Or.inl rfl) a o l c st st' v hr

/-- **`reversed` copies**: the new array holds the visible elements of the argument in reverse order. -/
theorem C16_reversed_copies (a o l c : Nat) (st st' : St) (v : Val)
    (hr : (callBuiltin F "reversed" [(none, .list false a o l c)]).run st = .ok (v, st')) :
    ∃ xs, st.arrays[a]? = some xs ∧
      st' = { st with arrays := st.arrays ++ [((xs.drop o).take l).reverse] } ∧
      v = .list false st.arrays.length 0 ((xs.drop o).take l).reverse.length ((xs.drop o).take l).reverse.length :=
  reversed_copies F (by decide) false (Or.inl rfl) a o l c st st' v hr

-- the hypothesis of both is met: `sorted([3, 1, 2])` succeeds in a heap holding that list
example : ((callBuiltin F "sorted" [(none, .list false 1 0 3 3)]).run
    { arrays := [[], [.int 3, .int 1, .int 2]] }).toOption.map (·.1) = some (.list false 2 0 3 3) := by decide +kernel

/-! ### What holds: the operator layer -/

theorem mem_allOps (o : Op) : o ∈ allOps := by
  cases o with
  | bin b => cases b <;> decide
  | un u => cases u <;> decide

/-- From the decidable table check to the order isomorphism with the Python grammar. -/
theorem prec_order : ∀ a b : Op, F.prec a ≥ F.prec b ↔ pyPrec a ≥ pyPrec b := by
  have h : precOrderOK F.prec = true := by decide
  intro a b
  have := List.all_eq_true.1 (List.all_eq_true.1 h a (mem_allOps a)) b (mem_allOps b)
  have e : decide (F.prec a ≥ F.prec b) = decide (pyPrec a ≥ pyPrec b) := by simpa using this
  constructor
  · intro hab; have : decide (F.prec a ≥ F.prec b) = true := decide_eq_true hab
    rw [e] at this; exact of_decide_eq_true this
  · intro hab; have : decide (pyPrec a ≥ pyPrec b) = true := decide_eq_true hab
    rw [← e] at this; exact of_decide_eq_true this

/-- **`interpretOps` is tree evaluation of asp's grouping**, for every operator semantics `S` (any state type, any
    operand evaluator, side effects included) in which evaluating operands and strict operators does not change
    the truthiness of values (`Stable S`).  The side condition cannot be dropped: `C16_witness_lazy_recheck`. -/
theorem C16_interpretOps_is_tree {σ ε V X : Type} (S : OpsSem σ ε V X) (hS : Stable S)
    (obj : V) (o : OpE X) (rest : List (OpE X)) :
    interpretOps S obj o rest = evalTree S (aspGroup S.prec (.val obj) o rest) :=
  interpretOps_eq_evalTree_stable S hS obj o rest

/-- The truthiness the model uses looks at nothing but the dict heap. -/
theorem truthySt_dicts (st st' : St) (h : st'.dicts = st.dicts) (v : Val) : truthySt st' v = truthySt st v := by
  cases v <;> simp [truthySt, h]

/-- `Stable` for semantics over the model's heap with the model's truthiness (`truthySt`, a dict's answer is read
    from the heap): enough that operands and strict operators leave the dict heap alone.  (They may allocate and
    write lists, define functions, bind variables.) -/
theorem stable_of_dicts_kept {X : Type} (S : OpsSem St String Val X) (ht : S.truthy = truthySt)
    (hev : ∀ x s v s', (S.ev x).run s = .ok (v, s') → s'.dicts = s.dicts)
    (hun : ∀ u a s v s', (S.un u a).run s = .ok (v, s') → s'.dicts = s.dicts)
    (hbin : ∀ b a w s v s', (S.bin b a w).run s = .ok (v, s') → s'.dicts = s.dicts) : Stable S :=
  ⟨fun x s a s' h v => by rw [ht]; exact truthySt_dicts s s' (hev x s a s' h) v,
   fun u a s r s' h v => by rw [ht]; exact truthySt_dicts s s' (hun u a s r s' h) v,
   fun b a w s r s' h v => by rw [ht]; exact truthySt_dicts s s' (hbin b a w s r s' h) v⟩

/-- An instance with the model's state-dependent truthiness: operands are values, the strict operators are the
    model's comparisons (which read lists from the heap and change nothing). -/
def cmpSem : OpsSem St String Val Val :=
  { prec := F.prec, truthy := truthySt, ev := fun x => pure x, un := fun _ _ => fail "no unary operators",
    bin := fun b a w => if b = .lt ∨ b = .gt then cmpOp F 64 b a w else fail "comparisons only" }

theorem cmpSem_stable : Stable cmpSem := by
  refine stable_of_dicts_kept cmpSem rfl ?_ ?_ ?_
  · intro x s v s' h; have := RO_pure x s v s' h; rw [this]
  · intro u a s v s' h; exact absurd h (fail_run _ s _)
  · intro b a w s v s' h
    simp only [cmpSem] at h
    by_cases hb : b = .lt ∨ b = .gt
    · simp only [hb, if_true] at h
      have := (RO_cmp F 64).1 b a w hb s v s' h; rw [this]
    · simp only [hb, if_false] at h; exact absurd h (fail_run _ s _)

-- its truthiness does depend on the state: the same dict value is falsy in one heap and truthy in another
example : cmpSem.truthy { dicts := [[]] } (.dict false 0) = false ∧
    cmpSem.truthy { dicts := [[("k", .int 1)]] } (.dict false 0) = true := by decide

/-- **Partial form of C16 for operator chains**: on a chain of binary operators in which no operator swallows
    (class predicate of the finding `ops-right-operand-swallows-rest` is false) the tree asp evaluates is the
    tree of the Python grammar. -/
theorem C16_ops_partial {V X : Type} (t : Tree V X) (l : List (BinOp × X))
    (h : swallows F.prec (binFlat l) = false) :
    aspGroupL F.prec t (binFlat l) = (climb (l.length + 1) (-100) t (binChain l)).1 := by
  have hs : swallows pyPrec (binFlat l) = false := by rw [← swallows_congr F.prec pyPrec prec_order]; exact h
  have hmin : ∀ o ∈ l, (-100 : Int) ≤ pyPrecBin o.1 := by
    intro o _; cases o.1 <;> decide
  rw [climb_eq_aspGroup l (l.length + 1) (-100) t (Nat.lt_succ_self _) hmin hs]
  cases hl : binFlat l with
  | nil => rfl
  | cons o rest => simp only [aspGroupL]; exact aspGroup_congr F.prec pyPrec prec_order rest t o

-- the hypothesis is satisfiable by a chain of mixed (increasing) precedence: 1 < 2 + 3 * 4
example : swallows (X := Nat) F.prec (binFlat [(.lt, 2), (.add, 3), (.mul, 4)]) = false := by decide
-- … and excludes the witness: 1 - 2 * 3 - 4
example : swallows (X := Nat) F.prec (binFlat [(.sub, 2), (.mul, 3), (.sub, 4)]) = true := by decide +kernel

/-! The class predicate is exact, not an over-approximation, on all chains of up to four operators over one
    operator per precedence level: asp's tree differs from the Python tree **iff** `swallows`. -/

/-- one binary operator per precedence level -/
def repOps : List BinOp := [.or_, .and_, .lt, .union, .add, .mul]

def chainsOf : Nat → List (List (BinOp × Nat))
  | 0 => [[]]
  | n + 1 => (chainsOf n).flatMap fun l => repOps.map fun b => (b, n) :: l

def exactOn (l : List (BinOp × Nat)) : Bool :=
  let asp : Tree Nat Nat := aspGroupL F.prec (.val 0) (binFlat l)
  let py : Tree Nat Nat := (climb (l.length + 1) (-100) (.val 0) (binChain l)).1
  swallows F.prec (binFlat l) == !(decide (asp = py))

theorem C16_swallows_exact_upto4 :
    ((chainsOf 1 ++ chainsOf 2 ++ chainsOf 3 ++ chainsOf 4).all exactOn) = true := by decide +kernel

/-- **Partial form of C16 for chains as written** (prefix `-` and `not` included): the head operand with its
    prefix and every `op [prefix] operand` hoisted into the flat list exactly as the parser does it; `not` standing
    where the Python grammar allows one (at the head or after `and` / `or`).  If no operator swallows, the tree asp
    evaluates is the tree of the Python grammar — for chains of any length. -/
theorem C16_ops_partial_with_prefix {V X : Type} (hu : Option UnOp) (head : X) (rest : Chain X)
    (hv : Asp.validNot rest = true) (h : swallows F.prec (flatten hu rest) = false) :
    aspGroupL F.prec (Tree.operand (V := V) head) (flatten hu rest) = pyGroup hu head rest := by
  have hs : swallows pyPrec (flatten hu rest) = false := by
    rw [← swallows_congr F.prec pyPrec prec_order]; exact h
  rw [← pyGroup_eq_aspGroup hu head rest hv hs]
  cases hl : flatten hu rest with
  | nil => rfl
  | cons o os => simp only [aspGroupL]; exact aspGroup_congr F.prec pyPrec prec_order os _ o

-- satisfiable: `-a * b + c and not d`  (hoisted: neg, *, +, and, not)
example : Asp.validNot (X := Nat) [(.mul, none, 1), (.add, none, 2), (.and_, some .not_, 3)] = true ∧
    swallows F.prec (flatten (X := Nat) (some .neg) [(.mul, none, 1), (.add, none, 2), (.and_, some .not_, 3)]) = false := by
  decide

/-! With prefix operators the class predicate is also exact on all chains of up to three binary operators. -/

def prefixes : List (Option UnOp) := [none, some .neg, some .not_]

def chainsU : Nat → List (Chain Nat)
  | 0 => [[]]
  | n + 1 => (chainsU n).flatMap fun l => repOps.flatMap fun b => prefixes.map fun u => (b, u, n) :: l

def exactOnU (hu : Option UnOp) (rest : Chain Nat) : Bool :=
  let asp : Tree Nat Nat := aspGroupL F.prec (.operand 100) (flatten hu rest)
  swallows F.prec (flatten hu rest) == !(decide (asp = pyGroup hu 100 rest))

theorem C16_swallows_exact_with_prefix_upto3 :
    (prefixes.all fun hu => ((chainsU 1 ++ chainsU 2 ++ chainsU 3).filter Asp.validNot).all (exactOnU hu)) = true := by
  decide +kernel

/-- At most two binary operators: always the Python tree. -/
theorem C16_ops_two {V X : Type} (t : Tree V X) (a b : BinOp × X) :
    aspGroupL F.prec t (binFlat [a, b]) = (climb 3 (-100) t (binChain [a, b])).1 :=
  C16_ops_partial t [a, b] (by simp [binFlat, swallows_two])

/-- Non-increasing precedences (e.g. `a * b + c < d and e`): always the Python tree. -/
theorem C16_ops_nonincreasing {V X : Type} (t : Tree V X) (l : List (BinOp × X))
    (h : NonIncreasing F.prec (binFlat l)) :
    aspGroupL F.prec t (binFlat l) = (climb (l.length + 1) (-100) t (binChain l)).1 :=
  C16_ops_partial t l (swallows_of_nonincreasing F.prec _ h)

example : NonIncreasing (X := Nat) F.prec (binFlat [(.mul, 2), (.add, 3), (.lt, 4), (.and_, 5)]) := by
  simp only [binFlat, NonIncreasing]; decide

/-- Evaluation form: with no swallowing operator, running `interpretOps` on the flat list is evaluating the
    Python tree (same state threading, same laziness). -/
theorem C16_chain_eval_partial {σ ε V X : Type} (S : OpsSem σ ε V X) (hp : S.prec = F.prec)
    (hS : Stable S) (obj : V) (a : BinOp × X) (l : List (BinOp × X))
    (h : swallows F.prec (binFlat (a :: l)) = false) :
    interpretOps S obj (OpE.bin a.1 a.2) (binFlat l)
      = evalTree S (climb (l.length + 2) (-100) (.val obj) (binChain (a :: l))).1 := by
  rw [interpretOps_eq_evalTree_stable S hS, hp]
  have := C16_ops_partial (V := V) (.val obj) (a :: l) h
  obtain ⟨b, x⟩ := a
  simp only [binFlat, aspGroupL, List.length_cons] at this ⊢
  rw [this]

/-! ### What holds: the integer operators -/

def inRange (n : Int) : Prop := -9223372036854775808 ≤ n ∧ n < 9223372036854775808

theorem wrap64_id (n : Int) (h : inRange n) : wrap64 n = n := by
  unfold wrap64 inRange at *
  simp only
  split <;> omega

/-- Python's value of the arithmetic operators asp has on ints (all but `/`). -/
def pyArith : BinOp → Int → Int → Int
  | .add, x, y => x + y
  | .sub, x, y => x - y
  | .mul, x, y => x * y
  | .fdiv, x, y => Int.fdiv x y
  | .mod, x, y => Int.fmod x y
  | _, _, _ => 0

theorem tmod_eq_fmod_same_sign (x y : Int) (h : (0 ≤ x ∧ 0 < y) ∨ (x ≤ 0 ∧ y < 0)) : Int.tmod x y = Int.fmod x y := by
  rcases h with ⟨hx, hy⟩ | ⟨hx, hy⟩
  · rw [Int.tmod_eq_emod_of_nonneg hx, Int.fmod_eq_emod_of_nonneg x (by omega)]
  · -- both non-positive: negate
    have e1 : Int.tmod x y = -(Int.tmod (-x) (-y)) := by simp [Int.neg_tmod, Int.tmod_neg]
    have e2 : Int.fmod x y = -(Int.fmod (-x) (-y)) := by
      rw [show x = -(-x) by omega, show y = -(-y) by omega, Int.neg_fmod_neg]; simp
    rw [e1, e2, Int.tmod_eq_emod_of_nonneg (by omega), Int.fmod_eq_emod_of_nonneg (-x) (by omega)]

/-- The repaired `%`: Go's remainder moved to the divisor's sign is Python's floor modulo (all operands). -/
theorem goFloorMod_eq_fmod (x y : Int) : goFloorMod x y = Int.fmod x y := by
  unfold goFloorMod
  rw [Int.fmod_eq_tmod]
  have hdvd : y ∣ x ↔ Int.tmod x y = 0 := by rw [Int.dvd_iff_tmod_eq_zero]
  by_cases hd : y ∣ x
  · have := hdvd.mp hd
    simp [hd, this]
  · have hne : Int.tmod x y ≠ 0 := fun h => hd (hdvd.mpr h)
    simp only [hd, if_false]
    by_cases hx : 0 ≤ x
    · have h1 : 0 ≤ Int.tmod x y := Int.tmod_nonneg y hx
      by_cases hyy : 0 ≤ y
      · simp [hx, hyy, hne]; omega
      · simp [hx, hyy, hne]; omega
    · have h1 : Int.tmod x y ≤ 0 := by
        have := Int.tmod_nonneg (a := -x) y (by omega)
        rw [Int.neg_tmod] at this; omega
      by_cases hyy : 0 ≤ y
      · simp [hx, hyy, hne]; omega
      · simp [hx, hyy, hne]
        have : y.toNat = 0 := Int.toNat_of_nonpos (by omega)
        omega

/-- The repaired `//`: Go's quotient, one less when inexact with operands of different sign, is Python's floor
    division (non-zero divisor). -/
theorem goFloorDiv_eq_fdiv (x y : Int) (hy : y ≠ 0) : goFloorDiv x y = Int.fdiv x y := by
  unfold goFloorDiv
  rw [Int.fdiv_eq_tdiv]
  have hdvd : y ∣ x ↔ Int.tmod x y = 0 := by rw [Int.dvd_iff_tmod_eq_zero]
  by_cases hd : y ∣ x
  · have := hdvd.mp hd
    simp [hd, this]
  · have hne : Int.tmod x y ≠ 0 := fun h => hd (hdvd.mpr h)
    have hx0 : x ≠ 0 := fun h => hd (h ▸ Int.dvd_zero y)
    simp only [hd, if_false]
    by_cases hx : 0 ≤ x <;> by_cases hyy : 0 ≤ y
    · have : ¬ x < 0 := by omega
      have : ¬ y < 0 := by omega
      simp [*]
    · have : ¬ x < 0 := by omega
      have : y < 0 := by omega
      simp [*]
    · have : x < 0 := by omega
      have : ¬ y < 0 := by omega
      have hs : y.sign = 1 := Int.sign_eq_one_of_pos (by omega)
      simp [*]
    · have : x < 0 := by omega
      have : y < 0 := by omega
      have hs : y.sign = -1 := Int.sign_eq_neg_one_of_neg (by omega)
      simp [*]

/-- **C16 for the integer operators** `+ - * // %` on two ints, all operands: asp and Python give the same value
    whenever that value fits 64 bits (the documented integer type) and the divisor of `//`, `%` is not zero. -/
theorem C16_intop_agrees (op : BinOp) (x y : Int) (st : St)
    (hop : op = .add ∨ op = .sub ∨ op = .mul ∨ op = .fdiv ∨ op = .mod)
    (hr : inRange (pyArith op x y))
    (hz : (op = .fdiv ∨ op = .mod) → y ≠ 0) :
    (intOp F op x (.int y)).run st = .ok (.int (pyArith op x y), st) ∧
    (Py.binOp op (.int x) (.int y)).run (σ := Py.St) {} = .ok (.int (pyArith op x y), {}) := by
  have hadd : F.intKind .add = "+" := by decide
  have hsub : F.intKind .sub = "-" := by decide
  have hmul : F.intKind .mul = "*" := by decide
  have hfdiv : F.intKind .fdiv = "floordiv" := by decide
  have hmod : F.intKind .mod = "floormod" := by decide
  rcases hop with rfl | rfl | rfl | rfl | rfl
  · constructor
    · have hr' : inRange (x + y) := hr
      simp [intOp, hadd, goIntBin, pyArith, wrap64_id _ hr', StateT.run, pure, StateT.pure, Except.pure]
    · simp [Py.binOp, Py.asInt, pyArith, StateT.run, pure, StateT.pure, Except.pure]
  · constructor
    · have hr' : inRange (x - y) := hr
      simp [intOp, hsub, goIntBin, pyArith, wrap64_id _ hr', StateT.run, pure, StateT.pure, Except.pure]
    · simp [Py.binOp, Py.asInt, pyArith, StateT.run, pure, StateT.pure, Except.pure]
  · constructor
    · have hr' : inRange (x * y) := hr
      simp [intOp, hmul, goIntBin, pyArith, wrap64_id _ hr', StateT.run, pure, StateT.pure, Except.pure]
    · simp [Py.binOp, Py.asInt, pyArith, StateT.run, pure, StateT.pure, Except.pure]
  · have hy : y ≠ 0 := hz (Or.inl rfl)
    constructor
    · have hr' : inRange (Int.fdiv x y) := hr
      simp [intOp, hfdiv, goIntBin, pyArith, hy, goFloorDiv_eq_fdiv x y hy, wrap64_id _ hr', StateT.run, pure,
        StateT.pure, Except.pure]
    · simp [Py.binOp, Py.asInt, pyArith, hy, StateT.run, pure, StateT.pure, Except.pure]
  · have hy : y ≠ 0 := hz (Or.inr rfl)
    constructor
    · simp [intOp, hmod, goIntBin, pyArith, hy, goFloorMod_eq_fmod, StateT.run, pure, StateT.pure, Except.pure]
    · simp [Py.binOp, Py.asInt, pyArith, hy, StateT.run, pure, StateT.pure, Except.pure]

-- non-vacuity, on the operands of the old witnesses: -7 % 3 and 9007199254740993 // 1 meet the hypotheses
example : inRange (pyArith .mod (-7) 3) ∧ inRange (pyArith .fdiv 9007199254740993 1) := by
  unfold inRange pyArith; decide

/-- A zero divisor is an error on both sides. -/
theorem C16_intop_zero (op : BinOp) (hop : op = .fdiv ∨ op = .mod) (x : Int) (st : St) :
    (∃ e, (intOp F op x (.int 0)).run st = .error e) ∧
    (∃ e, (Py.binOp op (.int x) (.int 0)).run (σ := Py.St) {} = .error e) := by
  have hfdiv : F.intKind .fdiv = "floordiv" := by decide
  have hmod : F.intKind .mod = "floormod" := by decide
  rcases hop with rfl | rfl
  · exact ⟨⟨_, by simp [intOp, hfdiv, goIntBin, fail, StateT.run, throw, throwThe, MonadExceptOf.throw, StateT.lift, bind, Except.bind]; rfl⟩,
      ⟨_, by simp [Py.binOp, Py.asInt, StateT.run]; rfl⟩⟩
  · exact ⟨⟨_, by simp [intOp, hmod, goIntBin, fail, StateT.run, throw, throwThe, MonadExceptOf.throw, StateT.lift, bind, Except.bind]; rfl⟩,
      ⟨_, by simp [Py.binOp, Py.asInt, StateT.run]; rfl⟩⟩

/-- The float64 detour that `//` used to take, on small operands: exact (it went wrong beyond 2^53 —
    `C16_old_floordiv_float` — and on a zero divisor).  Exhaustive over |x|, |y| ≤ 40. -/
def smallInts : List Int := (List.range 81).map fun (a : Nat) => (a : Int) - 40

theorem C16_old_floordiv_small :
    smallInts.all (fun x => smallInts.all fun y => y == 0 || intFloorDiv x y == Int.fdiv x y) = true := by
  decide +kernel

/-! ### One whole program, all operands

The theorems above are about the operator layer and the integer operators; this one goes through both interpreters
from the statement down to the rendered globals (assignment, the chain, the int literals, scope, rendering). -/

/-- an int literal the parser accepts (fewer than 19 characters) -/
def litOK (n : Int) : Prop := -100000000000000000 < n ∧ n < 1000000000000000000

theorem eval_arith (opt : Bool) (f sc : Nat) (pos : Bool) (op : BinOp) (x y : Int) (hx : litOK x) (hy : litOK y)
    (hop : op = .add ∨ op = .sub ∨ op = .mul ∨ op = .fdiv ∨ op = .mod) :
    evalExpr F opt (f + 2) sc pos (.chain none (.int x) [(op, none, .int y)]) = intOp F op x (.int y) := by
  unfold litOK at hx hy
  have hx1 : ¬ (x ≥ 1000000000000000000 ∨ x ≤ -100000000000000000) := by omega
  have hy1 : ¬ (y ≥ 1000000000000000000 ∨ y ≤ -100000000000000000) := by omega
  rcases hop with rfl | rfl | rfl | rfl | rfl <;>
    simp [evalExpr, hx1, hy1, flatten, interpretOps, interpretOp, BinOp.lazy, binOp]

theorem prog_arith (op : BinOp) (x y : Int) (hx : litOK x) (hy : litOK y)
    (hop : op = .add ∨ op = .sub ∨ op = .mul ∨ op = .fdiv ∨ op = .mod)
    (hr : inRange (pyArith op x y)) (hz : (op = .fdiv ∨ op = .mod) → y ≠ 0) :
    runProgram F false 50 [.assign "a" (.chain none (.int x) [(op, none, .int y)])] = .ok [("a", .int (pyArith op x y))] := by
  have hpure : intOp F op x (.int y) = pure (.int (pyArith op x y)) := by
    funext st; exact (C16_intop_agrees op x y st hop hr hz).1
  simp only [runProgram, execStmts, execStmt, eval_arith false 46 _ _ op x y hx hy hop, hpure]
  rfl

theorem py_eval_arith (f fr : Nat) (op : BinOp) (x y : Int)
    (hop : op = .add ∨ op = .sub ∨ op = .mul ∨ op = .fdiv ∨ op = .mod) :
    Py.evalExpr (f + 2) fr (.chain none (.int x) [(op, none, .int y)]) = Py.binOp op (.int x) (.int y) := by
  rcases hop with rfl | rfl | rfl | rfl | rfl <;>
    simp [Py.evalExpr, pyGroup, climb, operandTree, evalTree, BinOp.lazy, pyPrecBin]

theorem py_prog_arith (op : BinOp) (x y : Int)
    (hop : op = .add ∨ op = .sub ∨ op = .mul ∨ op = .fdiv ∨ op = .mod)
    (hr : inRange (pyArith op x y)) (hz : (op = .fdiv ∨ op = .mod) → y ≠ 0) :
    Py.runProgram 50 [.assign "a" (.chain none (.int x) [(op, none, .int y)])] = .ok [("a", .int (pyArith op x y))] := by
  have hpure : Py.binOp op (.int x) (.int y) = pure (.int (pyArith op x y)) := by
    rcases hop with rfl | rfl | rfl | rfl | rfl
    · simp [Py.binOp, Py.asInt, pyArith]
    · simp [Py.binOp, Py.asInt, pyArith]
    · simp [Py.binOp, Py.asInt, pyArith]
    · have hy : y ≠ 0 := hz (Or.inl rfl)
      simp [Py.binOp, Py.asInt, pyArith, hy]
    · have hy : y ≠ 0 := hz (Or.inr rfl)
      simp [Py.binOp, Py.asInt, pyArith, hy]
  simp only [Py.runProgram, Py.execStmts, Py.execStmt, py_eval_arith 46 _ op x y hop, hpure]
  rfl

/-- **C16 at program level for one arithmetic assignment**: for every operator `+ - * // %` and all int literals the
    parser accepts, whose result fits 64 bits (non-zero divisor for `//`, `%`): both evaluators run `a = x op y` and
    render the same globals. -/
theorem C16_program_arith (op : BinOp) (x y : Int) (hx : litOK x) (hy : litOK y)
    (hop : op = .add ∨ op = .sub ∨ op = .mul ∨ op = .fdiv ∨ op = .mod)
    (hr : inRange (pyArith op x y)) (hz : (op = .fdiv ∨ op = .mod) → y ≠ 0) :
    disagree false 50 [.assign "a" (.chain none (.int x) [(op, none, .int y)])] = false ∧
    bothRun F false 50 [.assign "a" (.chain none (.int x) [(op, none, .int y)])] = true := by
  simp [disagree, disagreeF, bothRun, prog_arith op x y hx hy hop hr hz, py_prog_arith op x y hop hr hz]
  simp [BEq.beq, RVal.beq]

-- the hypotheses are met by the operands of the two old witnesses
example : litOK (-7) ∧ litOK 3 ∧ litOK 9007199254740993 ∧ litOK 1 := by unfold litOK; decide

/-! ### `sorted(key=…, reverse=…)`: the order of tied elements -/

open PlzVerif.SortSpec in
/-- **The sort of the asp model is the sort of the reference**, for all lists and every strict weak order on the
    (key, element) pairs — ascending and, with the comparison flipped as `sorted(reverse=True)` does it, descending:
    `Asp.stableSort` (insertion sort front to back) and `Py.stableSort` (insertion back to front) with a pure
    comparison both compute `sortB`, the stable sort, for lists of every length (`sorted` uses `sort.SliceStable`:
    `FactsOK`).  Tied elements keep their original order in both directions. -/
theorem C16_sort_agrees :
    (∀ (lt : Asp.Val × Asp.Val → Asp.Val × Asp.Val → Bool), StrictWeak lt → ∀ l,
      Asp.stableSort (fun a b => (pure (lt a b) : EM Bool)) l = pure (sortB lt l) ∧
      Asp.stableSort (fun a b => (pure (lt b a) : EM Bool)) l = pure (sortB (fun a b => lt b a) l)) ∧
    (∀ (lt : Py.Val → Py.Val → Bool) l,
      Py.stableSort (fun a b => (pure (lt a b) : Py.PM Bool)) l = pure (sortB lt l) ∧
      Py.stableSort (fun a b => (pure (lt b a) : Py.PM Bool)) l = pure (sortB (fun a b => lt b a) l)) := by
  refine ⟨fun lt h l => ⟨?_, ?_⟩, fun lt l => ⟨py_stableSort_pure lt l, py_stableSort_pure (fun a b => lt b a) l⟩⟩
  · rw [asp_stableSort_pure, sortA_eq_sortB h]
  · rw [asp_stableSort_pure (fun a b => lt b a), sortA_eq_sortB h.flip]

-- comparing keys by `<` on ints is a strict weak order (the hypothesis is met)
open PlzVerif.SortSpec in
example : StrictWeak (fun (a b : Int × String) => decide (a.1 < b.1)) :=
  ⟨fun a b c h1 h2 => by simp only [decide_eq_true_eq] at *; omega,
   fun a b c h1 h2 => by simp only [decide_eq_false_iff_not] at *; omega⟩

open PlzVerif.SortSpec in
/-- **Sorting ascending and reversing afterwards is not `sorted(reverse=True)`**: on words keyed by their length,
    `["bb", "a", "cc"]` gives `bb, cc, a` with the flipped comparison (ties in original order, as in Python) and
    `cc, bb, a` when the ascending result is reversed. -/
theorem C16_reverse_after_differs :
    sortA (fun (a b : Nat × String) => decide (b.1 < a.1)) [(2, "bb"), (1, "a"), (2, "cc")]
      = [(2, "bb"), (2, "cc"), (1, "a")] ∧
    (sortA (fun (a b : Nat × String) => decide (a.1 < b.1)) [(2, "bb"), (1, "a"), (2, "cc")]).reverse
      = [(2, "cc"), (2, "bb"), (1, "a")] := by decide

/-- The facts before `fix: sorted is stable`: `sort.Slice`. -/
def oldSortFn : Facts := { F with sortedStable := false }

/-- 13 ints keyed by `x % 3`: `xs = [3, 4, 5, 6, 7, 8, 9, 10, 11, 12, 13, 14, 15]; r = sorted(xs, key=lambda x: x % 3)` -/
def wSortLong : Program :=
  [.assign "xs" (.list 1 ((List.range 13).map fun (i : Nat) => Expr.int ((i : Int) + 3))),
   .assign "r" (.call "sorted" [(none, .name "xs"),
      (some "key", .lam ["x"] (.chain none (.name "x") [(.mod, none, .int 3)]))])]

set_option maxRecDepth 100000 in
/-- **Stable for every length**: on 13 elements with tied keys the two interpreters run and agree today; at the old
    fact value (`sort.Slice`, whose order of ties beyond 12 elements is unspecified — the repaired finding
    `sorted-not-stable-beyond-12`, witness on the real code in corpus/C16/fixed-sorted-not-stable-beyond-12.ops) the
    model does not evaluate the program at all. -/
theorem C16_old_sort_beyond_12 :
    (disagree false 80 wSortLong = false ∧ bothRun F false 80 wSortLong = true) ∧
    (runProgram oldSortFn false 80 wSortLong).toOption.isSome = false := by decide +kernel

/-- `ws = ["bb", "a", "cc", "d", "eee"]; r = sorted(ws, key=lambda w: len(w), reverse=True)` -/
def wSortKey : Program :=
  [.assign "ws" (.list 1 [.str "bb", .str "a", .str "cc", .str "d", .str "eee"]),
   .assign "r" (.call "sorted" [(none, .name "ws"), (some "key", .lam ["w"] (.call "len" [(none, .name "w")])),
      (some "reverse", .tru)])]

/-- The facts of a `sorted` that sorts ascending and calls `slices.Reverse` for `reverse=True`. -/
def revAfter : Facts := { F with sortedRevAfter := true }

set_option maxRecDepth 100000 in
/-- At today's facts the program agrees with Python (`eee, bb, cc, a, d`); with reverse-after-sort it does not
    (`eee, cc, bb, d, a`): the fact `sortedReverse` is necessary. -/
theorem C16_witness_sorted_reverse_after :
    (disagree false 60 wSortKey = false ∧ bothRun F false 60 wSortKey = true) ∧
    disagreeF revAfter false 60 wSortKey = true := by decide +kernel

/-! ### Program level: every integer program, any length, any nesting, any environment

The statement that is wanted at program level is

    ProgramAgreement : for every program `p` of the modelled common subset (the whole expression and statement
    grammar of Model/AspSyntax.lean) that contains none of the known-finding constructs, `runProgram F opt fuel p`
    and `Py.runProgram fuel p` are both `.ok` with the same globals or both `.error`.

It is **not proved** in that generality.  What is proved by structural induction over programs (not a sample, no
bound on size or depth) is the fragment of *integer programs* of `Lemmas/AspIntProgram.lean`:
`(x = e)*` with `e ::= n | x | (e) | e op e`, `op ∈ {+ - * // %}`; names refer to earlier assignments, so every
expression is evaluated in an arbitrary environment.  Wherever the mathematical meaning `denProg` is defined (all
literals accepted by the parser, all names bound, all intermediate results within 64 bits, no zero divisor) both
interpreters run the program and render exactly that meaning.

Missing for the full statement: the error half on this fragment (unbound name, zero divisor: both fail — shown only
for the operators, `C16_intop_zero`); chains of several operators at this level (the operator-layer theorems
`C16_ops_partial_with_prefix` / `C16_chain_eval_partial` are not lifted through the statement layer); strings, lists,
dicts, `if` / `for`, functions, comprehensions, builtins: a simulation between the slice heap of the asp model and the
object heap of the Python reference is needed there, and it has to carve out exactly the aliasing findings. -/

open PlzVerif.IntProg in
/-- The integer operators of the asp model at today's facts do what `AspIntProgram` needs. -/
theorem intOpsOK_F : IntProg.IntOpsOK F := by
  intro op x y st hfit hz
  have hr : inRange (pyArith op.bin x y) := by
    have : pyArith op.bin x y = arith op x y := by cases op <;> rfl
    rw [this]
    simp only [fits64, Bool.and_eq_true, decide_eq_true_eq] at hfit
    exact hfit
  have hz' : (op.bin = .fdiv ∨ op.bin = .mod) → y ≠ 0 := by
    intro h; apply hz; cases op <;> simp [AOp.bin] at h ⊢
  have := (C16_intop_agrees op.bin x y st op.bin_cases hr hz').1
  have e : pyArith op.bin x y = arith op x y := by cases op <;> rfl
  rw [e] at this; exact this

open PlzVerif.IntProg in
/-- **C16 for every integer program** (partial form of the program-level statement): for every program `p` of the
    fragment — any number of assignments, expressions of any nesting depth over earlier variables — with enough
    fuel, if the mathematical meaning `denProg [] p` is defined then the asp model (package file, today's facts) and
    the Python reference both run `p` and render exactly that meaning; in particular they do not disagree. -/
theorem C16_program_int_partial (p : Prog) (fuel : Nat) (env' : Env) (hfuel : enough fuel p = true)
    (hlen : p.length + 1 < 100000) (hd : denProg [] p = some env') :
    runProgram F false fuel (toProgram p) = .ok (globalsOf env') ∧
    Py.runProgram fuel (toProgram p) = .ok (globalsOf env') ∧
    disagree false fuel (toProgram p) = false ∧ bothRun F false fuel (toProgram p) = true := by
  have ha := asp_run F intOpsOK_F p fuel env' hfuel hlen hd
  have hp := py_run p fuel env' hfuel hlen hd
  refine ⟨ha, hp, ?_, ?_⟩
  · simp only [disagree, disagreeF, ha, hp]
    have := globals_beq_refl env'
    simp [this]
  · simp only [bothRun, ha, hp]

open PlzVerif.IntProg in
/-- `a = 7; b = (a * 3 - 20) // -4; c = b % 5 + a * (b - 1); a = c - a` -/
def pInt : Prog :=
  [("a", .lit 7),
   ("b", .bin .fdiv (.par (.bin .sub (.bin .mul (.var "a") (.lit 3)) (.lit 20))) (.lit (-4))),
   ("c", .bin .add (.bin .mod (.var "b") (.lit 5)) (.bin .mul (.var "a") (.par (.bin .sub (.var "b") (.lit 1))))),
   ("a", .bin .sub (.var "c") (.var "a"))]

-- the hypotheses are met (fuel 50 is enough, the meaning is defined): b = -1, c = 4 + 7 * -2 = -10, a = -17
open PlzVerif.IntProg in
example : enough 50 pInt = true ∧ denProg [] pInt = some [("a", -17), ("b", -1), ("c", -10)] := by decide +kernel

/-- A program far outside the integer fragment — nested comprehensions, `sorted`, string concatenation, `upper`,
    `join`, `len`:
      names = ["b", "a", "c"]
      grid = [[n + m for m in names] for n in sorted(names)]
      up = [sorted([w.upper() for w in row]) for row in grid]
      j = "-".join(up[0])
      k = len(j) + len(grid) -/
def wComplex : Program :=
  [.assign "names" (.list 1 [.str "b", .str "a", .str "c"]),
   .assign "grid" (.comp 2 (.comp 3 (.chain none (.name "n") [(.add, none, .name "m")]) ["m"] (.name "names") none)
      ["n"] (.call "sorted" [(none, .name "names")]) none),
   .assign "up" (.comp 4 (.call "sorted" [(none, .comp 5 (.method (.name "w") "upper" []) ["w"] (.name "row") none)])
      ["row"] (.name "grid") none),
   .assign "j" (.method (.str "-") "join" [(none, .index (.name "up") (.int 0))]),
   .assign "k" (.chain none (.call "len" [(none, .name "j")]) [(.add, none, .call "len" [(none, .name "grid")])])]

set_option maxRecDepth 100000 in
/-- On it the two interpreters run and agree (one decided sample: the general statement is not proved there). -/
theorem C16_sample_complex_program :
    disagree false 200 wComplex = false ∧ bothRun F false 200 wComplex = true := by decide +kernel

end PlzVerif.Props.C16
