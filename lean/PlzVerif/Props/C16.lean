import PlzVerif.Lemmas.AspOps
import PlzVerif.Lemmas.AspOpsPrefix
import PlzVerif.Model.AspInterp
import PlzVerif.Model.PyInterp
import PlzVerif.Model.AspGenerated
/-!
C16  The BUILD language agrees with Python on its documented subset.

`runProgram F opt` is the asp model at the facts read from /repo on this run (`opt = false`: a package file;
`opt = true`: a file that goes through `parseSubinclude`), `Py.runProgram` the Python reference.

* full statement `AgreesWithPython`: whenever both evaluate a program, the rendered globals are equal;
* it does **not** hold for the pinned code: one witness per root cause (each is a known finding whose class
  predicate is implemented in harness/cmd/c16), and `C16_main_fails`;
* what does hold, for all inputs: `interpretOps` evaluates exactly the tree `aspGroup` (any state, any operand
  evaluator); that tree is the Python tree whenever no operator "swallows" — in particular for at most two
  operators and for non-increasing precedences; and the integer operators agree with Python's except `%` with
  operands of different sign (and `/`, which has no integer counterpart in Python 3).
-/
namespace PlzVerif.Props.C16
open PlzVerif.Asp PlzVerif.Generated

abbrev raw : RawFacts := genRaw

/-- The asp model at the regenerated facts. -/
abbrev F : Facts := genF

def knownIntKinds : List String := ["+", "-", "*", "/", "%", "floor(float/float)", "<", ">", "<=", ">=", "==", "!="]

/-- Side condition on the regenerated facts (decidable):
    the precedence table orders the operators as the Python grammar does; `and`/`or` are the lazy operators;
    the token map is the expected one; every integer operator has a shape the model knows, the arithmetic ones
    being Go's `+ - *`, and `//` going through the float floor. -/
def FactsOK : Bool :=
  precOrderOK F.prec && raw.listAddClips &&
  raw.lazyOps == ["And", "Or"] &&
  raw.operators == expectedTokens &&
  raw.intOps.all (fun e => knownIntKinds.contains e.2) &&
  F.intKind .add == "+" && F.intKind .sub == "-" && F.intKind .mul == "*" &&
  F.intKind .fdiv == "floor(float/float)" && (F.intKind .mod == "%" || F.intKind .mod == "floormod") &&
  F.intKind .lt == "<" && F.intKind .gt == ">" && F.intKind .le == "<=" && F.intKind .ge == ">="

/-- Obligation a code change can break. -/
theorem C16_facts_ok : FactsOK = true := by decide

/-! ### The full statement and why it fails today -/

/-- Both evaluators succeed on `p` and render different globals. -/
def disagree (opt : Bool) (fuel : Nat) (p : Program) : Bool :=
  match runProgram F opt fuel p, Py.runProgram fuel p with
  | .ok g, .ok g' => !(g == g')
  | _, _ => false

/-- C16 at full strength: no program on which both evaluators succeed is rendered differently. -/
def AgreesWithPython (opt : Bool) : Prop := ∀ (fuel : Nat) (p : Program), disagree opt fuel p = false

/-- `a = 1 - 2 * 3 - 4`: asp -1, Python -9 (interpreter.go:633). -/
def wOps : Program :=
  [.assign "a" (.chain none (.int 1) [(.sub, none, .int 2), (.mul, none, .int 3), (.sub, none, .int 4)])]

/-- `a = -7 % 3`: asp -1, Python 2 (objects.go:236). -/
def wMod : Program := [.assign "a" (.chain none (.int (-7)) [(.mod, none, .int 3)])]

/-- `l = [3, 1, 2]; s = sorted(l)`: asp reorders `l` (builtins.go:859). -/
def wSorted : Program :=
  [.assign "l" (.list 1 [.int 3, .int 1, .int 2]), .assign "s" (.call "sorted" [(none, .name "l")])]

/-- `def f(): return [1, 2]`, `r1 = f(); r1[0] = 9; r2 = f()` in a subincluded file: `r2` is `[9, 2]`
    (interpreter.go:271, 1052). -/
def wConst : Program :=
  [.def_ "f" [] [.ret [.list 1 [.int 1, .int 2]]],
   .assign "r1" (.call "f" []), .idxAssign "r1" (.int 0) (.int 9), .assign "r2" (.call "f" [])]

/-- `a = [1, 2, 3]; b = a[0:2]; b[0] = 9`: `a[0]` is 9 (interpreter.go:856). -/
def wSlice : Program :=
  [.assign "a" (.list 1 [.int 1, .int 2, .int 3]),
   .assign "b" (.slice (.name "a") (some (.int 0)) (some (.int 2))), .idxAssign "b" (.int 0) (.int 9)]

/-- `c = [x for x in a if x < 3]; d = c + [5]; e = c + [6]`: `d` ends in 6 (objects.go:362). -/
def wAppend : Program :=
  [.assign "a" (.list 1 [.int 1, .int 2, .int 3, .int 4]),
   .assign "c" (.comp 2 (.name "x") ["x"] (.name "a") (some (.chain none (.name "x") [(.lt, none, .int 3)]))),
   .assign "d" (.chain none (.name "c") [(.add, none, .list 3 [.int 5])]),
   .assign "e" (.chain none (.name "c") [(.add, none, .list 4 [.int 6])])]

/-- `a = [1]; b = a; a += [2]`: `b` stays `[1]` (interpreter.go:917). -/
def wAug : Program :=
  [.assign "a" (.list 1 [.int 1]), .assign "b" (.name "a"), .augAssign "a" (.list 2 [.int 2])]

set_option maxRecDepth 100000 in
theorem C16_witness_ops_swallow : disagree false 50 wOps = true := by decide +kernel

set_option maxRecDepth 100000 in
theorem C16_witness_mod_sign : disagree false 50 wMod = true := by decide +kernel

set_option maxRecDepth 100000 in
theorem C16_witness_sorted_in_place : disagree false 50 wSorted = true := by decide +kernel

set_option maxRecDepth 100000 in
theorem C16_witness_constant_shared : disagree true 50 wConst = true := by decide +kernel

set_option maxRecDepth 100000 in
theorem C16_witness_slice_shares : disagree false 50 wSlice = true := by decide +kernel

set_option maxRecDepth 100000 in
theorem C16_witness_add_appends : disagree false 50 wAppend = true := by decide +kernel

set_option maxRecDepth 100000 in
theorem C16_witness_augassign_rebinds : disagree false 50 wAug = true := by decide +kernel

/-- The constant-list witness is specific to optimised files: as a package file it agrees. -/
theorem C16_constant_fresh_in_package_files : disagree false 50 wConst = false := by decide +kernel

/-- The property as stated does not hold of the pinned code (either kind of file). -/
theorem C16_main_fails : ¬ AgreesWithPython false ∧ ¬ AgreesWithPython true := by
  constructor
  · intro h; have := h 50 wOps; rw [C16_witness_ops_swallow] at this; cases this
  · intro h; have := h 50 wConst; rw [C16_witness_constant_shared] at this; cases this

/-! ### What holds: the operator layer -/

theorem mem_allOps (o : Op) : o ∈ allOps := by
  cases o with
  | bin b => cases b <;> decide
  | un u => cases u <;> decide

/-- From the decidable table check to the order isomorphism with the Python grammar. -/
theorem prec_order : ∀ a b : Op, F.prec a ≥ F.prec b ↔ pyPrec a ≥ pyPrec b := by
  have h : precOrderOK F.prec = true := by
    have := C16_facts_ok
    simp only [FactsOK, Bool.and_eq_true] at this
    exact this.1.1.1.1.1.1.1.1.1.1.1.1.1
  intro a b
  have := List.all_eq_true.1 (List.all_eq_true.1 h a (mem_allOps a)) b (mem_allOps b)
  have e : decide (F.prec a ≥ F.prec b) = decide (pyPrec a ≥ pyPrec b) := by simpa using this
  constructor
  · intro hab; have : decide (F.prec a ≥ F.prec b) = true := decide_eq_true hab
    rw [e] at this; exact of_decide_eq_true this
  · intro hab; have : decide (pyPrec a ≥ pyPrec b) = true := decide_eq_true hab
    rw [← e] at this; exact of_decide_eq_true this

/-- **`interpretOps` is tree evaluation of asp's grouping**, for every operator semantics `S` that uses the
    precedence table of the code and whose truthiness does not depend on the state: any state type, any
    operand evaluator (side effects included). -/
theorem C16_interpretOps_is_tree {σ ε V X : Type} (S : OpsSem σ ε V X) (tr : V → Bool)
    (htr : ∀ s v, S.truthy s v = tr v) (obj : V) (o : OpE X) (rest : List (OpE X)) :
    interpretOps S obj o rest = evalTree S (aspGroup S.prec (.val obj) o rest) :=
  interpretOps_eq_evalTree S tr htr obj o rest

/-- **Partial form of C16 for operator chains**: on a chain of binary operators in which no operator swallows
    (class predicate of the finding `ops-right-operand-swallows-rest` is false) the tree asp evaluates is the
    tree of the Python grammar. -/
theorem C16_ops_partial {V X : Type} (t : Tree V X) (l : List (BinOp × X))
    (h : swallows F.prec (binFlat l) = false) :
    aspGroupL F.prec t (binFlat l) = (climb (l.length + 1) (-100) t (binChain l)).1 := by
  have hs : swallows pyPrec (binFlat l) = false := by rw [← swallows_congr F.prec pyPrec prec_order]; exact h
  have hmin : ∀ o ∈ l, (-100 : Int) ≤ pyPrecBin o.1 := by
    intro o _; cases o.1 <;> decide
  rw [climb_eq_aspGroup l (l.length + 1) (-100) t (Nat.lt_succ_self _) hmin hs]
  cases hl : binFlat l with
  | nil => rfl
  | cons o rest => simp only [aspGroupL]; exact aspGroup_congr F.prec pyPrec prec_order rest t o

-- the hypothesis is satisfiable by a chain of mixed (increasing) precedence: 1 < 2 + 3 * 4
example : swallows (X := Nat) F.prec (binFlat [(.lt, 2), (.add, 3), (.mul, 4)]) = false := by decide
-- … and excludes the witness: 1 - 2 * 3 - 4
example : swallows (X := Nat) F.prec (binFlat [(.sub, 2), (.mul, 3), (.sub, 4)]) = true := by decide +kernel

/-! The class predicate is exact, not an over-approximation, on all chains of up to four operators over one
    operator per precedence level: asp's tree differs from the Python tree **iff** `swallows`. -/

/-- one binary operator per precedence level -/
def repOps : List BinOp := [.or_, .and_, .lt, .union, .add, .mul]

def chainsOf : Nat → List (List (BinOp × Nat))
  | 0 => [[]]
  | n + 1 => (chainsOf n).flatMap fun l => repOps.map fun b => (b, n) :: l

def exactOn (l : List (BinOp × Nat)) : Bool :=
  let asp : Tree Nat Nat := aspGroupL F.prec (.val 0) (binFlat l)
  let py : Tree Nat Nat := (climb (l.length + 1) (-100) (.val 0) (binChain l)).1
  swallows F.prec (binFlat l) == !(decide (asp = py))

theorem C16_swallows_exact_upto4 :
    ((chainsOf 1 ++ chainsOf 2 ++ chainsOf 3 ++ chainsOf 4).all exactOn) = true := by decide +kernel

/-- **Partial form of C16 for chains as written** (prefix `-` and `not` included): the head operand with its
    prefix and every `op [prefix] operand` hoisted into the flat list exactly as the parser does it; `not` standing
    where the Python grammar allows one (at the head or after `and` / `or`).  If no operator swallows, the tree asp
    evaluates is the tree of the Python grammar — for chains of any length. -/
theorem C16_ops_partial_with_prefix {V X : Type} (hu : Option UnOp) (head : X) (rest : Chain X)
    (hv : Asp.validNot rest = true) (h : swallows F.prec (flatten hu rest) = false) :
    aspGroupL F.prec (Tree.operand (V := V) head) (flatten hu rest) = pyGroup hu head rest := by
  have hs : swallows pyPrec (flatten hu rest) = false := by
    rw [← swallows_congr F.prec pyPrec prec_order]; exact h
  rw [← pyGroup_eq_aspGroup hu head rest hv hs]
  cases hl : flatten hu rest with
  | nil => rfl
  | cons o os => simp only [aspGroupL]; exact aspGroup_congr F.prec pyPrec prec_order os _ o

-- satisfiable: `-a * b + c and not d`  (hoisted: neg, *, +, and, not)
example : Asp.validNot (X := Nat) [(.mul, none, 1), (.add, none, 2), (.and_, some .not_, 3)] = true ∧
    swallows F.prec (flatten (X := Nat) (some .neg) [(.mul, none, 1), (.add, none, 2), (.and_, some .not_, 3)]) = false := by
  decide

/-! With prefix operators the class predicate is also exact on all chains of up to three binary operators. -/

def prefixes : List (Option UnOp) := [none, some .neg, some .not_]

def chainsU : Nat → List (Chain Nat)
  | 0 => [[]]
  | n + 1 => (chainsU n).flatMap fun l => repOps.flatMap fun b => prefixes.map fun u => (b, u, n) :: l

def exactOnU (hu : Option UnOp) (rest : Chain Nat) : Bool :=
  let asp : Tree Nat Nat := aspGroupL F.prec (.operand 100) (flatten hu rest)
  swallows F.prec (flatten hu rest) == !(decide (asp = pyGroup hu 100 rest))

theorem C16_swallows_exact_with_prefix_upto3 :
    (prefixes.all fun hu => ((chainsU 1 ++ chainsU 2 ++ chainsU 3).filter Asp.validNot).all (exactOnU hu)) = true := by
  decide +kernel

/-- At most two binary operators: always the Python tree. -/
theorem C16_ops_two {V X : Type} (t : Tree V X) (a b : BinOp × X) :
    aspGroupL F.prec t (binFlat [a, b]) = (climb 3 (-100) t (binChain [a, b])).1 :=
  C16_ops_partial t [a, b] (by simp [binFlat, swallows_two])

/-- Non-increasing precedences (e.g. `a * b + c < d and e`): always the Python tree. -/
theorem C16_ops_nonincreasing {V X : Type} (t : Tree V X) (l : List (BinOp × X))
    (h : NonIncreasing F.prec (binFlat l)) :
    aspGroupL F.prec t (binFlat l) = (climb (l.length + 1) (-100) t (binChain l)).1 :=
  C16_ops_partial t l (swallows_of_nonincreasing F.prec _ h)

example : NonIncreasing (X := Nat) F.prec (binFlat [(.mul, 2), (.add, 3), (.lt, 4), (.and_, 5)]) := by
  simp only [binFlat, NonIncreasing]; decide

/-- Evaluation form: with no swallowing operator, running `interpretOps` on the flat list is evaluating the
    Python tree (same state threading, same laziness). -/
theorem C16_chain_eval_partial {σ ε V X : Type} (S : OpsSem σ ε V X) (hp : S.prec = F.prec) (tr : V → Bool)
    (htr : ∀ s v, S.truthy s v = tr v) (obj : V) (a : BinOp × X) (l : List (BinOp × X))
    (h : swallows F.prec (binFlat (a :: l)) = false) :
    interpretOps S obj (OpE.bin a.1 a.2) (binFlat l)
      = evalTree S (climb (l.length + 2) (-100) (.val obj) (binChain (a :: l))).1 := by
  rw [interpretOps_eq_evalTree S tr htr, hp]
  have := C16_ops_partial (V := V) (.val obj) (a :: l) h
  obtain ⟨b, x⟩ := a
  simp only [binFlat, aspGroupL, List.length_cons] at this ⊢
  rw [this]

/-! ### What holds: the integer operators -/

def inRange (n : Int) : Prop := -9223372036854775808 ≤ n ∧ n < 9223372036854775808

theorem wrap64_id (n : Int) (h : inRange n) : wrap64 n = n := by
  unfold wrap64 inRange at *
  simp only
  split <;> omega

/-- Python's value of the arithmetic operators asp has on ints (all but `/`). -/
def pyArith : BinOp → Int → Int → Int
  | .add, x, y => x + y
  | .sub, x, y => x - y
  | .mul, x, y => x * y
  | .fdiv, x, y => Int.fdiv x y
  | .mod, x, y => Int.fmod x y
  | _, _, _ => 0

theorem tmod_eq_fmod_same_sign (x y : Int) (h : (0 ≤ x ∧ 0 < y) ∨ (x ≤ 0 ∧ y < 0)) : Int.tmod x y = Int.fmod x y := by
  rcases h with ⟨hx, hy⟩ | ⟨hx, hy⟩
  · rw [Int.tmod_eq_emod_of_nonneg hx, Int.fmod_eq_emod_of_nonneg x (by omega)]
  · -- both non-positive: negate
    have e1 : Int.tmod x y = -(Int.tmod (-x) (-y)) := by simp [Int.neg_tmod, Int.tmod_neg]
    have e2 : Int.fmod x y = -(Int.fmod (-x) (-y)) := by
      rw [show x = -(-x) by omega, show y = -(-y) by omega, Int.neg_fmod_neg]; simp
    rw [e1, e2, Int.tmod_eq_emod_of_nonneg (by omega), Int.fmod_eq_emod_of_nonneg (-x) (by omega)]

/-- **Partial form of C16 for integer operators**: `+ - * // %` on two ints give Python's value when the result
    fits 64 bits, the divisor is non-zero and, for `%`, both operands have the same sign. -/
theorem C16_intop_partial (op : BinOp) (x y : Int) (st : St)
    (hop : op = .add ∨ op = .sub ∨ op = .mul ∨ op = .fdiv ∨ op = .mod)
    (hr : inRange (pyArith op x y))
    (hz : (op = .fdiv ∨ op = .mod) → y ≠ 0)
    (hs : op = .mod → (0 ≤ x ∧ 0 < y) ∨ (x ≤ 0 ∧ y < 0)) :
    (intOp F op x (.int y)).run st = .ok (.int (pyArith op x y), st) ∧
    (Py.binOp op (.int x) (.int y)).run (σ := Py.St) {} = .ok (.int (pyArith op x y), {}) := by
  have hk := C16_facts_ok
  simp only [FactsOK, Bool.and_eq_true, Bool.or_eq_true, beq_iff_eq] at hk
  obtain ⟨⟨⟨⟨⟨⟨⟨⟨⟨_, hadd⟩, hsub⟩, hmul⟩, hfdiv⟩, hmod⟩, _⟩, _⟩, _⟩, _⟩ := hk
  rcases hop with rfl | rfl | rfl | rfl | rfl
  · constructor
    · have hr' : inRange (x + y) := hr
      simp [intOp, hadd, goIntBin, pyArith, wrap64_id _ hr', StateT.run, pure, StateT.pure, Except.pure]
    · simp [Py.binOp, Py.asInt, pyArith, StateT.run, pure, StateT.pure, Except.pure]
  · constructor
    · have hr' : inRange (x - y) := hr
      simp [intOp, hsub, goIntBin, pyArith, wrap64_id _ hr', StateT.run, pure, StateT.pure, Except.pure]
    · simp [Py.binOp, Py.asInt, pyArith, StateT.run, pure, StateT.pure, Except.pure]
  · constructor
    · have hr' : inRange (x * y) := hr
      simp [intOp, hmul, goIntBin, pyArith, wrap64_id _ hr', StateT.run, pure, StateT.pure, Except.pure]
    · simp [Py.binOp, Py.asInt, pyArith, StateT.run, pure, StateT.pure, Except.pure]
  · have hy : y ≠ 0 := hz (Or.inl rfl)
    constructor
    · simp [intOp, hfdiv, goIntBin, pyArith, intFloorDiv, hy, StateT.run, pure, StateT.pure, Except.pure]
    · simp [Py.binOp, Py.asInt, pyArith, hy, StateT.run, pure, StateT.pure, Except.pure]
  · have hy : y ≠ 0 := hz (Or.inr rfl)
    have hsame := hs rfl
    constructor
    · rcases hmod with hm | hm
      · simp [intOp, hm, goIntBin, pyArith, hy, tmod_eq_fmod_same_sign x y hsame, StateT.run, pure, StateT.pure, Except.pure]
      · -- the table does not say "floormod" today; kept so that a corrected `%` re-proves
        have : F.intKind .mod = "%" := by decide
        rw [this] at hm; exact absurd hm (by decide)
    · simp [Py.binOp, Py.asInt, pyArith, hy, StateT.run, pure, StateT.pure, Except.pure]

-- non-vacuity: 17 % 5 and -17 % -5 meet the hypotheses; -7 % 3 (the witness) does not
example : inRange (pyArith .mod 17 5) ∧ ((0:Int) ≤ 17 ∧ (0:Int) < 5) := by
  unfold inRange pyArith; decide

end PlzVerif.Props.C16
