import PlzVerif.Lemmas.RemoteCache
import PlzVerif.Generated.C13
/-!
C13  Remote HTTP and command caches store complete artifacts or nothing.

Status on the pinned tree:
* a Retrieve that fails partway — transport cut, damaged stream, entry with a short body, retrieve command exiting
  non-zero — is a miss, for both caches.  In the model this is how `httpRetrieve` / `cmdRetrieve` / `readToks` are
  DEFINED, so the `C13_retrieve_…` theorems are one-line consequences; what ties them to the code is `FactsOK` —
  one fact per return statement of `readTar`, the 404 / non-200 arms, the `tarOk && exit status` conjunction — and
  the correspondence runs (body cut at 5 / 30 / 60 %, short entries, failing retrieve commands);
* with no fault a Store followed by a Retrieve restores every entry (both caches);
* STORE SIDE, HTTP — FIXED (`fix:` commit in /repo): `write` now fails the request when an output cannot be read
  (`w.CloseWithError(err)`), and `C13_http_store_read_fault` holds at full strength.  Before: `write` only logged a
  failed output, went on, and closed gzip, tar and the pipe normally, so the request body ended cleanly and was
  committed (the two witnesses below, now conditional on the old fact values).  When the failed output had vanished (`Lstat` error, nothing written
  for it) the archive is well-formed and a later Retrieve is a HIT without that file: `C13_http_witness`.  The same
  happens when a ZERO-LENGTH file cannot be opened: its entry is complete, the walk of that output stops and its
  remaining files are dropped: `C13_http_witness_empty_unreadable`.  When a file with content could be stat'ed
  but not read, the header is out, the body is short, the writer is stuck, and the later Retrieve is a miss:
  `C13_http_partial`.  Were the error passed to the pipe (`CloseWithError`), the full statement would
  hold: `C13_http_if_error_propagates`.
* STORE SIDE, COMMAND — FIXED (`fix:` commit in /repo): the writer no longer writes tar's end marker after bailing
  out, so nothing a store command kept or committed after a read fault can be read back as complete:
  `C13_cmd_store_read_fault` holds at full strength for every command and every outcome of the kill race.  Before:
  the writer cancelled (killed) the command and returned — and its deferred `tw.Close()` and `w.Close()` then
  FINISHED the archive (end marker, end-of-input); the two witnesses below are conditional on that old fact value.  The kill is asynchronous, so the command usually
  receives a well-formed archive that stops at the failed output.  `cat > $CACHE_KEY` — the form used by the
  repository's own tests — keeps it: `C13_cmd_witness`.  A command that commits only on success leaves nothing IF
  the kill lands before it sees end-of-input (`C13_cmd_atomic_if_kill_wins`); when the kill loses it commits that
  archive: `C13_cmd_atomic_race_witness` (observed on the real code under load, not reproducible at will).
  What saves every OTHER partial leftover: the command cache's reader needs tar's end marker, because it never sees
  a real end-of-input (`C13_cmd_no_marker_is_miss`) — so a prefix cut anywhere, even at an entry boundary, and
  whatever a store command that failed by itself wrote, is a miss (`C13_cmd_command_failure`).
-/
namespace PlzVerif.Props.C13
open PlzVerif.RemoteCache PlzVerif.Generated

/-- The writer of the HTTP cache goes on after a failed output / passes the error to the request. -/
def httpContinues : Bool := !(C13.httpOnWalkError.contains "return" || C13.httpOnWalkError.contains "break")
def httpPropagates : Bool := C13.httpOnWalkError.contains "close-with-error"
/-- The command cache's writer finishes the archive (tar's end marker) even after bailing out: `tw.Close()` deferred. -/
def cmdFinishesOnError : Bool := C13.cmdDeferred.contains "tar.Close"

def FactsOK : Bool :=
  C13.storeFileOrder == ["lstat", "header", "open", "copy"] &&
  -- every way out of readTar: clean end of input is a hit, every error arm is a miss
  C13.readTarReturns == ["next-eof -> true, nil", "next-error -> false, err", "mkdirall -> false, err",
    "mkdirall -> false, err", "open -> false, err", "copy -> false, err", "close -> false, err",
    "symlink -> false, err"] &&
  C13.readTarLoopLeftOnlyByReturn &&
  C13.httpNotFoundIsMiss && C13.httpNon200IsError &&
  C13.cmdOnWalkError == ["cancel", "return"] && C13.cmdStoreCancellable && C13.cmdRetrieveAndsExitStatus &&
  -- why the command cache's reader needs the end marker
  C13.cmdRetrieveInputNeverEndsCleanly &&
  -- the streams are finished by closing tar, (gzip,) and the pipe, innermost last
  C13.httpDeferred == ["pipe.Close", "gzip.Close", "tar.Close"] &&
  -- since the fix of the command cache's store: the pipe is always closed, tar's end marker is written only when every
  -- output was walked
  C13.cmdDeferred == ["pipe.Close"] && C13.cmdTarClosedAtEndOfSuccessPath &&
  -- since the fix of `http-store-commits-after-read-error`: a failed output fails the request
  httpPropagates

theorem C13_facts_ok : FactsOK = true := by decide

theorem cmd_no_finish_on_error : cmdFinishesOnError = false := by decide

theorem http_propagates : httpPropagates = true := by
  have h := C13_facts_ok
  simp only [FactsOK, Bool.and_eq_true] at h
  exact h.2

/-- The HTTP store of this run's /repo. -/
def httpStore (transportOK : Bool) (outs : List (List Src)) : Option (List Tok) :=
  httpStored httpContinues httpPropagates transportOK outs

/-! ## Retrieve -/

/-- A Retrieve whose body is cut by the transport is a miss, whatever is stored. -/
theorem C13_retrieve_transport_fault_is_miss (stored : Option (List Tok)) : httpRetrieve stored false = .miss := by
  cases stored <;> rfl

/-- A stored stream with a short entry is a miss (the entries before it have been written to plz-out, but the
    result is a miss and the target is rebuilt). -/
theorem C13_retrieve_short_entry_is_miss (ts : List Tok) (t : Tok) (ht : t ∈ ts) (hf : t.full = false) (b m : Bool) :
    httpRetrieve (some ts) b = .miss ∧ cmdRetrieve (some ⟨ts, m⟩) b = .miss := by
  have : (ts.all (·.full)) = false := by
    rw [List.all_eq_false]; exact ⟨t, ht, by simp [hf]⟩
  cases b <;> cases m <;> simp [httpRetrieve, cmdRetrieve, readToks, this]

/-- Command cache: without tar's end marker there is no hit, however complete the entries are. -/
theorem C13_cmd_no_marker_is_miss (ts : List Tok) (b : Bool) : cmdRetrieve (some ⟨ts, false⟩) b = .miss := by
  simp [cmdRetrieve]

/-- A retrieve command that exits non-zero is a miss, whatever it printed. -/
theorem C13_retrieve_command_failure_is_miss (stored : Option Stored) : cmdRetrieve stored false = .miss := by
  cases stored <;> simp [cmdRetrieve]

/-- Nothing stored (404 / no file under the key) is a miss. -/
theorem C13_retrieve_absent_is_miss (b : Bool) : httpRetrieve none b = .miss ∧ cmdRetrieve none b = .miss := ⟨rfl, rfl⟩

/-! ## No fault: round trip -/

theorem C13_http_roundtrip (outs : List (List Src)) (h : anyFault outs = false) :
    httpRetrieve (httpStore true outs) true = .hit (allEnts outs) := by
  have hw := httpWrite_clean httpContinues outs ⟨[], false⟩ rfl ((anyFault_false_iff outs).mp h)
  simp only [httpStore, httpStored, hw, Bool.not_true, Bool.false_eq_true, if_false, Bool.and_false,
    httpRetrieve, if_true, List.nil_append]
  simp [readToks, Function.comp_def]

theorem C13_cmd_roundtrip (k : CmdKind) (outs : List (List Src)) (h : anyFault outs = false) (n : Nat) (c m w : Bool) :
    cmdRetrieve (cmdStored cmdFinishesOnError k outs false n c m w) true = .hit (allEnts outs) := by
  have hw := httpWrite_clean false outs ⟨[], false⟩ rfl ((anyFault_false_iff outs).mp h)
  simp only [cmdStored, cmdWrite, hw, Bool.false_eq_true, if_false, cmdRetrieve, List.nil_append, Bool.or_self]
  simp [readToks, Function.comp_def]

/-! ## Store faults, HTTP -/

/-- Where it holds: once a file that could be stat'ed cannot be read, the stream carries a short body and the
    later Retrieve is a miss — whatever else failed before or after. -/
theorem C13_http_partial (outs : List (List Src)) (t : Bool)
    (hb : (httpWrite httpContinues ⟨[], false⟩ outs).1.broken = true) :
    httpRetrieve (httpStore t outs) true = .miss := by
  have hinv := httpWrite_inv httpContinues outs ⟨[], false⟩ winv_init
  have hr := readToks_of_broken _ hinv hb
  unfold httpStore httpStored httpRetrieve
  generalize httpWrite httpContinues ⟨[], false⟩ outs = r at hr ⊢
  cases t
  · simp
  · by_cases hc : (httpPropagates && r.2) = true
    · simp [hc]
    · have hc' : (httpPropagates && r.2) = false := by simpa using hc
      simp only [Bool.not_true, Bool.false_eq_true, if_false, hc', if_true]
      exact hr

-- non-vacuity: an unreadable non-empty file in the second output
example : (httpWrite httpContinues ⟨[], false⟩ [[.ok ⟨[97], 0, [1]⟩], [.unreadable ⟨[98], 0, [2, 3]⟩], [.ok ⟨[99], 0, [4]⟩]]).1.broken = true := by
  decide

/-- THE OLD DEFECT, conditional on the old fact values (the writer goes on after a failed output and closes the pipe
    normally): outputs a, b, c; b has vanished.  The Store commits; the later Retrieve is a HIT that restores a and c —
    not a miss, and not the complete tree. -/
theorem C13_http_witness (hold : httpContinues = true ∧ httpPropagates = false) :
    ∃ (outs : List (List Src)) (restored : List Ent), anyFault outs = true ∧
      httpRetrieve (httpStore true outs) true = .hit restored ∧ restored ≠ allEnts outs := by
  unfold httpStore
  rw [hold.1, hold.2]
  exact ⟨[[.ok ⟨[97], 0, [1]⟩], [.vanished ⟨[98], 0, [2]⟩], [.ok ⟨[99], 0, [3]⟩]],
   [⟨[97], 0, [1]⟩, ⟨[99], 0, [3]⟩], by decide, by decide, by decide⟩

/-- The other trigger of the old defect (same condition): inside the directory output d, the zero-length file q cannot be
    opened.  Its entry is complete, so the writer stays healthy, but the walk of d stops: r is dropped.  The later
    Retrieve is a HIT restoring d, p and q — without r. -/
theorem C13_http_witness_empty_unreadable (hold : httpContinues = true ∧ httpPropagates = false) :
    ∃ (outs : List (List Src)) (restored : List Ent), anyFault outs = true ∧
      httpRetrieve (httpStore true outs) true = .hit restored ∧ restored ≠ allEnts outs := by
  unfold httpStore
  rw [hold.1, hold.2]
  exact ⟨[[.ok ⟨[100], 1, []⟩, .ok ⟨[100, 47, 112], 0, [1]⟩, .unreadable ⟨[100, 47, 113], 0, []⟩, .ok ⟨[100, 47, 114], 0, [2]⟩]],
   [⟨[100], 1, []⟩, ⟨[100, 47, 112], 0, [1]⟩, ⟨[100, 47, 113], 0, []⟩], by decide, by decide, by decide⟩

/-- With the error passed on to the request (the pipe closed WITH the error), any read fault leaves nothing on a
    server that commits only complete requests — the full statement, for the HTTP cache. -/
theorem C13_http_if_error_propagates (c : Bool) (outs : List (List Src)) (h : anyFault outs = true) (t b : Bool) :
    httpRetrieve (httpStored c true t outs) b = .miss := by
  have hf := httpWrite_fault c outs ⟨[], false⟩ h
  unfold httpStored httpRetrieve
  cases t <;> simp [hf]

/-- FULL STRENGTH for the repaired code (`w.CloseWithError(err)` on a failed output): whatever cannot be read —
    vanished, unreadable with or without content, anywhere in any output — the request fails, a server that commits
    only complete requests keeps nothing, and every later Retrieve is a miss. -/
theorem C13_http_store_read_fault (outs : List (List Src)) (h : anyFault outs = true) (t b : Bool) :
    httpRetrieve (httpStore t outs) b = .miss := by
  unfold httpStore
  rw [http_propagates]
  exact C13_http_if_error_propagates httpContinues outs h t b

/-- A transport failure during Store leaves nothing (server commits complete requests only). -/
theorem C13_http_store_transport_fault (outs : List (List Src)) (b : Bool) :
    httpRetrieve (httpStore false outs) b = .miss := by
  simp [httpStore, httpStored, httpRetrieve]

/-! ## Store faults, command cache -/

/-- A store command that commits only when it runs to the end leaves nothing after any read fault — provided the
    kill reaches it before it sees end-of-input. -/
theorem C13_cmd_atomic_if_kill_wins (outs : List (List Src)) (h : anyFault outs = true) (f : Bool) (n : Nat) (c m b : Bool) :
    cmdRetrieve (cmdStored cmdFinishesOnError .atomic outs f n c m true) b = .miss := by
  have hf := httpWrite_fault false outs ⟨[], false⟩ h
  simp [cmdStored, cmdWrite, hf, cmdRetrieve]

/-- THE OLD DEFECT, conditional on the old fact value (the writer finished the archive after bailing out), even for a
    commit-on-success command when the kill loses the race: outputs a, b, c; c has vanished; the writer cancels,
    finishes the archive and closes the pipe; the command reads to the end, exits 0 and commits.  The later Retrieve is a
    HIT restoring a and b. -/
theorem C13_cmd_atomic_race_witness (hold : cmdFinishesOnError = true) :
    ∃ (outs : List (List Src)) (restored : List Ent), anyFault outs = true ∧
      cmdRetrieve (cmdStored cmdFinishesOnError .atomic outs false 0 false false false) true = .hit restored ∧
      restored ≠ allEnts outs := by
  rw [hold]
  exact ⟨[[.ok ⟨[97], 0, [1]⟩], [.ok ⟨[98], 0, [2]⟩], [.vanished ⟨[99], 0, [3]⟩]],
   [⟨[97], 0, [1]⟩, ⟨[98], 0, [2]⟩], by decide, by decide, by decide⟩

/-- THE OLD DEFECT for `cat > $CACHE_KEY` (same condition): outputs a, b, c; c has vanished; both earlier entries and the
    end marker written by the deferred `tw.Close()` got through before the kill.  The file under the key is a well-formed
    archive of a and b: the later Retrieve is a HIT. -/
theorem C13_cmd_witness (hold : cmdFinishesOnError = true) :
    ∃ (outs : List (List Src)) (arrived : Nat) (restored : List Ent), anyFault outs = true ∧
      cmdRetrieve (cmdStored cmdFinishesOnError .naive outs false arrived false true true) true = .hit restored ∧
      restored ≠ allEnts outs := by
  rw [hold]
  exact ⟨[[.ok ⟨[97], 0, [1]⟩], [.ok ⟨[98], 0, [2]⟩], [.vanished ⟨[99], 0, [3]⟩]], 2,
   [⟨[97], 0, [1]⟩, ⟨[98], 0, [2]⟩], by decide, by decide, by decide⟩

/-- FULL STRENGTH for the repaired writer (no end marker after bailing out): after ANY read fault, whatever the user's
    store command is, however much of the stream it took in, and whoever wins the race between the kill and the closing
    of the pipe — a later Retrieve is a miss. -/
theorem C13_cmd_store_read_fault (k : CmdKind) (outs : List (List Src)) (h : anyFault outs = true)
    (f : Bool) (n : Nat) (c m w b : Bool) :
    cmdRetrieve (cmdStored cmdFinishesOnError k outs f n c m w) b = .miss := by
  have hf : (cmdWrite ⟨[], false⟩ outs).2 = true := httpWrite_fault false outs ⟨[], false⟩ h
  rw [cmd_no_finish_on_error]
  cases b with
  | false => cases hs : cmdStored false k outs f n c m w <;> simp [cmdRetrieve]
  | true =>
    simp only [cmdStored, hf, Bool.true_or, if_true, Bool.false_or, Bool.not_true, Bool.and_false]
    cases k with
    | atomic => cases f <;> cases w <;> simp [cmdRetrieve]
    | naive => cases c <;> simp [cmdRetrieve]

/-- … whereas everything else a `… > $CACHE_KEY` command can be left with after a read fault is a miss: a file cut
    inside an entry, and a file that stops at an entry boundary before the end marker. -/
theorem C13_cmd_naive_cut_is_miss (outs : List (List Src)) (n : Nat) (f c w : Bool)
    (hcut : c = true ∨ n < (cmdWrite ⟨[], false⟩ outs).1.toks.length)
    (hfault : (cmdWrite ⟨[], false⟩ outs).2 = true ∨ f = true) (m : Bool) :
    cmdRetrieve (cmdStored cmdFinishesOnError .naive outs f n c m w) true = .miss := by
  have hcond : ((cmdWrite ⟨[], false⟩ outs).2 || f) = true := by
    rcases hfault with h | h <;> simp [h]
  simp only [cmdStored, hcond, if_true]
  cases c with
  | true => simp [cmdRetrieve]
  | false =>
    rcases hcut with h | h
    · cases h
    · have : decide ((cmdWrite ⟨[], false⟩ outs).1.toks.length ≤ n) = false := by
        simp; omega
      simp [cmdRetrieve, this]

/-- A store command that fails by itself never leaves a hit behind when it did not take in the whole archive:
    commit-on-success commands leave nothing, the others a file without end marker. -/
theorem C13_cmd_command_failure (k : CmdKind) (outs : List (List Src)) (n : Nat) (c m w b : Bool)
    (hpart : c = true ∨ n < (cmdWrite ⟨[], false⟩ outs).1.toks.length) :
    cmdRetrieve (cmdStored cmdFinishesOnError k outs true n c m w) b = .miss := by
  cases b with
  | false => cases h : cmdStored cmdFinishesOnError k outs true n c m w <;> simp [cmdRetrieve]
  | true =>
    cases k with
    | atomic => simp [cmdStored, cmdRetrieve]
    | naive => exact C13_cmd_naive_cut_is_miss outs n true c w hpart (Or.inr rfl) m

-- non-vacuity of `C13_cmd_naive_cut_is_miss`: a, b arrived, b cut; and a, b arrived whole but no end marker; c had vanished
example : (cmdWrite ⟨[], false⟩ [[.ok ⟨[97], 0, [1]⟩], [.ok ⟨[98], 0, [2]⟩], [.vanished ⟨[99], 0, [3]⟩]]).2 = true ∧
    cmdRetrieve (cmdStored true .naive [[.ok ⟨[97], 0, [1]⟩], [.ok ⟨[98], 0, [2]⟩], [.vanished ⟨[99], 0, [3]⟩]] false 2 true false true) true = .miss ∧
    cmdRetrieve (cmdStored true .naive [[.ok ⟨[97], 0, [1]⟩], [.ok ⟨[98], 0, [2]⟩], [.vanished ⟨[99], 0, [3]⟩]] false 2 false false true) true = .miss ∧
    cmdRetrieve (cmdStored true .naive [[.ok ⟨[97], 0, [1]⟩], [.ok ⟨[98], 0, [2]⟩], [.vanished ⟨[99], 0, [3]⟩]] false 1 false true true) true = .miss := by
  decide

end PlzVerif.Props.C13
