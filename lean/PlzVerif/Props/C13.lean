import PlzVerif.Lemmas.RemoteCache
import PlzVerif.Generated.C13
/-!
C13  Remote HTTP and command caches store complete artifacts or nothing.

Status on the pinned tree:
* a Retrieve that fails partway — transport cut, damaged stream, entry with a short body, retrieve command exiting
  non-zero — is a miss, for both caches (full);
* with no fault a Store followed by a Retrieve restores every entry (both caches);
* STORE SIDE, HTTP: `write` only logs a failed output, goes on, and closes gzip, tar and the pipe normally, so the
  request body ends cleanly and is committed.  When the failed output had vanished (`Lstat` error, nothing written
  for it) the archive is well-formed and a later Retrieve is a HIT without that file: `C13_http_witness`.  The same
  happens when a ZERO-LENGTH file cannot be opened: its entry is complete, the walk of that output stops and its
  remaining files are dropped: `C13_http_witness_empty_unreadable`.  When a file with content could be stat'ed
  but not read, the header is out, the body is short, the writer is stuck, and the later Retrieve is a miss:
  `C13_http_partial`.  Were the error passed to the pipe (`CloseWithError`), the full statement would
  hold: `C13_http_if_error_propagates`.
* STORE SIDE, COMMAND: the writer cancels (kills) the command, stops, and then closes its pipe.  What is left
  depends on the user's command and on a race.  `cat > $CACHE_KEY` — the form used by the repository's own tests —
  keeps whatever arrived, and a stream that stops at an entry boundary reads as a complete archive:
  `C13_cmd_witness`.  A command that commits only on success leaves nothing IF the kill lands before the command
  sees end-of-input (`C13_cmd_atomic_if_kill_wins`); the kill is asynchronous and the pipe is closed right after
  `cancel()`, so it can lose, and then the command commits an archive that stops at the failed output:
  `C13_cmd_atomic_race_witness` (observed on the real code under load, not reproducible at will).
-/
namespace PlzVerif.Props.C13
open PlzVerif.RemoteCache PlzVerif.Generated

/-- The writer of the HTTP cache goes on after a failed output / passes the error to the request. -/
def httpContinues : Bool := !(C13.httpOnWalkError.contains "return" || C13.httpOnWalkError.contains "break")
def httpPropagates : Bool := C13.httpOnWalkError.contains "close-with-error"

def FactsOK : Bool :=
  C13.storeFileOrder == ["lstat", "header", "open", "copy"] &&
  C13.readTarEofIsHit && C13.readTarErrorIsMiss && C13.httpNotFoundIsMiss && C13.httpNon200IsError &&
  C13.cmdOnWalkError == ["cancel", "return"] && C13.cmdStoreCancellable && C13.cmdRetrieveAndsExitStatus &&
  (C13.httpClosesPipeNormally || httpPropagates)

theorem C13_facts_ok : FactsOK = true := by decide

/-- The HTTP store of this run's /repo. -/
def httpStore (transportOK : Bool) (outs : List (List Src)) : Option (List Tok) :=
  httpStored httpContinues httpPropagates transportOK outs

/-! ## Retrieve -/

/-- A Retrieve whose body is cut by the transport is a miss, whatever is stored. -/
theorem C13_retrieve_transport_fault_is_miss (stored : Option (List Tok)) : httpRetrieve stored false = .miss := by
  cases stored <;> rfl

/-- A stored stream with a short entry is a miss (the entries before it have been written to plz-out, but the
    result is a miss and the target is rebuilt). -/
theorem C13_retrieve_short_entry_is_miss (ts : List Tok) (t : Tok) (ht : t ∈ ts) (hf : t.full = false) (b : Bool) :
    httpRetrieve (some ts) b = .miss ∧ cmdRetrieve (some ts) b = .miss := by
  have : (ts.all (·.full)) = false := by
    rw [List.all_eq_false]; exact ⟨t, ht, by simp [hf]⟩
  cases b <;> simp [httpRetrieve, cmdRetrieve, readToks, this]

/-- A retrieve command that exits non-zero is a miss, whatever it printed. -/
theorem C13_retrieve_command_failure_is_miss (stored : Option (List Tok)) : cmdRetrieve stored false = .miss := by
  cases stored <;> rfl

/-- Nothing stored (404 / no file under the key) is a miss. -/
theorem C13_retrieve_absent_is_miss (b : Bool) : httpRetrieve none b = .miss ∧ cmdRetrieve none b = .miss := ⟨rfl, rfl⟩

/-! ## No fault: round trip -/

theorem C13_http_roundtrip (outs : List (List Src)) (h : anyFault outs = false) :
    httpRetrieve (httpStore true outs) true = .hit (allEnts outs) := by
  have hw := httpWrite_clean httpContinues outs ⟨[], false⟩ rfl ((anyFault_false_iff outs).mp h)
  simp only [httpStore, httpStored, hw, Bool.not_true, Bool.false_eq_true, if_false, Bool.and_false,
    httpRetrieve, if_true, List.nil_append]
  simp [readToks, Function.comp_def]

theorem C13_cmd_roundtrip (k : CmdKind) (outs : List (List Src)) (h : anyFault outs = false) (n : Nat) (c w : Bool) :
    cmdRetrieve (cmdStored k outs n c w) true = .hit (allEnts outs) := by
  have hw := httpWrite_clean false outs ⟨[], false⟩ rfl ((anyFault_false_iff outs).mp h)
  simp only [cmdStored, cmdWrite, hw, Bool.false_eq_true, if_false, cmdRetrieve, if_true, List.nil_append]
  simp [readToks, Function.comp_def]

/-! ## Store faults, HTTP -/

/-- Where it holds: once a file that could be stat'ed cannot be read, the stream carries a short body and the
    later Retrieve is a miss — whatever else failed before or after. -/
theorem C13_http_partial (outs : List (List Src)) (t : Bool)
    (hb : (httpWrite httpContinues ⟨[], false⟩ outs).1.broken = true) :
    httpRetrieve (httpStore t outs) true = .miss := by
  have hinv := httpWrite_inv httpContinues outs ⟨[], false⟩ winv_init
  have hr := readToks_of_broken _ hinv hb
  unfold httpStore httpStored httpRetrieve
  generalize httpWrite httpContinues ⟨[], false⟩ outs = r at hr ⊢
  cases t
  · simp
  · by_cases hc : (httpPropagates && r.2) = true
    · simp [hc]
    · have hc' : (httpPropagates && r.2) = false := by simpa using hc
      simp only [Bool.not_true, Bool.false_eq_true, if_false, hc', if_true]
      exact hr

-- non-vacuity: an unreadable non-empty file in the second output
example : (httpWrite httpContinues ⟨[], false⟩ [[.ok ⟨[97], 0, [1]⟩], [.unreadable ⟨[98], 0, [2, 3]⟩], [.ok ⟨[99], 0, [4]⟩]]).1.broken = true := by
  decide

/-- FULL STATEMENT FAILS for the HTTP cache: outputs a, b, c; b has vanished.  The Store commits; the later Retrieve
    is a HIT that restores a and c — not a miss, and not the complete tree. -/
theorem C13_http_witness :
    ∃ (outs : List (List Src)) (restored : List Ent), anyFault outs = true ∧
      httpRetrieve (httpStore true outs) true = .hit restored ∧ restored ≠ allEnts outs :=
  ⟨[[.ok ⟨[97], 0, [1]⟩], [.vanished ⟨[98], 0, [2]⟩], [.ok ⟨[99], 0, [3]⟩]],
   [⟨[97], 0, [1]⟩, ⟨[99], 0, [3]⟩], by decide, by decide, by decide⟩

/-- The other trigger of the same defect: inside the directory output d, the zero-length file q cannot be opened.
    Its entry is complete, so the writer stays healthy, but the walk of d stops: r is dropped.  The later Retrieve is
    a HIT restoring d, p and q — without r. -/
theorem C13_http_witness_empty_unreadable :
    ∃ (outs : List (List Src)) (restored : List Ent), anyFault outs = true ∧
      httpRetrieve (httpStore true outs) true = .hit restored ∧ restored ≠ allEnts outs :=
  ⟨[[.ok ⟨[100], 1, []⟩, .ok ⟨[100, 47, 112], 0, [1]⟩, .unreadable ⟨[100, 47, 113], 0, []⟩, .ok ⟨[100, 47, 114], 0, [2]⟩]],
   [⟨[100], 1, []⟩, ⟨[100, 47, 112], 0, [1]⟩, ⟨[100, 47, 113], 0, []⟩], by decide, by decide, by decide⟩

/-- With the error passed on to the request (the pipe closed WITH the error), any read fault leaves nothing on a
    server that commits only complete requests — the full statement, for the HTTP cache. -/
theorem C13_http_if_error_propagates (c : Bool) (outs : List (List Src)) (h : anyFault outs = true) (t b : Bool) :
    httpRetrieve (httpStored c true t outs) b = .miss := by
  have hf := httpWrite_fault c outs ⟨[], false⟩ h
  unfold httpStored httpRetrieve
  cases t <;> simp [hf]

/-- A transport failure during Store leaves nothing (server commits complete requests only). -/
theorem C13_http_store_transport_fault (outs : List (List Src)) (b : Bool) :
    httpRetrieve (httpStore false outs) b = .miss := by
  simp [httpStore, httpStored, httpRetrieve]

/-! ## Store faults, command cache -/

/-- A store command that commits only when it runs to the end leaves nothing after any read fault — provided the
    kill reaches it before it sees end-of-input. -/
theorem C13_cmd_atomic_if_kill_wins (outs : List (List Src)) (h : anyFault outs = true) (n : Nat) (c b : Bool) :
    cmdRetrieve (cmdStored .atomic outs n c true) b = .miss := by
  have hf := httpWrite_fault false outs ⟨[], false⟩ h
  simp [cmdStored, cmdWrite, hf, cmdRetrieve]

/-- FULL STATEMENT FAILS even for a commit-on-success command when the kill loses the race: outputs a, b, c; c has
    vanished; the writer cancels and closes the pipe; the command reads to the end, exits 0 and commits.  The later
    Retrieve is a HIT restoring a and b. -/
theorem C13_cmd_atomic_race_witness :
    ∃ (outs : List (List Src)) (restored : List Ent), anyFault outs = true ∧
      cmdRetrieve (cmdStored .atomic outs 0 false false) true = .hit restored ∧ restored ≠ allEnts outs :=
  ⟨[[.ok ⟨[97], 0, [1]⟩], [.ok ⟨[98], 0, [2]⟩], [.vanished ⟨[99], 0, [3]⟩]],
   [⟨[97], 0, [1]⟩, ⟨[98], 0, [2]⟩], by decide, by decide, by decide⟩

/-- FULL STATEMENT FAILS for `cat > $CACHE_KEY`: outputs a, b, c; c has vanished; both earlier entries got through
    before the kill.  The file under the key ends at an entry boundary, which the tar reader takes for the end of the
    archive: the later Retrieve is a HIT restoring a and b. -/
theorem C13_cmd_witness :
    ∃ (outs : List (List Src)) (arrived : Nat) (restored : List Ent), anyFault outs = true ∧
      cmdRetrieve (cmdStored .naive outs arrived false true) true = .hit restored ∧ restored ≠ allEnts outs :=
  ⟨[[.ok ⟨[97], 0, [1]⟩], [.ok ⟨[98], 0, [2]⟩], [.vanished ⟨[99], 0, [3]⟩]], 2,
   [⟨[97], 0, [1]⟩, ⟨[98], 0, [2]⟩], by decide, by decide, by decide⟩

/-- … whereas a file cut in the middle of an entry is a miss. -/
theorem C13_cmd_naive_cut_mid_entry (outs : List (List Src)) (h : anyFault outs = true) (n : Nat)
    (hn : ((cmdWrite ⟨[], false⟩ outs).1.toks.take n) ≠ []) :
    cmdRetrieve (cmdStored .naive outs n true true) true = .miss := by
  have hf := httpWrite_fault false outs ⟨[], false⟩ h
  simp only [cmdStored, cmdWrite] at hn ⊢
  simp only [hf, if_true, cmdRetrieve]
  cases hrev : (List.take n (httpWrite false ⟨[], false⟩ outs).1.toks).reverse with
  | nil =>
    exfalso
    apply hn
    have := congrArg List.reverse hrev
    simpa using this
  | cons t rest =>
    simp only [readToks]
    have : ((({ ent := t.ent, full := false } : Tok) :: rest).reverse.all (·.full)) = false := by
      rw [List.all_eq_false]
      exact ⟨⟨t.ent, false⟩, by simp, by simp⟩
    simp [this]

end PlzVerif.Props.C13
