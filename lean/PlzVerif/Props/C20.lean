import PlzVerif.Lemmas.Label
import PlzVerif.Model.LabelFacts
import PlzVerif.Lemmas.LabelWalk
/-!
C20  Build labels round-trip and target patterns select exactly their targets.

All statements are about the model `PlzVerif.Label` instantiated at `facts := generatedFacts`, the record the
extractor read from /repo on this run (character sets, reserved suffixes, and for every prefix test whether
it is by path component or a raw `strings.HasPrefix`).  Package names are specified as lists of path
components: `Under p q` means `p` is the root or `comps p` is a prefix of `comps q`.

Shape of the result:
  * `Includes` (command line expansion, visibility, exclude, experimental dirs): exact — proved.
  * `Matches` `...` (sandbox whitelist): exact for every pattern package other than "." — proved for the
    repaired code (fix of `matches-string-prefix`); "." still matches everything (known finding, witness).
  * sandbox opt-out (`validateSandbox`): exact (`C20_sandbox_exact`, repaired code: fix of
    `sandbox-experimental-string-prefix`) for whitelists that do not use the pattern package ".".
  * round trip: proved for every parse result whose name is validated, that is not the `_ORIGINAL` sentinel
    and whose subrepo has no trailing '/'; each of the three exceptions has a witness.
-/
namespace PlzVerif.Props.C20
open PlzVerif.Label PlzVerif.Generated

abbrev facts : Facts := generatedFacts

/-- What the proofs need from the regenerated facts. -/
def CoreOK : Bool :=
  facts.includesSlash && facts.matchesSlash && facts.sandboxExpSlash &&
  (facts.pkgBad.contains ':' && !facts.pkgBad.contains '/' && !facts.pkgBad.contains '.')

/-- Syntactic facts that pin the parts of the code the model hard-codes (dispatch literals, which
    validators each parser branch calls, pseudo-target names, which test each call site uses). -/
def ShapeOK : Bool :=
  facts.tgtBad.contains ':' && facts.tgtBad.contains '/' &&
  -- shape of the validators
  C20.pkgForbidsDoubleSlash && C20.pkgSingleCharLits == ["/"] && C20.tgtOtherLits == ["", ".", "..."] &&
  C20.tgtSuffixChecks == ["buildDirSuffix", "testDirSuffix"] && C20.validateSuffixesChecks == 4 &&
  -- shape of the parser and printer
  C20.parseLits == ["", "...", "/", "/...", "///", ":", "@"] && C20.subrepoLits == ["", "/", "//", ":"] &&
  C20.parseValidateTargetCalls == 2 && C20.parseValidatePackageCalls == 2 && C20.subrepoValidateCalls == 0 &&
  C20.parseMinLen == ["2"] && C20.tryParseRejectsEmptyName &&
  C20.stringLits == ["", "...", "/...", "//", "///", ":", "command-line targets"] &&
  C20.originalTarget == ["", "_ORIGINAL"] &&
  -- pseudo-targets, Parent, Matches, experimental dirs, sandbox whitelist
  C20.allSubpackagesName == ["..."] && C20.allTargetsName == ["all"] && C20.parentLits == ["#", "_"] &&
  C20.matchesLits == (if C20.matchesDot then ["", ".", "...", "/", "all"] else ["", "...", "/", "all"]) && C20.matchesUsesParent &&
  C20.isExperimentalUsesIncludes && C20.isExperimentalChecksSubrepo && C20.experimentalLabelName == "..." &&
  C20.sandboxWhitelistMethod == "Matches" &&
  C20.sandboxLits == ["", "%v is not whitelisted to opt out of the sandbox", "/", "_please"]

/-- Side condition on the regenerated facts (decidable). -/
def FactsOK : Bool := CoreOK && ShapeOK

/-- Obligation a code change can break: the facts extracted from /repo satisfy the side condition. -/
theorem C20_facts_ok : FactsOK = true := by decide

theorem coreOK : CoreOK = true := by
  have h := C20_facts_ok
  simp only [FactsOK, Bool.and_eq_true] at h
  exact h.1

theorem includesSlash_ok : facts.includesSlash = true := by
  have h := coreOK
  simp only [CoreOK, Bool.and_eq_true] at h
  exact h.1.1.1

/-- `Matches` tests `//p/...` by path component (since the fix of `matches-string-prefix`). -/
theorem matchesSlash_ok : facts.matchesSlash = true := by
  have h := coreOK
  simp only [CoreOK, Bool.and_eq_true] at h
  exact h.1.1.2

/-- `validateSandbox` tests experimental directories by path component (since the fix of
    `sandbox-experimental-string-prefix`). -/
theorem sandboxExpSlash_ok : facts.sandboxExpSlash = true := by
  have h := coreOK
  simp only [CoreOK, Bool.and_eq_true] at h
  exact h.1.2

theorem factsWF : FactsWF facts := by
  have h := coreOK
  simp only [CoreOK, Bool.and_eq_true, Bool.not_eq_true', List.contains_iff_mem] at h
  obtain ⟨_, ⟨h1, h2⟩, h3⟩ := h
  refine ⟨h1, fun hc => ?_, fun hc => ?_⟩
  · rw [List.contains_iff_mem.mpr hc] at h2; exact Bool.noConfusion h2
  · rw [List.contains_iff_mem.mpr hc] at h3; exact Bool.noConfusion h3

/-! ## Includes: command-line `/...` expansion, visibility, `--exclude`, experimental directories -/

/-- `//p/...` selects exactly package `p` and the packages under `p/` (component-wise), nothing else. -/
theorem C20_includes_subtree_exact (p q n s s' : Str) :
    includes facts ⟨p, dots, s⟩ ⟨q, n, s'⟩ = true ↔ Under p q :=
  includes_dots facts includesSlash_ok p q n s s'

/-- A sibling package that merely shares the name as a string prefix (`//pfoo` for `//p/...`) is never selected. -/
theorem C20_includes_never_sibling (p r n s s' : Str) (x : Char) (hp : p ≠ []) (hx : x ≠ '/') :
    includes facts ⟨p, dots, s⟩ ⟨p ++ x :: r, n, s'⟩ = false := by
  rw [Bool.eq_false_iff]; intro h
  rw [C20_includes_subtree_exact, under_iff] at h
  rcases h with h | h | h
  · exact hp h
  · have := congrArg List.length h; simp at this
  · rw [List.prefix_append_right_inj] at h
    simp [List.cons_prefix_cons] at h; exact hx h.symm

example : includes facts ⟨"p".toList, dots, []⟩ ⟨"pfoo".toList, "x".toList, []⟩ = false := by decide
example : includes facts ⟨"p".toList, dots, []⟩ ⟨"p/foo".toList, "x".toList, []⟩ = true := by decide

/-- `//p:all` selects exactly package `p`. -/
theorem C20_includes_all_exact (p q n s s' : Str) :
    includes facts ⟨p, allName, s⟩ ⟨q, n, s'⟩ = true ↔ p = q := includes_all facts p q n s s'

/-- Any other pattern selects exactly the one target. -/
theorem C20_includes_single_exact (p q n m s s' : Str) (h1 : n ≠ dots) (h2 : n ≠ allName) :
    includes facts ⟨p, n, s⟩ ⟨q, m, s'⟩ = true ↔ p = q ∧ n = m := includes_exact facts p q n m s s' h1 h2

/-- Set form (the loop of `expandOriginalPseudoTarget` over the package map): the packages selected from any
    list are exactly those under `p`. -/
theorem C20_includes_selects_exactly (p s : Str) (pkgs : List Str) :
    pkgs.filter (fun q => includes facts ⟨p, dots, s⟩ ⟨q, [], []⟩) = pkgs.filter (fun q => decide (Under p q)) := by
  apply List.filter_congr; intro q _
  have := C20_includes_subtree_exact p q [] s []
  by_cases h : Under p q
  · simp [h, this.mpr h]
  · have : includes facts ⟨p, dots, s⟩ ⟨q, [], []⟩ = false := by
      rw [Bool.eq_false_iff]; exact fun hi => h (this.mp hi)
    simp [h, this]

/-- The experimental-directory test used by visibility (`isExperimental`): exactly the top-level-repo
    packages under a configured directory. -/
theorem C20_experimental_exact (dirs : List Str) (l : Label) :
    isExperimental facts dirs l = true ↔ l.sub = [] ∧ ∃ d ∈ dirs, Under d l.pkg :=
  isExperimental_iff facts includesSlash_ok dirs l

/-! ## The command line: `//p/...` is expanded by walking the directory tree (src/plz/plz.go `findOriginalTask`,
`FindAllBuildFiles`), not by `Includes` — the walk must select what `Includes` selects

The walk is C22's model (`Model/Walk.lean`), its callback interpreted from the formulas regenerated from plz.go on this
run (`LabelWalk.walkFacts` = `Props.C22.facts`; the C20 check runs the c22 extractor too), so these obligations depend
on how `FindAllBuildFiles` treats experimental directories and the blacklist. -/

section CommandLine
open PlzVerif.Walk PlzVerif.LabelWalk

/-- **Command-line expansion selects exactly what the pattern includes, minus the documented exclusions.**
    For every repository listing `cs` of the directory `p`, experimental directories `exp` and blacklist `bl`:
    the BUILD files the walk sends are (a permutation of) the specified ones, and the BUILD file of a package `q` is
    among them iff `//p/...` `Includes` `//q:all` (label model, component-wise), `q` is a directory of the repository
    holding a BUILD file, and no directory from `p` down to `q` is excluded — `plz-out`, hidden, an experimental
    directory (root-relative whole path) or blacklisted (by name or leading whole components).  In particular a
    non-experimental package with a deeper component that merely has an experimental directory's NAME is selected. -/
theorem C20_cmdline_expansion_exact (exp bl : List Walk.Name) (p : List Walk.Name) (cs : Forest)
    (w : Forest.wf cs = true) (hn : Forest.nodup cs = true) (g : goodPath p = true) :
    (findAll walkFacts ⟨[buildName], exp, bl, []⟩ p (.dir cs)).Perm
        ((spec plzOut ⟨[buildName], exp, bl, []⟩ p (.dir cs)).map nameOf) ∧
    ∀ q : List Walk.Name, goodPath q = true →
      ((q ++ [buildName]) ∈ spec plzOut ⟨[buildName], exp, bl, []⟩ p (.dir cs) ↔
        includes facts ⟨joinSlash p, dots, []⟩ ⟨joinSlash q, allName, []⟩ = true ∧
        ∃ ds k, dirAt cs (q.drop p.length) = some ds ∧ Forest.get buildName ds = some (.leaf k) ∧
          ∀ j, j ≤ q.length - p.length →
            specExcluded plzOut ⟨[buildName], exp, bl, []⟩ (q.take (p.length + j)) = false) := by
  refine ⟨?_, ?_⟩
  · rw [walkFacts_eq]
    exact PlzVerif.Props.C22.C22_exact_set ⟨[buildName], exp, bl, []⟩ p cs w g rfl
  · intro q gq
    rw [PlzVerif.Props.C22.C22_spec_declarative ⟨[buildName], exp, bl, []⟩ p cs hn,
      includes_iff_prefix facts includesSlash_ok p q allName [] [] g gq]
    constructor
    · rintro ⟨rel, ds, b, k, hx, hd, hb, _, hex⟩
      have hx' : q ++ [buildName] = (p ++ rel) ++ [b] := by simpa using hx
      obtain ⟨hq, hbn⟩ := List.append_inj' hx' (by simp)
      have hbn' : b = buildName := by simpa using hbn.symm
      subst hq; subst hbn'
      refine ⟨List.prefix_append p rel, ds, k, by simpa using hd, hb, ?_⟩
      intro j hj
      have := hex j (by simpa using hj)
      have e : (p ++ rel).take (p.length + j) = p ++ rel.take j := by
        rw [List.take_append]; simp [List.take_of_length_le]
      rw [e]; exact this
    · rintro ⟨⟨rel, rfl⟩, ds, k, hd, hb, hex⟩
      refine ⟨rel, ds, buildName, k, by simp, by simpa using hd, hb, by simp, ?_⟩
      intro j hj
      have := hex j (by simpa using hj)
      have e : (p ++ rel).take (p.length + j) = p ++ rel.take j := by
        rw [List.take_append]; simp [List.take_of_length_le]
      rw [e] at this; exact this

/-- The seed shape, positively: experimental dir `experimental` at the root; `//src/...` selects the
    NON-experimental packages `src/experimental` and `src/experimental/deep`, `//...` selects them too and leaves
    out only `experimental/x`. -/
example :
    let repo := repoOf [[ "src".toList, "experimental".toList ], [ "src".toList, "experimental".toList, "deep".toList ],
      [ "experimental".toList, "x".toList ], [ "srcx".toList ]]
    cmdlineSelect walkFacts [buildName] ["experimental".toList] [] ["src".toList] repo =
      some ["src/experimental".toList, "src/experimental/deep".toList] ∧
    cmdlineSelect walkFacts [buildName] ["experimental".toList] [] [] repo =
      some ["src/experimental".toList, "src/experimental/deep".toList, "srcx".toList] := by decide

end CommandLine

/-! ## Matches: the sandbox opt-out whitelist -/

/-- `Matches` never misses: everything under `p` is matched by `//p/...`, whichever prefix test is used. -/
theorem C20_matches_subtree_complete (p q n s s' : Str) (h : Under p q) :
    matchesF facts ⟨p, dots, s⟩ ⟨q, n, s'⟩ = true := by
  cases hm : facts.matchesSlash
  · rw [matches_dots_raw facts hm]; exact Or.inr (under_imp_prefix h)
  · rw [matches_dots_slash facts hm]; exact Or.inr h

/-- Full statement, conditional on the regenerated facts: if `Matches` tests by component (and has no "."
    special case) then `//p/...` matches exactly the packages under `p`. -/
theorem C20_matches_subtree_exact_of_component_test (hs : facts.matchesSlash = true) (hd : facts.matchesDot = false)
    (p q n s s' : Str) : matchesF facts ⟨p, dots, s⟩ ⟨q, n, s'⟩ = true ↔ Under p q := by
  rw [matches_dots_slash facts hs]; simp [hd]

/-- What `Matches` computes when it uses a raw `strings.HasPrefix` (the pinned tree). -/
theorem C20_matches_subtree_raw (hs : facts.matchesSlash = false) (p q n s s' : Str) :
    matchesF facts ⟨p, dots, s⟩ ⟨q, n, s'⟩ = true ↔ (facts.matchesDot = true ∧ p = ['.']) ∨ p <+: q :=
  matches_dots_raw facts hs p q n s s'

/-- What `//p/...` matches, exactly (repaired code): the packages under `p`, plus everything when `p` is "."
    and the "." special case is present (known finding `matches-dot-package-matches-all`). -/
theorem C20_matches_subtree_characterisation (p q n s s' : Str) :
    matchesF facts ⟨p, dots, s⟩ ⟨q, n, s'⟩ = true ↔ (facts.matchesDot = true ∧ p = ['.']) ∨ Under p q :=
  matches_dots_slash facts matchesSlash_ok p q n s s'

/-- `//p/...` matches exactly package `p` and the packages under `p/` — never a sibling that merely shares the
    prefix — for every pattern package other than ".". -/
theorem C20_matches_subtree_exact (p q n s s' : Str) (h1 : p ≠ ['.']) :
    matchesF facts ⟨p, dots, s⟩ ⟨q, n, s'⟩ = true ↔ Under p q := by
  rw [C20_matches_subtree_characterisation]
  constructor
  · rintro (⟨_, h⟩ | h)
    · exact absurd h h1
    · exact h
  · exact Or.inr

example : matchesF facts ⟨"p".toList, dots, []⟩ ⟨"pfoo".toList, ['x'], []⟩ = false ∧
    matchesF facts ⟨"p".toList, dots, []⟩ ⟨"p/foo".toList, ['x'], []⟩ = true := by decide

/-- A sibling package sharing the name as a string prefix is never matched. -/
theorem C20_matches_never_sibling (p r n s s' : Str) (x : Char) (hp : p ≠ []) (hd : p ≠ ['.']) (hx : x ≠ '/') :
    matchesF facts ⟨p, dots, s⟩ ⟨p ++ x :: r, n, s'⟩ = false := by
  rw [Bool.eq_false_iff]; intro h
  rw [C20_matches_subtree_exact _ _ _ _ _ hd, under_iff] at h
  rcases h with h | h | h
  · exact hp h
  · have := congrArg List.length h; simp at this
  · rw [List.prefix_append_right_inj] at h
    simp [List.cons_prefix_cons] at h; exact hx h.symm

/-- Witness of the repaired defect (class `matches-string-prefix`), conditional on the OLD fact value: with the
    raw prefix test `//p/...` matched `//pfoo:x`. -/
theorem C20_witness_matches_prefix (hs : facts.matchesSlash = false) :
    ∃ p q : Str, matchesF facts ⟨p, dots, []⟩ ⟨q, ['x'], []⟩ = true ∧ ¬ Under p q := by
  refine ⟨"p".toList, "pfoo".toList, ?_, by decide⟩
  rw [matches_dots_raw facts hs]; right; decide

/-- Witness (class `matches-dot-package-matches-all`): `//./...` matches every package. -/
theorem C20_witness_matches_dot (hd : facts.matchesDot = true) :
    ∃ q : Str, matchesF facts ⟨['.'], dots, []⟩ ⟨q, ['x'], []⟩ = true ∧ ¬ Under ['.'] q := by
  refine ⟨"foo".toList, ?_, by decide⟩
  rw [C20_matches_subtree_characterisation]; left; exact ⟨hd, rfl⟩

/-- `//p:all` matches exactly package `p`. -/
theorem C20_matches_all_exact (p q n s s' : Str) :
    matchesF facts ⟨p, allName, s⟩ ⟨q, n, s'⟩ = true ↔ p = q := matches_all facts p q n s s'

/-! ## validateSandbox: whitelist and experimental directories -/

/-- What the whitelist is documented to match. -/
def SpecMatches (w o : Label) : Prop :=
  if w.name = dots then Under w.pkg o.pkg else if w.name = allName then w.pkg = o.pkg else w = parent o

instance (w o : Label) : Decidable (SpecMatches w o) := by unfold SpecMatches; exact inferInstance

/-- The documented acceptance rule of `validateSandbox`. -/
def SandboxSpec (wl : List Label) (dirs : List Str) (t : SbxTarget) : Prop :=
  sbxExempt wl t = true ∨ (∃ w ∈ wl, SpecMatches w t.label) ∨ (∃ d ∈ dirs, Under d t.label.pkg)

theorem specMatches_imp (w o : Label) (h : SpecMatches w o) : matchesF facts w o = true := by
  unfold SpecMatches at h
  by_cases h1 : w.name = dots
  · simp only [h1, if_true] at h
    cases w; cases o; simp only at h1; subst h1
    exact C20_matches_subtree_complete _ _ _ _ _ h
  · by_cases h2 : w.name = allName
    · simp only [h1, h2, if_true, if_false] at h
      cases w; cases o; simp only at h2 h; subst h2
      exact (C20_matches_all_exact _ _ _ _ _).mpr h
    · simp only [h1, h2, if_false] at h
      have e1 : (w.name == dots) = false := by simpa using h1
      have e2 : (w.name == allName) = false := by simpa using h2
      simp only [matchesF, e1, e2]
      simpa using h

/-- The sandbox check never rejects a target the documented rule accepts (whichever prefix tests are used). -/
theorem C20_sandbox_complete (wl : List Label) (dirs : List Str) (t : SbxTarget) (h : SandboxSpec wl dirs t) :
    validateSandbox facts wl dirs t = true := by
  rw [validateSandbox_iff]
  rcases h with h | ⟨w, hw, h⟩ | ⟨d, hd, h⟩
  · exact Or.inl h
  · exact Or.inr (Or.inl ⟨w, hw, specMatches_imp w _ h⟩)
  · refine Or.inr (Or.inr ⟨d, hd, ?_⟩)
    cases hs : facts.sandboxExpSlash
    · rw [sbxDirTest_raw hs]; exact under_imp_prefix h
    · rw [sbxDirTest_slash hs]; exact h

/-- Full statement, conditional on the regenerated facts: with component-wise tests at both sites the sandbox
    opt-out is accepted exactly for the documented targets. -/
theorem C20_sandbox_exact_of_component_tests (hs : facts.matchesSlash = true) (hd : facts.matchesDot = false)
    (he : facts.sandboxExpSlash = true) (wl : List Label) (dirs : List Str) (t : SbxTarget) :
    validateSandbox facts wl dirs t = true ↔ SandboxSpec wl dirs t := by
  refine ⟨fun h => ?_, C20_sandbox_complete wl dirs t⟩
  rw [validateSandbox_iff] at h
  rcases h with h | ⟨w, hw, h⟩ | ⟨d, hd', h⟩
  · exact Or.inl h
  · refine Or.inr (Or.inl ⟨w, hw, ?_⟩)
    unfold SpecMatches
    by_cases h1 : w.name = dots
    · simp only [h1, if_true]
      cases w; cases hl : t.label; rw [hl] at h; simp only at h1; subst h1
      exact (C20_matches_subtree_exact_of_component_test hs hd _ _ _ _ _).mp h
    · by_cases h2 : w.name = allName
      · simp only [h1, h2, if_true, if_false]
        cases w; cases hl : t.label; rw [hl] at h; simp only at h2; subst h2
        exact (C20_matches_all_exact _ _ _ _ _).mp h
      · simp only [h1, h2, if_false]
        have e1 : (w.name == dots) = false := by simpa using h1
        have e2 : (w.name == allName) = false := by simpa using h2
        simp only [matchesF, e1, e2] at h
        simpa using h
  · exact Or.inr (Or.inr ⟨d, hd', (sbxDirTest_slash he _ _).mp h⟩)

/-- The experimental-directory exemption of `validateSandbox` applies exactly to the packages under a
    configured directory (repaired code). -/
theorem C20_sandbox_experimental_exact (pkg d : Str) : sbxDirTest facts pkg d = true ↔ Under d pkg :=
  sbxDirTest_slash sandboxExpSlash_ok pkg d

example : sbxDirTest facts "expfoo".toList "exp".toList = false ∧ sbxDirTest facts "exp/foo".toList "exp".toList = true := by
  decide

/-- The property for the sandbox opt-out (repaired code): it is accepted exactly for the documented targets,
    for every whitelist that does not use the pattern package "." (known finding `matches-dot-package-matches-all`). -/
theorem C20_sandbox_exact (wl : List Label) (dirs : List Str) (t : SbxTarget)
    (hdot : ∀ w ∈ wl, w.name = dots → w.pkg ≠ ['.']) :
    validateSandbox facts wl dirs t = true ↔ SandboxSpec wl dirs t := by
  refine ⟨fun h => ?_, C20_sandbox_complete wl dirs t⟩
  rw [validateSandbox_iff] at h
  rcases h with h | ⟨w, hw, h⟩ | ⟨d, hd', h⟩
  · exact Or.inl h
  · refine Or.inr (Or.inl ⟨w, hw, ?_⟩)
    unfold SpecMatches
    by_cases h1 : w.name = dots
    · simp only [h1, if_true]
      have hp := hdot w hw h1
      cases w; cases hl : t.label; rw [hl] at h; simp only at h1 hp; subst h1
      exact (C20_matches_subtree_exact _ _ _ _ _ hp).mp h
    · by_cases h2 : w.name = allName
      · simp only [h1, h2, if_true, if_false]
        cases w; cases hl : t.label; rw [hl] at h; simp only at h2; subst h2
        exact (C20_matches_all_exact _ _ _ _ _).mp h
      · simp only [h1, h2, if_false]
        have e1 : (w.name == dots) = false := by simpa using h1
        have e2 : (w.name == allName) = false := by simpa using h2
        simp only [matchesF, e1, e2] at h
        simpa using h
  · exact Or.inr (Or.inr ⟨d, hd', (C20_sandbox_experimental_exact _ _).mp h⟩)

-- non-vacuity: a whitelist with a subtree pattern, an `:all` pattern and an exact label meets the side condition
example : ∀ w ∈ [(⟨"third_party".toList, dots, []⟩ : Label), ⟨"tools".toList, allName, []⟩, ⟨"a".toList, "x".toList, []⟩],
    w.name = dots → w.pkg ≠ ['.'] := by decide

/-- What is accepted, in terms of the two tests (by `validateSandbox_iff`). -/
theorem C20_sandbox_characterisation (wl : List Label) (dirs : List Str) (t : SbxTarget) :
    validateSandbox facts wl dirs t = true ↔
      sbxExempt wl t = true ∨ (∃ w ∈ wl, matchesF facts w t.label = true) ∨
        (∃ d ∈ dirs, sbxDirTest facts t.label.pkg d = true) := validateSandbox_iff facts wl dirs t

/-- Witness of the repaired defect (class `sandbox-experimental-string-prefix`), conditional on the OLD fact value:
    with experimental dir `exp`, an unsandboxed target in the sibling package `expfoo` was allowed to opt out. -/
theorem C20_witness_sandbox_experimental (he : facts.sandboxExpSlash = false) :
    ∃ (wl : List Label) (dirs : List Str) (t : SbxTarget),
      validateSandbox facts wl dirs t = true ∧ ¬ SandboxSpec wl dirs t := by
  refine ⟨[⟨"w".toList, allName, []⟩], ["exp".toList], ⟨false, false, false, none, ⟨"expfoo".toList, ['x'], []⟩⟩, ?_, ?_⟩
  · rw [validateSandbox_iff]; right; right
    exact ⟨"exp".toList, by simp, by rw [sbxDirTest_raw he]; decide⟩
  · rintro (h | ⟨w, hw, h⟩ | ⟨d, hd, h⟩)
    · revert h; decide
    · simp at hw; subst hw; revert h; decide
    · simp at hd; subst hd; revert h; decide

/-! ## Round trip: parse, print, parse again -/

/-- Every label whose parts are valid prints to a string that parses back to it, in any context. -/
theorem C20_print_parse (l : Label) (c : Canon facts l) (cp : Str) : tryParse facts (toStr l) cp [] = some l :=
  print_parse factsWF c cp

-- non-vacuity: a label with a subrepo, a nested package and a plain name is canonical (decidable side conditions)
example : Canon facts ⟨"a/b".toList, "c".toList, "s/t".toList⟩ :=
  ⟨by decide, by decide, Or.inr (by decide), by decide, by decide, by decide⟩
example : Canon facts ⟨"a".toList, dots, []⟩ := ⟨by decide, by decide, Or.inl rfl, subOK_nil⟩

/-- Every valid explicit label string `//pkg:name` parses, to exactly its parts. -/
theorem C20_valid_explicit_parses (p n cp sr : Str) (hp : validPkg facts p = true) (hn : validTgt facts n = true)
    (hd : n ≠ dots) : tryParse facts ('/' :: '/' :: (p ++ ':' :: n)) cp sr = some ⟨p, n, sr⟩ := by
  have hb : body ⟨p, n, sr⟩ = p ++ ':' :: n := by simp [body, hd]
  have hh := body_head (l := ⟨p, n, sr⟩) hp
  have := parseAbs_body factsWF (l := ⟨p, n, sr⟩) hp (Or.inr hn) sr
  rw [hb] at this hh
  unfold tryParse parseParts
  simp only [List.length_cons]
  rw [parsePartsF_abs _ _ _ _ _ hh, this]
  simp [hd, validTgt_ne_nil hn]

example : validPkg facts "a/b.c".toList = true ∧ validTgt facts "_x#y".toList = true ∧ "_x#y".toList ≠ dots := by decide

/-- A successful parse in a valid context always yields a valid package name and a subrepo without ':' or "//". -/
theorem C20_parse_yields_valid_package (t cp sr : Str) (l : Label) (h : tryParse facts t cp sr = some l)
    (hcp : validPkg facts cp = true) (hsr : ':' ∉ sr ∧ hasDbl sr = false) :
    validPkg facts l.pkg = true ∧ ':' ∉ l.sub ∧ hasDbl l.sub = false := by
  obtain ⟨hp, hne⟩ := tryParse_some h
  exact ⟨(parsePartsF_ok _ hp hne hcp).1, parsePartsF_sub_ok hp hne hcp hsr⟩

/-- Round trip, partial: whatever string was parsed (all forms, any nesting of subrepo prefixes), in any valid
    context, the printed form parses back to the same label — provided the label is outside the three known
    classes: an unvalidated name (abbreviated forms), a subrepo with a trailing '/', the `_ORIGINAL` sentinel.
    Full statement (false on the pinned tree, see the witnesses):
      tryParse facts t cp sr = some l → tryParse facts (toStr l) cp' [] = some l. -/
theorem C20_roundtrip_partial (t cp sr : Str) (l : Label) (h : tryParse facts t cp sr = some l)
    (hcp : validPkg facts cp = true) (hsr : ':' ∉ sr ∧ hasDbl sr = false)
    (h1 : l ≠ original) (h2 : l.name = dots ∨ validTgt facts l.name = true) (h3 : l.sub.getLast? ≠ some '/')
    (cp' : Str) : tryParse facts (toStr l) cp' [] = some l :=
  print_parse factsWF (canon_of_parse h hcp hsr h1 h2 h3) cp'

example : tryParse facts "@s//a/b:c".toList [] [] = some ⟨"a/b".toList, "c".toList, "s".toList⟩ := by decide

/-- Round trip for every string that names its target explicitly (contains a ':'): the name was validated, so
    only the sentinel and the trailing-'/' subrepo remain as exceptions. -/
theorem C20_roundtrip_explicit (t cp sr : Str) (l : Label) (h : tryParse facts t cp sr = some l)
    (hcp : validPkg facts cp = true) (hsr : ':' ∉ sr ∧ hasDbl sr = false) (hc : ':' ∈ t)
    (h1 : l ≠ original) (h3 : l.sub.getLast? ≠ some '/') (cp' : Str) :
    tryParse facts (toStr l) cp' [] = some l :=
  C20_roundtrip_partial t cp sr l h hcp hsr h1 (Or.inr (name_validated_of_colon h hcp hc)) h3 cp'

/-- The three classes are exactly the failures: for any parse result in a valid context, the printed form
    parses back to the same label if and only if the label is not the sentinel, its name is validated (or is
    `...`), and its subrepo has no trailing '/'. -/
theorem C20_roundtrip_iff (t cp sr : Str) (l : Label) (h : tryParse facts t cp sr = some l)
    (hcp : validPkg facts cp = true) (hsr : ':' ∉ sr ∧ hasDbl sr = false) (cp' : Str) :
    tryParse facts (toStr l) cp' [] = some l ↔
      (l ≠ original ∧ (l.name = dots ∨ validTgt facts l.name = true) ∧ l.sub.getLast? ≠ some '/') := by
  constructor
  · intro hr
    obtain ⟨hpk, hsc, hsd⟩ := C20_parse_yields_valid_package t cp sr l h hcp hsr
    obtain ⟨_, hne⟩ := tryParse_some h
    have h1 : l ≠ original := by
      intro e; rw [e, tryParse_original] at hr; exact absurd hr (by simp)
    have h3 : l.sub.getLast? ≠ some '/' := fun hl => reparse_sub_slash h1 hne hsc hsd hl cp' hr
    refine ⟨h1, ?_, h3⟩
    by_cases hd : l.name = dots
    · exact Or.inl hd
    · right
      cases hv : validTgt facts l.name with
      | true => rfl
      | false =>
        rw [reparse_bad_name factsWF h1 hpk hne hd hv ⟨hsc, hsd, h3⟩ cp'] at hr
        exact absurd hr (by simp)
  · rintro ⟨h1, h2, h3⟩
    exact C20_roundtrip_partial t cp sr l h hcp hsr h1 h2 h3 cp'

/-- Witness (class `roundtrip-abbrev-name-unvalidated`): `//a/.b` parses to `//a/.b:.b`, which does not parse. -/
theorem C20_witness_roundtrip_abbrev :
    ∃ (t : Str) (l : Label), tryParse facts t [] [] = some l ∧ tryParse facts (toStr l) [] [] ≠ some l :=
  ⟨"//a/.b".toList, ⟨"a/.b".toList, ".b".toList, []⟩, by decide, by decide⟩

/-- Witness (class `roundtrip-subrepo-abbrev-name-unvalidated`): `@.b` parses to `///.b//:.b`, which does not parse. -/
theorem C20_witness_roundtrip_subrepo_abbrev :
    ∃ (t : Str) (l : Label), tryParse facts t [] [] = some l ∧ tryParse facts (toStr l) [] [] ≠ some l :=
  ⟨"@.b".toList, ⟨[], ".b".toList, ".b".toList⟩, by decide, by decide⟩

/-- Witness (class `roundtrip-subrepo-trailing-slash`): `@a/:b` has subrepo `a/`; `///a///:b` re-parses with subrepo `a`. -/
theorem C20_witness_roundtrip_subrepo_slash :
    ∃ (t : Str) (l : Label), tryParse facts t [] [] = some l ∧ tryParse facts (toStr l) [] [] ≠ some l :=
  ⟨"@a/:b".toList, ⟨[], "b".toList, "a/".toList⟩, by decide, by decide⟩

/-- Witness (class `roundtrip-original-target-sentinel`): `//:_ORIGINAL` is the sentinel, printed as prose. -/
theorem C20_witness_roundtrip_sentinel :
    ∃ (t : Str) (l : Label), tryParse facts t [] [] = some l ∧ tryParse facts (toStr l) [] [] ≠ some l :=
  ⟨"//:_ORIGINAL".toList, original, by decide, by decide⟩

end PlzVerif.Props.C20
