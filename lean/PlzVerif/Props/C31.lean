import PlzVerif.Lemmas.LockProgress
import PlzVerif.Lemmas.LockRuns
import PlzVerif.Lemmas.LockNext
import PlzVerif.Model.LockFacts
import PlzVerif.Lemmas.LockTest
import PlzVerif.Lemmas.LockFrame
/-!
C31  Concurrent plz invocations on one repo do not corrupt outputs.

Model (`Model/Lock.lean`): any number of processes `ps`, each asked for a dependency-closed set of targets
(`req p`), each with any number of workers in flight; a worker executes the coordinator's build step for one
target as a sequence of atomic filesystem operations bracketed by the per-target `flock`, reading the outputs of
its dependencies WITHOUT their locks, in a tmp directory that all processes share.  `Step` is the interleaving of
all enabled steps; every theorem below is about EVERY state reachable from an arbitrary initial plz-out that
satisfies C01's history invariant (in particular the empty one, and whatever earlier builds left), i.e. about all
schedules.  The model is instantiated with the facts regenerated from /repo on this run (`generatedFacts` from
needsBuilding/moveOutput, `generatedLFacts` from lock.go / buildTarget / please.go).

Conditional, exactly like C01, on the two hash pre-image idealisations (`hR`, `hP` = the statements of C08/C09).
Assumed and not proved: actions are deterministic functions of their declared inputs (`exec` is a function);
sources and BUILD files do not change while the invocations run (`r` is fixed along a run); `flock(2)` excludes
between open file descriptions and `rename(2)` is atomic.  Modelled, not verified: one output per target (an
output tree is one value `C`), xattr mode (the stamp lives on the output file), the stamp computed at check time.
Real schedules are sampled by the end-to-end harness (harness/cmd/c31), which also replays `C31_lock_needed`'s
scenario shape on the real binary.  Facts that are recorded for the reader but enter no condition: `repoLockCalls`
(who else takes the repo lock: only `plz update`, exclusively), `repoLockFile`, `buildDirSuffix`.
-/
namespace PlzVerif.Props.C31
open PlzVerif.Build PlzVerif.Lock
set_option linter.unusedSectionVars false

/-- Obligation a code change can break: the facts regenerated from lock.go, buildTarget, prepareDirectories,
    moveOutput, needsBuilding, please.go and test_step.go satisfy the side condition of the theorems below. -/
theorem C31_facts_ok : LockFactsOK = true := by decide

theorem facts_parts : generatedFacts.cmpRule = true ∧ generatedFacts.cmpSource = true ∧ generatedFacts.keepOld = true ∧
    generatedLFacts.excl = true := by
  have h := C31_facts_ok
  simp only [LockFactsOK, Bool.and_eq_true] at h
  obtain ⟨⟨⟨⟨⟨⟨⟨⟨⟨a, b⟩, c⟩, _⟩, _⟩, e⟩, _⟩, _⟩, _⟩, _⟩ := h
  exact ⟨a, b, c, e⟩

section
variable {P K A F N C S H : Type} [DecidableEq P] [DecidableEq K] [DecidableEq S] [DecidableEq N] [DecidableEq H]
variable (exec : A → List (N × C) → C) (ruleSer : A → S) (pathSer : C → H)
variable (r : Repo K A F N C) (ps : List P) (req : P → K → Bool) (force : P → K → Bool)

/-- Reachability in the model instantiated with the regenerated facts. -/
abbrev GReach (s0 s : State P K C S N H) : Prop :=
  Reach generatedFacts generatedLFacts exec ruleSer pathSer r ps req force s0 s

abbrev GStep (s s' : State P K C S N H) : Prop :=
  Step generatedFacts generatedLFacts exec ruleSer pathSer r ps req force s s'

/-- What is assumed about a scenario: a well-formed repository (keys distinct, dependencies earlier), requests
    closed under dependencies, injective hash pre-images (C08, C09), and an initial state in which nothing is
    running on a plz-out that satisfies C01's history invariant. -/
structure Scenario (s0 : State P K C S N H) : Prop where
  wf     : WF r
  closed : ∀ p, ∀ t ∈ r.targets, req p t.key = true → ∀ d ∈ t.deps, req p d = true
  hR     : Function.Injective ruleSer
  hP     : Function.Injective pathSer
  init   : Init s0
  hist   : Hist exec ruleSer pathSer s0.gen s0.stamp

variable {exec ruleSer pathSer r ps req force}

theorem Scenario.hyp {s0 : State P K C S N H} (sc : Scenario exec ruleSer pathSer r req s0) :
    Hyp generatedFacts generatedLFacts ruleSer pathSer r req :=
  ⟨sc.wf, sc.closed, ⟨facts_parts.1, facts_parts.2.1⟩, facts_parts.2.2.1, facts_parts.2.2.2, sc.hR, sc.hP⟩

theorem Scenario.inv {s0 s : State P K C S N H} (sc : Scenario exec ruleSer pathSer r req s0)
    (hr : GReach exec ruleSer pathSer r ps req force s0 s) : Inv generatedLFacts exec ruleSer pathSer r ps req s :=
  reach_inv sc.hyp sc.init sc.hist hr

/-- Mutual exclusion: two workers are never inside the critical section of the same target. -/
theorem C31_mutex {s0 s : State P K C S N H} (sc : Scenario exec ruleSer pathSer r req s0)
    (hr : GReach exec ruleSer pathSer r ps req force s0 s) {t : Target K A F} (ht : t ∈ r.targets) {p q : P}
    (hp : (s.pc p t.key).inCS = true) (hq : (s.pc q t.key).inCS = true) : p = q :=
  ((sc.inv hr).key t ht).mutex hp hq

/-- … and whoever is inside holds the target's lock. -/
theorem C31_lock_held {s0 s : State P K C S N H} (sc : Scenario exec ruleSer pathSer r req s0)
    (hr : GReach exec ruleSer pathSer r ps req force s0 s) {t : Target K A F} (ht : t ∈ r.targets) {p : P}
    (hp : (s.pc p t.key).inCS = true) : s.lock t.key = some p :=
  ((sc.inv hr).key t ht).lockCS p hp

/-- No invocation ever takes an error path of buildTarget (missing dependency output, "rule failed to create
    output", missing output when the hash is recorded): every process can only exit successfully. -/
theorem C31_never_fails {s0 s : State P K C S N H} (sc : Scenario exec ruleSer pathSer r req s0)
    (hr : GReach exec ruleSer pathSer r ps req force s0 s) (p : P) (k : K) : s.pc p k ≠ .failed :=
  reach_nofail sc.hyp sc.init sc.hist hr p k

theorem C31_fail_never_enabled {s0 s : State P K C S N H} (sc : Scenario exec ruleSer pathSer r req s0)
    (hr : GReach exec ruleSer pathSer r ps req force s0 s) {t : Target K A F} (ht : t ∈ r.targets) (p : P) :
    ¬ FailCond r s p t :=
  no_fail sc.hyp (sc.inv hr) ht

/-- A reader of a dependency's outputs (needsBuilding hashing its sources, the action reading them through the
    symlinks in its tmp dir) always sees the complete, final, clean output of every dependency — never a missing
    or half-replaced one — although it does not hold the dependency's lock. -/
theorem C31_reader_sees_clean {s0 s : State P K C S N H} (sc : Scenario exec ruleSer pathSer r req s0)
    (hr : GReach exec ruleSer pathSer r ps req force s0 s) {t : Target K A F} (ht : t ∈ r.targets) {p : P}
    (hne : s.pc p t.key ≠ .idle) :
    readIns r s.gen t = some (cins exec r t) ∧ ∀ d ∈ t.deps, ∃ c, s.gen d = some c ∧ cval exec r d = some c := by
  have hi := sc.inv (force := force) hr
  refine ⟨reads_clean sc.hyp hi ht hne, ?_⟩
  intro d hd
  obtain ⟨td, htd, hk⟩ := wf_dep_is_target r sc.wf t ht d hd
  have hf := hi.deps p t ht hne d hd
  subst hk
  exact ⟨_, fin_clean sc.hyp hi htd hf, cval_spec exec r sc.wf td htd⟩

/-- Once some process has finished a target, its output never changes again: a later entrant either finds
    needsBuilding = false or (`--rebuild`) rebuilds to the same bytes and moveOutput keeps the file. -/
theorem C31_output_stable {s0 s s' : State P K C S N H} (sc : Scenario exec ruleSer pathSer r req s0)
    (hr : GReach exec ruleSer pathSer r ps req force s0 s) (hs : GStep exec ruleSer pathSer r ps req force s s')
    {t : Target K A F} (ht : t ∈ r.targets) {q : P} (hf : s.pc q t.key = .finished) :
    s'.gen t.key = s.gen t.key ∧ s.gen t.key = some (cleanv exec r t) := by
  have h1 := fin_clean sc.hyp (sc.inv hr) ht hf
  have h2 := fin_clean sc.hyp (sc.inv (.step hr hs)) ht (step_fin_mono hs hf)
  exact ⟨by rw [h1, h2], h1⟩

/-- Every target a process has finished holds exactly the output of a clean build of what THAT process asked for. -/
theorem C31_finished_eq_clean {s0 s : State P K C S N H} (sc : Scenario exec ruleSer pathSer r req s0)
    (hr : GReach exec ruleSer pathSer r ps req force s0 s) {t : Target K A F} (ht : t ∈ r.targets) {p : P}
    (hf : s.pc p t.key = .finished) :
    ∃ c, s.gen t.key = some c ∧ (clean exec r (req p)).lookup t.key = some c := by
  have hi := sc.inv (force := force) hr
  have hreq := (hi.active p t ht (by rw [hf]; simp)).1
  refine ⟨cleanv exec r t, fin_clean sc.hyp hi ht hf, ?_⟩
  rw [clean_sel_eq_cval exec r (req p) (sc.closed p) t.key hreq]
  exact cval_spec exec r sc.wf t ht

/-- THE PROPERTY: when every invocation has exited, plz-out holds, for every target any of them was asked for,
    exactly what a single clean build of that request produces. -/
theorem C31_final_eq_clean {s0 s : State P K C S N H} (sc : Scenario exec ruleSer pathSer r req s0)
    (hr : GReach exec ruleSer pathSer r ps req force s0 s) (hterm : Terminal ps s) :
    ∀ p ∈ ps, ∀ t ∈ r.targets, req p t.key = true →
      ∃ c, s.gen t.key = some c ∧ (clean exec r (req p)).lookup t.key = some c := by
  intro p hp t ht hrq
  have hf := reach_left sc.init hr p (hterm p hp) t ht hrq
  exact C31_finished_eq_clean sc hr ht hf

/-- Frame: "exactly the outputs of a clean build" also means nothing else is disturbed — a target no invocation was
    asked for (directly or as a dependency) keeps its initial output and stamp, its tmp dir is not touched and its
    action never runs; the same holds for every key that is not a target at all. -/
theorem C31_unrequested_untouched {s0 s : State P K C S N H} (sc : Scenario exec ruleSer pathSer r req s0)
    (hr : GReach exec ruleSer pathSer r ps req force s0 s) {t : Target K A F} (ht : t ∈ r.targets)
    (hn : ∀ p ∈ ps, req p t.key = false) :
    s.gen t.key = s0.gen t.key ∧ s.stamp t.key = s0.stamp t.key ∧ s.tmp t.key = s0.tmp t.key ∧ s.runs t.key = 0 := by
  have hi := sc.inv (force := force) hr
  have hidle : ∀ p, s.pc p t.key = .idle := by
    intro p
    apply Classical.byContradiction
    intro hne
    obtain ⟨hreq, hp, _⟩ := hi.active p t ht hne
    rw [hn p hp] at hreq
    exact absurd hreq (by simp)
  obtain ⟨a, b, _, d, e⟩ := reach_untouched hr t.key hidle
  exact ⟨a, b, d, by rw [e, sc.init.runs]⟩

/-- No deadlock: as long as some invocation has not exited, some step is enabled (locks are taken one at a time
    and never nested; the repo lock is shared — or, if exclusive, its holder can always proceed). -/
theorem C31_progress {s0 s : State P K C S N H} (sc : Scenario exec ruleSer pathSer r req s0)
    (hr : GReach exec ruleSer pathSer r ps req force s0 s) (hnt : ¬ Terminal ps s) :
    ∃ s', GStep exec ruleSer pathSer r ps req force s s' :=
  progress sc.hyp (sc.inv hr) (reach_nofail sc.hyp sc.init sc.hist hr) hnt

/-- Every execution is finite: at most `|ps| * (2 + 11 * |targets|)` steps. -/
theorem C31_bounded {s0 s : State P K C S N H} (sc : Scenario exec ruleSer pathSer r req s0) {n : Nat}
    (h : ReachN generatedFacts generatedLFacts exec ruleSer pathSer r ps req force s0 n s) :
    n ≤ ps.length * (2 + 11 * r.targets.length) := by
  have := reachN_bound sc.hyp sc.init sc.hist h
  omega

/-- All invocations succeed: an execution that cannot be continued (and all of them stop, by `C31_bounded`) has
    every process exited with status 0 — and then `C31_final_eq_clean` applies. -/
theorem C31_all_succeed {s0 s : State P K C S N H} (sc : Scenario exec ruleSer pathSer r req s0)
    (hr : GReach exec ruleSer pathSer r ps req force s0 s)
    (hstuck : ¬ ∃ s', GStep exec ruleSer pathSer r ps req force s s') : Terminal ps s := by
  apply Classical.byContradiction
  intro hnt
  exact hstuck (C31_progress sc hr hnt)

/-- Without `--rebuild`, each action runs at most once overall, whatever the schedule … -/
theorem C31_runs_le_one {s0 s : State P K C S N H} (sc : Scenario exec ruleSer pathSer r req s0)
    (hnf : ∀ p k, force p k = false) (hr : GReach exec ruleSer pathSer r ps req force s0 s)
    {t : Target K A F} (ht : t ∈ r.targets) : s.runs t.key ≤ 1 :=
  (reach_rinv sc.hyp hnf sc.init sc.hist hr t ht).le

/-- … and exactly once iff the target was not up to date in the initial plz-out: the set of executed actions of
    a concurrent run is schedule-independent (it is what the end-to-end harness compares with the action log). -/
theorem C31_runs_exact {s0 s : State P K C S N H} (sc : Scenario exec ruleSer pathSer r req s0)
    (hnf : ∀ p k, force p k = false) (hr : GReach exec ruleSer pathSer r ps req force s0 s)
    {t : Target K A F} (ht : t ∈ r.targets) {p : P} (hf : s.pc p t.key = .finished) :
    s.runs t.key = if u0 generatedFacts exec ruleSer pathSer r s0 t = true then 0 else 1 :=
  runs_exact (reach_rinv sc.hyp hnf sc.init sc.hist hr) ht hf

/-- The second entrant of a target finds needsBuilding = false: if somebody has finished the target, a worker that
    has just taken the lock sees an up-to-date stamp (no `--rebuild`). -/
theorem C31_second_entrant_up_to_date {s0 s : State P K C S N H} (sc : Scenario exec ruleSer pathSer r req s0)
    (hnf : ∀ p k, force p k = false) (hr : GReach exec ruleSer pathSer r ps req force s0 s)
    {t : Target K A F} (ht : t ∈ r.targets) {p q : P} (hq : s.pc q t.key = .finished) (hp : s.pc p t.key = .locked) :
    upToDate generatedFacts s t.key (cstamp exec ruleSer pathSer r t) = true := by
  have hi := sc.inv (force := force) hr
  have hrk := reach_rinv sc.hyp hnf sc.init sc.hist hr t ht
  have hoth := (hi.key t ht).others (p := p) (Or.inl (by rw [hp]; rfl))
  have hle := hrk.le
  by_cases h1 : s.runs t.key = 1
  · obtain ⟨_, b⟩ := hrk.one_self hoth h1
    rcases b with b | ⟨b1, b2, b3⟩
    · simp [hp, PC.postExec] at b
    · exact upToDate_of_good b1 b2 b3
  · have h0 : s.runs t.key = 0 := by omega
    obtain ⟨z1, z2, z3⟩ := hrk.zero h0
    rw [upToDate_congr _ z1 z2 z3]
    exact hrk.skp h0 q (Or.inr hq)

/-- The driver's executable transition function is the relation the theorems are about. -/
theorem C31_next_is_step {s s' : State P K C S N H} :
    GStep exec ruleSer pathSer r ps req force s s' ↔
      ∃ a, next generatedFacts generatedLFacts exec ruleSer pathSer r ps req force s a = some s' :=
  step_iff_next

end

section
variable {P K A F N C S H : Type} [DecidableEq P] [DecidableEq K] [DecidableEq S] [DecidableEq N] [DecidableEq H]
variable {exec : A → List (N × C) → C} {ruleSer : A → S} {pathSer : C → H}
variable {r : Repo K A F N C} {ps : List P} {req : P → K → Bool} {force : P → K → Bool}

/-- If the repo lock were taken exclusively by `plz build` (it is not: `generatedLFacts.repoExclusive = false`),
    invocations would simply be serialised: at most one inside at any time. Stated for any lock facts. -/
theorem C31_serialised_if_exclusive (lf : LFacts) (hx : lf.excl = true) (hrx : lf.repoExclusive = true)
    {s0 s : State P K C S N H} (sc : Scenario exec ruleSer pathSer r req s0)
    (hr : Reach generatedFacts lf exec ruleSer pathSer r ps req force s0 s) {p q : P}
    (hp : s.phase p = .inside) (hq : s.phase q = .inside) : p = q := by
  have hy : Hyp generatedFacts lf ruleSer pathSer r req :=
    ⟨sc.wf, sc.closed, ⟨facts_parts.1, facts_parts.2.1⟩, facts_parts.2.2.1, hx, sc.hR, sc.hP⟩
  exact (reach_inv hy sc.init sc.hist hr).serial hrx p q hp hq
end

/-! ### Non-vacuity and the negative control, on a concrete two-process repository

Targets `0` and `1 ← 0` over `Nat`; action = attrs + sum of input contents; identity pre-images. -/
namespace Ex
def execN (a : Nat) (ins : List (Nat × Nat)) : Nat := a + (ins.map (·.2)).sum
def repo : Repo Nat Nat Nat Nat Nat :=
  { files := fun f => f + 10, fname := id, outName := id, targets := [⟨0, 100, [1], []⟩, ⟨1, 200, [], [0]⟩] }
def procs : List Nat := [0, 1]
def reqAll : Nat → Nat → Bool := fun _ _ => true
def noForce : Nat → Nat → Bool := fun _ _ => false
def s0 : State Nat Nat Nat Nat Nat Nat :=
  { gen := fun _ => none, stamp := fun _ => none, mdat := fun _ => false, tmp := fun _ => none, lock := fun _ => none,
    phase := fun _ => .waiting, pc := fun _ _ => .idle, runs := fun _ => 0 }
def run (lf : LFacts) (sched : List (Act Nat)) : State Nat Nat Nat Nat Nat Nat :=
  runSched generatedFacts lf execN id id repo procs reqAll noForce s0 sched

/-- process 0 builds target 0 completely, then both processes are inside critical sections at the same time:
    process 0 on target 1, process 1 on target 0. -/
def concurrentSched : List (Act Nat) :=
  [.enter 0, .enter 1] ++ List.replicate 9 (.work 0 0) ++ [.work 0 1, .work 1 0]

/-- a whole run that is enabled under EITHER repo-lock mode: process 0 enters, builds both targets and leaves;
    then process 1 enters, finds both up to date and leaves -/
def fullSched : List (Act Nat) :=
  [.enter 0] ++ List.replicate 9 (.work 0 0) ++ List.replicate 9 (.work 0 1) ++ [.leave 0] ++
  [.enter 1] ++ List.replicate 3 (.work 1 0) ++ List.replicate 3 (.work 1 1) ++ [.leave 1]

/-- NEGATIVE CONTROL: the same model with a lock that does not exclude. Both processes enter target 0; the second
    one's prepareDirectories removes the tmp dir the first one's action has just written into. -/
def raceSched : List (Act Nat) :=
  [.enter 0, .enter 1, .work 0 0, .work 0 0, .work 0 0, .work 0 0,   -- p0: acquire, check, prepare, exec
   .work 1 0, .work 1 0, .work 1 0,                                   -- p1: acquire (!), check, prepare = RemoveAll(tmp)
   .work 0 0, .work 0 0]                                              -- p0: store, moveOutput: "rule failed to create output"
end Ex

instance {P K C S N H : Type} (ps : List P) (s : State P K C S N H) : Decidable (Terminal ps s) := by
  unfold Terminal; infer_instance

open Ex in
theorem scenario_ex : Scenario execN id id repo reqAll s0 :=
  { wf := by simp [WF, WFList, repo, allSel],
    closed := by intro _ _ _ _ _ _; rfl,
    hR := fun _ _ h => h, hP := fun _ _ h => h,
    init := ⟨fun _ _ => rfl, fun _ => rfl, fun _ => rfl, fun _ => rfl⟩,
    hist := by intro k c st h; simp [s0] at h }

open Ex in
/-- The scenario hypotheses are satisfiable and, with the repo lock shared (the mode `plz build` uses on the pinned
    tree; `C31_serialised_if_exclusive` covers the other one) and the regenerated target-lock fact, the model is
    genuinely concurrent: a reachable state has two different processes inside critical sections (of different
    targets) at once.  (Stated for the shared mode explicitly so that a change of the repo-lock mode — under which
    the property still holds — does not break a witness.) -/
theorem C31_nonvacuous_concurrent :
    ∃ s, Reach generatedFacts ⟨generatedLFacts.excl, false⟩ execN id id repo procs reqAll noForce s0 s ∧
      (s.pc 0 1).inCS = true ∧ (s.pc 1 0).inCS = true ∧ s.phase 0 = .inside ∧ s.phase 1 = .inside :=
  ⟨run ⟨generatedLFacts.excl, false⟩ concurrentSched, runSched_reach _ _ .init, by decide⟩

open Ex in
/-- … and terminal states are reachable, with the clean outputs in place and each action executed once. -/
theorem C31_nonvacuous_terminal :
    ∃ s, GReach execN id id repo procs reqAll noForce s0 s ∧ Terminal procs s ∧
      s.gen 0 = some 111 ∧ s.gen 1 = some 311 ∧ s.runs 0 = 1 ∧ s.runs 1 = 1 :=
  ⟨run generatedLFacts fullSched, runSched_reach _ _ .init, by decide⟩

namespace Ex
/-- process 1 runs with `--rebuild` on target 0 -/
def forceP1 : Nat → Nat → Bool := fun p k => p == 1 && k == 0
/-- process 0 builds everything and leaves; then process 1 enters, is FORCED to rebuild target 0 (acquire, check →
    needs building, prepare, exec, store, moveOutput keeps the identical file, stamp, release) and finds target 1
    up to date.  Enabled under either repo-lock mode. -/
def rebuildSched : List (Act Nat) :=
  [.enter 0] ++ List.replicate 9 (.work 0 0) ++ List.replicate 9 (.work 0 1) ++ [.leave 0] ++
  [.enter 1] ++ List.replicate 9 (.work 1 0) ++ List.replicate 3 (.work 1 1) ++ [.leave 1]
def runF (sched : List (Act Nat)) : State Nat Nat Nat Nat Nat Nat :=
  runSched generatedFacts generatedLFacts execN id id repo procs reqAll forceP1 s0 sched
end Ex

open Ex in
/-- The `--rebuild` branch is inhabited: the second entrant really re-executes the action (runs = 2), and the output
    a finished process relies on is the very same value before and after (the case `C31_output_stable` is about). -/
theorem C31_nonvacuous_rebuild :
    ∃ s, GReach execN id id repo procs reqAll forceP1 s0 s ∧ Terminal procs s ∧
      s.runs 0 = 2 ∧ s.runs 1 = 1 ∧ s.gen 0 = some 111 ∧ s.gen 1 = some 311 ∧
      -- half way: process 1 is past moveOutput on target 0 (it kept the file) while process 0 has finished it
      (runF (rebuildSched.take 27)).pc 1 0 = .moved (stampOf id id 100 [(1, 11)]) ∧
      (runF (rebuildSched.take 27)).pc 0 0 = .finished ∧ (runF (rebuildSched.take 27)).gen 0 = some 111 :=
  ⟨runF rebuildSched, runSched_reach _ _ .init, by decide⟩

open Ex in
/-- The lock is what makes it work: if the per-target lock did not exclude (`excl := false`, e.g. LOCK_SH, or taken
    after needsBuilding), an invocation fails although every action is deterministic. -/
theorem C31_lock_needed :
    ∃ s, Reach generatedFacts ⟨false, false⟩ execN id id repo procs reqAll noForce s0 s ∧ s.pc 0 0 = .failed :=
  ⟨run ⟨false, false⟩ raceSched, runSched_reach _ _ .init, by decide⟩

/-! ### The test step (src/test/test_step.go `test`): the same discipline with the per-run test lock

`Model/LockTest.lean`: processes running the same test target; `built p` = process p (re)built the target itself and
therefore reruns the test whatever is cached.  The lock is the same `AcquireExclusiveFileLock` (fact `excl`); the
bracket around needToRun … RemoveTestOutputs … the run is part of `LockFactsOK` (`testBracketOK`). -/
section
variable {P Hh : Type} [DecidableEq P] [DecidableEq Hh]
variable {ps : List P} {want built : P → Bool} {h : Hh}

theorem test_reach {s0 s : LockTest.TState P Hh}
    (hr : LockTest.TReach ps want built h generatedLFacts.excl s0 s) : LockTest.TReach ps want built h true s0 s := by
  have e : generatedLFacts.excl = true := facts_parts.2.2.2
  rw [e] at hr; exact hr

/-- Two executions of one test never overlap. -/
theorem C31_test_mutex {s0 s : LockTest.TState P Hh} (h0 : LockTest.TInit s0)
    (hr : LockTest.TReach ps want built h generatedLFacts.excl s0 s) {p q : P}
    (hp : (s.pc p).inCS = true) (hq : (s.pc q).inCS = true) : p = q :=
  (LockTest.reach_tinv h0 (test_reach hr)).mutex hp hq

/-- A test is executed at most once per invocation … -/
theorem C31_test_runs_bounded {s0 s : LockTest.TState P Hh} (h0 : LockTest.TInit s0)
    (hr : LockTest.TReach ps want built h generatedLFacts.excl s0 s) : s.runs ≤ ps.length :=
  LockTest.runs_le_procs (LockTest.reach_tinv h0 (test_reach hr))

/-- … and at most once overall when no invocation rebuilt the target itself: the second entrant finds the
    results of the first under the same hash. -/
theorem C31_test_runs_once {s0 s : LockTest.TState P Hh} (h0 : LockTest.TInit s0) (hnb : ∀ p, built p = false)
    (hr : LockTest.TReach ps want built h generatedLFacts.excl s0 s) : s.runs ≤ 1 :=
  (LockTest.reach_ninv hnb h0 (test_reach hr)).le1

/-- When every invocation is done the cached results are the ones for the current hash. -/
theorem C31_test_results_valid {s0 s : LockTest.TState P Hh} (h0 : LockTest.TInit s0)
    (hr : LockTest.TReach ps want built h generatedLFacts.excl s0 s) (ht : LockTest.TTerminal ps want s)
    {p : P} (hp : p ∈ ps) (hw : want p = true) : s.res = some h :=
  LockTest.terminal_valid (LockTest.reach_tinv h0 (test_reach hr)) ht hp hw

/-- No deadlock on the test lock, and every step decreases the work left. -/
theorem C31_test_progress {s0 s : LockTest.TState P Hh} (h0 : LockTest.TInit s0)
    (hr : LockTest.TReach ps want built h generatedLFacts.excl s0 s) (hnt : ¬ LockTest.TTerminal ps want s) :
    ∃ s', LockTest.TStep ps want built h true s s' :=
  LockTest.tprogress (LockTest.reach_tinv h0 (test_reach hr)) hnt

theorem C31_test_terminates {s0 s s' : LockTest.TState P Hh} (h0 : LockTest.TInit s0)
    (hr : LockTest.TReach ps want built h generatedLFacts.excl s0 s) (hs : LockTest.TStep ps want built h true s s') :
    (ps.map fun p => (s'.pc p).rank).sum < (ps.map fun p => (s.pc p).rank).sum :=
  LockTest.tstep_measure (LockTest.reach_tinv h0 (test_reach hr)) hs
end

end PlzVerif.Props.C31
