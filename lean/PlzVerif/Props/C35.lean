import PlzVerif.Lemmas.HashCheck
import PlzVerif.Model.HashCheckFacts
/-!
C35  Declared output hashes are enforced exactly.

Everything below is about the model instantiated with the facts regenerated from /repo on this run
(`genU`, `genC`, `genS`; `C35_facts_ok` is the obligation a code change breaks).

* decision logic: `C35_exact` (what one verification accepts, for ALL declared lists / output shapes),
  `C35_iff` (⇔ the property's condition whenever the outputs are not a single directory), `C35_sound` (the "only if"
  of the property for every shape), `C35_single_dir` + corner-case witnesses;
* step order: `C35_no_trusted_leftover`, `C35_success_verified`, `C35_main` / `C35_property` (over all histories of
  builds with any definitions, arbitrary cache contents — poisoned, stale, evicted — and removals from plz-out);
* the two failures found on the pinned tree are FIXED in /repo (2c4e62b, 477defb); their witnesses stay as theorems about the
  old fact values (`C35_witness_filegroup_unchanged`, `C35_witness_checkers_change`), the repaired paths are covered by
  `C35_filegroup_verified` and `C35_key_covers_checkers` + `C35_property`; recorded caveats `C35_corner_*`.
-/
namespace PlzVerif.Props.C35
open PlzVerif.HashCheck PlzVerif.Generated
set_option linter.unusedSectionVars false

/-- Obligation a code change can break: the facts extracted from UnprefixedHashes, checkRuleHashes(OfType), outputHash,
    calculateAndCheckRuleHash, buildTarget, retrieveArtifacts, Build, OutputHashCheckers and the config defaults
    satisfy the side condition of the theorems below. -/
theorem C35_facts_ok : FactsOK = true := by decide

theorem genU_eq : genU = .asCoded := by decide
theorem genC_eq : genC = .asCoded := by decide
theorem genS_eq : genS = .asCoded := by decide

variable {O D : Type}

/-! ### the decision -/

/-- The acceptance condition of the property: the outputs hash, under one of the algorithms in `algos`, to one of the
    declared values (an optional `algo:` prefix and surrounding blanks aside). -/
def Spec (env : Env O D) (isFile : O → Bool) (algos : List Algo) (hashes : List Str) (outs : List O) : Prop :=
  ∃ a ∈ algos, ∃ d ∈ hashes, ∃ dg, targetOutputHash env isFile a outs = some dg ∧ unprefix genU d = env.hex dg

/-- Exactly what one verification accepts — every declared list, every output shape:
    the configured hash function's target hash, or any configured checker's hash in the checker form. -/
theorem C35_exact (env : Env O D) (isFile : O → Bool) (cfg : Algo) (checkers : List Algo) (hashes : List Str)
    (outs : List O) (hl : LenLaw env checkers outs) :
    accepts genU genC env isFile cfg checkers hashes outs = true ↔
      ∃ h0, targetOutputHash env isFile cfg outs = some h0 ∧
        (hashes = [] ∨ ∃ d ∈ hashes, unprefix genU d = env.hex h0 ∨
          ∃ a ∈ checkers, ∃ dg, checkerOutputHash env a outs = some dg ∧ unprefix genU d = env.hex dg) := by
  rw [genC_eq]; exact accepts_iff genU env isFile cfg checkers hashes outs hl

/-- The property's condition, as an equivalence: for single-file and multi-output targets (any target whose output is
    not one lone directory) the build passes verification iff some declared value is the hex digest of the outputs
    under the configured hash function or one of the configured checkers. -/
theorem C35_iff (env : Env O D) (isFile : O → Bool) (cfg : Algo) (checkers : List Algo) (hashes : List Str)
    (outs : List O) (hl : LenLaw env checkers outs) (hne : hashes ≠ [])
    (hforms : ∀ o, outs = [o] → isFile o = true)
    (hcfg : (targetOutputHash env isFile cfg outs).isSome = true) :
    accepts genU genC env isFile cfg checkers hashes outs = true ↔ Spec env isFile (cfg :: checkers) hashes outs := by
  rw [C35_exact env isFile cfg checkers hashes outs hl]
  obtain ⟨h0, hh0⟩ := Option.isSome_iff_exists.mp hcfg
  constructor
  · rintro ⟨h0', hh0', h⟩
    rcases h with h | ⟨d, hd, h⟩
    · exact absurd h hne
    · rcases h with h | ⟨a, ha, dg, hdg, he⟩
      · exact ⟨cfg, by simp, d, hd, h0', hh0', h⟩
      · exact ⟨a, by simp [ha], d, hd, dg, by rw [th_eq_ch env isFile a outs hforms]; exact hdg, he⟩
  · rintro ⟨a, ha, d, hd, dg, hdg, he⟩
    refine ⟨h0, hh0, Or.inr ⟨d, hd, ?_⟩⟩
    rcases List.mem_cons.mp ha with rfl | ha'
    · rw [hh0] at hdg; cases hdg; exact Or.inl he
    · exact Or.inr ⟨a, ha', dg, by rw [← th_eq_ch env isFile a outs hforms]; exact hdg, he⟩

/-- With the hash function among the checkers (the default: sha256 ∈ sha1, sha256, blake3) the configured algorithms are
    exactly `build.hashcheckers`. -/
theorem C35_iff_checkers (env : Env O D) (isFile : O → Bool) (cfg : Algo) (checkers : List Algo) (hashes : List Str)
    (outs : List O) (hl : LenLaw env checkers outs) (hne : hashes ≠ [])
    (hforms : ∀ o, outs = [o] → isFile o = true)
    (hcfg : (targetOutputHash env isFile cfg outs).isSome = true) (hmem : cfg ∈ checkers) :
    accepts genU genC env isFile cfg checkers hashes outs = true ↔ Spec env isFile checkers hashes outs := by
  rw [C35_iff env isFile cfg checkers hashes outs hl hne hforms hcfg]
  constructor
  · rintro ⟨a, ha, r⟩
    rcases List.mem_cons.mp ha with rfl | ha'
    · exact ⟨a, hmem, r⟩
    · exact ⟨a, ha', r⟩
  · rintro ⟨a, ha, r⟩
    exact ⟨a, List.mem_cons_of_mem _ ha, r⟩

/-- The "only if" of the property for EVERY output shape: whatever is accepted is the hex digest of the outputs under the
    configured hash function or a configured checker (in the target-hash or in the checker form). -/
theorem C35_sound (env : Env O D) (isFile : O → Bool) (cfg : Algo) (checkers : List Algo) (hashes : List Str)
    (outs : List O) (hl : LenLaw env checkers outs) (hne : hashes ≠ [])
    (h : accepts genU genC env isFile cfg checkers hashes outs = true) :
    ∃ a ∈ cfg :: checkers, ∃ d ∈ hashes, ∃ dg,
      (targetOutputHash env isFile a outs = some dg ∨ checkerOutputHash env a outs = some dg) ∧
      unprefix genU d = env.hex dg := by
  obtain ⟨h0, hh0, h⟩ := (C35_exact env isFile cfg checkers hashes outs hl).mp h
  rcases h with h | ⟨d, hd, h⟩
  · exact absurd h hne
  · rcases h with h | ⟨a, ha, dg, hdg, he⟩
    · exact ⟨cfg, by simp, d, hd, h0, Or.inl hh0, h⟩
    · exact ⟨a, by simp [ha], d, hd, dg, Or.inr hdg, he⟩

/-- A lone directory output: accepted are the DOUBLE hash under the configured hash function (`H(H(dir))`, what
    `plz hash` prints) and the DIRECT hash under each checker (`H(dir)`, what the error message prints). -/
theorem C35_single_dir (env : Env O D) (isFile : O → Bool) (cfg : Algo) (checkers : List Algo) (hashes : List Str) (o : O)
    (hl : LenLaw env checkers [o]) (hne : hashes ≠ []) (hdir : isFile o = false) :
    accepts genU genC env isFile cfg checkers hashes [o] = true ↔
      ∃ p, env.ph cfg o = some p ∧ ∃ d ∈ hashes,
        unprefix genU d = env.hex (env.comb cfg [p]) ∨ ∃ a ∈ checkers, ∃ q, env.ph a o = some q ∧ unprefix genU d = env.hex q := by
  rw [C35_exact env isFile cfg checkers hashes [o] hl]
  simp only [targetOutputHash, checkerOutputHash, outputHash, hdir, Bool.not_false, if_true, List.length_cons,
    List.length_nil, bne_self_eq_false, Bool.false_eq_true, if_false, hne, false_or]
  cases hp : env.ph cfg o with
  | none => simp [hp]
  | some p => simp [hp]

/-! ### prefixes, blanks, case, length -/

def lowerHex : List Char := ['0', '1', '2', '3', '4', '5', '6', '7', '8', '9', 'a', 'b', 'c', 'd', 'e', 'f']

/-- `hex.EncodeToString` only produces `0-9a-f`. -/
def HexLower (env : Env O D) : Prop := ∀ d c, c ∈ env.hex d → c ∈ lowerHex

theorem hexLower_clean (env : Env O D) (hx : HexLower env) (dg : D) : Clean (env.hex dg) ∧ ':' ∉ env.hex dg := by
  have nospace : ∀ c, c ∈ env.hex dg → isSpace c = false := by
    intro c hc
    have := hx dg c hc
    simp only [lowerHex, List.mem_cons, List.not_mem_nil, or_false] at this
    rcases this with h | h | h | h | h | h | h | h | h | h | h | h | h | h | h | h <;> subst h <;> decide
  refine ⟨⟨?_, ?_⟩, ?_⟩
  · intro c hc; exact nospace c (List.mem_of_mem_head? hc)
  · intro c hc; exact nospace c (List.mem_of_getLast? hc)
  · intro hc
    have := hx dg ':' hc
    simp [lowerHex] at this

/-- `"sha256: <v>"`, `"a:b:<v>"`, `"x:\t<v> \n"` … are read as `<v>`: any text up to the LAST colon is ignored and
    blanks around the rest are trimmed. -/
theorem C35_prefixed (env : Env O D) (hx : HexLower env) (p ws1 ws2 : Str) (dg : D)
    (h1 : ∀ c ∈ ws1, isSpace c = true) (h2 : ∀ c ∈ ws2, isSpace c = true) :
    unprefix genU (p ++ ':' :: (ws1 ++ env.hex dg ++ ws2)) = env.hex dg := by
  rw [genU_eq]
  exact unprefix_prefixed p ws1 _ ws2 h1 h2 (hexLower_clean env hx dg).1 (hexLower_clean env hx dg).2

/-- Without a colon NOTHING is trimmed or altered. -/
theorem C35_unprefixed_verbatim (h : Str) (hc : ':' ∉ h) : unprefix genU h = h := by
  rw [genU_eq]; exact unprefix_of_no_colon h hc

/-- Since fix 656076b `UnprefixedHashes` works on a copy: `target.Hashes` holds what the BUILD file declared, before and
    after a verification (the error message prints the declared values as written). -/
theorem C35_hashes_untouched (hs : List Str) : (unprefixedHashes genU hs).2 = hs := by
  rw [genU_eq]; rfl

/-- …so whatever hashes `target.Hashes` after the check has run in the same process (the post-build rule hash written
    into the stamp of a target the build can modify, the runtime rule hash) sees the declared list. -/
theorem C35_rule_hash_stable {α : Type} (R : List Str → α) (hs : List Str) : R (unprefixedHashes genU hs).2 = R hs := by
  rw [C35_hashes_untouched]

/-- Verifying twice gives the same unprefixed list, with or without the aliasing: unprefixing is idempotent. -/
theorem C35_alias_idempotent (b : Bool) (hs : List Str) :
    (unprefixedHashes { genU with alias := b } (unprefixedHashes { genU with alias := b } hs).2).1 =
      (unprefixedHashes { genU with alias := b } hs).1 := by
  rw [genU_eq]; exact unprefixedHashes_idem b hs

/-- The defect fixed by 656076b, as a theorem about the ALIASING variant of the facts (`hashes := target.Hashes[:]`): the
    overwrite never changed a verification decision (previous theorem) but it was visible to the rule hash computed
    afterwards.  `R` = the rule hash as a function of the declared list (injective: C08).  The stamp agreed with what the
    next process expects exactly when no declared value carried a prefix — otherwise `needsBuilding(postBuild)` stayed
    true (observed on the pre-fix binary: a genrule with `output_dirs` and `hashes = ["sha256: …"]` re-ran its action on
    every `plz build`). -/
theorem C35_fixed_alias_observable {α : Type} (R : List Str → α) (hR : Function.Injective R) (hs : List Str) :
    R (unprefixedHashes { genU with alias := true } hs).2 = R hs ↔ ∀ d ∈ hs, unprefix genU d = d := by
  rw [genU_eq]
  simp only [unprefixedHashes, UFacts.asCoded, if_true]
  constructor
  · intro h
    have := hR h
    intro d hd
    have hm : hs.map (unprefix ⟨true, true, true⟩) = hs.map id := by simpa using this
    exact List.map_inj_left.mp hm d hd
  · intro h
    congr 1
    have : hs.map (unprefix ⟨true, true, true⟩) = hs.map id := List.map_inj_left.mpr h
    simpa using this

example : ¬ (∀ d ∈ [['s', ':', ' ', 'a']], unprefix genU d = d) := by decide

/-- Upper-case hex, a leading blank without a colon, or any other character outside `0-9a-f` left after unprefixing:
    the value can never match. -/
theorem C35_nonhex_rejected (env : Env O D) (hx : HexLower env) (isFile : O → Bool) (cfg : Algo) (checkers : List Algo)
    (hashes : List Str) (outs : List O) (hl : LenLaw env checkers outs) (hne : hashes ≠ [])
    (hbad : ∀ d ∈ hashes, ∃ c ∈ unprefix genU d, c ∉ lowerHex) :
    accepts genU genC env isFile cfg checkers hashes outs = false := by
  cases h : accepts genU genC env isFile cfg checkers hashes outs with
  | false => rfl
  | true =>
    exfalso
    obtain ⟨a, _, d, hd, dg, _, he⟩ := C35_sound env isFile cfg checkers hashes outs hl hne h
    obtain ⟨c, hc, hnc⟩ := hbad d hd
    rw [he] at hc
    exact hnc (hx dg c hc)

/-- A value whose length (after unprefixing) is not twice the digest size of the hash function or of a checker can
    never match. -/
theorem C35_wrong_length_rejected (env : Env O D) (isFile : O → Bool) (cfg : Algo) (checkers : List Algo)
    (hashes : List Str) (outs : List O) (hl : LenLaw env checkers outs) (hne : hashes ≠ [])
    (hcfgLen : ∀ dg, targetOutputHash env isFile cfg outs = some dg → (env.hex dg).length = cfg.size * 2)
    (hbad : ∀ d ∈ hashes, ∀ a ∈ cfg :: checkers, (unprefix genU d).length ≠ a.size * 2) :
    accepts genU genC env isFile cfg checkers hashes outs = false := by
  cases h : accepts genU genC env isFile cfg checkers hashes outs with
  | false => rfl
  | true =>
    exfalso
    obtain ⟨h0, hh0, h'⟩ := (C35_exact env isFile cfg checkers hashes outs hl).mp h
    rcases h' with h' | ⟨d, hd, h'⟩
    · exact hne h'
    · rcases h' with h' | ⟨a, ha, dg, hdg, he⟩
      · apply hbad d hd cfg (by simp)
        rw [h', hcfgLen h0 hh0]
      · apply hbad d hd a (by simp [ha])
        rw [he, (hl a ha).2 dg hdg]

/-! ### step order -/

variable {K C : Type} [DecidableEq K] [DecidableEq C]

/-- After a failed verification — fresh build or cache restore, the keep-old case of moveOutput included — plz-out holds
    no output of the target at all (so `needsBuilding` is true for every definition: the next build cannot skip it), and
    the cache is exactly what it was (nothing was stored under the current key). -/
theorem C35_no_trusted_leftover (check : K → Option C → C → Bool) (cacheOn : Bool) (key : K) (fresh : C) (st : TState K C)
    (h : (buildTarget genS check cacheOn key fresh st).2 = .failed) :
    (buildTarget genS check cacheOn key fresh st).1.out = none ∧
    (buildTarget genS check cacheOn key fresh st).1.cache = st.cache ∧
    ∀ k, needsBuilding (buildTarget genS check cacheOn key fresh st).1 k = true := by
  rw [genS_eq] at h ⊢
  obtain ⟨h1, h2⟩ := buildTarget_failed check cacheOn key fresh st h
  refine ⟨h1, h2, ?_⟩
  intro k; simp [needsBuilding, h1]

/-- A build that does not fail after building or restoring leaves outputs that passed a fresh verification under the
    current definition, stamped with the current key. -/
theorem C35_success_verified (check : K → Option C → C → Bool) (hlaw : StaleSound check) (cacheOn : Bool) (key : K)
    (fresh : C) (st : TState K C)
    (h : (buildTarget genS check cacheOn key fresh st).2 = .cached ∨ (buildTarget genS check cacheOn key fresh st).2 = .built) :
    ∃ c, (buildTarget genS check cacheOn key fresh st).1.out = some (c, some key) ∧ check key none c = true := by
  rw [genS_eq] at h ⊢
  exact buildTarget_success check hlaw cacheOn key fresh st h

/-- Over all histories (builds of any definitions with or without cache, ANY cache contents in between — poisoned,
    stale, evicted —, removal of outputs): a build that succeeds, whether by skipping, restoring or building, ends with
    outputs that pass verification under the definition being built. -/
theorem C35_main (check : K → Option C → C → Bool) (hlaw : StaleSound check) (history : List (HOp K C))
    (cacheOn : Bool) (key : K) (fresh : C) :
    let st := runHist genS check history ⟨none, fun _ => none⟩
    (buildTarget genS check cacheOn key fresh st).2 ≠ .failed →
    ∃ c, (buildTarget genS check cacheOn key fresh st).1.out = some (c, some key) ∧ check key none c = true := by
  intro st hres
  have ht : Trusted check st := by
    simp only [st]; rw [genS_eq]
    exact runHist_trusted check hlaw history _ (by intro c k ho; cases ho)
  rw [genS_eq] at hres ⊢
  cases hr : (buildTarget SFacts.asCoded check cacheOn key fresh st).2 with
  | failed => exact absurd hr hres
  | reused =>
    obtain ⟨he, c, hc⟩ := buildTarget_reused _ check cacheOn key fresh st hr
    rw [he]; exact ⟨c, hc, ht c key hc⟩
  | cached => exact buildTarget_success check hlaw cacheOn key fresh st (Or.inl hr)
  | built => exact buildTarget_success check hlaw cacheOn key fresh st (Or.inr hr)

/-- Obligation behind the per-key configuration of `C35_property`: a change of `build.hashcheckers` changes the stamp and
    cache key of every target that declares hashes (since fix 477defb they are written into its rule hash). -/
theorem C35_key_covers_checkers : keyCoversCheckers = true := by decide

/-- The property, end to end in the model: with the check being the decision model above and the key determining the
    declared hashes (part of the rule hash), the hash function and the checkers, after ANY history — builds of any
    definitions under any configurations, any cache contents, removals — a successful build of a target that declares
    hashes ends with outputs whose digest under the CURRENT hash function or a CURRENTLY configured checker is declared.
    (That the key determines the checkers is the regenerated fact `keyCoversCheckers`; where it is false see
    `C35_witness_checkers_change`.) -/
theorem C35_property (env : Env O D) (isFile : O → Bool) (cfgOf : K → Algo) (checkersOf : K → List Algo)
    (hashesOf : K → List Str) (outsOf : C → List O)
    (htot : ∀ k c, (targetOutputHash env isFile (cfgOf k) (outsOf c)).isSome = true)
    (hl : ∀ k c, LenLaw env (checkersOf k) (outsOf c))
    (history : List (HOp K C)) (cacheOn : Bool) (key : K) (fresh : C) (hne : hashesOf key ≠ []) :
    let check := concreteCheck genU genC env isFile cfgOf checkersOf hashesOf outsOf
    let st := runHist genS check history ⟨none, fun _ => none⟩
    (buildTarget genS check cacheOn key fresh st).2 ≠ .failed →
    ∃ c, (buildTarget genS check cacheOn key fresh st).1.out = some (c, some key) ∧
      ∃ a ∈ cfgOf key :: checkersOf key, ∃ d ∈ hashesOf key, ∃ dg,
        (targetOutputHash env isFile a (outsOf c) = some dg ∨ checkerOutputHash env a (outsOf c) = some dg) ∧
        unprefix genU d = env.hex dg := by
  intro check st hres
  have hlaw : StaleSound check := by
    simp only [check]; rw [genC_eq]
    exact concreteCheck_staleSound genU env isFile cfgOf checkersOf hashesOf outsOf htot
  obtain ⟨c, ho, hc⟩ := C35_main check hlaw history cacheOn key fresh hres
  refine ⟨c, ho, ?_⟩
  exact C35_sound env isFile (cfgOf key) (checkersOf key) (hashesOf key) (outsOf c) (hl key c) hne hc

/-- Filegroups (repaired code: the check runs whenever hashes are declared, links changed or not): whatever plz-out held
    before — nothing, stale links, links whose source was overwritten in place — a filegroup build that does not fail
    leaves exactly the current sources, and they pass verification under the current definition; a failing one leaves
    nothing. -/
theorem C35_filegroup_verified (check : K → Option C → C → Bool) (key : K) (src : C) (out : Option C) :
    ((buildFilegroup genS check key src out).2 ≠ .failed →
      (buildFilegroup genS check key src out).1 = some src ∧ check key none src = true) ∧
    ((buildFilegroup genS check key src out).2 = .failed → (buildFilegroup genS check key src out).1 = none) := by
  rw [genS_eq]
  simp only [buildFilegroup, SFacts.asCoded, Bool.false_and, Bool.false_eq_true, if_false, if_true]
  by_cases hc : check key none src = true
  · simp only [hc, if_true]
    by_cases ho : out = some src <;> simp [ho]
  · simp [hc]

/-! ### corner cases and witnesses (toy digests: `D = Str`, `hex = id`) -/

namespace Toy
def crc32 : Algo := ⟨"crc32", 4⟩
def sha1 : Algo := ⟨"sha1", 20⟩
def sha256 : Algo := ⟨"sha256", 32⟩
def dig (c : Char) (a : Algo) : Str := List.replicate (a.size * 2) c
/-- outputs are (content letter, is a regular file); digests of length 2·size made of the content letter resp. its
    successor for the combining hash — enough to tell the forms apart. -/
def env : Env (Char × Bool) Str :=
  { ph := fun a o => some (dig o.1 a),
    comb := fun a ds => dig (Char.ofNat ((ds.headD []).headD '0').toNat.succ) a,
    hex := id }
def isFile (o : Char × Bool) : Bool := o.2
def acc (cfg : Algo) (checkers : List Algo) (hashes : List Str) (outs : List (Char × Bool)) : Bool :=
  accepts genU genC env isFile cfg checkers hashes outs
end Toy

open Toy in
/-- Corner (hash function outside the checkers): `hashcheckers` does not restrict the configured `hashfunction` —
    its digest is accepted through the first comparison although it is not one of the checkers. -/
theorem C35_corner_hashfunction_outside_checkers :
    crc32 ∉ [sha256] ∧ acc crc32 [sha256] [dig 'a' crc32] [('a', true)] = true ∧
    acc sha256 [sha256] [dig 'a' crc32] [('a', true)] = false := by decide

open Toy in
/-- Corner (lone directory): with sha256 as hash function and sha1, sha256 as checkers the double hash under sha1
    (the target hash `plz hash` would print with hashfunction = sha1) is REJECTED although sha1 is a checker, while the
    direct hash under sha256 is accepted although it differs from the target hash under sha256. -/
theorem C35_corner_single_dir :
    targetOutputHash env isFile sha1 [('a', false)] = some (dig 'b' sha1) ∧
    acc sha256 [sha1, sha256] [dig 'b' sha1] [('a', false)] = false ∧
    acc sha256 [sha1, sha256] [dig 'a' sha256] [('a', false)] = true ∧
    targetOutputHash env isFile sha256 [('a', false)] ≠ some (dig 'a' sha256) := by decide

open Toy in
/-- Corner (stale memo): hash function outside the checkers and a poisoned cache entry: the restore is rejected, the
    rebuild produces the right output — and is rejected too, because the first comparison uses the hash memoised for the
    poisoned artifact (`TargetHasher.OutputHash`); without the cache entry the same build passes. -/
theorem C35_corner_stale_memo :
    let check := concreteCheck genU genC env isFile (fun _ => crc32) (fun _ => [sha256]) (fun (_ : Unit) => [dig 'a' crc32])
      (fun (c : Char) => [(c, true)])
    (buildTarget genS check true () 'a' ⟨none, fun _ => some 'x'⟩).2 = .failed ∧
    (buildTarget genS check true () 'a' ⟨none, fun _ => none⟩).2 = .built := by decide

open Toy in
/-- The same corner in the default shape of configuration (hash function among the checkers): a lone directory declared
    by its target hash (the double hash `plz hash` prints) passes a fresh build, but after a rejected restore the first
    comparison is made against the memoised hash of the poisoned artifact and the checkers only know the direct form. -/
theorem C35_corner_stale_memo_dir :
    let check := concreteCheck genU genC env isFile (fun _ => sha256) (fun _ => [sha1, sha256]) (fun (_ : Unit) => [dig 'b' sha256])
      (fun (c : Char) => [(c, false)])
    (buildTarget genS check true () 'a' ⟨none, fun _ => some 'x'⟩).2 = .failed ∧
    (buildTarget genS check true () 'a' ⟨none, fun _ => none⟩).2 = .built := by decide

open Toy in
/-- `--nohash_verification`: the gate lets a mismatching output through and the stamp is written. -/
theorem C35_corner_noverify :
    acc sha256 [sha256] [dig 'b' sha256] [('a', true)] = false ∧
    (calcAndCheck genU genC env isFile sha256 [sha256] { verify := false } [dig 'b' sha256] [('a', true)] none).isSome = true := by
  decide

open Toy in
/-- FIXED finding filegroup-unchanged-skips-hash-check, as a theorem about the OLD fact value (`if changed { check }`):
    a filegroup whose links were already in place was reported built although its (edited) declared hash did not match —
    first build under the matching list `0`, then the declared list becomes `1` (mismatch): `reused`, no verification. -/
theorem C35_witness_filegroup_unchanged :
    let old : SFacts := { genS with fgCheckOnlyIfChanged := true }
    let check := concreteCheck genU genC env isFile (fun _ => sha256) (fun _ => [sha256])
      (fun (k : Nat) => if k = 0 then [dig 'a' sha256] else [dig 'b' sha256]) (fun (c : Char) => [(c, true)])
    (buildFilegroup old check 0 'a' none) = (some 'a', .built) ∧
    (buildFilegroup old check 1 'a' (some 'a')) = (some 'a', .reused) ∧ check 1 none 'a' = false ∧
    (buildFilegroup old check 1 'a' none) = (none, .failed) ∧
    -- with the facts of the repaired code the same second build fails and removes the links
    (buildFilegroup genS check 1 'a' (some 'a')) = (none, .failed) := by decide

open Toy in
/-- FIXED finding hashcheckers-change-not-reverified (477defb), kept as a theorem conditional on the OLD fact value: a tree where `build.hashcheckers` reaches neither the rule hash nor the
    config hash (`keyCoversCheckers = false`): the key does not change when it is edited.  Declared = sha1 digest, built
    with checkers [sha1, sha256]; then hashcheckers = [sha256]: the target is skipped as up to date although a clean
    build with this configuration fails verification. -/
theorem C35_witness_checkers_change (_h : keyCoversCheckers = false) :
    let check₁ := concreteCheck genU genC env isFile (fun _ => sha256) (fun _ => [sha1, sha256]) (fun (_ : Unit) => [dig 'a' sha1])
      (fun (c : Char) => [(c, true)])
    let check₂ := concreteCheck genU genC env isFile (fun _ => sha256) (fun _ => [sha256]) (fun (_ : Unit) => [dig 'a' sha1])
      (fun (c : Char) => [(c, true)])
    let st₁ := (buildTarget genS check₁ false () 'a' ⟨none, fun _ => none⟩).1
    (buildTarget genS check₂ false () 'a' st₁).2 = .reused ∧ check₂ () none 'a' = false ∧
    (buildTarget genS check₂ false () 'a' ⟨none, fun _ => none⟩).2 = .failed := by decide

open Toy in
/-- The same history when the key covers the checkers (`keyCoversCheckers = true`: the checkers are written into the rule
    hash of a target that declares hashes): the key is the checker list, the second build is NOT skipped, it fails
    verification and removes the output — the instance of `C35_property` for this history. -/
theorem C35_checkers_change_reverified :
    let check := concreteCheck genU genC env isFile (fun _ => sha256) (fun (k : List Algo) => k) (fun _ => [dig 'a' sha1])
      (fun (c : Char) => [(c, true)])
    let st₁ := (buildTarget genS check false [sha1, sha256] 'a' ⟨none, fun _ => none⟩)
    st₁.2 = .built ∧ (buildTarget genS check false [sha256] 'a' st₁.1).2 = .failed ∧
    (buildTarget genS check false [sha256] 'a' st₁.1).1.out = none := by decide

/-! ### non-vacuity -/

open Toy in
example : LenLaw env [sha1, sha256] [('a', true), ('b', false)] := by
  intro a ha
  simp only [List.mem_cons, List.not_mem_nil, or_false] at ha
  rcases ha with rfl | rfl
  · refine ⟨by decide, ?_⟩
    intro d hd
    have : d = dig 'b' sha1 := by
      have h : checkerOutputHash env sha1 [('a', true), ('b', false)] = some (dig 'b' sha1) := by decide
      rw [h] at hd; cases hd; rfl
    subst this; decide
  · refine ⟨by decide, ?_⟩
    intro d hd
    have : d = dig 'b' sha256 := by
      have h : checkerOutputHash env sha256 [('a', true), ('b', false)] = some (dig 'b' sha256) := by decide
      rw [h] at hd; cases hd; rfl
    subst this; decide

/-- hypotheses of `C35_prefixed` / `C35_nonhex_rejected` are satisfiable -/
example : HexLower (⟨fun _ _ => none, fun _ _ => (), fun _ => ['0', 'a', 'f']⟩ : Env Unit Unit) := by
  intro d c hc
  simp only [List.mem_cons, List.not_mem_nil, or_false] at hc
  rcases hc with rfl | rfl | rfl <;> decide

open Toy in
/-- hypotheses of `C35_main` / `C35_property` are satisfiable: the decision model is stale-sound on the toy digests -/
example : StaleSound (concreteCheck genU genC env isFile (fun _ => sha256) (fun _ => [sha1, sha256]) (fun (_ : Unit) => [dig 'a' sha1])
    (fun (c : Char) => [(c, true)])) := by
  rw [genC_eq]
  exact concreteCheck_staleSound genU env isFile _ _ _ _ (by intro k c; rfl)

open Toy in
/-- hypotheses of `C35_iff` are satisfiable (two outputs, one of them a directory) -/
example : (∀ o, [('a', true), ('b', false)] = [o] → isFile o = true) ∧
    (targetOutputHash env isFile sha256 [('a', true), ('b', false)]).isSome = true :=
  And.intro (fun o h => by simp at h) (by decide)

open Toy in
example : acc sha256 [sha1, sha256] [['s', 'h', 'a', '1', ':', ' '] ++ dig 'a' sha1] [('a', true)] = true := by decide

open Toy in
example : acc sha256 [sha1, sha256] [['x', ':', 'y', ':', '\t'] ++ dig 'b' sha256 ++ [' ', '\n'], ['z']] [('a', true), ('c', true)] = true := by
  decide

end PlzVerif.Props.C35
