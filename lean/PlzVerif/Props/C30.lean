import PlzVerif.Lemmas.Exec
import PlzVerif.Generated.C30
/-!
C30  Timed-out actions are killed with all their children.

Level: proof on the model (`Model/Exec.lean`), **partial** — the kernel (signal delivery to a process group),
real time and scheduling latency, and pipe inheritance are assumptions of the model, not verified.

Proved for every execution *of the model* (zero supervisor latency: its timers and channel receives are served
the instant they are due; a tie between "Wait returned" and "deadline" is resolved for the former, whereas Go's
`select` picks either) of the supervisor/process-group transition system, whatever the processes do
(ignore SIGTERM, fork, hold or close pipes, exit at any moment, even leave the group):
  * `C30_timeout_bound`  — the action is reported no later than deadline + 30 ms + 1 s (the sum of the two
    extracted waits: the bound is about the supervisor's structure, not about scheduling);
  * `C30_overrun_is_timeout` — a command still running after its deadline is reported as timed out, never as finished;
  * `C30_group_dead_after_timeout` — after a timed-out return no member of the process group is alive, and none
    can appear later.
False on the pinned code (`C30_normal_exit_witness`): when the command finishes by itself nothing signals
the group, so a background child that gave up the output pipes keeps running after the action was reported
finished.  `C30_normal_exit_partial` says what does hold on that path.
-/
namespace PlzVerif.Props.C30
open PlzVerif.Exec

/-- The regenerated timing of `killProcess`. -/
def tm : Timing :=
  ⟨Generated.C30.termWaitMs, Generated.C30.killWaitMs, Generated.C30.secondRoundAlways, Generated.C30.killsGroup⟩

/-- Side condition on the regenerated facts: SIGTERM then SIGKILL, both sent to the *negative* pid (the
    group), the second round is not skipped when the first succeeded, the command is started in its own
    process group, the timeout branch kills, the normal branch signals nothing (that is what the model
    transcribes), and the two waits are what the documentation promises ("shortly after"): at most 100 ms
    and at most 2 s. -/
def FactsOK : Bool :=
  Generated.C30.signals == ["SIGTERM", "SIGKILL"] && Generated.C30.killsGroup && Generated.C30.secondRoundAlways &&
  Generated.C30.setpgid && Generated.C30.timeoutBranchKills && !Generated.C30.normalBranchSignals &&
  decide (tm.termWait ≤ 100) && decide (tm.killWait ≤ 2000) && decide (0 < tm.killWait)

theorem C30_facts_ok : FactsOK = true := by decide

/-- Canonical skeletons (parameters/receiver by position, locals by declaration order, messages blanked; compared by
    SHA-256 prefix, the texts are comments in Generated/C30.lean and Expected/C30.lean) of every function the model
    transcribes: any change of structure, operator, constant, call or statement order flips this. -/
def expectedSkeletons : List (String × String) :=
  [ ("skelExecTail", "f74bcb32d39662302e2306ce"),
    ("skelKillProcess", "6a294cfd14bbeb170da37bfa"),
    ("skelSendSignal", "97b85005a7072dca44ca96ed"),
    ("skelRunCommand", "ece69639c4827fb8fd1c00f4") ]

def generatedSkeletons : List (String × String) :=
  [ ("skelExecTail", Generated.C30.skelExecTail), ("skelKillProcess", Generated.C30.skelKillProcess), ("skelSendSignal", Generated.C30.skelSendSignal), ("skelRunCommand", Generated.C30.skelRunCommand) ]

def SkeletonsOK : Bool := generatedSkeletons == expectedSkeletons

theorem C30_skeletons_ok : SkeletonsOK = true := by decide


/-- The two facts the "group dead" theorems rest on, as extracted: the SIGKILL round always runs and signals go
    to the whole group.  (`C30_control_*` below show that each is needed.) -/
theorem C30_facts_good : Good tm := by
  unfold Good
  decide

/-- Every reachable state satisfies the invariant, and the deadline never changes. -/
theorem C30_invariant (d : Nat) (ign : Bool) (s : St) (h : Reach tm (init d ign) s) : Exec.Inv tm s ∧ s.deadline = d :=
  inv_reach C30_facts_good (inv_init tm d ign) h

/-- **Bound.**  In every execution the clock cannot pass `deadline + termWait + killWait` before the
    supervisor has returned: a command that exceeds its timeout is reported within that bound. -/
theorem C30_timeout_bound (d : Nat) (ign : Bool) (s : St) (h : Reach tm (init d ign) s) :
    (∃ b t, s.phase = .returned b t) ∨ s.now ≤ d + tm.termWait + tm.killWait := by
  obtain ⟨hi, hd⟩ := C30_invariant d ign s h
  unfold Exec.Inv at hi
  cases hph : s.phase with
  | running => right; simp only [hph] at hi; omega
  | termSent t => right; simp only [hph] at hi; omega
  | killSent t => right; simp only [hph] at hi; omega
  | returned b t => left; exact ⟨b, t, rfl⟩

/-- … and a timed-out return happens no later than that. -/
theorem C30_timeout_return_time (d : Nat) (ign : Bool) (s : St) (t : Nat) (h : Reach tm (init d ign) s)
    (hp : s.phase = .returned true t) : t ≤ d + tm.termWait + tm.killWait := by
  obtain ⟨hi, hd⟩ := C30_invariant d ign s h
  unfold Exec.Inv at hi
  simp only [hp] at hi
  omega

/-- With the extracted durations: 1030 ms after the deadline at the latest. -/
theorem C30_timeout_bound_ms : tm.termWait + tm.killWait ≤ 1030 := by decide

/-- **Group dead.**  Once the supervisor has returned because of the timeout, no member of the process group
    is alive — in that state and in every later one (dead processes do not fork). -/
theorem C30_group_dead_after_timeout (d : Nat) (ign : Bool) (s : St) (t : Nat) (h : Reach tm (init d ign) s)
    (hp : s.phase = .returned true t) : ∀ p ∈ s.procs, p.inGroup = true → p.alive = false := by
  obtain ⟨hi, _⟩ := C30_invariant d ign s h
  unfold Exec.Inv at hi
  simp only [hp] at hi
  exact hi.2

/-- The same already holds from the moment SIGKILL went out. -/
theorem C30_group_dead_after_kill (d : Nat) (ign : Bool) (s : St) (t : Nat) (h : Reach tm (init d ign) s)
    (hp : s.phase = .killSent t) : ∀ p ∈ s.procs, p.inGroup = true → p.alive = false := by
  obtain ⟨hi, _⟩ := C30_invariant d ign s h
  unfold Exec.Inv at hi
  simp only [hp] at hi
  exact hi.2.2.2

/-- **Partial** (normal exit): when the command is reported finished without a timeout, the group leader has
    exited and no live process holds the output pipes — now and ever after. -/
theorem C30_normal_exit_partial (d : Nat) (ign : Bool) (s : St) (t : Nat) (h : Reach tm (init d ign) s)
    (hp : s.phase = .returned false t) :
    s.leader.alive = false ∧ ∀ p ∈ s.others, p.alive = true → p.holdsPipe = false := by
  obtain ⟨hi, _⟩ := C30_invariant d ign s h
  unfold Exec.Inv at hi
  simp only [hp] at hi
  exact hi.2

/-- A normal (not timed-out) report can only happen up to the deadline … -/
theorem C30_normal_return_by_deadline (d : Nat) (ign : Bool) (s : St) (t : Nat) (h : Reach tm (init d ign) s)
    (hp : s.phase = .returned false t) : t ≤ d := by
  obtain ⟨hi, hd⟩ := C30_invariant d ign s h
  unfold Exec.Inv at hi
  simp only [hp] at hi
  omega

/-- … so **a command that runs past its deadline is reported as timed out** (never as finished normally). -/
theorem C30_overrun_is_timeout (d : Nat) (ign : Bool) (s : St) (b : Bool) (t : Nat) (h : Reach tm (init d ign) s)
    (hp : s.phase = .returned b t) (hlate : d < t) : b = true := by
  cases b with
  | true => rfl
  | false => have := C30_normal_return_by_deadline d ign s t h hp; omega

/-- Witness (`sleep N >/dev/null 2>&1 & exit 0`): the leader forks a child, the child redirects its output,
    the leader exits; `cmd.Wait()` returns, the action is reported finished at time 0 — and the child, still a
    member of the group, is alive.  Nothing on this path signals the group. -/
theorem C30_normal_exit_witness :
    ∃ s, Reach tm (init 1000 false) s ∧ s.phase = .returned false 0 ∧ ∃ p ∈ s.procs, p.alive = true ∧ p.inGroup = true := by
  let s0 := init 1000 false
  let child : Proc := ⟨true, true, true, false⟩
  let s1 : St := { s0 with others := s0.others ++ [child] }
  let s2 : St := { s1 with others := [] ++ { child with holdsPipe := false } :: [] }
  let s3 : St := { s2 with leader := { s2.leader with alive := false } }
  let s4 : St := { s3 with phase := .returned false s3.now, chTaken := true }
  have r1 : Step tm s0 s1 := Step.fork child (by simp [s0, init, St.procs, child]) rfl
  have r2 : Step tm s1 s2 := Step.other [] [] child _ (by simp [s1, s0, init]) (ProcStep.closePipe child rfl)
  have r3 : Step tm s2 s3 := Step.leader (ProcStep.exit s2.leader rfl)
  have r4 : Step tm s3 s4 := Step.sup (by decide)
  refine ⟨s4, ?_, rfl, ⟨{ child with holdsPipe := false }, by simp [s4, s3, s2, St.procs], rfl, rfl⟩⟩
  exact Reach.step (Reach.step (Reach.step (Reach.step (Reach.refl _) r1) r2) r3) r4

/-- Hence the full-strength clause "no process started by an action keeps running after the action has been
    reported finished" is false. -/
theorem C30_no_survivors_fails :
    ¬ ∀ (s : St) (b : Bool) (t : Nat), Reach tm (init 1000 false) s → s.phase = .returned b t →
        ∀ p ∈ s.procs, p.inGroup = true → p.alive = false := by
  intro h
  obtain ⟨s, hr, hp, p, hm, ha, hg⟩ := C30_normal_exit_witness
  have := h s false 0 hr hp p hm hg
  simp [ha] at this

/-! ### negative controls: the two facts are needed -/

/-- The state after: fork a child, the child gives up the pipes and starts ignoring SIGTERM. -/
def controlStart : St :=
  { init 0 false with others := [⟨true, true, false, true⟩] }

theorem controlStart_reach (tm' : Timing) : Reach tm' (init 0 false) controlStart := by
  let s0 := init 0 false
  let child : Proc := ⟨true, true, true, false⟩
  let c1 : Proc := { child with holdsPipe := false }
  let s1 : St := { s0 with others := s0.others ++ [child] }
  let s2 : St := { s1 with others := [] ++ c1 :: [] }
  have r1 : Step tm' s0 s1 := Step.fork child (by simp [s0, init, St.procs, child]) rfl
  have r2 : Step tm' s1 s2 := Step.other [] [] child _ (by simp [s1, s0, init]) (ProcStep.closePipe child rfl)
  have r3 : Step tm' s2 controlStart := Step.other [] [] c1 _ (by simp [s2]) (ProcStep.ignoreTerm c1 rfl)
  exact Reach.step (Reach.step (Reach.step (Reach.refl _) r1) r2) r3

/-- Were the SIGKILL round skipped after a successful SIGTERM round (`if !success && !sendSignal(KILL…)`), a
    SIGTERM-ignoring child that gave up the pipes would outlive a *timed-out* action: the fact
    `secondRoundAlways` is needed for `C30_group_dead_after_timeout`. -/
theorem C30_control_kill_round_skipped :
    ∃ s, Reach { tm with killAlways := false } (init 0 false) s ∧ s.phase = .returned true 0 ∧
      ∃ p ∈ s.procs, p.alive = true ∧ p.inGroup = true := by
  let tm' : Timing := { tm with killAlways := false }
  -- deadline 0 is due: SIGTERM kills the leader only; Wait has returned, the SIGKILL round is skipped
  have h1 : sup tm' controlStart = some (supOpt tm' controlStart) := by decide
  have h2 : sup tm' (supOpt tm' controlStart) = some (supOpt tm' (supOpt tm' controlStart)) := by decide
  refine ⟨supOpt tm' (supOpt tm' controlStart), ?_, by decide, ⟨⟨true, true, false, true⟩, by decide, rfl, rfl⟩⟩
  exact Reach.step (Reach.step (controlStart_reach tm') (Step.sup h1)) (Step.sup h2)

/-- Were the signals sent to the leader's pid instead of the negated pid, a background child would be alive
    after SIGKILL went out: the fact `killsGroup` is needed for `C30_group_dead_after_kill`. -/
theorem C30_control_leader_only :
    ∃ s t, Reach { tm with killsGroup := false } (init 0 false) s ∧ s.phase = .killSent t ∧
      ∃ p ∈ s.procs, p.alive = true ∧ p.inGroup = true := by
  let tm' : Timing := { tm with killsGroup := false }
  have h1 : sup tm' controlStart = some (supOpt tm' controlStart) := by decide
  have h2 : sup tm' (supOpt tm' controlStart) = some (supOpt tm' (supOpt tm' controlStart)) := by decide
  refine ⟨supOpt tm' (supOpt tm' controlStart), 0, ?_, by decide, ⟨⟨true, true, false, true⟩, by decide, rfl, rfl⟩⟩
  exact Reach.step (Reach.step (controlStart_reach tm') (Step.sup h1)) (Step.sup h2)

/-! ### the executable run used by the correspondence -/

/-- The scripted runs the harness compares with the real code are executions of the transition system, from
    the state right after `cmd.Start()` (the leader forks the scripted children, they adjust pipes and signal
    dispositions, then the clock and the supervisor run): every theorem above applies to them. -/
theorem C30_script_run_is_execution (d : Nat) (sc : Script) (fuel : Nat) :
    Reach tm (init d false) (runScript tm sc fuel (initScript d sc)) :=
  Reach.trans (initScript_reach tm d sc) (runScript_reach tm sc fuel (initScript d sc) (by simp [initScript]))

/-- Hence: whenever a scripted run ends in a timeout, it ends within the bound and with no survivor. -/
theorem C30_script_timeout (d : Nat) (sc : Script) (fuel t : Nat)
    (h : (runScript tm sc fuel (initScript d sc)).phase = .returned true t) :
    t ≤ d + tm.termWait + tm.killWait ∧ (runScript tm sc fuel (initScript d sc)).survivors = 0 := by
  have hr := C30_script_run_is_execution d sc fuel
  refine ⟨C30_timeout_return_time d false _ t hr h, ?_⟩
  have hg := C30_group_dead_after_timeout d false _ t hr h
  unfold St.survivors
  rw [List.length_eq_zero_iff, List.filter_eq_nil_iff]
  intro p hp
  cases hin : p.inGroup with
  | false => simp
  | true => simp [hg p hp hin]

-- non-vacuity / sanity of `runScript`: a TERM-ignoring tree that holds the pipes is killed 30 ms after a 500 ms
-- deadline and nobody survives; a quick command returns normally and leaves its quiet child behind.
example :
    let s := runScript tm ⟨5000, true, [⟨5000, true, true⟩]⟩ 40 (initScript 500 ⟨5000, true, [⟨5000, true, true⟩]⟩)
    s.phase = .returned true 530 ∧ s.survivors = 0 := by decide

example :
    let s := runScript tm ⟨100, false, [⟨5000, false, false⟩]⟩ 40 (initScript 500 ⟨100, false, [⟨5000, false, false⟩]⟩)
    s.phase = .returned false 100 ∧ s.survivors = 1 := by decide

end PlzVerif.Props.C30
