import PlzVerif.Lemmas.CrashRecover
import PlzVerif.Lemmas.CrashFixed
import PlzVerif.Lemmas.WriteFile
import PlzVerif.Lemmas.Build
import PlzVerif.Generated.C32
/-!
C32  Crashes never leave files that later builds trust wrongly.

The build step is a list of atomic filesystem operations (`planWith`, phase order regenerated from `buildTarget`);
a crash is a cut of that list at ANY position; `needsBuilding` is a function of the filesystem state.

* `C32_recover` (full, every stamp mode, file and directory outputs, forced rebuilds included): from any state that
  satisfies the per-output history invariant, after a cut at any position, the next build of the SAME tree leaves
  exactly the clean outputs and is stable.  `C32_recover_readsMd` is the same for targets whose up-to-date path loads the
  metadata file: the next build either succeeds with the clean outputs and the complete metadata, or — only when the
  cut left a strict prefix of the gob under stamps that are already current — fails once, removes the outputs, and the
  build after that succeeds (`C32_witness_truncated_metadata` shows this case is real).
* `C32_crash_inv_partial` + `C32_main_partial`: with the stamp on the inode (xattrs) and file outputs, every crash
  state still satisfies the history invariant `Inv` of C01, hence a later build of ANY tree (edits after the crash
  included) equals the clean build.  The property at this strength FAILS in two classes, both replayed on the binary:
  `C32_witness_fallback_stale_stamp` (the fallback record `.rule_hash_<out>` survives the replacement of its output:
  xattrs disabled, or a symlink output) and `C32_witness_dir_partial_remove` (a directory output keeps its xattr while
  `RemoveAll` empties it).
* `C32_recover_repeated`: the same-tree statement for any number of kills in a row (each attempt starts from what the
  previous one left), via `CurInv` — the part of the history invariant that survives crashes in every stamp mode.
* `C32_fixed_crash_inv`, `C32_fixed_metadata_never_truncated`: the repair proposed in the findings (drop the stamp of
  every declared output before anything destructive: `fixedOrder`) restores the history invariant at every cut in
  every stamp mode and for directory outputs, and a truncated metadata file is never trusted.
* `C32_interleaving`: build steps of different targets touch disjoint files, so any interleaving is a family of cuts.
* `C32_needsBuilding_refines`, `C32_build_refines`: the filesystem-level test / build step refine `buildOne` of the
  history model (Model/Build.lean) on `view`.
* `C32_writeFile_atomic`: after every cut of fs.WriteFile the destination holds its old content or the complete new one.
-/
namespace PlzVerif.Props.C32
set_option linter.unusedSectionVars false
set_option linter.unusedSimpArgs false
open PlzVerif.CrashBuild PlzVerif.Generated

/-- Side condition on the facts regenerated from buildTarget / StoreTargetMetadata / moveOutput(s) / writeRuleHash /
    readRuleHashFromXattrs / needsBuilding / Build / fs.RecordAttr(File) / fs.WriteFile. -/
def PhasesOK : Bool := C32.buildPhases == codedOrder
def WriteFileCallsOK : Bool := C32.writeFileCalls == WriteFile.codedCalls
def FactsOK : Bool :=
  PhasesOK && WriteFileCallsOK &&
  C32.stampPhaseCalls == ["OutputHash", "writeRuleHash"] &&
  C32.storeMetadataCalls == ["RemoveAll", "MkdirAll", "Create", "Encode"] &&
  C32.moveOutputsLoopsOverOutputs && C32.moveOutputKeepsBeforeRemove &&
  C32.moveOutputCalls == ["Hash", "PathExists", "Hash", "Equal", "RemoveAll", "PathExists", "MkdirAll", "Rename", "RecursiveCopy"] &&
  C32.writeRuleHashSteps == ["if(len(outputs) == 0):RecordAttrFile", "range(outputs):RecordAttr(element)",
    "if(FileExists):RecordAttr(targetBuildMetadataFileName)"] &&
  C32.writeRuleHashOverFullOutputs &&
  C32.readLoop == ["cur=ReadAttr(element)", "if(cur==nil)→empty", "if(acc!=nil&&!bytes.Equal(acc,cur))→empty", "acc=cur"] &&
  C32.needsBuildingMetadataMissingFirst && C32.needsBuildingChecksEveryOutput &&
  C32.needsBuildingReadsStampVia == ["readRuleHashFromXattrs"] &&
  C32.loadMetadataFailureIsFatal && C32.buildFailureCalls == ["buildTarget", "RemoveOutputs"] &&
  C32.removeOutputsCalls == ["Outputs", "RemoveAll"] &&
  C32.recordAttrFileCalls == ["WriteFile", "fallbackFileName"] &&
  C32.fallbackFileNameExpr == "dir + \".rule_hash_\" + file" &&
  C32.recordAttrFallbackWhen == "!xattrsEnabled" &&
  C32.recordAttrCalls == ["RecordAttrFile", "LSet", "IsSymlink", "RecordAttrFile", "LSet"] &&
  C32.readAttrCalls == ["ReadAttrFile", "LGet", "IsSymlink", "ReadAttrFile"] &&
  C32.writeFileTempInDestDir &&
  C32.writeFileRenameArgs == ["temp.Name", "dest"] && C32.writeFileCopyArgs == ["temp", "reader"] &&
  C32.writeFileChmodArgs == ["temp.Name", "mode"] && C32.writeFileDefaultMode == "0664" &&
  C32.renameFileCalls.head? == some "Rename"

/-- Obligation a code change can break (e.g. writing the stamp before the outputs are moved changes `buildPhases`). -/
theorem C32_facts_ok : FactsOK = true := by decide

theorem facts_head : PhasesOK = true ∧ WriteFileCallsOK = true := by
  have h := C32_facts_ok
  unfold FactsOK at h
  generalize PhasesOK = p at h ⊢
  generalize WriteFileCallsOK = w at h ⊢
  cases p <;> cases w <;> simp_all

theorem phases_eq : C32.buildPhases = codedOrder := by
  have h := facts_head.1
  simpa [PhasesOK] using h

theorem wfcalls_eq : C32.writeFileCalls = WriteFile.codedCalls := by
  have h := facts_head.2
  simpa [WriteFileCallsOK] using h

variable {N C S H : Type} [DecidableEq N] [DecidableEq H] [DecidableEq S]

/-- the operation list / the build step, instantiated with the regenerated phase order -/
def planG (b : Params N C S H) (fs : TState N C S) := planWith C32.buildPhases b fs
def buildG (b : Params N C S H) (force : Bool) (fs : TState N C S) := buildFSWith C32.buildPhases b force fs

theorem planG_eq (b : Params N C S H) (fs : TState N C S) : planG b fs = plan b fs := by
  unfold planG plan; rw [phases_eq]
theorem buildG_eq (b : Params N C S H) (force : Bool) (fs : TState N C S) : buildG b force fs = buildFS b force fs := by
  unfold buildG buildFS; rw [phases_eq]

theorem buildFS_rebuild (b : Params N C S H) (fs : TState N C S) (h : needsBuilding b fs = true) :
    buildFS b false fs = (applyOps fs (plan b fs), true) := by
  simp [buildFS, buildFSWith, h, plan]

theorem buildFS_skip (b : Params N C S H) (fs : TState N C S) (h : needsBuilding b fs = false) (h2 : mdFails b fs = false) :
    buildFS b false fs = (fs, true) := by
  simp [buildFS, buildFSWith, h, h2]

theorem buildFS_fail (b : Params N C S H) (fs : TState N C S) (h : needsBuilding b fs = false) (h2 : mdFails b fs = true) :
    buildFS b false fs = (removeOutputs b fs, false) := by
  simp [buildFS, buildFSWith, h, h2]

/-- every declared output is there with the clean content -/
def OutputsClean (b : Params N C S H) (fs : TState N C S) : Prop :=
  ∀ n ∈ b.outs, ∃ nd, (fs.out n).gen = some nd ∧ nd.content = b.new n

theorem complete_build (b : Params N C S H) (fs : TState N C S) (hnd : b.outs.Nodup) (hne : b.outs ≠ [])
    (hH : Function.Injective b.hash) :
    OutputsClean b (applyOps fs (plan b fs)) ∧ (applyOps fs (plan b fs)).md = some b.mdBytes ∧
    needsBuilding b (applyOps fs (plan b fs)) = false := by
  refine ⟨fun n hn => (plan_out b fs hH hnd n hn).2, plan_md b fs, ?_⟩
  apply needsBuilding_false_of b _ hne ⟨_, plan_md b fs⟩
  intro n hn
  obtain ⟨h1, nd, h2, _⟩ := plan_out b fs hH hnd n hn
  exact ⟨h1, nd, h2⟩

/-- in a crash state that `needsBuilding` accepts, every output is the clean one -/
theorem trusted_crash_clean (b : Params N C S H) (G : N → C → S → Prop) (fs : TState N C S)
    (hnd : b.outs.Nodup) (hH : Function.Injective b.hash)
    (hG : ∀ n ∈ b.outs, ∀ c, G n c b.stamp → c = b.new n)
    (hinv : ∀ n ∈ b.outs, SliceInv (G n) (b.useFb n) (fs.out n)) (k : Nat)
    (hnb : needsBuilding b (applyOps fs ((plan b fs).take k)) = false) :
    OutputsClean b (applyOps fs ((plan b fs).take k)) := by
  intro n hn
  obtain ⟨_, hall⟩ := needsBuilding_false b _ hnb
  obtain ⟨hs, nd, hg⟩ := hall n hn
  obtain ⟨j, hj⟩ := crash_slice b fs n hnd hn k
  refine ⟨nd, hg, ?_⟩
  have hf := crash_forms b fs n j
  rw [← hj] at hf
  exact crash_trusted_is_new b n (G n) hH (hG n hn) (fs.out n) _ (hinv n hn) hf nd hg hs

/-- **C32 (same tree).**  Take any state of the target's files in which every stamped output is what its stamp
    describes (`hinv`; `hG`: the current stamp describes exactly the current outputs — C01's skip soundness).  Kill the
    build step after ANY number `k` of its atomic operations (whether or not it was a forced rebuild).  The next plain
    build of the same tree succeeds, leaves exactly the clean outputs, and the build after that has nothing to do.
    All stamp modes (xattr / fallback records), file and directory outputs (arbitrary partial removals). -/
theorem C32_recover (b : Params N C S H) (G : N → C → S → Prop) (fs : TState N C S)
    (hnd : b.outs.Nodup) (hne : b.outs ≠ []) (hH : Function.Injective b.hash)
    (hG : ∀ n ∈ b.outs, ∀ c, G n c b.stamp → c = b.new n)
    (hinv : ∀ n ∈ b.outs, SliceInv (G n) (b.useFb n) (fs.out n))
    (hmd : b.readsMd = false) (k : Nat) :
    (buildG b false (applyOps fs ((planG b fs).take k))).2 = true ∧
    OutputsClean b (buildG b false (applyOps fs ((planG b fs).take k))).1 ∧
    needsBuilding b (buildG b false (applyOps fs ((planG b fs).take k))).1 = false := by
  rw [planG_eq, buildG_eq]
  by_cases hnb : needsBuilding b (applyOps fs ((plan b fs).take k)) = true
  · rw [buildFS_rebuild b _ hnb]
    have := complete_build b (applyOps fs ((plan b fs).take k)) hnd hne hH
    exact ⟨rfl, this.1, this.2.2⟩
  · have hnb' : needsBuilding b (applyOps fs ((plan b fs).take k)) = false := by simpa using hnb
    rw [buildFS_skip b _ hnb' (by simp [mdFails, hmd])]
    exact ⟨rfl, trusted_crash_clean b G fs hnd hH hG hinv k hnb', hnb'⟩

/-- **C32 (same tree) for targets whose up-to-date path loads the metadata file** (post-build functions, output
    directories).  `hdec`: a truncated gob does not decode; `hmd0`: metadata already in place under the current stamps
    is the current metadata.  The next build either succeeds with clean outputs and the complete metadata, or fails
    (exactly when the cut left a strict prefix of the gob that does not decode, under stamps that are already
    current), in which case `Build` removes the outputs and the build after that succeeds with the same result. -/
theorem C32_recover_readsMd (b : Params N C S H) (G : N → C → S → Prop) (fs : TState N C S)
    (hnd : b.outs.Nodup) (hne : b.outs ≠ []) (hH : Function.Injective b.hash)
    (hG : ∀ n ∈ b.outs, ∀ c, G n c b.stamp → c = b.new n)
    (hinv : ∀ n ∈ b.outs, SliceInv (G n) (b.useFb n) (fs.out n))
    (hr : b.readsMd = true) (hload : b.mdLoads b.mdBytes = true)
    (hdec : ∀ j, b.mdLoads (b.mdBytes.take j) = true → b.mdBytes.take j = b.mdBytes)
    (hmd0 : ∀ bs, fs.md = some bs → (∀ n ∈ b.outs, readStamp b fs n = some b.stamp) → bs = b.mdBytes) (k : Nat) :
    let r := buildG b false (applyOps fs ((planG b fs).take k))
    (r.2 = true → OutputsClean b r.1 ∧ r.1.md = some b.mdBytes ∧ needsBuilding b r.1 = false) ∧
    (r.2 = false →
      (∃ j, (applyOps fs ((planG b fs).take k)).md = some (b.mdBytes.take j) ∧ b.mdLoads (b.mdBytes.take j) = false) ∧
      (buildG b false r.1).2 = true ∧ OutputsClean b (buildG b false r.1).1 ∧ (buildG b false r.1).1.md = some b.mdBytes) := by
  simp only [planG_eq, buildG_eq]
  have hms := crash_md_stamps b fs k
  have hclean0 := trusted_crash_clean b G fs hnd hH hG hinv k
  generalize hc : applyOps fs ((plan b fs).take k) = crash at hms hclean0
  by_cases hnb : needsBuilding b crash = true
  · rw [buildFS_rebuild b _ hnb]
    have := complete_build b crash hnd hne hH
    exact ⟨fun _ => ⟨this.1, this.2.1, this.2.2⟩, fun h => by simp at h⟩
  · have hnb' : needsBuilding b crash = false := by simpa using hnb
    have hclean : OutputsClean b crash := hclean0 hnb'
    obtain ⟨⟨bs, hbs⟩, hall⟩ := needsBuilding_false b _ hnb'
    by_cases hl : b.mdLoads bs = true
    · -- the metadata decodes: it is the complete current one
      have hfull : bs = b.mdBytes := by
        rcases hms with ⟨h1, h2⟩ | h | ⟨j, h⟩
        · refine hmd0 bs (by rw [← h1, hbs]) ?_
          intro n hn; rw [← h2 n]; exact (hall n hn).1
        · rw [hbs] at h; simp at h
        · rw [hbs] at h; simp at h; subst h; exact hdec j hl
      rw [buildFS_skip b _ hnb' (by simp [mdFails, hbs, hl])]
      exact ⟨fun _ => ⟨hclean, by rw [hbs, hfull], hnb'⟩, fun h => by simp at h⟩
    · have hl' : b.mdLoads bs = false := by simpa using hl
      rw [buildFS_fail b _ hnb' (by simp [mdFails, hbs, hl', hr])]
      refine ⟨fun h => by simp at h, fun _ => ⟨?_, ?_⟩⟩
      · rcases hms with ⟨h1, h2⟩ | h | ⟨j, h⟩
        · exfalso
          have := hmd0 bs (by rw [← h1, hbs]) (by intro n hn; rw [← h2 n]; exact (hall n hn).1)
          rw [this, hload] at hl'; simp at hl'
        · rw [hbs] at h; simp at h
        · rw [hbs] at h; simp at h; subst h; exact ⟨j, hbs, hl'⟩
      · -- second attempt: the outputs are gone, so it rebuilds
        have hnb2 : needsBuilding b (removeOutputs b crash) = true := by
          cases ho : b.outs with
          | nil => exact absurd ho hne
          | cons n0 ns =>
            simp only [needsBuilding, Bool.or_eq_true, List.any_eq_true]
            right
            exact ⟨n0, by rw [ho]; simp, by simp [removeOutputs, ho]⟩
        rw [buildFS_rebuild b _ hnb2]
        have := complete_build b (removeOutputs b crash) hnd hne hH
        exact ⟨rfl, this.1, this.2.1⟩

/-- "an output that reads back the CURRENT stamp is the current output" — the part of the history invariant that a
    same-tree recovery needs; unlike the full invariant it survives crashes in every stamp mode. -/
def CurInv (b : Params N C S H) (fs : TState N C S) : Prop :=
  ∀ n ∈ b.outs, SliceInv (fun c s => s = b.stamp → c = b.new n) (b.useFb n) (fs.out n)

/-- any number of interrupted build steps of the same tree, each cut anywhere, each started from what the previous
    one left -/
def crashSeq (b : Params N C S H) : List Nat → TState N C S → TState N C S
  | [], fs => fs
  | k :: ks, fs => crashSeq b ks (applyOps fs ((planG b fs).take k))

theorem curInv_crash (b : Params N C S H) (fs : TState N C S) (hnd : b.outs.Nodup) (hH : Function.Injective b.hash)
    (h : CurInv b fs) (k : Nat) : CurInv b (applyOps fs ((planG b fs).take k)) := by
  intro n hn nd s hg hs hcur
  subst hcur
  rw [planG_eq] at hg hs
  obtain ⟨j, hj⟩ := crash_slice b fs n hnd hn k
  have hf := crash_forms b fs n j
  rw [← hj] at hf
  exact crash_trusted_is_new b n (fun c s => s = b.stamp → c = b.new n) hH (fun c hc => hc rfl) (fs.out n) _ (h n hn) hf nd hg hs

theorem curInv_crashSeq (b : Params N C S H) (hnd : b.outs.Nodup) (hH : Function.Injective b.hash) :
    ∀ (ks : List Nat) (fs : TState N C S), CurInv b fs → CurInv b (crashSeq b ks fs)
  | [], _, h => h
  | k :: ks, fs, h => curInv_crashSeq b hnd hH ks _ (curInv_crash b fs hnd hH h k)

/-- **C32 (same tree), repeated crashes.**  Kill the build of the same tree any number of times, each time after any
    number of operations, each attempt starting from whatever the previous one left behind; the first build that is
    allowed to finish leaves exactly the clean outputs (all stamp modes, file and directory outputs). -/
theorem C32_recover_repeated (b : Params N C S H) (fs : TState N C S)
    (hnd : b.outs.Nodup) (hne : b.outs ≠ []) (hH : Function.Injective b.hash)
    (hinv : CurInv b fs) (hmd : b.readsMd = false) (ks : List Nat) :
    (buildG b false (crashSeq b ks fs)).2 = true ∧
    OutputsClean b (buildG b false (crashSeq b ks fs)).1 ∧
    needsBuilding b (buildG b false (crashSeq b ks fs)).1 = false := by
  have h := curInv_crashSeq b hnd hH ks fs hinv
  have := C32_recover b (fun n c s => s = b.stamp → c = b.new n) (crashSeq b ks fs) hnd hne hH
    (fun n _ c hc => hc rfl) h hmd 0
  simpa [applyOps] using this

/-! ### any later tree: the history invariant at every cut (xattr stamps, file outputs) -/

theorem sliceInv_congr (G : C → S → Prop) (fb : Bool) (s1 s2 : Slice C S) (hg : s1.gen = s2.gen) (hf : s1.fb = s2.fb)
    (h : SliceInv G fb s1) : SliceInv G fb s2 := by
  intro nd s h1 h2
  exact h nd s (by rw [hg]; exact h1) (by rw [sliceStamp_congr fb s1 s2 hg hf]; exact h2)

/-- **C32 (any later tree), partial.**  When stamps live on the output's inode (xattrs enabled, not a symlink) and old
    outputs are removed in one step (regular files), EVERY cut of the build step leaves every output of plz-out in a
    state where "stamped ⇒ it is what the stamp describes" still holds — the history invariant of C01, so edits made
    after the crash cannot be confused with the interrupted build.  (`hnew`: the interrupted build's outputs are what
    its stamp describes.)  The two hypotheses are necessary: see the two witnesses below. -/
theorem C32_crash_inv_partial (b : Params N C S H) (G : N → C → S → Prop) (fs : TState N C S)
    (hnd : b.outs.Nodup) (hH : Function.Injective b.hash)
    (hx : ∀ n ∈ b.outs, b.useFb n = false ∧ b.rmSteps n = [])
    (hnew : ∀ n ∈ b.outs, G n (b.new n) b.stamp)
    (hinv : ∀ n, SliceInv (G n) false (fs.out n)) (k : Nat) :
    ∀ n, SliceInv (G n) false ((applyOps fs ((planG b fs).take k)).out n) := by
  intro n
  rw [planG_eq]
  by_cases hn : n ∈ b.outs
  · obtain ⟨j, hj⟩ := crash_slice b fs n hnd hn k
    have hf := crash_forms b fs n j
    rw [← hj] at hf
    exact crash_sliceInv b n (G n) hH (hx n hn).1 (hx n hn).2 (hnew n hn) (fs.out n) _ (hinv n) hf
  · obtain ⟨j, hj⟩ := take_filterMap (proj n) (plan b fs) k
    rw [applyOps_out, hj, plan_proj_other b fs n hn]
    cases j with
    | zero => exact hinv n
    | succ j =>
      simp only [List.take_succ_cons, List.take_nil]
      exact sliceInv_congr (G n) false (fs.out n) _ rfl rfl (hinv n)

/-- what a later build sees of a single-output target satisfies the same statement -/
theorem view_good (b : Params N C S H) (fs : TState N C S) (n0 : N) (G : C → S → Prop)
    (h : SliceInv G (b.useFb n0) (fs.out n0)) (c : C) (s : S) (hv : view b fs n0 = some (c, s)) : G c s := by
  unfold view at hv
  split at hv
  · rename_i _ nd s' _ hg hs
    simp at hv
    obtain ⟨rfl, rfl⟩ := hv
    exact h nd s' hg hs
  · simp at hv

/-- `needsBuilding` on the filesystem is the "up to date ⇒ skip" test of the history model (Model/Build.lean
    `buildOne`: the stamp in plz-out equals the current one) on `view`. -/
theorem C32_needsBuilding_refines (b : Params N C S H) (fs : TState N C S) (n0 : N) (ho : b.outs = [n0]) :
    needsBuilding b fs = false ↔ ∃ c, view b fs n0 = some (c, b.stamp) := by
  constructor
  · intro h
    obtain ⟨⟨bs, hbs⟩, hall⟩ := needsBuilding_false b fs h
    obtain ⟨hs, nd, hg⟩ := hall n0 (by rw [ho]; simp)
    exact ⟨nd.content, by simp [view, hbs, hg, hs]⟩
  · rintro ⟨c, hv⟩
    unfold view at hv
    split at hv
    · rename_i bs nd s' hm hg hs
      simp at hv
      apply needsBuilding_false_of b fs (by rw [ho]; simp) ⟨bs, hm⟩
      intro n hn
      rw [ho] at hn; simp at hn; subst hn
      exact ⟨by rw [hs, hv.2], nd, hg⟩
    · simp at hv

/-- a complete build step leaves the clean output under the current stamp in `view` -/
theorem C32_build_refines (b : Params N C S H) (fs : TState N C S) (n0 : N) (ho : b.outs = [n0])
    (hH : Function.Injective b.hash) : view b (applyOps fs (planG b fs)) n0 = some (b.new n0, b.stamp) := by
  rw [planG_eq]
  obtain ⟨hs, nd, hg, hc⟩ := plan_out b fs hH (by rw [ho]; simp) n0 (by rw [ho]; simp)
  simp [view, plan_md b fs, hg, hs, hc]

section History
open PlzVerif.Build
variable {K A F N' S' : Type} [DecidableEq K] [DecidableEq S'] [DecidableEq N']
variable (fx : Facts) (mv : C → C → C) (exec : A → List (N' × C) → C) (ruleSer : A → S') (pathSer : C → H)

/-- "the output is `exec` of what the stamp describes" (the body of C01's `Inv`) -/
def GoodOut (c : C) (s : Stamp S' N' H) : Prop := ∃ a ins, s = stampOf ruleSer pathSer a ins ∧ c = exec a ins

/-- **C32 ⇒ C01 after a crash (partial: xattr stamps, single file output per target).**  Let every target's files
    satisfy the history invariant, let any set of build steps (for whatever attributes and inputs they were started
    with) be cut anywhere — independently per target, i.e. under any interleaving, see `C32_interleaving` — then a build
    of ANY repository state `r` from what is left gives every requested target exactly its clean output. -/
theorem C32_main_partial (hmv : MvOK pathSer mv) (hf : fx.cmpRule = true ∧ fx.cmpSource = true)
    (hR : Function.Injective ruleSer) (hP : Function.Injective pathSer)
    (g : K → TState N C (Stamp S' N' H)) (bs : K → Params N C (Stamp S' N' H) H) (n0 : K → N)
    (hb : ∀ k, (bs k).outs = [n0 k] ∧ (bs k).useFb (n0 k) = false ∧ (bs k).rmSteps (n0 k) = [] ∧ (bs k).hash = pathSer ∧
      ∃ a ins, (bs k).stamp = stampOf ruleSer pathSer a ins ∧ (bs k).new (n0 k) = exec a ins)
    (hinv : ∀ k n, SliceInv (GoodOut exec ruleSer pathSer) false ((g k).out n))
    (cut : K → Nat) (r : Repo K A F N' C) (sel : K → Bool) (hwf : WFList sel [] r.targets) :
    ∀ k ∈ selKeys sel r.targets, ∃ c st,
      (build fx mv exec ruleSer pathSer r sel
        (fun k => view (bs k) (applyOps (g k) ((planG (bs k) (g k)).take (cut k))) (n0 k))).1 k = some (c, st) ∧
      (clean exec r sel).lookup k = some c := by
  have hInv : Inv exec ruleSer pathSer
      (fun k => view (bs k) (applyOps (g k) ((planG (bs k) (g k)).take (cut k))) (n0 k)) := by
    intro k c st hv
    obtain ⟨ho, hfb, hrm, hh, a, ins, hst, hnw⟩ := hb k
    have hsl := C32_crash_inv_partial (bs k) (fun _ => GoodOut exec ruleSer pathSer) (g k)
      (by rw [ho]; simp) (by rw [hh]; exact hP)
      (by intro n hn; rw [ho] at hn; simp at hn; subst hn; exact ⟨hfb, hrm⟩)
      (by intro n hn; rw [ho] at hn; simp at hn; subst hn; exact ⟨a, ins, hst, hnw⟩)
      (hinv k) (cut k) (n0 k)
    have := view_good (bs k) _ (n0 k) (GoodOut exec ruleSer pathSer) (by rw [hfb]; exact hsl) c st hv
    exact this
  have h := buildList_spec fx mv exec ruleSer pathSer hmv hf hR hP r sel r.targets [] _ [] rfl hInv
    (by intro k hk; simp at hk) hwf
  intro k hk
  exact h.2.2 k (by simpa using hk)

end History

/-- Build steps of different targets touch disjoint files: whatever the interleaving `l` of their operations at the
    moment of the crash, each target's files are in the state reached by a cut of its OWN operation list. -/
theorem C32_interleaving {K : Type} [DecidableEq K] (g : K → TState N C S) (bs : K → Params N C S H)
    (l : List (K × Op N C S)) (cut : K → Nat)
    (h : ∀ k, (l.filterMap fun p => if p.1 = k then some p.2 else none) = (planG (bs k) (g k)).take (cut k)) :
    ∀ k, applyGs g l k = applyOps (g k) ((planG (bs k) (g k)).take (cut k)) := by
  intro k; rw [applyGs_proj, h k]

/-! ### witnesses: where the full-strength property ("any later tree") fails on the code as it is -/
namespace W
def st (md : Option (List UInt8)) (s0 : Slice Nat Nat) : TState Nat Nat Nat :=
  ⟨md, none, none, fun n => if n = 0 then s0 else ⟨none, none, none⟩, 0⟩
/-- one output (name 0) with content `new` under stamp `stamp`; the gob is [1,2,3], written as [1] then [2,3] -/
def par (new stamp : Nat) (fb : Bool) (rm : List Nat) (readsMd : Bool) : Params Nat Nat Nat Nat :=
  { outs := [0], new := fun _ => new, stamp := stamp, hash := id, mdBytes := [1, 2, 3], mdSplit := [1],
    mdLoads := fun bs => bs == [1, 2, 3], useFb := fun _ => fb, mdUseFb := fb, rmSteps := fun _ => rm, fbParts := [],
    cache := false, readsMd := readsMd }
/-- tree T0 ↦ content 10 under stamp 100, tree T1 ↦ content 20 under stamp 200 -/
def good (c s : Nat) : Prop := (s = 100 ∧ c = 10) ∨ (s = 200 ∧ c = 20)
end W

open W in
/-- **Stale fallback record.**  Stamps in fallback records (xattrs disabled, or a symlink output).  plz-out holds a
    complete build of T0.  The tree is edited to T1 and the build is killed right after `os.Rename` put the new output
    in place (cut 9): `.rule_hash_<out>` still holds T0's stamp.  The tree is reverted to T0: the next build finds
    nothing to do and keeps T1's output (20), where a clean build gives 10. -/
theorem C32_witness_fallback_stale_stamp :
    SliceInv good true ((st (some [9]) ⟨none, some ⟨10, none⟩, some (.full 100)⟩).out 0) ∧
    needsBuilding (par 10 100 true [] false)
      (applyOps (st (some [9]) ⟨none, some ⟨10, none⟩, some (.full 100)⟩)
        ((planG (par 20 200 true [] false) (st (some [9]) ⟨none, some ⟨10, none⟩, some (.full 100)⟩)).take 9)) = false ∧
    (((buildG (par 10 100 true [] false) false
      (applyOps (st (some [9]) ⟨none, some ⟨10, none⟩, some (.full 100)⟩)
        ((planG (par 20 200 true [] false) (st (some [9]) ⟨none, some ⟨10, none⟩, some (.full 100)⟩)).take 9))).1.out 0).gen.map (·.content))
      = some 20 ∧
    (par 10 100 true [] false).new 0 = 10 := by
  refine ⟨?_, by decide, by decide, rfl⟩
  intro nd s hg hs
  simp [st] at hg; subst hg
  simp [st, sliceStamp, Fb.read] at hs; subst hs
  exact Or.inl ⟨rfl, rfl⟩

open W in
/-- **Partially removed directory output.**  Stamps as xattrs.  plz-out holds a complete build of T0 whose output is a
    directory (content 10, xattr 100 on the directory inode).  The build of the edited tree T1 is killed inside
    `os.RemoveAll` of the old directory (cut 8: one entry unlinked, content 11).  The tree is reverted to T0: the next
    build finds the xattr of T0 and keeps the half-empty directory. -/
theorem C32_witness_dir_partial_remove :
    SliceInv good false ((st (some [9]) ⟨none, some ⟨10, some 100⟩, none⟩).out 0) ∧
    needsBuilding (par 10 100 false [] false)
      (applyOps (st (some [9]) ⟨none, some ⟨10, some 100⟩, none⟩)
        ((planG (par 20 200 false [11] false) (st (some [9]) ⟨none, some ⟨10, some 100⟩, none⟩)).take 8)) = false ∧
    (((buildG (par 10 100 false [] false) false
      (applyOps (st (some [9]) ⟨none, some ⟨10, some 100⟩, none⟩)
        ((planG (par 20 200 false [11] false) (st (some [9]) ⟨none, some ⟨10, some 100⟩, none⟩)).take 8))).1.out 0).gen.map (·.content))
      = some 11 := by
  refine ⟨?_, by decide, by decide⟩
  intro nd s hg hs
  simp [st] at hg; subst hg
  simp [st, sliceStamp] at hs; subst hs
  exact Or.inl ⟨rfl, rfl⟩

open W in
/-- **Truncated metadata under current stamps.**  A target whose up-to-date path loads its metadata (post-build
    function).  plz-out holds a complete build of T1; `plz build --rebuild` of the same tree is killed inside
    `StoreTargetMetadata` (cut 5: the first piece of the gob is written).  The next build finds everything stamped as
    current, fails to decode the metadata, FAILS and removes the outputs; the build after that succeeds. -/
theorem C32_witness_truncated_metadata :
    (buildG (par 20 200 false [] true) false
      (applyOps (st (some [1, 2, 3]) ⟨none, some ⟨20, some 200⟩, none⟩)
        ((planG (par 20 200 false [] true) (st (some [1, 2, 3]) ⟨none, some ⟨20, some 200⟩, none⟩)).take 5))).2 = false ∧
    ((buildG (par 20 200 false [] true) false
      (applyOps (st (some [1, 2, 3]) ⟨none, some ⟨20, some 200⟩, none⟩)
        ((planG (par 20 200 false [] true) (st (some [1, 2, 3]) ⟨none, some ⟨20, some 200⟩, none⟩)).take 5))).1.out 0).gen = none ∧
    (buildG (par 20 200 false [] true) false (buildG (par 20 200 false [] true) false
      (applyOps (st (some [1, 2, 3]) ⟨none, some ⟨20, some 200⟩, none⟩)
        ((planG (par 20 200 false [] true) (st (some [1, 2, 3]) ⟨none, some ⟨20, some 200⟩, none⟩)).take 5))).1).2 = true := by
  decide

/-! ### the proposed repair, checked on the model
`fixedOrder` = the coded phase order preceded by a phase that drops the stamp (xattr and fallback record) of every
declared output.  This is the fix sketched in the three findings; the theorems below show it closes all of them. -/

/-- **With the repair the history invariant survives every cut in EVERY stamp mode and for directory outputs**
    (compare `C32_crash_inv_partial`, which needs xattr stamps and file outputs for the code as it is). -/
theorem C32_fixed_crash_inv (b : Params N C S H) (G : N → C → S → Prop) (fs : TState N C S)
    (hnd : b.outs.Nodup) (hH : Function.Injective b.hash)
    (hnew : ∀ n ∈ b.outs, G n (b.new n) b.stamp)
    (hinv : ∀ n, SliceInv (G n) (b.useFb n) (fs.out n)) (k : Nat) :
    ∀ n, SliceInv (G n) (b.useFb n) ((applyOps fs ((planFixed b fs).take k)).out n) := by
  intro n
  obtain ⟨j, hj⟩ := take_filterMap (proj n) (planFixed b fs) k
  rw [applyOps_out, hj]
  by_cases hn : n ∈ b.outs
  · rw [planFixed_proj b fs n hnd hn]
    exact fixed_sliceInv b fs n (G n) hH (hnew n hn) (hinv n) j
  · rw [planFixed_proj_other b fs n hn]
    cases j with
    | zero => exact hinv n
    | succ j =>
      simp only [List.take_succ_cons, List.take_nil]
      exact sliceInv_congr (G n) (b.useFb n) (fs.out n) _ rfl rfl (hinv n)

/-- **With the repair a truncated metadata file is never trusted**: in every crash state that `needsBuilding` accepts,
    the metadata file decodes (`hmd0`: it did so before the build step whenever the stamps were current). -/
theorem C32_fixed_metadata_never_truncated (b : Params N C S H) (fs : TState N C S)
    (hnd : b.outs.Nodup) (hne : b.outs ≠ []) (hload : b.mdLoads b.mdBytes = true)
    (hmd0 : ∀ bs, fs.md = some bs → (∀ n ∈ b.outs, readStamp b fs n = some b.stamp) → b.mdLoads bs = true) (k : Nat)
    (hnb : needsBuilding b (applyOps fs ((planFixed b fs).take k)) = false) :
    mdFails b (applyOps fs ((planFixed b fs).take k)) = false := by
  obtain ⟨⟨bs, hbs⟩, hall⟩ := needsBuilding_false b _ hnb
  have hl : b.mdLoads bs = true := by
    rcases crash_fixed_md b fs hnd hne k with ⟨h1, h2⟩ | ⟨n, hn, h⟩ | h
    · exact hmd0 bs (by rw [← h1, hbs]) (by intro n hn; rw [← h2 n]; exact (hall n hn).1)
    · rw [(hall n hn).1] at h; simp at h
    · rw [hbs] at h; simp at h; rw [h]; exact hload
  simp [mdFails, hbs, hl]

section HistoryFixed
open PlzVerif.Build
variable {K A F N' S' : Type} [DecidableEq K] [DecidableEq S'] [DecidableEq N']
variable (fx : Facts) (mv : C → C → C) (exec : A → List (N' × C) → C) (ruleSer : A → S') (pathSer : C → H)

/-- **With the repair, C32 ⇒ C01 after a crash in every stamp mode and for directory outputs**: the statement of
    `C32_main_partial` without its two restrictions. -/
theorem C32_fixed_main (hmv : MvOK pathSer mv) (hf : fx.cmpRule = true ∧ fx.cmpSource = true)
    (hR : Function.Injective ruleSer) (hP : Function.Injective pathSer)
    (g : K → TState N C (Stamp S' N' H)) (bs : K → Params N C (Stamp S' N' H) H) (n0 : K → N)
    (hb : ∀ k, (bs k).outs = [n0 k] ∧ (bs k).hash = pathSer ∧
      ∃ a ins, (bs k).stamp = stampOf ruleSer pathSer a ins ∧ (bs k).new (n0 k) = exec a ins)
    (hinv : ∀ k n, SliceInv (GoodOut exec ruleSer pathSer) ((bs k).useFb n) ((g k).out n))
    (cut : K → Nat) (r : Repo K A F N' C) (sel : K → Bool) (hwf : WFList sel [] r.targets) :
    ∀ k ∈ selKeys sel r.targets, ∃ c st,
      (build fx mv exec ruleSer pathSer r sel
        (fun k => view (bs k) (applyOps (g k) ((planFixed (bs k) (g k)).take (cut k))) (n0 k))).1 k = some (c, st) ∧
      (clean exec r sel).lookup k = some c := by
  have hInv : Inv exec ruleSer pathSer
      (fun k => view (bs k) (applyOps (g k) ((planFixed (bs k) (g k)).take (cut k))) (n0 k)) := by
    intro k c st hv
    obtain ⟨ho, hh, a, ins, hst, hnw⟩ := hb k
    have hsl := C32_fixed_crash_inv (bs k) (fun _ => GoodOut exec ruleSer pathSer) (g k)
      (by rw [ho]; simp) (by rw [hh]; exact hP)
      (by intro n hn; rw [ho] at hn; simp at hn; subst hn; exact ⟨a, ins, hst, hnw⟩)
      (hinv k) (cut k) (n0 k)
    exact view_good (bs k) _ (n0 k) (GoodOut exec ruleSer pathSer) hsl c st hv
  have h := buildList_spec fx mv exec ruleSer pathSer hmv hf hR hP r sel r.targets [] _ [] rfl hInv
    (by intro k hk; simp at hk) hwf
  intro k hk
  exact h.2.2 k (by simpa using hk)

end HistoryFixed

open W in
/-- the three witness scenarios under the repair: at no cut is a wrong output trusted, and no build fails -/
example : ∀ k < 20,
    (needsBuilding (par 10 100 true [] false)
      (applyOps (st (some [9]) ⟨none, some ⟨10, none⟩, some (.full 100)⟩)
        ((planFixed (par 20 200 true [] false) (st (some [9]) ⟨none, some ⟨10, none⟩, some (.full 100)⟩)).take k)) = true ∨
     (((applyOps (st (some [9]) ⟨none, some ⟨10, none⟩, some (.full 100)⟩)
        ((planFixed (par 20 200 true [] false) (st (some [9]) ⟨none, some ⟨10, none⟩, some (.full 100)⟩)).take k)).out 0).gen.map (·.content)) = some 10) ∧
    (needsBuilding (par 10 100 false [] false)
      (applyOps (st (some [9]) ⟨none, some ⟨10, some 100⟩, none⟩)
        ((planFixed (par 20 200 false [11] false) (st (some [9]) ⟨none, some ⟨10, some 100⟩, none⟩)).take k)) = true ∨
     (((applyOps (st (some [9]) ⟨none, some ⟨10, some 100⟩, none⟩)
        ((planFixed (par 20 200 false [11] false) (st (some [9]) ⟨none, some ⟨10, some 100⟩, none⟩)).take k)).out 0).gen.map (·.content)) = some 10) ∧
    (buildFSWith fixedOrder (par 20 200 false [] true) false
      (applyOps (st (some [1, 2, 3]) ⟨none, some ⟨20, some 200⟩, none⟩)
        ((planFixed (par 20 200 false [] true) (st (some [1, 2, 3]) ⟨none, some ⟨20, some 200⟩, none⟩)).take k))).2 = true := by
  decide

/-! ### fs.WriteFile -/
open PlzVerif.WriteFile in
/-- **fs.WriteFile is atomic at its destination.**  For the call order regenerated from the source, every cut `k` of
    the operation list (temp file in the destination's directory under a different name `t`, data copied in ANY
    pieces, chmod, rename) leaves the destination with exactly its old content or exactly the complete new content
    with the requested mode; no other file of the directory except the temporary is touched. -/
theorem C32_writeFile_atomic (t dest : String) (ht : t ≠ dest) (chunks : List (List UInt8)) (mode : Nat) (d : Dir) (k : Nat) :
    (run d ((opsWith C32.writeFileCalls t dest chunks mode).take k) dest = d dest ∨
     run d ((opsWith C32.writeFileCalls t dest chunks mode).take k) dest = some ⟨chunks.flatten, effMode mode⟩) ∧
    ∀ x, x ≠ t → x ≠ dest → run d ((opsWith C32.writeFileCalls t dest chunks mode).take k) x = d x := by
  rw [wfcalls_eq]
  have hops : opsWith codedCalls t dest chunks mode = pre t chunks mode ++ [.rename t dest] := ops_eq t dest chunks mode
  rw [hops]
  have hd : dest ≠ t := fun e => ht e.symm
  have hpre := run_pre_temp t chunks mode d
  rcases take_append_cases (pre t chunks mode) [.rename t dest] k with ⟨i, e⟩ | ⟨i, e⟩
  · rw [e]
    have hp : ∀ op ∈ (pre t chunks mode).take i, TempOnly t op := fun op h => pre_tempOnly t chunks mode op (List.mem_of_mem_take h)
    exact ⟨Or.inl (run_tempOnly _ d hp dest hd), fun x hx _ => run_tempOnly _ d hp x hx⟩
  · rw [e]
    have hrun : ∀ x, run d (pre t chunks mode ++ List.take i [Op.rename t dest]) x =
        run (run d (pre t chunks mode)) (List.take i [Op.rename t dest]) x := by
      intro x; simp [run, List.foldl_append]
    cases i with
    | zero =>
      simp only [List.take_zero, List.append_nil]
      exact ⟨Or.inl (run_tempOnly _ d (pre_tempOnly t chunks mode) dest hd),
        fun x hx _ => run_tempOnly _ d (pre_tempOnly t chunks mode) x hx⟩
    | succ i =>
      refine ⟨Or.inr ?_, ?_⟩
      · rw [hrun]
        simp only [List.take_succ_cons, List.take_nil, run, List.foldl_cons, List.foldl_nil, step]
        simp only [run] at hpre
        rw [hpre]; simp
      · intro x hx hxd
        rw [hrun]
        have h2 := run_tempOnly _ d (pre_tempOnly t chunks mode) x hx
        simp only [List.take_succ_cons, List.take_nil, run, List.foldl_cons, List.foldl_nil, step]
        simp only [run] at hpre h2
        rw [hpre]; simp [hx, hxd, h2]

open PlzVerif.WriteFile in
/-- run to the end, the destination holds the new content and the temporary is gone -/
theorem C32_writeFile_complete (t dest : String) (ht : t ≠ dest) (chunks : List (List UInt8)) (mode : Nat) (d : Dir) :
    run d (opsWith C32.writeFileCalls t dest chunks mode) dest = some ⟨chunks.flatten, effMode mode⟩ ∧
    run d (opsWith C32.writeFileCalls t dest chunks mode) t = none := by
  rw [wfcalls_eq]
  have hops : opsWith codedCalls t dest chunks mode = pre t chunks mode ++ [.rename t dest] := ops_eq t dest chunks mode
  rw [hops]
  have h1 := run_pre_temp t chunks mode d
  simp only [run] at h1
  simp [run, List.foldl_append, step, h1, ht]

-- non-vacuity of C32_recover's hypotheses: the witness state and parameters satisfy them
example : (W.par 20 200 true [] false).outs.Nodup ∧ (W.par 20 200 true [] false).outs ≠ [] ∧
    Function.Injective (W.par 20 200 true [] false).hash ∧
    (∀ n ∈ (W.par 20 200 true [] false).outs, ∀ c, W.good c (W.par 20 200 true [] false).stamp → c = (W.par 20 200 true [] false).new n) := by
  refine ⟨by simp [W.par], by simp [W.par], fun a b h => h, ?_⟩
  intro n _ c h
  rcases h with ⟨h, _⟩ | ⟨_, h⟩
  · simp [W.par] at h
  · simpa [W.par] using h

end PlzVerif.Props.C32
