import PlzVerif.Lemmas.CrashUnrepaired
import PlzVerif.Generated.C32
/-!
C32  Crashes never leave files that later builds trust wrongly.

The build step is a list of atomic filesystem operations (`planWith`, phase order regenerated from `buildTarget`);
a crash is a cut of that list at ANY position; `needsBuilding` is a function of the filesystem state.
Since the repair in /repo ("fix: drop the recorded rule hashes before the outputs and metadata of a target are
replaced") the regenerated order is `fixedOrder` = unstamp, metadata, move, stamp, cache: `removeRuleHash` drops the stamp
(xattr AND fallback record) of every declared output before `StoreTargetMetadata`.  For that step the property holds at
full strength, in every stamp mode (xattrs, fallback records, symlink outputs) and for file and directory outputs:

* `C32_crash_inv`: every cut leaves every output of plz-out in a state where "stamped ⇒ it is what its stamp describes"
  (the history invariant of C01) still holds.
* `C32_main`: hence a build of ANY later repository state (edits after the crash included) from what an arbitrary family
  of interrupted build steps left equals the clean build (conditional, like C01, on injective hash pre-images).
  `C32_interleaving`: concurrently running build steps of different targets reduce to per-target cuts.
* `C32_recover`: the next plain build of the same tree succeeds — also for targets whose up-to-date path loads the
  metadata file (`C32_metadata_never_truncated`: a truncated gob is never found under current stamps) — leaves exactly
  the clean outputs and is then stable; `C32_recover_repeated`: after any number of kills in a row as well.
* `C32_unverified_never_trusted`: a step whose outputs fail their declared `hashes` never leaves, at any cut (the whole
  failure path up to Build's RemoveOutputs included), a state the next build accepts — by the regenerated order verify →
  record inside calculateAndCheckRuleHash; `C32_witness_stamp_before_verify` is the kernel-checked failure of the other order.
* `C32_needsBuilding_refines`, `C32_build_refines`: the filesystem-level test / step refine `buildOne` of the history model.
* `C32_before_fix_*`: the three kernel-checked witnesses of what went wrong with the OLD order (`plan = planWith
  codedOrder`; conditional on the old fact value by construction); the theorems that held then are in
  Lemmas/CrashUnrepaired.lean.
* `C32_writeFile_atomic`: after every cut of fs.WriteFile the destination holds its old content or the complete new one.
-/
namespace PlzVerif.Props.C32
set_option linter.unusedSectionVars false
set_option linter.unusedSimpArgs false
open PlzVerif.CrashBuild PlzVerif.CrashBuild.Unrepaired PlzVerif.Generated

/-- Side condition on the facts regenerated from buildTarget / StoreTargetMetadata / moveOutput(s) / writeRuleHash /
    readRuleHashFromXattrs / needsBuilding / Build / fs.RecordAttr(File) / fs.WriteFile. -/
def PhasesOK : Bool := C32.buildPhases == fixedOrder
def WriteFileCallsOK : Bool := C32.writeFileCalls == WriteFile.codedCalls
def FactsOK : Bool :=
  PhasesOK && WriteFileCallsOK &&
  C32.stampPhaseCalls == ["OutputHash", "writeRuleHash"] &&
  -- declared hashes are verified BEFORE the record is written, and a mismatch returns the error at once
  C32.verifyThenStamp == ["OutputHash", "checkRuleHashes", "writeRuleHash", "Chmod"] && C32.verifyFailureReturnsError &&
  C32.removeRuleHashSteps == ["if(len(outputs) == 0):RemoveAttr", "range(outputs):RemoveAttr(element)"] &&
  C32.removeRuleHashOverFullOutputs && C32.removeAttrCalls == ["Remove", "fallbackFileName", "LRemove", "LRemove"] &&
  C32.storeMetadataCalls == ["RemoveAll", "MkdirAll", "Create", "Encode"] &&
  C32.moveOutputsLoopsOverOutputs && C32.moveOutputKeepsBeforeRemove &&
  -- moveOutput compares the TRUE hash of the old output: buildTarget re-hashes every old output (recalc = true, which also
  -- rewrites the memoised user.plz_hash_* xattr a partially removed directory would still carry) before the command runs
  C32.oldOutputsRehashedBeforeCommand && C32.outputHashRecalcArgs == ["true", "true"] &&
  C32.moveOutputCalls == ["Hash", "PathExists", "Hash", "Equal", "RemoveAll", "PathExists", "MkdirAll", "Rename", "RecursiveCopy"] &&
  C32.writeRuleHashSteps == ["if(len(outputs) == 0):RecordAttrFile", "range(outputs):RecordAttr(element)",
    "if(FileExists):RecordAttr(targetBuildMetadataFileName)"] &&
  C32.writeRuleHashOverFullOutputs &&
  C32.readLoop == ["cur=ReadAttr(element)", "if(cur==nil)→empty", "if(acc!=nil&&!bytes.Equal(acc,cur))→empty", "acc=cur"] &&
  C32.needsBuildingMetadataMissingFirst && C32.needsBuildingChecksEveryOutput &&
  C32.needsBuildingReadsStampVia == ["readRuleHashFromXattrs"] &&
  C32.loadMetadataFailureIsFatal && C32.buildFailureCalls == ["buildTarget", "RemoveOutputs"] &&
  C32.removeOutputsCalls == ["Outputs", "RemoveAll"] &&
  C32.recordAttrFileCalls == ["WriteFile", "fallbackFileName"] &&
  C32.fallbackFileNameExpr == "dir + \".rule_hash_\" + file" &&
  C32.recordAttrFallbackWhen == "!xattrsEnabled" &&
  C32.recordAttrCalls == ["RecordAttrFile", "LSet", "IsSymlink", "RecordAttrFile", "LSet"] &&
  C32.readAttrCalls == ["ReadAttrFile", "LGet", "IsSymlink", "ReadAttrFile"] &&
  C32.writeFileTempInDestDir &&
  C32.writeFileRenameArgs == ["temp.Name", "dest"] && C32.writeFileCopyArgs == ["temp", "reader"] &&
  C32.writeFileChmodArgs == ["temp.Name", "mode"] && C32.writeFileDefaultMode == "0664" &&
  C32.renameFileCalls.head? == some "Rename"

/-- Obligation a code change can break (e.g. no longer dropping the old stamps first, or writing the new stamp before
    the outputs are moved, changes `buildPhases`). -/
theorem C32_facts_ok : FactsOK = true := by decide

theorem facts_head : PhasesOK = true ∧ WriteFileCallsOK = true := by
  have h := C32_facts_ok
  unfold FactsOK at h
  generalize PhasesOK = p at h ⊢
  generalize WriteFileCallsOK = w at h ⊢
  cases p <;> cases w <;> simp_all

theorem phases_eq : C32.buildPhases = fixedOrder := by
  have h := facts_head.1
  simpa [PhasesOK] using h

theorem wfcalls_eq : C32.writeFileCalls = WriteFile.codedCalls := by
  have h := facts_head.2
  simpa [WriteFileCallsOK] using h

variable {N C S H : Type} [DecidableEq N] [DecidableEq H] [DecidableEq S]

/-- the operation list / the build step, instantiated with the regenerated phase order -/
def planG (b : Params N C S H) (fs : TState N C S) := planWith C32.buildPhases b fs
def buildG (b : Params N C S H) (force : Bool) (fs : TState N C S) := buildFSWith C32.buildPhases b force fs

theorem planG_eq (b : Params N C S H) (fs : TState N C S) : planG b fs = planFixed b fs := by
  unfold planG planFixed; rw [phases_eq]
theorem buildG_eq (b : Params N C S H) (force : Bool) (fs : TState N C S) :
    buildG b force fs = buildFSWith fixedOrder b force fs := by
  unfold buildG; rw [phases_eq]

theorem buildFix_rebuild (b : Params N C S H) (fs : TState N C S) (h : needsBuilding b fs = true) :
    buildFSWith fixedOrder b false fs = (applyOps fs (planFixed b fs), true) := by
  simp [buildFSWith, h, planFixed]

theorem buildFix_skip (b : Params N C S H) (fs : TState N C S) (h : needsBuilding b fs = false) (h2 : mdFails b fs = false) :
    buildFSWith fixedOrder b false fs = (fs, true) := by
  simp [buildFSWith, h, h2]

theorem complete_build_fixed (b : Params N C S H) (fs : TState N C S) (hnd : b.outs.Nodup) (hne : b.outs ≠ [])
    (hH : Function.Injective b.hash) :
    OutputsClean b (applyOps fs (planFixed b fs)) ∧ (applyOps fs (planFixed b fs)).md = some b.mdBytes ∧
    needsBuilding b (applyOps fs (planFixed b fs)) = false := by
  refine ⟨fun n hn => (planFixed_out b fs hH hnd n hn).2, planFixed_md b fs, ?_⟩
  apply needsBuilding_false_of b _ hne ⟨_, planFixed_md b fs⟩
  intro n hn
  obtain ⟨h1, nd, h2, _⟩ := planFixed_out b fs hH hnd n hn
  exact ⟨h1, nd, h2⟩

/-! ### every cut keeps the history invariant -/

/-- **C32, any later tree.**  Take any state of the target's files in which every stamped output is what its stamp
    describes (`hinv`), and a build step whose own outputs are what its stamp describes (`hnew`).  EVERY cut of the step
    leaves every output of plz-out — declared by this step or not — in such a state again: whatever is edited after
    the crash, nothing left behind can be mistaken for an up-to-date output.  All stamp modes (per output: xattr on the
    inode, or fallback record), file and directory outputs (arbitrary partial removals), arbitrary splitting of writes. -/
theorem C32_crash_inv (b : Params N C S H) (G : N → C → S → Prop) (fs : TState N C S)
    (hnd : b.outs.Nodup) (hH : Function.Injective b.hash)
    (hnew : ∀ n ∈ b.outs, G n (b.new n) b.stamp)
    (hinv : ∀ n, SliceInv (G n) (b.useFb n) (fs.out n)) (k : Nat) :
    ∀ n, SliceInv (G n) (b.useFb n) ((applyOps fs ((planG b fs).take k)).out n) := by
  intro n
  rw [planG_eq]
  obtain ⟨j, hj⟩ := take_filterMap (proj n) (planFixed b fs) k
  rw [applyOps_out, hj]
  by_cases hn : n ∈ b.outs
  · rw [planFixed_proj b fs n hnd hn]
    exact fixed_sliceInv b fs n (G n) hH (hnew n hn) (hinv n) j
  · rw [planFixed_proj_other b fs n hn]
    cases j with
    | zero => exact hinv n
    | succ j =>
      simp only [List.take_succ_cons, List.take_nil]
      exact sliceInv_congr (G n) (b.useFb n) (fs.out n) _ rfl rfl (hinv n)

/-- **A truncated metadata file is never trusted**: in every crash state that `needsBuilding` accepts, the metadata
    file decodes (`hmd0`: it did so before the build step whenever the stamps were current). -/
theorem C32_metadata_never_truncated (b : Params N C S H) (fs : TState N C S)
    (hnd : b.outs.Nodup) (hne : b.outs ≠ []) (hload : b.mdLoads b.mdBytes = true)
    (hmd0 : ∀ bs, fs.md = some bs → (∀ n ∈ b.outs, readStamp b fs n = some b.stamp) → b.mdLoads bs = true) (k : Nat)
    (hnb : needsBuilding b (applyOps fs ((planG b fs).take k)) = false) :
    mdFails b (applyOps fs ((planG b fs).take k)) = false := by
  rw [planG_eq] at hnb ⊢
  obtain ⟨⟨bs, hbs⟩, hall⟩ := needsBuilding_false b _ hnb
  have hl : b.mdLoads bs = true := by
    rcases crash_fixed_md b fs hnd hne k with ⟨h1, h2⟩ | ⟨n, hn, h⟩ | h
    · exact hmd0 bs (by rw [← h1, hbs]) (by intro n hn; rw [← h2 n]; exact (hall n hn).1)
    · rw [(hall n hn).1] at h; simp at h
    · rw [hbs] at h; simp at h; rw [h]; exact hload
  simp [mdFails, hbs, hl]

/-! ### the next build of the same tree -/

/-- the hypotheses about one build step and the state it starts from, bundled -/
structure StepOK (b : Params N C S H) (G : N → C → S → Prop) (fs : TState N C S) : Prop where
  nodup : b.outs.Nodup
  nonempty : b.outs ≠ []
  hashInj : Function.Injective b.hash
  /-- the current stamp describes exactly the current outputs (C01's skip soundness) -/
  determines : ∀ n ∈ b.outs, ∀ c, G n c b.stamp → c = b.new n
  produces : ∀ n ∈ b.outs, G n (b.new n) b.stamp
  /-- history invariant of the state the step starts from -/
  inv : ∀ n, SliceInv (G n) (b.useFb n) (fs.out n)
  /-- targets that load their metadata when up to date: the complete gob loads, and so did the file already in place
      whenever the stamps were current -/
  md : b.readsMd = true → b.mdLoads b.mdBytes = true ∧
        ∀ bs, fs.md = some bs → (∀ n ∈ b.outs, readStamp b fs n = some b.stamp) → b.mdLoads bs = true

/-- **C32, same tree.**  Kill the build step after ANY number `k` of its atomic operations (forced rebuild or not).
    The next plain build of the same tree SUCCEEDS (first attempt; post-build targets included), leaves exactly the
    clean outputs, and the build after that has nothing to do.  (The build step modelled is the one that runs the
    command: every cache lookup is a miss; retrieval from a cache is C12's / C02's model.) -/
theorem C32_recover (b : Params N C S H) (G : N → C → S → Prop) (fs : TState N C S) (h : StepOK b G fs) (k : Nat) :
    (buildG b false (applyOps fs ((planG b fs).take k))).2 = true ∧
    OutputsClean b (buildG b false (applyOps fs ((planG b fs).take k))).1 ∧
    needsBuilding b (buildG b false (applyOps fs ((planG b fs).take k))).1 = false := by
  have hinv' := C32_crash_inv b G fs h.nodup h.hashInj h.produces h.inv k
  have hmdk := fun hl hm => C32_metadata_never_truncated b fs h.nodup h.nonempty hl hm k
  rw [buildG_eq]
  generalize hc : applyOps fs ((planG b fs).take k) = crash at hinv' hmdk
  by_cases hnb : needsBuilding b crash = true
  · rw [buildFix_rebuild b _ hnb]
    have := complete_build_fixed b crash h.nodup h.nonempty h.hashInj
    exact ⟨rfl, this.1, this.2.2⟩
  · have hnb' : needsBuilding b crash = false := by simpa using hnb
    have hmf : mdFails b crash = false := by
      cases hr : b.readsMd with
      | false => simp [mdFails, hr]
      | true => exact hmdk (h.md hr).1 (h.md hr).2 hnb'
    rw [buildFix_skip b _ hnb' hmf]
    refine ⟨rfl, ?_, hnb'⟩
    intro n hn
    obtain ⟨_, hall⟩ := needsBuilding_false b _ hnb'
    obtain ⟨hs, nd, hg⟩ := hall n hn
    exact ⟨nd, hg, h.determines n hn _ (hinv' n nd b.stamp hg hs)⟩

/-- any number of interrupted build steps of the same tree, each cut anywhere, each started from what the previous
    one left -/
def crashSeqG (b : Params N C S H) : List Nat → TState N C S → TState N C S
  | [], fs => fs
  | k :: ks, fs => crashSeqG b ks (applyOps fs ((planG b fs).take k))

theorem inv_crashSeq (b : Params N C S H) (G : N → C → S → Prop) (hnd : b.outs.Nodup) (hH : Function.Injective b.hash)
    (hnew : ∀ n ∈ b.outs, G n (b.new n) b.stamp) :
    ∀ (ks : List Nat) (fs : TState N C S), (∀ n, SliceInv (G n) (b.useFb n) (fs.out n)) →
      ∀ n, SliceInv (G n) (b.useFb n) ((crashSeqG b ks fs).out n)
  | [], _, h => h
  | k :: ks, fs, h => inv_crashSeq b G hnd hH hnew ks _ (C32_crash_inv b G fs hnd hH hnew h k)

/-- **C32, same tree, repeated crashes.**  Kill the build of the same tree any number of times, each attempt starting
    from whatever the previous one left; the first build that is allowed to finish leaves exactly the clean outputs.
    (Stated for targets that do not load their metadata; for the others apply `C32_recover` to the last cut.) -/
theorem C32_recover_repeated (b : Params N C S H) (G : N → C → S → Prop) (fs : TState N C S) (h : StepOK b G fs)
    (hr : b.readsMd = false) (ks : List Nat) :
    (buildG b false (crashSeqG b ks fs)).2 = true ∧
    OutputsClean b (buildG b false (crashSeqG b ks fs)).1 ∧
    needsBuilding b (buildG b false (crashSeqG b ks fs)).1 = false := by
  have hi := inv_crashSeq b G h.nodup h.hashInj h.produces ks fs h.inv
  have h' : StepOK b G (crashSeqG b ks fs) :=
    { nodup := h.nodup, nonempty := h.nonempty, hashInj := h.hashInj, determines := h.determines, produces := h.produces,
      inv := hi, md := fun hm => by rw [hr] at hm; simp at hm }
  have := C32_recover b G (crashSeqG b ks fs) h' 0
  simpa [applyOps] using this

/-! ### declared hashes: a record is only ever written on outputs that passed verification -/

/-- is the rule-hash record written before the declared hashes are verified? (regenerated from calculateAndCheckRuleHash) -/
def stampFirstG : Bool := C32.verifyThenStamp.idxOf "writeRuleHash" < C32.verifyThenStamp.idxOf "checkRuleHashes"

theorem stampFirstG_false : stampFirstG = false := by decide

/-- the build step of a target whose outputs fail the verification of its declared `hashes`, as regenerated -/
def planFailG (b : Params N C S H) (fs : TState N C S) := planFailWith C32.buildPhases stampFirstG b fs

/-- **C32 for targets with declared hashes.**  The outputs of the step do not match the declared hashes (a clean build
    FAILS with "Bad output hash" and leaves nothing).  Kill the step after ANY number of operations — in particular
    anywhere on the failure path between the failed verification and the end of Build's RemoveOutputs: the next build
    does not find the target up to date (so it runs the step again and fails like the clean build), provided the state
    before was not accepted either.  Every stamp mode, any outputs. -/
theorem C32_unverified_never_trusted (b : Params N C S H) (fs : TState N C S) (hnd : b.outs.Nodup) (hne : b.outs ≠ [])
    (hpre : needsBuilding b fs = true) (k : Nat) :
    needsBuilding b (applyOps fs ((planFailG b fs).take k)) = true := by
  unfold planFailG
  rw [phases_eq, stampFirstG_false]
  exact failing_step_never_trusted b fs hnd hne hpre k

open Unrepaired.W in
/-- with the other order (record first, verification last) a cut exists — after the record, before RemoveOutputs — that
    leaves the unverified output (content 20) with its metadata under a current record: the next build accepts it -/
theorem C32_witness_stamp_before_verify :
    needsBuilding (par 20 200 false [] false) (st (some [9]) ⟨none, some ⟨10, some 100⟩, none⟩) = true ∧
    needsBuilding (par 20 200 false [] false)
      (applyOps (st (some [9]) ⟨none, some ⟨10, some 100⟩, none⟩)
        ((planFailWith fixedOrder true (par 20 200 false [] false) (st (some [9]) ⟨none, some ⟨10, some 100⟩, none⟩)).take 11)) = false ∧
    (((applyOps (st (some [9]) ⟨none, some ⟨10, some 100⟩, none⟩)
        ((planFailWith fixedOrder true (par 20 200 false [] false) (st (some [9]) ⟨none, some ⟨10, some 100⟩, none⟩)).take 11)).out 0).gen.map (·.content))
      = some 20 := by
  decide

-- non-vacuity of C32_unverified_never_trusted: the state and step of the witness satisfy its hypotheses
open Unrepaired.W in
example : (par 20 200 false [] false).outs.Nodup ∧ (par 20 200 false [] false).outs ≠ [] ∧
    needsBuilding (par 20 200 false [] false) (st (some [9]) ⟨none, some ⟨10, some 100⟩, none⟩) = true := by decide

/-! ### refinement to the history model of C01, and the property over histories -/

/-- `needsBuilding` on the filesystem is the "up to date ⇒ skip" test of the history model (Model/Build.lean
    `buildOne`: the stamp in plz-out equals the current one) on `view`. -/
theorem C32_needsBuilding_refines (b : Params N C S H) (fs : TState N C S) (n0 : N) (ho : b.outs = [n0]) :
    needsBuilding b fs = false ↔ ∃ c, view b fs n0 = some (c, b.stamp) :=
  Unrepaired.C32_needsBuilding_refines b fs n0 ho

/-- a complete build step leaves the clean output under the current stamp in `view` -/
theorem C32_build_refines (b : Params N C S H) (fs : TState N C S) (n0 : N) (ho : b.outs = [n0])
    (hH : Function.Injective b.hash) : view b (applyOps fs (planG b fs)) n0 = some (b.new n0, b.stamp) := by
  rw [planG_eq]
  obtain ⟨hs, nd, hg, hc⟩ := planFixed_out b fs hH (by rw [ho]; simp) n0 (by rw [ho]; simp)
  simp [view, planFixed_md b fs, hg, hs, hc]

section History
open PlzVerif.Build
variable {K A F N' S' : Type} [DecidableEq K] [DecidableEq S'] [DecidableEq N']
variable (fx : Facts) (mv : C → C → C) (exec : A → List (N' × C) → C) (ruleSer : A → S') (pathSer : C → H)

/-- **C32 ⇒ C01 after a crash.**  Let every target's files satisfy the history invariant, let any set of build steps
    (for whatever attributes and inputs they were started with) be cut anywhere — independently per target, i.e. under
    any interleaving, see `C32_interleaving` — then a build of ANY repository state `r` from what is left gives every
    requested target exactly its clean output.  Every stamp mode, file or directory output (one per target, as in the
    history model). -/
theorem C32_main (hmv : MvOK pathSer mv) (hf : fx.cmpRule = true ∧ fx.cmpSource = true)
    (hR : Function.Injective ruleSer) (hP : Function.Injective pathSer)
    (g : K → TState N C (Stamp S' N' H)) (bs : K → Params N C (Stamp S' N' H) H) (n0 : K → N)
    (hb : ∀ k, (bs k).outs = [n0 k] ∧ (bs k).hash = pathSer ∧
      ∃ a ins, (bs k).stamp = stampOf ruleSer pathSer a ins ∧ (bs k).new (n0 k) = exec a ins)
    (hinv : ∀ k n, SliceInv (GoodOut exec ruleSer pathSer) ((bs k).useFb n) ((g k).out n))
    (cut : K → Nat) (r : Repo K A F N' C) (sel : K → Bool) (hwf : WFList sel [] r.targets) :
    ∀ k ∈ selKeys sel r.targets, ∃ c st,
      (build fx mv exec ruleSer pathSer r sel
        (fun k => view (bs k) (applyOps (g k) ((planG (bs k) (g k)).take (cut k))) (n0 k))).1 k = some (c, st) ∧
      (clean exec r sel).lookup k = some c := by
  have hInv : Inv exec ruleSer pathSer
      (fun k => view (bs k) (applyOps (g k) ((planG (bs k) (g k)).take (cut k))) (n0 k)) := by
    intro k c st hv
    obtain ⟨ho, hh, a, ins, hst, hnw⟩ := hb k
    have hsl := C32_crash_inv (bs k) (fun _ => GoodOut exec ruleSer pathSer) (g k)
      (by rw [ho]; simp) (by rw [hh]; exact hP)
      (by intro n hn; rw [ho] at hn; simp at hn; subst hn; exact ⟨a, ins, hst, hnw⟩)
      (hinv k) (cut k) (n0 k)
    exact view_good (bs k) _ (n0 k) (GoodOut exec ruleSer pathSer) hsl c st hv
  have h := buildList_spec fx mv exec ruleSer pathSer hmv hf hR hP r sel r.targets [] _ [] rfl hInv
    (by intro k hk; simp at hk) hwf
  intro k hk
  exact h.2.2 k (by simpa using hk)

end History

/-- Build steps of different targets touch disjoint files: whatever the interleaving `l` of their operations at the
    moment of the crash, each target's files are in the state reached by a cut of its OWN operation list. -/
theorem C32_interleaving {K : Type} [DecidableEq K] (g : K → TState N C S) (bs : K → Params N C S H)
    (l : List (K × Op N C S)) (cut : K → Nat)
    (h : ∀ k, (l.filterMap fun p => if p.1 = k then some p.2 else none) = (planG (bs k) (g k)).take (cut k)) :
    ∀ k, applyGs g l k = applyOps (g k) ((planG (bs k) (g k)).take (cut k)) := by
  intro k; rw [applyGs_proj, h k]

/-! ### before the repair: what the old step order (`plan = planWith codedOrder`) got wrong -/

open Unrepaired.W in
/-- stale fallback record: see `Unrepaired.C32_witness_fallback_stale_stamp` -/
theorem C32_before_fix_fallback_stale_stamp :
    SliceInv good true ((st (some [9]) ⟨none, some ⟨10, none⟩, some (.full 100)⟩).out 0) ∧
    needsBuilding (par 10 100 true [] false)
      (applyOps (st (some [9]) ⟨none, some ⟨10, none⟩, some (.full 100)⟩)
        ((plan (par 20 200 true [] false) (st (some [9]) ⟨none, some ⟨10, none⟩, some (.full 100)⟩)).take 9)) = false ∧
    (((buildFS (par 10 100 true [] false) false
      (applyOps (st (some [9]) ⟨none, some ⟨10, none⟩, some (.full 100)⟩)
        ((plan (par 20 200 true [] false) (st (some [9]) ⟨none, some ⟨10, none⟩, some (.full 100)⟩)).take 9))).1.out 0).gen.map (·.content))
      = some 20 ∧
    (par 10 100 true [] false).new 0 = 10 :=
  Unrepaired.C32_witness_fallback_stale_stamp
open Unrepaired.W in
/-- partially removed directory output: see `Unrepaired.C32_witness_dir_partial_remove` -/
theorem C32_before_fix_dir_partial_remove :
    SliceInv good false ((st (some [9]) ⟨none, some ⟨10, some 100⟩, none⟩).out 0) ∧
    needsBuilding (par 10 100 false [] false)
      (applyOps (st (some [9]) ⟨none, some ⟨10, some 100⟩, none⟩)
        ((plan (par 20 200 false [11] false) (st (some [9]) ⟨none, some ⟨10, some 100⟩, none⟩)).take 8)) = false ∧
    (((buildFS (par 10 100 false [] false) false
      (applyOps (st (some [9]) ⟨none, some ⟨10, some 100⟩, none⟩)
        ((plan (par 20 200 false [11] false) (st (some [9]) ⟨none, some ⟨10, some 100⟩, none⟩)).take 8))).1.out 0).gen.map (·.content))
      = some 11 :=
  Unrepaired.C32_witness_dir_partial_remove
open Unrepaired.W in
/-- truncated metadata under current stamps: see `Unrepaired.C32_witness_truncated_metadata` -/
theorem C32_before_fix_truncated_metadata :
    (buildFS (par 20 200 false [] true) false
      (applyOps (st (some [1, 2, 3]) ⟨none, some ⟨20, some 200⟩, none⟩)
        ((plan (par 20 200 false [] true) (st (some [1, 2, 3]) ⟨none, some ⟨20, some 200⟩, none⟩)).take 5))).2 = false ∧
    ((buildFS (par 20 200 false [] true) false
      (applyOps (st (some [1, 2, 3]) ⟨none, some ⟨20, some 200⟩, none⟩)
        ((plan (par 20 200 false [] true) (st (some [1, 2, 3]) ⟨none, some ⟨20, some 200⟩, none⟩)).take 5))).1.out 0).gen = none ∧
    (buildFS (par 20 200 false [] true) false (buildFS (par 20 200 false [] true) false
      (applyOps (st (some [1, 2, 3]) ⟨none, some ⟨20, some 200⟩, none⟩)
        ((plan (par 20 200 false [] true) (st (some [1, 2, 3]) ⟨none, some ⟨20, some 200⟩, none⟩)).take 5))).1).2 = true :=
  Unrepaired.C32_witness_truncated_metadata

open Unrepaired.W in
/-- the same three scenarios with the regenerated (repaired) order: at no cut is a wrong output trusted, and no build fails -/
theorem C32_witnesses_closed : ∀ k < 20,
    (needsBuilding (par 10 100 true [] false)
      (applyOps (st (some [9]) ⟨none, some ⟨10, none⟩, some (.full 100)⟩)
        ((planG (par 20 200 true [] false) (st (some [9]) ⟨none, some ⟨10, none⟩, some (.full 100)⟩)).take k)) = true ∨
     (((applyOps (st (some [9]) ⟨none, some ⟨10, none⟩, some (.full 100)⟩)
        ((planG (par 20 200 true [] false) (st (some [9]) ⟨none, some ⟨10, none⟩, some (.full 100)⟩)).take k)).out 0).gen.map (·.content)) = some 10) ∧
    (needsBuilding (par 10 100 false [] false)
      (applyOps (st (some [9]) ⟨none, some ⟨10, some 100⟩, none⟩)
        ((planG (par 20 200 false [11] false) (st (some [9]) ⟨none, some ⟨10, some 100⟩, none⟩)).take k)) = true ∨
     (((applyOps (st (some [9]) ⟨none, some ⟨10, some 100⟩, none⟩)
        ((planG (par 20 200 false [11] false) (st (some [9]) ⟨none, some ⟨10, some 100⟩, none⟩)).take k)).out 0).gen.map (·.content)) = some 10) ∧
    (buildG (par 20 200 false [] true) false
      (applyOps (st (some [1, 2, 3]) ⟨none, some ⟨20, some 200⟩, none⟩)
        ((planG (par 20 200 false [] true) (st (some [1, 2, 3]) ⟨none, some ⟨20, some 200⟩, none⟩)).take k))).2 = true := by
  decide

/-! ### fs.WriteFile -/

/-- the path handed to Chmod, by the role the extractor found: the temporary (mode set before the rename) or the destination -/
def chmodPathG (t dest : String) : String := if C32.writeFileChmodArgs.head? == some "dest" then dest else t

theorem chmodPathG_eq (t dest : String) : chmodPathG t dest = t := by
  have h := C32_facts_ok
  have : C32.writeFileChmodArgs = ["temp.Name", "mode"] := by decide
  simp [chmodPathG, this]

open PlzVerif.WriteFile in
/-- **fs.WriteFile is atomic at its destination.**  For the call order regenerated from the source, every cut `k` of
    the operation list (temp file in the destination's directory under a different name `t`, data copied in ANY
    pieces, chmod, rename) leaves the destination with exactly its old content or exactly the complete new content
    with the REQUESTED MODE (never the temporary's 0600); no other file of the directory except the temporary is touched. -/
theorem C32_writeFile_atomic (t dest : String) (ht : t ≠ dest) (chunks : List (List UInt8)) (mode : Nat) (d : Dir) (k : Nat) :
    (run d ((opsWith C32.writeFileCalls (chmodPathG t dest) t dest chunks mode).take k) dest = d dest ∨
     run d ((opsWith C32.writeFileCalls (chmodPathG t dest) t dest chunks mode).take k) dest = some ⟨chunks.flatten, effMode mode⟩) ∧
    ∀ x, x ≠ t → x ≠ dest → run d ((opsWith C32.writeFileCalls (chmodPathG t dest) t dest chunks mode).take k) x = d x := by
  rw [wfcalls_eq, chmodPathG_eq]
  have hops : opsWith codedCalls t t dest chunks mode = pre t chunks mode ++ [.rename t dest] := ops_eq t dest chunks mode
  rw [hops]
  have hd : dest ≠ t := fun e => ht e.symm
  have hpre := run_pre_temp t chunks mode d
  rcases take_append_cases (pre t chunks mode) [.rename t dest] k with ⟨i, e⟩ | ⟨i, e⟩
  · rw [e]
    have hp : ∀ op ∈ (pre t chunks mode).take i, TempOnly t op := fun op h => pre_tempOnly t chunks mode op (List.mem_of_mem_take h)
    exact ⟨Or.inl (run_tempOnly _ d hp dest hd), fun x hx _ => run_tempOnly _ d hp x hx⟩
  · rw [e]
    have hrun : ∀ x, run d (pre t chunks mode ++ List.take i [Op.rename t dest]) x =
        run (run d (pre t chunks mode)) (List.take i [Op.rename t dest]) x := by
      intro x; simp [run, List.foldl_append]
    cases i with
    | zero =>
      simp only [List.take_zero, List.append_nil]
      exact ⟨Or.inl (run_tempOnly _ d (pre_tempOnly t chunks mode) dest hd),
        fun x hx _ => run_tempOnly _ d (pre_tempOnly t chunks mode) x hx⟩
    | succ i =>
      refine ⟨Or.inr ?_, ?_⟩
      · rw [hrun]
        simp only [List.take_succ_cons, List.take_nil, run, List.foldl_cons, List.foldl_nil, step]
        simp only [run] at hpre
        rw [hpre]; simp
      · intro x hx hxd
        rw [hrun]
        have h2 := run_tempOnly _ d (pre_tempOnly t chunks mode) x hx
        simp only [List.take_succ_cons, List.take_nil, run, List.foldl_cons, List.foldl_nil, step]
        simp only [run] at hpre h2
        rw [hpre]; simp [hx, hxd, h2]

open PlzVerif.WriteFile in
/-- run to the end, the destination holds the new content and the temporary is gone -/
theorem C32_writeFile_complete (t dest : String) (ht : t ≠ dest) (chunks : List (List UInt8)) (mode : Nat) (d : Dir) :
    run d (opsWith C32.writeFileCalls (chmodPathG t dest) t dest chunks mode) dest = some ⟨chunks.flatten, effMode mode⟩ ∧
    run d (opsWith C32.writeFileCalls (chmodPathG t dest) t dest chunks mode) t = none := by
  rw [wfcalls_eq, chmodPathG_eq]
  have hops : opsWith codedCalls t t dest chunks mode = pre t chunks mode ++ [.rename t dest] := ops_eq t dest chunks mode
  rw [hops]
  have h1 := run_pre_temp t chunks mode d
  simp only [run] at h1
  simp [run, List.foldl_append, step, h1, ht]

-- non-vacuity of C32_main's hypotheses (jointly): one target, attributes/inputs/contents as numbers, a fallback-record stamp
open PlzVerif.Build in
example : ∃ (g : Unit → TState Nat Nat (Stamp Nat Nat Nat)) (bs : Unit → Params Nat Nat (Stamp Nat Nat Nat) Nat) (n0 : Unit → Nat),
    (∀ k, (bs k).outs = [n0 k] ∧ (bs k).hash = id ∧
      ∃ a ins, (bs k).stamp = stampOf (fun a : Nat => a) id a ins ∧ (bs k).new (n0 k) = (fun (a : Nat) (ins : List (Nat × Nat)) => a + ins.length) a ins) ∧
    (∀ k n, SliceInv (GoodOut (fun (a : Nat) (ins : List (Nat × Nat)) => a + ins.length) (fun a : Nat => a) id) ((bs k).useFb n) ((g k).out n)) ∧
    Function.Injective (fun a : Nat => a) ∧ MvOK (id : Nat → Nat) (mvCoded Facts.asCoded id) :=
  ⟨fun _ => ⟨none, none, none, fun _ => ⟨none, none, none⟩, 0⟩,
   fun _ => { outs := [0], new := fun _ => 7, stamp := stampOf (fun a : Nat => a) id 7 [], hash := id, mdBytes := [1], mdSplit := [],
              mdLoads := fun _ => true, useFb := fun _ => true, mdUseFb := true, rmSteps := fun _ => [3], fbParts := [5],
              cache := true, readsMd := false },
   fun _ => 0,
   fun _ => ⟨rfl, rfl, 7, [], rfl, rfl⟩,
   fun _ _ nd s hg _ => by simp at hg,
   fun a b h => h, mvCoded_ok _ _⟩

-- non-vacuity of C32_recover's hypotheses: a concrete state and step satisfy `StepOK`
open Unrepaired.W in
example : StepOK (par 20 200 true [] false) (fun _ => good) (st (some [9]) ⟨none, some ⟨10, none⟩, some (.full 100)⟩) where
  nodup := by simp [par]
  nonempty := by simp [par]
  hashInj := fun a b h => h
  determines := by
    intro n _ c h
    rcases h with ⟨h, _⟩ | ⟨_, h⟩
    · simp [par] at h
    · simpa [par] using h
  produces := by intro n _; exact Or.inr ⟨rfl, rfl⟩
  inv := by
    intro n nd s hg hs
    by_cases hn : n = 0
    · subst hn
      simp [st] at hg; subst hg
      simp [st, par, sliceStamp, Fb.read] at hs; subst hs
      exact Or.inl ⟨rfl, rfl⟩
    · simp [st, hn] at hg
  md := by intro h; simp [par] at h

end PlzVerif.Props.C32
