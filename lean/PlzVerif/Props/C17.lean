import PlzVerif.Lemmas.AspFreeze
import PlzVerif.Lemmas.AspReadOnly
import PlzVerif.Model.AspGenerated
import PlzVerif.Model.AspConfig
import PlzVerif.Generated.C17
/-!
C17  Packages cannot observe or mutate each other's values.

`runPackages F fuel files pkgs` is the asp model (at the facts read from /repo on this run) interpreting package
files one after the other in one interpreter; `files` are what `subinclude()` can name (interpreted once,
optimised, frozen, cached — `interpreter.Subinclude`).

* full statement `Independent`: a package renders the same globals whether it is interpreted alone or after
  another package, and its globals do not change when a later package is interpreted;
* refuted for the pinned code by three witnesses, one per root cause (known findings):
  `Freeze` keeps the unfrozen elements, the optimiser's constant objects are shared and mutable, and `+` on a
  frozen list writes into spare capacity of the shared array;
* what holds for all inputs: everything a subinclude hands out is a frozen wrapper at the top level
  (`C17_exports_frozen`), every writing primitive refuses a frozen wrapper (`C17_toplevel_partial`), `+` on a list
  without spare capacity never writes (`C17_add_exact_cap_never_writes`), and today's `Freeze` is complete for flat
  lists without spare capacity (`C17_freeze_today_flat`); a `Freeze` that wraps the frozen copy (the one-line fix)
  returns values that are frozen all the way down, without spare capacity, in cells of their own
  (`C17_freeze_fixed_is_deep`) — with today's `Freeze` that fails already for `[[1, 2]]`.
-/
namespace PlzVerif.Props.C17
open PlzVerif.Asp PlzVerif.Generated

abbrev raw : RawFacts := genRaw

abbrev F : Facts := genF

/-- The extracted shapes are ones the model knows how to follow. -/
def FactsOK : Bool :=
  (raw.freezeWraps == "receiver" || raw.freezeWraps == "local") &&
  (raw.sortedArg == "reslice" || raw.sortedArg == "copy") &&
  (raw.reversedArg == "reslice" || raw.reversedArg == "copy") &&
  (raw.listSlice == "reslice" || raw.listSlice.startsWith "other:")

theorem C17_facts_ok : FactsOK = true := by decide

/-! ### The full statement and its witnesses -/

def globalsOf (name : String) (l : List (String × Globals)) : Option Globals := (l.find? (·.1 == name)).map (·.2)

/-- `a` interpreted after `b` renders differently from `a` interpreted alone, or `a`'s globals change when `b`
    is interpreted after it. -/
def interferes (fuel : Nat) (files : List (String × Program)) (a b : String × Program) : Bool :=
  match runPackages F fuel files [a], runPackages F fuel files [b, a], runPackages F fuel files [a, b] with
  | .ok (alone, _), .ok (after, _), .ok (first, fin) =>
    match globalsOf a.1 alone, globalsOf a.1 after, globalsOf a.1 first, globalsOf a.1 fin with
    | some g0, some g1, some g2, some g3 => !(g0 == g1) || !(g2 == g3)
    | _, _, _, _ => false
  | _, _, _ => false

/-- C17 at full strength (sequential interpretation). -/
def Independent : Prop :=
  ∀ (fuel : Nat) (files : List (String × Program)) (a b : String × Program), interferes fuel files a b = false

def sub : Stmt := .expr (.call "subinclude" [(none, .str "//d:d")])

/-- `N = [[1, 2], [3]]` exported; package b: `t = N[0]; t[0] = 42`; package a just subincludes. -/
def w1Files : List (String × Program) := [("//d:d", [.assign "N" (.list 3 [.list 1 [.int 1, .int 2], .list 2 [.int 3]])])]
def w1b : String × Program := ("b", [sub, .assign "t" (.index (.name "N") (.int 0)), .idxAssign "t" (.int 0) (.int 42)])
def w1a : String × Program := ("a", [sub])

/-- `def f(): return [1, 2]` exported; package b: `r = f(); r[0] = 9`; package a: `o = f()`. -/
def w2Files : List (String × Program) := [("//d:d", [.def_ "f" [] [.ret [.list 1 [.int 1, .int 2]]]])]
def w2b : String × Program := ("b", [sub, .assign "r" (.call "f" []), .idxAssign "r" (.int 0) (.int 9)])
def w2a : String × Program := ("a", [sub, .assign "o" (.call "f" [])])

/-- `L = [1, 2, 3]; S = L[:1]` exported; package b: `v = S + [9]` — the frozen `L` is now `[1, 9, 3]`. -/
def w3Files : List (String × Program) :=
  [("//d:d", [.assign "L" (.list 1 [.int 1, .int 2, .int 3]), .assign "S" (.slice (.name "L") none (some (.int 1)))])]
def w3b : String × Program := ("b", [sub, .assign "v" (.chain none (.name "S") [(.add, none, .list 2 [.int 9])])])
def w3a : String × Program := ("a", [sub])

set_option maxRecDepth 100000 in
theorem C17_witness_freeze_keeps_elements : interferes 60 w1Files w1a w1b = true := by decide +kernel

set_option maxRecDepth 100000 in
theorem C17_witness_constant_pool_shared : interferes 60 w2Files w2a w2b = true := by decide +kernel

set_option maxRecDepth 100000 in
theorem C17_witness_add_writes_spare_capacity : interferes 60 w3Files w3a w3b = true := by decide +kernel

theorem C17_main_fails : ¬ Independent := by
  intro h; have := h 60 w1Files w1a w1b; rw [C17_witness_freeze_keeps_elements] at this; cases this

/-! ### What holds -/

/-- **What a subinclude hands out is frozen at the top level**: after `scope.Freeze()` (the step `subinclude`
    performs before it caches and copies the scope) every variable that holds a list or a dict holds a frozen
    wrapper — every heap, every scope.  (Not the elements: `C17_witness_freeze_keeps_elements`.) -/
theorem C17_exports_frozen (sc : Nat) (st st' : St) (u : Unit) (h : (freezeScope F sc).run st = .ok (u, st')) :
    ∀ s', st'.scopes[sc]? = some s' → ∀ e ∈ s'.vars, topFrozen e.2 = true :=
  freezeScope_exports_frozen F sc st st' u h

/-- **Today's `Freeze` is complete for flat lists**: a list of ints / strings / bools / None without spare
    capacity freezes to a wrapper through which nothing below can be reached or written, and the heap is not
    touched. -/
theorem C17_freeze_today_flat (n : Nat) (fz : Bool) (arr off len : Nat) (st st' : St) (v' : Val) (l : List Val)
    (hl : st.arrays[arr]? = some l) (hflat : ((l.drop off).take len).all scalar = true)
    (h : (freeze F (n + 2) (.list fz arr off len len)).run st = .ok (v', st')) :
    st' = st ∧ v' = .list true arr off len len ∧ deepFrozen st' (n + 2) v' = true :=
  freeze_today_flat F (by decide) n fz arr off len st st' v' l hl hflat h

-- the hypotheses are met by the list [1, 2, 3]
example : ((freeze F 5 (.list false 1 0 3 3)).run { arrays := [[], [.int 1, .int 2, .int 3]] }).toOption.map (·.1)
    = some (.list true 1 0 3 3) := by decide +kernel

/-- **`+` never writes when there is no spare capacity**: the sum of a list whose capacity is its length (frozen
    or not, either operand) only extends the heap.  (With spare capacity it writes into the shared array:
    `C17_witness_add_writes_spare_capacity`.) -/
theorem C17_add_exact_cap_never_writes (F' : Facts) (fz fz2 : Bool) (arr off len arr2 off2 len2 cap2 : Nat)
    (st st' : St) (v : Val)
    (h : (binOp F' .add (.list fz arr off len len) (.list fz2 arr2 off2 len2 cap2)).run st = .ok (v, st')) :
    Ext st st' := by
  simp only [binOp] at h
  split at h
  · exact absurd h (fail_run _ _ _)
  · rw [run_bind_ok] at h; obtain ⟨ys, s1, h1, h⟩ := h
    have := (elems_run h1).1; subst this
    split at h
    · exact listAppendClipFirst_ext arr off len ys _ _ v h
    · exact listAppend_exact_cap F' arr off len ys _ _ v h

/-- `D = {"k": 1}` exported; a package calls `D.setdefault("j", 2)`. -/
def wSetdefault : String × Program :=
  ("b", [sub, .expr (.method (.name "D") "setdefault" [(none, .str "j"), (none, .int 2)])])

def errorOf {α : Type} : Except String α → Option String
  | .error e => some e
  | .ok _ => none

set_option maxRecDepth 100000 in
/-- `setdefault` on an imported dict is refused (one sample; the method dispatch is part of the interpreter). -/
theorem C17_sample_setdefault_refused :
    errorOf (runPackages F 60 [("//d:d", [.assign "D" (.dict [(.str "k", .int 1)])])] [wSetdefault])
      = some "dict is immutable" := by
  decide +kernel

/-- **Partial form (top level)**: through a frozen wrapper nothing can be written — index assignment fails for a
    frozen list and a frozen dict, in every state; `sorted` / `reversed` accept a frozen list and change the heap
    by one new array only (the result): the frozen list and every other existing list are untouched. -/
theorem C17_toplevel_partial (arr off len cap d : Nat) (idx v : Val) (st : St) :
    (indexAssign (.list true arr off len cap) idx v).run st = .error "list is immutable" ∧
    (indexAssign (.dict true d) idx v).run st = .error "dict is immutable" ∧
    (∀ r st', (callBuiltin F "sorted" [(none, .list true arr off len cap)]).run st = .ok (r, st') →
      ∃ ys, st' = { st with arrays := st.arrays ++ [ys] }) ∧
    (∀ r st', (callBuiltin F "reversed" [(none, .list true arr off len cap)]).run st = .ok (r, st') →
      ∃ ys, st' = { st with arrays := st.arrays ++ [ys] }) := by
  refine ⟨rfl, rfl, ?_, ?_⟩
  · intro r st' h
    obtain ⟨ys, hs, _⟩ := sorted_copies F (by decide) true (Or.inr (by decide)) arr off len cap st st' r h
    exact ⟨ys, hs⟩
  · intro r st' h
    obtain ⟨xs, _, hs, _⟩ := reversed_copies F (by decide) true (Or.inr (by decide)) arr off len cap st st' r h
    exact ⟨_, hs⟩

/-- **The fix is sufficient for the freezing step**: for any facts record whose `Freeze` wraps the frozen copy,
    what `freeze` returns is frozen at every level, has no spare capacity, and the heap it started from is only
    extended (all frozen cells are fresh). -/
theorem C17_freeze_fixed_is_deep (F' : Facts) (hF : F'.freezeKeepsElems = false) (n : Nat) (v v' : Val)
    (st st' : St) (h : (freeze F' n v).run st = .ok (v', st')) : Ext st st' ∧ deepFrozen st' n v' = true :=
  freeze_deepFrozen F' hF n v v' st st' h

/-- The record with only `Freeze` repaired. -/
def Ffixed : Facts := { F with freezeKeepsElems := false }

/-- heap holding `[[1, 2]]`: array 1 = `[1, 2]`, array 2 = `[<list 1>]` -/
def nestedHeap : St := { arrays := [[], [.int 1, .int 2], [.list false 1 0 2 2]] }
def nestedVal : Val := .list false 2 0 1 1

def frozenDeep (F' : Facts) : Bool :=
  match (freeze F' 20 nestedVal).run nestedHeap with
  | .ok (v', st') => deepFrozen st' 20 v'
  | .error _ => false

-- the hypothesis of `C17_freeze_fixed_is_deep` is satisfiable and the conclusion is not vacuous
example : frozenDeep Ffixed = true := by decide +kernel

/-- Today's `Freeze` does not produce a deep-frozen value even for `[[1, 2]]`. -/
theorem C17_freeze_today_not_deep : frozenDeep F = false := by decide +kernel

/-! ### CONFIG: base + per-scope overlay, merged in from subincluded files

`Model/AspConfig.lean` is the heap of overlay maps with the allocation and write sites of `pyConfig` (`Merge`,
`IndexAssign`, the file's own scope).  The regenerated facts say who owns a map: every assignment to a field
`.overlay` stores a fresh map (`make` / literal), `Merge` in particular (`mergeDest`), and `pyConfig` has no further
field (such as a copy-on-write flag). -/

open PlzVerif.AspConfig in
/-- the variant of the model that the code is: `Merge` adopts the argument's map iff the extractor saw an alias -/
def configAlias : Bool := Generated.C17.mergeDest == "alias"

/-- Side condition on the regenerated CONFIG facts. -/
def ConfigFactsOK : Bool :=
  Generated.C17.configFields == ["base", "overlay"] &&
  Generated.C17.overlayAssigns.all (fun a => a.2 == "make" || a.2 == "literal") &&
  Generated.C17.mergeDest == "make" && !configAlias

theorem C17_config_facts_ok : ConfigFactsOK = true := by decide

open PlzVerif.AspConfig in
/-- **CONFIG non-interference** (full, for the CONFIG part of the package state): for every set of subincludable
    files and every sequence of package evaluations in one interpreter — any order, any subinclude sets, any CONFIG
    writes — the CONFIG each package observes is `spec` of its own subincludes and writes, a function that does not
    mention the other packages.  By induction over the evaluation sequence (`runAll_noninterference`), with the
    invariant that cached overlay cells are never written. -/
theorem C17_config_noninterference (files : Files) (pkgs : List (List Act)) :
    runAll configAlias files {} pkgs = pkgs.map (spec files) := by
  have h : configAlias = false := by decide
  rw [h]
  exact runAll_noninterference files pkgs {} (inv_init files)

open PlzVerif.AspConfig in
/-- … hence a package sees the same CONFIG alone, after another package and before it. -/
theorem C17_config_order_irrelevant (files : Files) (p q : List Act) :
    (runAll configAlias files {} [p, q])[1]? = (runAll configAlias files {} [q])[0]? ∧
    (runAll configAlias files {} [q, p])[0]? = (runAll configAlias files {} [q])[0]? := by
  have h : configAlias = false := by decide
  rw [h]; exact order_irrelevant files p q

open PlzVerif.AspConfig in
/-- **The fact is necessary**: if the first `Merge` adopts the cached overlay of the file by reference, a package
    that subincludes `a` and `b` writes `b`'s entries into `a`'s cached overlay, and a package that subincludes only
    `a` sees `KB` or not depending on whether the first one ran before it. -/
theorem C17_config_alias_interferes :
    runAll true wFiles {} [wP1, wP2] = [[("KA", 1), ("KB", 2)], [("KA", 1), ("KB", 2)]] ∧
    runAll true wFiles {} [wP2] = [[("KA", 1)]] ∧
    runAll true wFiles {} [wP2, wP1] = [[("KA", 1)], [("KA", 1), ("KB", 2)]] ∧
    runAll false wFiles {} [wP1, wP2] = [[("KA", 1), ("KB", 2)], [("KA", 1)]] := alias_interferes

end PlzVerif.Props.C17
