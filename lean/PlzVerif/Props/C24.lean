import PlzVerif.Lemmas.Changes
import PlzVerif.Model.QueryFacts
import PlzVerif.Props.C23
import PlzVerif.Generated.C24
/-!
C24  Change detection never misses an affected target.

`Affected C files changed0 t` (Lemmas/Changes.lean): `t` consumes one of the changed files (and its package is the
closest package above that file — the only one plz lets use it), or its definition changed (`changed0`, what
`diffGraphs` found), or it transitively depends on such a target.

* `C24_superset`: with an unlimited level every affected target is reported — for every graph, every set of files,
  every package layout.  It rests on the ownership lemma `C24_ownership` (the closest-package walk finds the package
  of every consumer) and on `findRevdeps_complete_unlimited` (Lemmas/QueryRevC.lean).
* "Consumes" covers sources, data and (since the repair of `changes-file-tool-not-a-source`) local file tools.
  One known finding remains: `diffGraphs` compares the unframed rule hash of C08, so a definition change whose
  attribute strings concatenate to the same bytes is not in `changed0`; that is outside this model (`changed0` is an
  input) and is decided by the harness's direct oracle.
-/
namespace PlzVerif.Props.C24
open PlzVerif.Query PlzVerif.Changes

/-- Side condition on the regenerated facts (decidable): `changedTargets`, `Changes`, `HasSource`,
`HasAbsoluteSource`, `diffGraphs`, `targetChanged`, `sourceHash` statement by statement (parameters by position,
locals by order of declaration), and the level bookkeeping of `FindRevdeps` (shared with C23). -/
def FactsOK : Bool :=
  genCfg == Cfg.std && !PlzVerif.Generated.C24.seedsFiltered &&
  PlzVerif.Generated.C24.changedTargets ==
    ["for _, v01 := range FILES { for v02 := v01; v02 != \".\" && v02 != \"/\"; { v02 = filepath.Dir(v02) v03 := v02 if v03 == \".\" { v03 = \"\" } if v04 := STATE.Graph.Package(v03, \"\"); v04 != nil { for _, v05 := range v04.AllTargets() { if v05.HasAbsoluteSource(v01) { CHANGED[v05] = struct{}{} } } break } } }",
     "F1 := make(core.BuildLabels, 0, len(CHANGED))",
     "for v01 := range CHANGED { F1 = append(F1, v01.Label) }",
     "if LEVEL != 0 { v01 := FindRevdeps(STATE, F1, true, false, SUBREPOS, LEVEL) for v02 := range v01 { if _, v03 := CHANGED[v02]; !v03 { F1 = append(F1, v02.Label) } } }",
     "F2 := make(core.BuildLabels, 0, len(F1))",
     "for _, v01 := range F1 { v02 := STATE.Graph.TargetOrDie(v01) if STATE.ShouldInclude(v02) && (SUBREPOS || v02.Subrepo == nil) { F2 = append(F2, v01) } }",
     "sort.Sort(F2)",
     "return F2"] &&
  PlzVerif.Generated.C24.changesEntry ==
    ["return changedTargets(STATE, FILES, map[*core.BuildTarget]struct{}{}, LEVEL, SUBREPOS)"] &&
  PlzVerif.Generated.C24.hasSource ==
    ["for _, v01 := range append(T.AllSources(), T.AllData()...) { if v02 := v01.String(); v02 == SOURCE || strings.HasPrefix(SOURCE, v02+\"/\") { return true } }",
     "return false"] &&
  PlzVerif.Generated.C24.hasAbsoluteSource ==
    ["SOURCE = strings.TrimPrefix(SOURCE, T.Label.PackageName+\"/\")",
     "if T.HasSource(SOURCE) { return true }",
     "for _, v01 := range T.AllTools() { if v02, v03 := v01.(FileLabel); v03 { if v04 := v02.String(); v04 == SOURCE || strings.HasPrefix(SOURCE, v04+\"/\") { return true } } }",
     "return false"] &&
  PlzVerif.Generated.C24.diffGraphs ==
    ["F1 := !bytes.Equal(BEFORE.Hashes.Config, AFTER.Hashes.Config)",
     "F2 := map[*core.BuildTarget]struct{}{}",
     "for _, v01 := range AFTER.Graph.AllTargets() { if v02 := BEFORE.Graph.Target(v01.Label); v02 == nil || targetChanged(BEFORE, AFTER, v02, v01) || F1 { F2[v01] = struct{}{} } }",
     "return F2"] &&
  PlzVerif.Generated.C24.targetChanged ==
    ["F1 := build.RuleHash(S1, T1, true, false)",
     "F2 := build.RuleHash(S2, T2, true, false)",
     "if !bytes.Equal(F1, F2) { return true }",
     "F1, F3 := sourceHash(S1, T1)",
     "F2, F4 := sourceHash(S2, T2)",
     "return !bytes.Equal(F1, F2) || F3 != nil || F4 != nil"] &&
  PlzVerif.Generated.C24.sourceHash ==
    ["var F1 []byte",
     "for _, v01 := range T.AllTools() { if _, v02 := v01.Label(); v02 { continue } F1 = append(F1, toolPathHash(STATE, v01)...) }",
     "return F1, nil"] &&
  -- `C24_superset` rests on the whole `findRevdeps` model (FIFO, report on depth > 0, the hidden branch, the parent
  -- lookup, `isSameTarget`), not only on the level bookkeeping: everything C23 pins about it is required here too
  PlzVerif.Props.C23.FactsOK

set_option maxRecDepth 100000 in
/-- Obligation a code change can break. -/
theorem C24_facts_ok : FactsOK = true := by decide

theorem cfg_std : genCfg = Cfg.std := by
  have h := C24_facts_ok
  simp only [FactsOK, Bool.and_eq_true, beq_iff_eq] at h
  exact h.1.1.1.1.1.1.1.1.1

theorem seeds_unfiltered : PlzVerif.Generated.C24.seedsFiltered = false := by
  have h := C24_facts_ok
  simp only [FactsOK, Bool.and_eq_true, Bool.not_eq_true'] at h
  exact h.1.1.1.1.1.1.1.1.2

/-- what `plz query changes` reports (ids; the real output is this set in label order) -/
def reported (C : CGraph) (files : List Path) (changed0 : List Nat) (level : Option Limit) : List Nat :=
  changedTargets genCfg PlzVerif.Generated.C24.seedsFiltered C files changed0 level

/-- The ownership lemma: a target that consumes a changed file, in the closest package above it, is reported whatever
the level — unless the include/exclude filter hides it. -/
theorem C24_ownership (C : CGraph) (files : List Path) (changed0 : List Nat) (level : Option Limit) (t : Nat) (f : Path)
    (hf : f ∈ files) (ht : t ∈ C.G.nodes) (hc : Consumes C t f) (ho : Owner C t f) (hi : C.incl t = true) :
    t ∈ reported C files changed0 level := by
  have hm := consumer_changed C files t f hf ht hc ho
  unfold reported changedTargets
  rw [seeds_unfiltered]
  simp only [Bool.false_eq_true, ite_false]
  apply List.mem_filter.mpr ⟨?_, hi⟩
  cases level with
  | none => exact List.mem_append_right _ hm
  | some lim => exact List.mem_append_left _ (List.mem_append_right _ hm)

/-- With an unlimited level every affected target is reported: a CI that tests the reported set tests everything
affected.  PARTIAL with respect to the property text: `changed0` (what `diffGraphs` found through the rule and source
hashes) is an input here; that half rests on C08/C09 and is known to fail for unframed rule-hash collisions (header). -/
theorem C24_superset (C : CGraph) (files : List Path) (changed0 : List Nat) (h0 : ∀ t ∈ changed0, t ∈ C.G.nodes)
    (t : Nat) (ha : Affected C files changed0 t) (hi : C.incl t = true) : t ∈ reported C files changed0 (some none) := by
  unfold reported
  rw [seeds_unfiltered]
  exact changedTargets_superset genCfg C files changed0 h0 t ha hi

/-- The include/exclude filter (`--include`, `--exclude`; `plz query changes` always excludes `manual`) only hides
targets from the output: nothing it excludes is reported, and by `C24_superset` an excluded target still carries the change
to the targets that depend on it. -/
theorem C24_filter_output_only (C : CGraph) (files : List Path) (changed0 : List Nat) (level : Option Limit) (t : Nat)
    (h : t ∈ reported C files changed0 level) : C.incl t = true :=
  changedTargets_included genCfg _ C files changed0 level t h

theorem closestPkg_some (C : CGraph) : ∀ (fuel : Nat) (dir d : Path), closestPkg C fuel dir = some d →
    d ∈ C.pkgs ∧ d <+: dir ∧ d ≠ dir := by
  intro fuel
  induction fuel with
  | zero => intro dir d h; simp [closestPkg] at h
  | succ n ih =>
    intro dir d h
    unfold closestPkg at h
    split at h
    · simp at h
    · rename_i hne
      have hne' : dir ≠ [] := by simpa using hne
      have hlt : dir.dropLast.length < dir.length := by
        rw [List.length_dropLast]; exact Nat.sub_lt (List.length_pos_iff.mpr hne') (by decide)
      dsimp only at h
      split at h
      · rename_i hc
        simp at h; subst h
        refine ⟨by simpa using hc, List.dropLast_prefix dir, fun e => ?_⟩
        rw [e] at hlt; exact Nat.lt_irrefl _ hlt
      · obtain ⟨h1, h2, _⟩ := ih _ _ h
        refine ⟨h1, h2.trans (List.dropLast_prefix dir), fun e => ?_⟩
        have := h2.length_le; rw [e] at this; omega

/-- What "marked because of the files" means, independently of the walk: a target reported at level 0 because of
    `files` is a target of a package that lies strictly above one of the files, and one of its sources, data
    entries or file tools names that file (or a directory containing it) relative to the package. -/
theorem C24_level0_sound (C : CGraph) (files : List Path) (t : Nat) (h : t ∈ changedByFiles C files) :
    ∃ f ∈ files, t ∈ C.G.nodes ∧ C.pkgOf t ∈ C.pkgs ∧ C.pkgOf t <+: f ∧ C.pkgOf t ≠ f ∧
      ∃ s ∈ C.inputs t ++ C.tools t, ∃ rel, matchesInput s rel = true ∧ (rel = f ∨ f = C.pkgOf t ++ rel) := by
  unfold changedByFiles at h
  rw [List.mem_flatMap] at h
  obtain ⟨f, hf, ht⟩ := h
  refine ⟨f, hf, ?_⟩
  cases hc : closestPkg C (f.length + 1) f with
  | none => simp [hc] at ht
  | some pkg =>
    simp only [hc, List.mem_filter, Bool.and_eq_true, beq_iff_eq] at ht
    obtain ⟨hn, hp, hs⟩ := ht
    obtain ⟨h1, h2, h3⟩ := closestPkg_some C _ _ _ hc
    rw [← hp] at h1 h2 h3
    refine ⟨hn, h1, h2, h3, ?_⟩
    unfold hasAbsoluteSource at hs
    simp only [Bool.or_eq_true, List.any_eq_true] at hs
    have key : ∃ rel, (rel = f ∨ f = C.pkgOf t ++ rel) ∧
        rel = (if (C.pkgOf t != [] && (C.pkgOf t).isPrefixOf f) = true then f.drop (C.pkgOf t).length else f) := by
      split
      · rename_i hcond
        simp only [Bool.and_eq_true, List.isPrefixOf_iff_prefix] at hcond
        obtain ⟨r, hr⟩ := hcond.2
        exact ⟨_, Or.inr (by rw [← hr]; simp), rfl⟩
      · exact ⟨_, Or.inl rfl, rfl⟩
    obtain ⟨rel, hrel, erel⟩ := key
    rcases hs with ⟨s, hs1, hs2⟩ | ⟨s, hs1, hs2⟩
    · exact ⟨s, List.mem_append_left _ hs1, rel, by rw [erel]; exact hs2, hrel⟩
    · exact ⟨s, List.mem_append_right _ hs1, rel, by rw [erel]; exact hs2, hrel⟩

/-- Everything reported without reverse dependencies (level 0) is changed or consumes a changed file
    (`C24_level0_sound` says what the second case means). -/
theorem C24_level0 (C : CGraph) (files : List Path) (changed0 : List Nat) (t : Nat)
    (h : t ∈ reported C files changed0 none) : t ∈ changed0 ∨ t ∈ changedByFiles C files := by
  unfold reported changedTargets at h
  rw [seeds_unfiltered] at h
  simp only [Bool.false_eq_true, ite_false] at h
  exact List.mem_append.mp (List.mem_filter.mp h).1

/-- the shape of the repaired finding `changes-file-tool-not-a-source` (fixed): `//a:t` runs the local script `a/tool.sh`;
the script changes; `//a:t` is reported. -/
def gTool : Graph := { nodes := [0], adj := fun _ => [], pl := id, hid := fun _ => false }
def cTool : CGraph := { G := gTool, pkgs := [["a"]], pkgOf := fun _ => ["a"], inputs := fun _ => [], tools := fun _ => [["tool.sh"]], incl := fun _ => true }

example : reported cTool [["a", "tool.sh"]] [] (some none) = [0] := by decide
example : Consumes cTool 0 ["a", "tool.sh"] := ⟨["tool.sh"], by decide, by decide, [], rfl⟩

-- non-vacuity: package `a` with a sub-package `a/b`; target 0 (in `a`) has the directory `dir` as a source, target 1
-- (in `a/b`) has `x.go`, target 2 depends on 0, target 3 on 2.
def gEx : Graph := { nodes := [0, 1, 2, 3], adj := fun | 2 => [0] | 3 => [2] | _ => [], pl := id, hid := fun _ => false }
def cEx : CGraph := { G := gEx, pkgs := [["a"], ["a", "b"]], pkgOf := fun | 1 => ["a", "b"] | _ => ["a"],
                      inputs := fun | 0 => [["dir"]] | 1 => [["x.go"]] | _ => [], tools := fun _ => [], incl := fun _ => true }

example : reported cEx [["a", "dir", "sub", "w.go"]] [] (some none) = [0, 3, 2] := by decide
example : reported cEx [["a", "b", "x.go"]] [] (some none) = [1] := by decide
example : reported cEx [["a", "b", "dir", "w.go"]] [] (some none) = [] := by decide   -- belongs to a/b, where nobody uses it
example : Consumes cEx 0 ["a", "dir", "sub", "w.go"] ∧ Owner cEx 0 ["a", "dir", "sub", "w.go"] :=
  ⟨⟨["dir"], by decide, by decide, ["sub", "w.go"], rfl⟩, by decide, by decide⟩
example : Affected cEx [["a", "dir", "sub", "w.go"]] [] 3 :=
  .dependent (x := 2) (.dependent (x := 0) (.consumer (f := ["a", "dir", "sub", "w.go"]) (by simp) (by decide)
    ⟨["dir"], by decide, by decide, ["sub", "w.go"], rfl⟩ ⟨by decide, by decide⟩) (by decide) (by decide)) (by decide) (by decide)

-- the filter: target 0 (the consumer of the changed file) carries an excluded label; its dependants are still reported
def cExF : CGraph := { cEx with incl := fun t => t != 0 }
example : reported cExF [["a", "dir", "sub", "w.go"]] [] (some none) = [3, 2] := by decide
/-- what filtering the seeds before the walk would report: nothing -/
example : changedTargets genCfg true cExF [["a", "dir", "sub", "w.go"]] [] (some none) = [] := by decide
example : shouldInclude ["manual", "go"] [] [["manual"]] = false ∧ shouldInclude ["go"] [["go"]] [["manual"]] = true ∧
    shouldInclude ["py"] [["go"], ["py", "x"]] [] = false := by decide

end PlzVerif.Props.C24
