import PlzVerif.Lemmas.RuleHash
import PlzVerif.Generated.C08
/-!
C08  Any change to a build-relevant attribute changes the rule hash.

All theorems are about `ruleSer Generated.C08.facts`: the model of `build.ruleHash` instantiated with the write
schema and the accessor facts read from /repo on this run (SHA-1 idealised as injective, so "same rule hash"
is "same pre-image").

Full-strength statement: `Complete F` — equal pre-images imply equal values of every attribute the property
lists.  The pinned code violates it (`C08_violated`; kernel-checked witnesses `C08_witness_*`): writes are not
framed, and `tools`, the group names of named tools and named secrets never reach the pre-image (the names of named
source groups do since the repair, `C08_partial_named_srcs`).
Proved instead: the coverage obligation (`C08_coverage`: every other listed attribute is written exactly once,
unconditionally), the single-attribute theorems `C08_partial_*` (changing one scalar/boolean always changes
the pre-image; changing one list/map changes it unless the *concatenations* coincide), and `C08_full_framed`
(the framed encoding over the same schema determines every attribute it writes).
-/
namespace PlzVerif.Props.C08
open PlzVerif.RuleHash PlzVerif.Generated PlzVerif.Frame

abbrev F : Facts := C08.facts

/-- The attributes of the property statement, as far as `ruleHash` has an accessor for them
    (`tools` has none: see `C08_witness_tools`). -/
def listed : List AttrRef :=
  [.s .command, .l .srcs, .g .namedSrcs, .l .outs, .g .namedOuts, .l .optionalOuts, .l .deps, .m .env, .passEnv, .l .labels,
   .l .secrets, .b .isBinary, .b .sandbox, .l .outputDirs, .m .entryPoints, .s .fileContent, .l .requires,
   .g .provides, .s .label]

/-- Written exactly once and unconditionally. -/
def writtenOnce (r : AttrRef) : Bool :=
  match splitAt r F.items with
  | some (_, gi, _) => gi.1 == .always
  | none => false

/-- Side condition on the regenerated facts (decidable). -/
def FactsOK : Bool :=
  F.boolTrue == [2] && F.boolFalse == [1] && !F.optBoolWritesFalse && F.hashMapSep == [61] && F.passEnvSep == [61] &&
  listed.all writtenOnce && C08.hashAlgo == "sha1" &&
  -- nothing memoises the rule hash before the target's pre-build function has run
  C08.earlyRuleHashCalls == []

/-- Obligation a code change can break (e.g. dropping a field from `ruleHash`). -/
theorem C08_facts_ok : FactsOK = true := by decide

/-- Coverage: every listed attribute that has an accessor is written exactly once, outside any condition. -/
theorem C08_coverage : ∀ r ∈ listed, writtenOnce r = true := by decide

/-! ### the full-strength statement and its failure -/

/-- The property at full strength: equal rule hashes only for targets equal on every listed attribute. -/
def Complete (F : Facts) : Prop :=
  ∀ (c : Ctx) (t t' : Target), ruleSer F c t = ruleSer F c t' → relevant c t = relevant c t'

/-- A failing pair: same pre-image, different build-relevant attributes. -/
def Collide (c : Ctx) (t t' : Target) : Prop := ruleSer F c t = ruleSer F c t' ∧ relevant c t ≠ relevant c t'

instance (c : Ctx) (t t' : Target) : Decidable (Collide c t t') := by unfold Collide; infer_instance

def a : Bytes := [97]
def b : Bytes := [98]
def cc : Bytes := [99]
def eq : Bytes := [61]
def A : Bytes := [65]
def B : Bytes := [66]
def x : Bytes := [120]
def y : Bytes := [121]

/-- `srcs = ["ab","c"]` vs `["a","bc"]`: list entries are concatenated without separators. -/
theorem C08_witness_srcs : Collide {} { srcs := [a ++ b, cc] } { srcs := [a, b ++ cc] } := by decide

/-- An output moved from `outs` to `optional_outs`: adjacent fields are not separated either. -/
theorem C08_witness_outs_optional : Collide {} { outs := [a, b] } { outs := [a], optionalOuts := [b] } := by decide

/-- A label that becomes a secret. -/
theorem C08_witness_label_secret : Collide {} { labels := [x] } { secrets := [x] } := by decide

/-- `env = {"a": "b=c"}` vs `{"a=b": "c"}`: `hashMap` writes `key=value` unframed. -/
theorem C08_witness_env : Collide {} { env := [(a, b ++ eq ++ cc)] } { env := [(a ++ eq ++ b, cc)] } := by decide

/-- `outs = {"a": ["bc"]}` vs `{"ab": ["c"]}`: group names and members run together. -/
theorem C08_witness_named_outs : Collide {} { namedOuts := [(a, [b ++ cc])] } { namedOuts := [(a ++ b, [cc])] } := by
  decide

/-- `pass_env = [A, B]` with `A="xB=y", B=""` vs `A="x", B="yB="`: the values the action sees differ. -/
theorem C08_witness_pass_env :
    ruleSer F { environ := [(A, x ++ B ++ eq ++ y), (B, [])] } { passEnv := some [A, B] } =
    ruleSer F { environ := [(A, x), (B, y ++ B ++ eq)] } { passEnv := some [A, B] } ∧
    relevant { environ := [(A, x ++ B ++ eq ++ y), (B, [])] } { passEnv := some [A, B] } ≠
    relevant { environ := [(A, x), (B, y ++ B ++ eq)] } { passEnv := some [A, B] } := by decide

/-- `sandbox = True` vs `subrepo = True`: an optional boolean writes nothing when false. -/
theorem C08_witness_sandbox : Collide {} { sandbox := true } { isSubrepo := true } := by decide

/-- `tools = ["x"]` vs `["y"]` (system tools) and the names of named tools (→ `$TOOLS_A`): never read. -/
theorem C08_witness_tools : Collide {} { tools := [x] } { tools := [y] } ∧
    Collide {} { namedTools := [(a, [x])] } { namedTools := [(b, [x])] } := by decide

/-- Named secrets (→ `$SECRETS_A`) are not read either. -/
theorem C08_witness_named_secrets : Collide {} { namedSecrets := [(a, [x])] } { namedSecrets := [(b, [x])] } := by
  decide

/-- The property as stated does not hold for the pinned code. -/
theorem C08_violated : ¬ Complete F := fun h => C08_witness_srcs.2 (h _ _ _ C08_witness_srcs.1)

/-! ### what does hold: one attribute at a time -/

theorem facts : F.boolTrue = [2] ∧ F.boolFalse = [1] ∧ F.optBoolWritesFalse = false ∧ F.hashMapSep = [61] ∧
    F.passEnvSep = [61] := by decide

/-- Generic single-attribute theorem: if two views differ at most in attribute `r`, and `r` is listed,
    equal pre-images force the one write of `r` to produce equal bytes. -/
theorem C08_partial_single (c : Ctx) (v v' : View) (r : AttrRef) (hr : r ∈ listed) (h : AgreeExcept r v v')
    (e : serView F c v F.items = serView F c v' F.items) :
    ∃ i, i.ref = r ∧ serItem F c v i = serItem F c v' i := by
  have hw := C08_coverage r hr
  unfold writtenOnce at hw
  cases hs : splitAt r F.items with
  | none => simp [hs] at hw
  | some x =>
    obtain ⟨pre, gi, post⟩ := x
    simp only [hs, beq_iff_eq] at hw
    obtain ⟨_, href, _, _⟩ := splitAt_spec r F.items hs
    have := serView_single' F c h hs e
    obtain ⟨g, i⟩ := gi
    simp only at hw href
    subst hw
    simp only [serGuarded, guardOn, if_true] at this
    exact ⟨i, href, this⟩

/-- A scalar (command, text_file content, label): changing it alone always changes the rule hash. -/
theorem C08_partial_scalar (c : Ctx) (v v' : View) (a : SAttr) (hr : AttrRef.s a ∈ listed)
    (h : AgreeExcept (.s a) v v') (e : serView F c v F.items = serView F c v' F.items) : v.str a = v'.str a := by
  obtain ⟨i, href, hi⟩ := C08_partial_single c v v' _ hr h e
  cases i <;> simp only [Item.ref, AttrRef.s.injEq, reduceCtorEq] at href
  subst href
  simpa [serItem] using hi

/-- A boolean (binary, sandbox): changing it alone always changes the rule hash. -/
theorem C08_partial_bool (c : Ctx) (v v' : View) (a : BAttr) (hr : AttrRef.b a ∈ listed)
    (h : AgreeExcept (.b a) v v') (e : serView F c v F.items = serView F c v' F.items) : v.flag a = v'.flag a := by
  obtain ⟨i, href, hi⟩ := C08_partial_single c v v' _ hr h e
  obtain ⟨h1, h2, h3, _, _⟩ := facts
  cases i <;> simp only [Item.ref, AttrRef.b.injEq, reduceCtorEq] at href
  · subst href
    simp only [serItem, h1, h2] at hi
    cases hv : v.flag _ <;> cases hv' : v'.flag _ <;> simp_all
  · subst href
    simp only [serItem, h1, h3] at hi
    cases hv : v.flag _ <;> cases hv' : v'.flag _ <;> simp_all

/-- A list (srcs, outs, optional_outs, deps, labels, secrets, requires, output_dirs): changing it alone
    changes the rule hash unless the two lists have the same *concatenation* (the known unframed class). -/
theorem C08_partial_list (c : Ctx) (v v' : View) (a : LAttr) (hr : AttrRef.l a ∈ listed)
    (h : AgreeExcept (.l a) v v') (e : serView F c v F.items = serView F c v' F.items) :
    (v.list a).flatten = (v'.list a).flatten := by
  obtain ⟨i, href, hi⟩ := C08_partial_single c v v' _ hr h e
  cases i <;> simp only [Item.ref, AttrRef.l.injEq, reduceCtorEq] at href
  subst href
  simpa [serItem] using hi

/-- In particular an in-place change of one entry of one list is always seen. -/
theorem C08_partial_list_edit (c : Ctx) (v v' : View) (a : LAttr) (hr : AttrRef.l a ∈ listed)
    (h : AgreeExcept (.l a) v v') (p s : List Bytes) (x y : Bytes) (hv : v.list a = p ++ x :: s)
    (hv' : v'.list a = p ++ y :: s) (e : serView F c v F.items = serView F c v' F.items) : x = y := by
  have := C08_partial_list c v v' a hr h e
  rw [hv, hv'] at this
  simp only [List.flatten_append, List.flatten_cons] at this
  exact List.append_cancel_right (List.append_cancel_left this)

/-- A map (env, entry_points): changing it alone changes the rule hash unless the `k=v` runs coincide. -/
theorem C08_partial_map (c : Ctx) (v v' : View) (a : MAttr) (hr : AttrRef.m a ∈ listed)
    (h : AgreeExcept (.m a) v v') (e : serView F c v F.items = serView F c v' F.items) :
    ((v.map a).flatMap fun kv => kv.1 ++ [61] ++ kv.2) = ((v'.map a).flatMap fun kv => kv.1 ++ [61] ++ kv.2) := by
  obtain ⟨i, href, hi⟩ := C08_partial_single c v v' _ hr h e
  obtain ⟨_, _, _, h4, _⟩ := facts
  cases i <;> simp only [Item.ref, AttrRef.m.injEq, reduceCtorEq] at href
  subst href
  simpa [serItem, h4] using hi

/-- Named groups (named outs, provides): changing one alone changes the rule hash unless the `name member…` runs
    coincide (the known unframed class, e.g. `{"a":["bc"]}` vs `{"ab":["c"]}`). -/
theorem C08_partial_groups (c : Ctx) (v v' : View) (a : GAttr) (hr : AttrRef.g a ∈ listed)
    (h : AgreeExcept (.g a) v v') (e : serView F c v F.items = serView F c v' F.items) :
    ((v.groups a).flatMap fun kv => kv.1 ++ kv.2.flatten) = ((v'.groups a).flatMap fun kv => kv.1 ++ kv.2.flatten) := by
  obtain ⟨i, href, hi⟩ := C08_partial_single c v v' _ hr h e
  cases i <;> simp only [Item.ref, AttrRef.g.injEq, reduceCtorEq] at href
  subst href
  simpa [serItem] using hi

/-- In particular a changed member of one group (same names, same other members) is always seen. -/
theorem C08_partial_groups_edit (c : Ctx) (v v' : View) (a : GAttr) (hr : AttrRef.g a ∈ listed)
    (h : AgreeExcept (.g a) v v') (p s : List (Bytes × List Bytes)) (k : Bytes) (m1 m2 : List Bytes) (x y : Bytes)
    (hv : v.groups a = p ++ (k, m1 ++ x :: m2) :: s) (hv' : v'.groups a = p ++ (k, m1 ++ y :: m2) :: s)
    (e : serView F c v F.items = serView F c v' F.items) : x = y := by
  have := C08_partial_groups c v v' a hr h e
  rw [hv, hv'] at this
  simp only [List.flatMap_append, List.flatMap_cons, List.flatten_append, List.flatten_cons, List.append_assoc] at this
  have h3 := List.append_cancel_left (List.append_cancel_left (List.append_cancel_left this))
  exact List.append_cancel_right h3

/-- `pass_env`: with the target's list unchanged, equal pre-images under two environments force equal
    `name=value` runs (see C10 for the environment side). -/
theorem C08_partial_pass_env (c c' : Ctx) (v : View) (l : List Bytes) (hl : v.passEnv = some l)
    (e : serItem F c v .passEnv = serItem F c' v .passEnv) :
    (l.flatMap fun x => x ++ [61] ++ c.getenv x) = (l.flatMap fun x => x ++ [61] ++ c'.getenv x) := by
  obtain ⟨_, _, _, _, h5⟩ := facts
  simpa [serItem, hl, h5] using e

/-! raw-level instances: the views of `{t with x := …}` agree except on the attribute `x` feeds -/

theorem agree_command (c : Ctx) (t : Target) (x y : Bytes) :
    AgreeExcept (.s .command) (view F c { t with command := x }) (view F c { t with command := y }) := by
  refine ⟨fun a h => ?_, fun a h => ?_, fun a h => ?_, fun a h => ?_, fun a h => ?_, fun _ => rfl, rfl⟩ <;>
    cases a <;> simp_all [view]

theorem agree_fileContent (c : Ctx) (t : Target) (x y : Bytes) :
    AgreeExcept (.s .fileContent) (view F c { t with fileContent := x }) (view F c { t with fileContent := y }) := by
  refine ⟨fun a h => ?_, fun a h => ?_, fun a h => ?_, fun a h => ?_, fun a h => ?_, fun _ => rfl, rfl⟩ <;>
    cases a <;> simp_all [view]

theorem agree_srcs (c : Ctx) (t : Target) (x y : List Bytes) :
    AgreeExcept (.l .srcs) (view F c { t with srcs := x }) (view F c { t with srcs := y }) := by
  refine ⟨fun a h => ?_, fun a h => ?_, fun a h => ?_, fun a h => ?_, fun a h => ?_, fun _ => rfl, rfl⟩ <;>
    cases a <;> simp_all [view]

theorem agree_sandbox (c : Ctx) (t : Target) (x y : Bool) :
    AgreeExcept (.b .sandbox) (view F c { t with sandbox := x }) (view F c { t with sandbox := y }) := by
  refine ⟨fun a h => ?_, fun a h => ?_, fun a h => ?_, fun a h => ?_, fun a h => ?_, fun _ => rfl, rfl⟩ <;>
    cases a <;> simp_all [view]

theorem agree_env (c : Ctx) (t : Target) (x y : List (Bytes × Bytes)) :
    AgreeExcept (.m .env) (view F c { t with env := x }) (view F c { t with env := y }) := by
  refine ⟨fun a h => ?_, fun a h => ?_, fun a h => ?_, fun a h => ?_, fun a h => ?_, fun _ => rfl, rfl⟩ <;>
    cases a <;> simp_all [view]

/-- Changing only `cmd` (single-command targets) changes the rule hash. -/
theorem C08_partial_command (c : Ctx) (t : Target) (x y : Bytes) (hc : t.commands = none)
    (e : ruleSer F c { t with command := x } = ruleSer F c { t with command := y }) : x = y := by
  have := C08_partial_scalar c _ _ .command (by decide) (agree_command c t x y) e
  simpa [view, getCommand, hc] using this

example : ({} : Target).commands = none := rfl

/-- Changing only the `text_file` content changes the rule hash. -/
theorem C08_partial_file_content (c : Ctx) (t : Target) (x y : Bytes)
    (e : ruleSer F c { t with fileContent := x } = ruleSer F c { t with fileContent := y }) : x = y := by
  simpa [view] using C08_partial_scalar c _ _ .fileContent (by decide) (agree_fileContent c t x y) e

/-- Changing only `sandbox` changes the rule hash. -/
theorem C08_partial_sandbox (c : Ctx) (t : Target) (x y : Bool)
    (e : ruleSer F c { t with sandbox := x } = ruleSer F c { t with sandbox := y }) : x = y := by
  simpa [view] using C08_partial_bool c _ _ .sandbox (by decide) (agree_sandbox c t x y) e

theorem agree_namedSrcs (c : Ctx) (t : Target) (x y : List (Bytes × List Bytes)) :
    AgreeExcept (.g .namedSrcs) (view F c { t with namedSrcs := x }) (view F c { t with namedSrcs := y }) := by
  refine ⟨fun a h => ?_, fun a h => ?_, fun a h => ?_, fun a h => ?_, fun a h => ?_, fun _ => rfl, rfl⟩ <;>
    cases a <;> simp_all [view]

/-- Since the repair (the names of named source groups are written, each followed by its members): changing
    only the named sources changes the rule hash unless the `name member…` runs coincide; in particular renaming
    one group (`{"a": ["x"]}` → `{"b": ["x"]}`, the stale build observed end to end before the repair) is seen. -/
theorem C08_partial_named_srcs (c : Ctx) (t : Target) (x y : List (Bytes × List Bytes))
    (e : ruleSer F c { t with namedSrcs := x } = ruleSer F c { t with namedSrcs := y }) :
    ((keysOrder true x).flatMap fun kv => kv.1 ++ kv.2.flatten) = ((keysOrder true y).flatMap fun kv => kv.1 ++ kv.2.flatten) := by
  have h := C08_partial_groups c _ _ .namedSrcs (by decide) (agree_namedSrcs c t x y) e
  have hs : F.namedSrcsSorted = true := by decide
  simpa [view, hs] using h

example : ruleSer F {} { namedSrcs := [(a, [x])] } ≠ ruleSer F {} { namedSrcs := [(b, [x])] } := by decide

/-- Changing only `srcs` changes the rule hash unless the entries concatenate to the same bytes. -/
theorem C08_partial_srcs (c : Ctx) (t : Target) (x y : List Bytes)
    (e : ruleSer F c { t with srcs := x } = ruleSer F c { t with srcs := y }) : x.flatten = y.flatten := by
  have := C08_partial_list c _ _ .srcs (by decide) (agree_srcs c t x y) e
  simpa [view] using this

/-- … and conversely: equal concatenations give equal rule hashes, so for `srcs` the collisions are *exactly* the
    lists with the same concatenation. -/
theorem C08_partial_srcs_iff (c : Ctx) (t : Target) (x y : List Bytes) :
    ruleSer F c { t with srcs := x } = ruleSer F c { t with srcs := y } ↔ x.flatten = y.flatten := by
  constructor
  · exact C08_partial_srcs c t x y
  · intro h
    unfold ruleSer
    exact serView_congr_list F c .srcs (by decide) (agree_srcs c t x y) (by simpa [view] using h) F.items

/-- Dependencies are hashed through `BuildLabel.String()`, which is not injective on in-memory labels:
    package `a:b`, name `c` and package `a`, name `b:c` both print `//a:b:c` (the BUILD parser rejects `:` in
    package names, so this pair needs a target added programmatically). -/
theorem C08_witness_label_rendering :
    Collide {} { deps := [⟨[], a ++ [58] ++ b, cc⟩] } { deps := [⟨[], a, b ++ [58] ++ cc⟩] } := by decide

/-! ### pre-build functions: the memoised hash must be the hash of the target AFTER they ran -/

/-- The regenerated fact: is a memoising `RuleHash` call reachable before `RunPreBuildFunction`? -/
abbrev early : Bool := !C08.earlyRuleHashCalls.isEmpty

theorem early_false : early = false := by decide

/-- In today's source the hash every later step of the build uses (`needsBuilding`, `writeRuleHash`, cache key,
    action digest) is the hash of the target as the pre-build function left it — so every `C08_partial_*` result
    applies to the attributes a pre-build function sets. -/
theorem C08_prebuild_stamp (c : Ctx) (pb : Target → Target) (t : Target) :
    stampSer F c early pb t = ruleSer F c (pb t) := by
  simp [stampSer, early_false]

/-- `set_command` in a pre-build function: two functions that set different commands give different stamps. -/
theorem C08_prebuild_command (c : Ctx) (t : Target) (x y : Bytes) (hc : t.commands = none)
    (e : stampSer F c early (fun u => { u with command := x }) t = stampSer F c early (fun u => { u with command := y }) t) :
    x = y := by
  rw [C08_prebuild_stamp, C08_prebuild_stamp] at e
  exact C08_partial_command c t x y hc e

theorem agree_outs (c : Ctx) (t : Target) (x y : List Bytes) :
    AgreeExcept (.l .outs) (view F c { t with outs := x }) (view F c { t with outs := y }) := by
  refine ⟨fun a h => ?_, fun a h => ?_, fun a h => ?_, fun a h => ?_, fun a h => ?_, fun _ => rfl, rfl⟩ <;>
    cases a <;> simp_all [view]

/-- `add_out` in a pre-build function: different resulting output lists give different stamps, up to the known
    unframed class (equal concatenations). -/
theorem C08_prebuild_outs (c : Ctx) (t : Target) (x y : List Bytes)
    (e : stampSer F c early (fun u => { u with outs := x }) t = stampSer F c early (fun u => { u with outs := y }) t) :
    x.flatten = y.flatten := by
  rw [C08_prebuild_stamp, C08_prebuild_stamp] at e
  have := C08_partial_list c _ _ .outs (by decide) (agree_outs c t x y) e
  simpa [view] using this

/-- Why the order matters (the fact above is needed): with a memoising call before the pre-build function, the
    stamp does not depend on the function at all — a changed `set_command` leaves the target "unchanged". -/
theorem C08_witness_early_memo (c : Ctx) (t : Target) (pb pb' : Target → Target) :
    stampSer F c true pb t = stampSer F c true pb' t := by
  simp [stampSer]

example : ruleSer F {} ({ command := x } : Target) ≠ ruleSer F {} ({ command := y } : Target) ∧
    stampSer F {} true (fun u => { u with command := x }) {} = stampSer F {} true (fun u => { u with command := y }) {} := by
  decide

/-! ### the repair: framing every write over the same schema -/

/-- With every string length-prefixed, every list counted and every boolean written, equal pre-images
    determine the value of every attribute the schema writes (unbounded, via `Frame.Uniq`). -/
theorem C08_full_framed (c : Ctx) (t t' : Target)
    (e : serViewFramed c (view F c t) (F.items.map (·.2)) = serViewFramed c (view F c t') (F.items.map (·.2))) :
    ∀ gi ∈ F.items, itemVal c (view F c t) gi.2 = itemVal c (view F c t') gi.2 := by
  have := (serViewFramed_inj c (view F c t) (view F c t') (F.items.map (·.2)) [] [] (by simpa using e)).1
  intro gi hgi
  exact this gi.2 (List.mem_map_of_mem hgi)

end PlzVerif.Props.C08
