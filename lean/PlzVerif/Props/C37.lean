import PlzVerif.Lemmas.Cmd
import PlzVerif.Generated.C37
/-!
C37  Command location expansions name the files the command can use.

The model (`Model/Cmd.lean`) is instantiated with the table of replacement sequences and the `quote`
character set read from /repo's `command_replacements.go` on this run.

Statement at full strength: every sequence expands to the existing path(s) of what it names, one shell word
per path, and a sequence that names a non-dependency or has the wrong number of outputs is rejected.
Repaired in /repo (fix: commits) and now proved in full: the single-output sequences reject a target without
outputs (`C37_reject_zero`, `C37_single_output_exact`), `$(dir …)` is never empty (`C37_dir_full`: "." for the root
package), an entry point of a tool is addressed by its absolute path like any other tool output
(`C37_tool_entry_point_abs`).
Still false on the code in two separately classified ways (witness theorems below, each with the `…_partial` theorem
saying where the clause does hold):
  * `quote` only reacts to `|&;()<>`                        (`C37_one_word_*`)
  * a plain file name is never checked against the sources  (`C37_witness_nonsource_file`)
-/
namespace PlzVerif.Props.C37
open PlzVerif.Cmd PlzVerif.Generated

/-- The regenerated sequence table. -/
def seqs : List SeqDef := PlzVerif.Generated.C37.seqs.map fun x => ⟨x.1, x.2.1, x.2.2.1, x.2.2.2.1, x.2.2.2.2.1, x.2.2.2.2.2.1, x.2.2.2.2.2.2⟩

/-- The regenerated `quote` facts. -/
def qf : QuoteFacts :=
  ⟨PlzVerif.Generated.C37.quoteChars, PlzVerif.Generated.C37.quoteLeft, PlzVerif.Generated.C37.quoteRight,
   PlzVerif.Generated.C37.multiGuardAccessor == "DeclaredOutputs"⟩

def kwLocation : Str := ['l','o','c','a','t','i','o','n']
def kwLocations : Str := kwLocation ++ ['s']
def kwExe : Str := ['e','x','e']
def kwDir : Str := ['d','i','r']
def kwHash : Str := ['h','a','s','h']
def out_ (k : Str) : Str := ['o','u','t','_'] ++ k

/-- What the documentation at the top of command_replacements.go promises for each sequence:
    keyword ↦ (runnable, multiple, dir, outPrefix, hash); the slice offset must skip `$(kw `. -/
def expectedSeqs : List SeqDef :=
  [ ⟨kwLocation, 11, false, false, false, false, false⟩, ⟨kwLocations, 12, false, true, false, false, false⟩,
    ⟨kwExe, 6, true, false, false, false, false⟩, ⟨out_ kwLocation, 15, false, false, false, true, false⟩,
    ⟨out_ kwLocations, 16, false, true, false, true, false⟩, ⟨out_ kwExe, 10, true, false, false, true, false⟩,
    ⟨kwDir, 6, false, true, true, false, false⟩, ⟨out_ kwDir, 10, false, true, true, true, false⟩,
    ⟨kwHash, 7, false, true, true, false, true⟩ ]

/-- The guard chain of `checkAndReplaceSequence` the model transcribes (each guard a sorted conjunction). -/
def expectedGuards : List String :=
  ["!multiple && allOutputs && ep==\"\" && len(dep.Outputs())>1", "!dep.IsBinary && runnable",
   "len(dep.Outputs())==0 && runnable", "test && tool", "!multiple && allOutputs && ep==\"\" && len(dep.Outputs())==0"]

/-- The code the model transcribes beyond the guard chain, as canonical skeletons (parameters by position, locals
    by order of declaration, message texts blanked; compared by SHA-256 prefix, the text itself is in a comment of Generated/C37.lean and
    Expected/C37.lean): the rest of `checkAndReplaceSequence` (hash, output loop with
    the tool/abs branch, separator, `break` on dir, `TrimRight`, entry points), `fileDestination`, `handleDir`,
    `replaceSequenceLabel`, `replaceSequence`, `splitEntryPoint`, `sourcesOrTools`. -/
def expectedSkeletons : List (String × String) :=
  [ ("skelCheckTail", "5dc4ce40883ca636767d3870"),
    ("skelFileDestination", "f3d77e2b10c364f21f1480ff"),
    ("skelHandleDir", "ac1e5d5f468350ce2019b35b"),
    ("skelReplaceSequenceLabel", "734076f9ff401d7ac0c39e69"),
    ("skelReplaceSequence", "afd5d348adc4b747c8325249"),
    ("skelSplitEntryPoint", "b5b316dc012cad63fe35eb00"),
    ("skelSourcesOrTools", "5fbe9d443a4d3f3c2eff30fc"),
    ("skelOutputs", "4b57821a9b4fc00d60cb01da"),
    ("skelDeclaredOutputs", "d158d44f14cc8b60ceb85362"),
    ("skelFilegroupOutputs", "fcf0cbe3ac0d99b28ef9d697") ]

def generatedSkeletons : List (String × String) :=
  [ ("skelCheckTail", PlzVerif.Generated.C37.skelCheckTail), ("skelFileDestination", PlzVerif.Generated.C37.skelFileDestination), ("skelHandleDir", PlzVerif.Generated.C37.skelHandleDir), ("skelReplaceSequenceLabel", PlzVerif.Generated.C37.skelReplaceSequenceLabel), ("skelReplaceSequence", PlzVerif.Generated.C37.skelReplaceSequence), ("skelSplitEntryPoint", PlzVerif.Generated.C37.skelSplitEntryPoint), ("skelSourcesOrTools", PlzVerif.Generated.C37.skelSourcesOrTools), ("skelOutputs", PlzVerif.Generated.C37.skelOutputs), ("skelDeclaredOutputs", PlzVerif.Generated.C37.skelDeclaredOutputs), ("skelFilegroupOutputs", PlzVerif.Generated.C37.skelFilegroupOutputs) ]

/-- Side condition on the regenerated facts (decidable): the same nine sequences in any order, offsets that
    skip exactly `$(kw `, double-quote wrappers, every reacting character literal inside double quotes, and
    all shell operator characters among them, the guard chain the model transcribes — whose output counts, like the
    output loop, are over `Outputs()` (declared + named + filegroup-derived), not `DeclaredOutputs()` —, every pass reading the previous
    pass's result, and the skeletons of the remaining functions. -/
def FactsOK : Bool :=
  seqs.length = expectedSeqs.length && expectedSeqs.all (seqs.contains ·) &&
  seqs.all (fun sd => sd.off = sd.kw.length + 3) &&
  qf.left = ['"'] && qf.right = ['"'] && qf.chars.all dqLiteral &&
  ['|', '&', ';', '(', ')', '<', '>'].all (qf.chars.contains ·) &&
  PlzVerif.Generated.C37.guards == expectedGuards

/-- Obligation a code change can break. -/
theorem C37_facts_ok : FactsOK = true := by decide

/-- Which accessor the guards and the output loop of `checkAndReplaceSequence` count/range over: all three must be
    `Outputs()` — declared + named + filegroup-derived outputs — not `DeclaredOutputs()` (the plain `outs = [...]` list
    only; what the two accessors consist of is pinned by `skelOutputs`/`skelDeclaredOutputs`/`skelFilegroupOutputs`). -/
def AccessorsOK : Bool :=
  PlzVerif.Generated.C37.multiGuardAccessor == "Outputs" && PlzVerif.Generated.C37.zeroGuardAccessor == "Outputs" &&
  PlzVerif.Generated.C37.loopAccessor == "Outputs"

theorem C37_accessors_ok : AccessorsOK = true := by decide

/-- The model instance the theorems are about counts `Outputs()` in the "multiple outputs" guard. -/
theorem qf_guard : qf.guardDeclared = false := by decide

/-- Second half of the side condition: every pass reads the previous pass's result, and the remaining functions
    have the structure the model transcribes. -/
def SkeletonsOK : Bool := PlzVerif.Generated.C37.passesChained && generatedSkeletons == expectedSkeletons

theorem C37_skeletons_ok : SkeletonsOK = true := by decide

theorem C37_quote_facts_ok : QuoteOK qf := by
  have h := C37_facts_ok
  simp only [FactsOK, Bool.and_eq_true, decide_eq_true_eq, List.all_eq_true] at h
  exact ⟨h.1.1.1.1.2, h.1.1.1.2, fun c hc => h.1.1.2 c hc⟩

/-! ## One shell word per path -/

/-- **Partial**: a path made of ordinary characters and the characters `quote` reacts to reaches the
    command as exactly one word, itself. -/
theorem C37_one_word_partial (p : Str) (h : goodPath qf p = true) : shellWords (quote qf p) = some [p] :=
  sw_quote_end C37_quote_facts_ok h

/-- **Partial**: what the output loop of `checkAndReplaceSequence` renders for good paths is split by the
    shell into exactly those paths (so `$(locations …)` yields one word per output). -/
theorem C37_words_partial (paths : List Str) (h : ∀ p ∈ paths, goodPath qf p = true) :
    shellWords (render qf paths) = some paths :=
  shellWords_render C37_quote_facts_ok paths h

example : goodPath qf (cl% "my_pkg/a&b(1).txt") = true := by decide
example : shellWords (render qf [(cl% "p;q/a.txt"), (cl% "p;q/b<c")]) = some [(cl% "p;q/a.txt"), (cl% "p;q/b<c")] := by decide

/-- Witnesses: a space splits the word; `"` leaves an unbalanced quote; `$`, a backtick, `*` are expanded. -/
theorem C37_one_word_witness_space :
    shellWords (quote qf ['m','y',' ','p','k','g','/','a',' ','b']) = some [['m','y'], ['p','k','g','/','a'], ['b']] := by decide

theorem C37_one_word_witness_dquote : shellWords (quote qf ['a','"','b']) = none := by decide

theorem C37_one_word_witness_dollar : shellWords (quote qf ['$','H','O','M','E']) = none := by decide

theorem C37_one_word_witness_backtick : shellWords (quote qf ['`','i','d','`']) = none := by decide

theorem C37_one_word_witness_star : shellWords (quote qf ['a','*']) = none := by decide

/-- Inside the double quotes `quote` adds, `$` is still expanded. -/
theorem C37_one_word_witness_quoted_dollar : shellWords (quote qf ['a',';','$','b']) = none := by decide

/-- The full-strength clause "the expansion is a single shell word per path" is false today. -/
theorem C37_one_word_fails : ¬ ∀ p : Str, shellWords (quote qf p) = some [p] := by
  intro h
  have := h ['a', ' ', 'b']
  revert this
  decide

/-! ## Rejections -/

/-- A label that is not a dependency (and not the target itself) is rejected, whatever the sequence. -/
theorem C37_reject_nondep (root : Str) (t : Target) (inp : Str) (label : Label)
    (runnable multiple dir outPrefix hash test : Bool)
    (hl : looksLikeLabel inp = true)
    (hp : tryParseLabel (splitEntryPoint inp).1 t.spec.label.pkg t.spec.label.sub = some label)
    (hself : label ≠ t.spec.label) (hdep : t.dependenciesFor label = []) :
    replaceSequence qf root t inp runnable multiple dir outPrefix hash test = .error .nodep := by
  unfold replaceSequence
  simp only [hl, ↓reduceIte]
  rw [show splitEntryPoint inp = ((splitEntryPoint inp).1, (splitEntryPoint inp).2) from rfl]
  simp only [hp, replaceSequenceLabel, hself, ↓reduceIte, hdep]

/-- An unparsable label is rejected. -/
theorem C37_reject_badlabel (root : Str) (t : Target) (inp : Str) (runnable multiple dir outPrefix hash test : Bool)
    (hl : looksLikeLabel inp = true)
    (hp : tryParseLabel (splitEntryPoint inp).1 t.spec.label.pkg t.spec.label.sub = none) :
    replaceSequence qf root t inp runnable multiple dir outPrefix hash test = .error .badlabel := by
  unfold replaceSequence
  simp only [hl, ↓reduceIte]
  rw [show splitEntryPoint inp = ((splitEntryPoint inp).1, (splitEntryPoint inp).2) from rfl]
  simp only [hp]

/-- `$(location //x:y)` / `$(exe …)` / `$(out_location …)` on a dependency with several outputs (and no
    entry point selected) is rejected. -/
theorem C37_reject_multi (root : Str) (self : Bool) (dep : TSpec) (inp : Str)
    (runnable dir outPrefix hash test tool : Bool) (h : dep.outs.length > 1) :
    checkAndReplace qf root self dep [] inp runnable false dir outPrefix hash test true tool = .error .multi := by
  simp [checkAndReplace, h, qf_guard]

/-- `$(exe …)` on something that is not a binary is rejected. -/
theorem C37_reject_notexe (root : Str) (self : Bool) (dep : TSpec) (ep inp : Str)
    (multiple dir outPrefix hash test allOutputs tool : Bool) (hb : dep.bin = false)
    (hm : ¬ (allOutputs = true ∧ multiple = false ∧ dep.outs.length > 1 ∧ ep = [])) :
    checkAndReplace qf root self dep ep inp true multiple dir outPrefix hash test allOutputs tool = .error .notexe := by
  unfold checkAndReplace
  simp only [qf_guard, Bool.false_eq_true, ↓reduceIte]
  have : (allOutputs && !multiple && decide (dep.outs.length > 1) && decide (ep = [])) = false := by
    cases allOutputs <;> cases multiple <;> simp_all
  simp [this, hb]

-- non-vacuity of the rejection theorems: a target //p:t with one source file and one dependency //lib:d
def rejT : Target :=
  ⟨⟨⟨[], ['p'], ['t']⟩, [['o']], false, [], []⟩, [⟨(cl% "a.txt"), none⟩], [],
   [⟨⟨[], (cl% "lib"), ['d']⟩, 2, [⟨⟨[], (cl% "lib"), ['d']⟩, [['x']], false, [], []⟩]⟩]⟩

example : looksLikeLabel (cl% "//other:thing") = true ∧
    tryParseLabel (splitEntryPoint (cl% "//other:thing")).1 rejT.spec.label.pkg rejT.spec.label.sub = some ⟨[], (cl% "other"), (cl% "thing")⟩ ∧
    (⟨[], (cl% "other"), (cl% "thing")⟩ : Label) ≠ rejT.spec.label ∧ rejT.dependenciesFor ⟨[], (cl% "other"), (cl% "thing")⟩ = [] := by decide
example : replaceSequence qf [] rejT (cl% "//other:thing") false false false false false false = .error .nodep := by decide
example : looksLikeLabel (cl% "//a:b:c") = true ∧
    tryParseLabel (splitEntryPoint (cl% "//a:b:c")).1 rejT.spec.label.pkg rejT.spec.label.sub = none := by decide
example : replaceSequence qf [] rejT (cl% "//a:b:c") false false false false false false = .error .badlabel := by decide
-- $(exe //lib:d) on a non-binary
example : replaceSequence qf [] rejT (cl% "//lib:d") true false false false false false = .error .notexe := by decide
-- C37_exists_file: a.txt is a source of rejT
example : looksLikeLabel (cl% "a.txt") = false ∧ (⟨(cl% "a.txt"), none⟩ : Input) ∈ rejT.srcs ∧
    (∀ i ∈ rejT.srcs, i.label.isSome → i.str ≠ (cl% "a.txt")) ∧ hasPrefix (cl% "a.txt") ['/'] = false := by
  refine ⟨by decide, by simp [rejT], ?_, by decide⟩
  intro i hi hs
  simp only [rejT, List.mem_singleton] at hi
  subst hi
  simp at hs
example : replaceSequence qf [] rejT (cl% "a.txt") false false false false false false = .ok (cl% "p/a.txt") := by decide
-- C37_command_reject_nondep: the whole command `$(location //other:thing)`
example : replaceSequences seqs qf [] rejT false (seqText kwLocation (cl% "//other:thing")) = .error .nodep := by decide

example : checkAndReplace qf [] false ⟨⟨[], ['p'], ['d']⟩, [['a'], ['b']], false, [], []⟩ [] ['/','/','p',':','d']
    false false false false false false true false = .error .multi := by decide

/-- `$(location …)`, `$(out_location …)`, `$(exe …)`, `$(out_exe …)` on a target with *no* outputs are rejected
    (repaired: the guard `… && len(dep.Outputs()) == 0 && ep == ""`). -/
theorem C37_reject_zero (root : Str) (self : Bool) (dep : TSpec) (inp : Str)
    (runnable dir outPrefix hash test tool : Bool) (h : dep.outs = []) :
    ∃ e, checkAndReplace qf root self dep [] inp runnable false dir outPrefix hash test true tool = .error e := by
  unfold checkAndReplace
  simp only [qf_guard, Bool.false_eq_true, ↓reduceIte]
  simp only [h, List.length_nil]
  cases runnable <;> cases dep.bin <;> cases test <;> cases tool <;> simp

example : checkAndReplace qf [] false ⟨⟨[], ['p'], ['d']⟩, [], false, [], []⟩ [] ['/','/','p',':','d']
    false false false false false false true false = .error .zero := by decide

/-- Full strength of the "wrong number of outputs" clause: a single-output sequence that expands names a target with
    exactly one output. -/
theorem C37_single_output_exact (root : Str) (self : Bool) (dep : TSpec) (inp s : Str)
    (runnable dir outPrefix hash test tool : Bool)
    (h : checkAndReplace qf root self dep [] inp runnable false dir outPrefix hash test true tool = .ok s) :
    dep.outs.length = 1 := by
  rcases hlen : dep.outs with _ | ⟨o, _ | ⟨o2, os⟩⟩
  · obtain ⟨e, he⟩ := C37_reject_zero root self dep inp runnable dir outPrefix hash test tool hlen
    rw [he] at h; cases h
  · rfl
  · have := C37_reject_multi root self dep inp runnable dir outPrefix hash test tool (by rw [hlen]; simp)
    rw [this] at h; cases h

/-- With exactly one output the single-output sequences expand to exactly one path. -/
theorem C37_single_output_path (root : Str) (self : Bool) (dep : TSpec) (inp out : Str)
    (outPrefix test tool : Bool) (h : dep.outs = [out]) :
    seqPaths root self dep inp false outPrefix test true tool =
      [if tool then pathJoin [root, pathJoin [dep.outDir, out]] else fileDestination self dep out false outPrefix test] := by
  simp [seqPaths, h, handleDir]

/-! ## The expansion is the path that exists -/

/-- What `checkAndReplaceSequence` returns is the rendering of `seqPaths` (when no entry point is chosen
    and none of the guards fires). -/
theorem C37_expansion_is_render (root : Str) (self : Bool) (dep : TSpec) (inp : Str)
    (runnable multiple dir outPrefix test allOutputs tool : Bool) (s : Str)
    (h : checkAndReplace qf root self dep [] inp runnable multiple dir outPrefix false test allOutputs tool = .ok s) :
    s = render qf (seqPaths root self dep inp dir outPrefix test allOutputs tool) := by
  unfold checkAndReplace at h
  simp only [qf_guard, Bool.false_eq_true, ↓reduceIte] at h
  split at h; · cases h
  split at h; · cases h
  split at h; · cases h
  split at h; · cases h
  split at h; · cases h
  first
    | (cases h; rfl)
    | (simp only [Bool.false_eq_true, ↓reduceIte] at h; cases h; rfl)

/-- **A singular sequence is one word naming one output.**  Whenever `$(location L)` / `$(out_location L)` /
    `$(exe L)` / `$(out_exe L)` (no entry point) expands at all, the dependency has exactly one output — counting
    *every* output: plain declared, named (`outs = {"hdrs": […]}`) and filegroup-derived — the expansion is the quoted
    path of that output, and for a good path the shell hands the command exactly that one word. -/
theorem C37_singular_is_one_output (root : Str) (self : Bool) (dep : TSpec) (inp s : Str)
    (runnable outPrefix test tool : Bool)
    (h : checkAndReplace qf root self dep [] inp runnable false false outPrefix false test true tool = .ok s) :
    ∃ o p, dep.outs = [o] ∧ seqPaths root self dep inp false outPrefix test true tool = [p] ∧ s = render qf [p] ∧
      (goodPath qf p = true → shellWords s = some [p]) := by
  have hlen := C37_single_output_exact root self dep inp s runnable false outPrefix false test tool h
  have hs := C37_expansion_is_render root self dep inp runnable false false outPrefix test true tool s h
  rcases ho : dep.outs with _ | ⟨o, _ | ⟨o2, os⟩⟩
  · rw [ho] at hlen; simp at hlen
  · have hp : seqPaths root self dep inp false outPrefix test true tool =
        [if tool then pathJoin [root, pathJoin [dep.outDir, o]] else fileDestination self dep o false outPrefix test] := by
      simp [seqPaths, ho, handleDir]
    refine ⟨o, _, rfl, hp, by rw [hs, hp], ?_⟩
    intro hg
    rw [hs, hp]
    exact C37_words_partial _ (by intro q hq; simp only [List.mem_singleton] at hq; subst hq; exact hg)
  · rw [ho] at hlen; simp at hlen

-- non-vacuity: a dependency whose single output is a NAMED output
example : checkAndReplace qf [] false ⟨⟨[], ['p'], ['d']⟩, [(cl% "a.h")], false, [], [(cl% "a.h")]⟩ [] (cl% "//p:d")
    false false false false false false true false = .ok (cl% "p/a.h") := by decide

/-- The guard counts *all* outputs: a dependency with two NAMED outputs (or a filegroup over two files — nothing in
    its plain `outs` list) is rejected by the singular forms. -/
theorem C37_reject_multi_named (root : Str) (self : Bool) (dep : TSpec) (inp : Str)
    (runnable dir outPrefix hash test tool : Bool) (h : dep.outs.length > 1) (_hnamed : dep.declared = []) :
    checkAndReplace qf root self dep [] inp runnable false dir outPrefix hash test true tool = .error .multi :=
  C37_reject_multi root self dep inp runnable dir outPrefix hash test tool h

example : (⟨⟨[], ['p'], ['d']⟩, [(cl% "a.c"), (cl% "a.h")], false, [], [(cl% "a.c"), (cl% "a.h")]⟩ : TSpec).declared = [] := by decide

/-- Witness (negative control for the fact `multiGuardAccessor`): were the guard to count only the plain declared
    outputs (`len(dep.DeclaredOutputs()) > 1`), `$(location //p:d)` on a dependency with the two named outputs `a.c`,
    `a.h` would not be rejected: the loop writes every output and ONE sequence becomes TWO shell words
    (`cp $(location //p:d) $OUT` = `cp p/a.c p/a.h $OUT`). -/
theorem C37_witness_declared_only_guard :
    let dep : TSpec := ⟨⟨[], ['p'], ['d']⟩, [(cl% "a.c"), (cl% "a.h")], false, [], [(cl% "a.c"), (cl% "a.h")]⟩
    checkAndReplace { qf with guardDeclared := true } [] false dep [] (cl% "//p:d") false false false false false false true false
      = .ok (cl% "p/a.c p/a.h") ∧
    shellWords (cl% "p/a.c p/a.h") = some [(cl% "p/a.c"), (cl% "p/a.h")] ∧
    checkAndReplace qf [] false dep [] (cl% "//p:d") false false false false false false true false = .error .multi := by
  decide

/-- A declared label is a *build input* of the target when it is among the sources, or a dependency that is
    neither source-only nor data. -/
def buildInput (t : Target) (label : Label) (d : DepDecl) : Prop :=
  d ∈ t.deps ∧ d.declared = label ∧
  ((∃ i ∈ t.srcs, i.label = some label) ∨ (d.sourceOnly = false ∧ d.isData = false))

/-- Every output of a build-input dependency is linked into the build directory under its package. -/
theorem C37_outs_linked (t : Target) (label : Label) (d : DepDecl) (dep : TSpec) (rest : List TSpec)
    (hfind : t.deps.find? (fun x => x.declared = label) = some d) (hdeps : d.deps = dep :: rest)
    (hin : buildInput t label d) (htool : t.isTool dep.label = false)
    (houts : ∀ o ∈ dep.outs, o ≠ [] ∧ hasPrefix o ['/'] = false) :
    ∀ o ∈ dep.outs, pathJoin [dep.pkgDir, o] ∈ t.tmpPaths := by
  intro out ho
  have _ := houts
  have hmem := fileDestination_mem_paths dep out ho
  have e : fileDestination false dep out false false false = pathJoin [dep.pkgDir, out] := by
    simp [fileDestination, handleDir]
  rw [e] at hmem
  have hdf : t.dependenciesFor label = dep :: rest := by simp [Target.dependenciesFor, hfind, hdeps]
  obtain ⟨hd, _, hor⟩ := hin
  rcases hor with ⟨i, hi, hl⟩ | ⟨hs, hdata⟩
  · exact mem_tmpPaths_of_src hi hl (by rw [hdf]; simp) hmem
  · exact mem_tmpPaths_of_dep hd hs hdata (by rw [hdeps]; simp) htool hmem

/-- **Exists, labels.**  In a build command, for a label that `dependenciesFor` resolves through a
    declaration that is a build input and not a tool, every path a non-`out_`, non-`dir` sequence expands to
    is one `prepareSources` links into the build directory. -/
theorem C37_exists_label (root : Str) (t : Target) (label : Label) (d : DepDecl) (dep : TSpec) (rest : List TSpec)
    (inp : Str) (allOutputs : Bool)
    (hfind : t.deps.find? (fun x => x.declared = label) = some d) (hdeps : d.deps = dep :: rest)
    (hin : buildInput t label d) (htool : t.isTool dep.label = false)
    (houts : ∀ o ∈ dep.outs, o ≠ [] ∧ hasPrefix o ['/'] = false) :
    ∀ p ∈ seqPaths root false dep inp false false false allOutputs false, p ∈ t.tmpPaths := by
  intro p hp
  simp only [seqPaths, Bool.false_eq_true, ↓reduceIte, List.mem_map, List.mem_filter] at hp
  obtain ⟨out, ⟨ho, _⟩, rfl⟩ := hp
  have := C37_outs_linked t label d dep rest hfind hdeps hin htool houts out ho
  simpa [fileDestination, handleDir] using this

/-- **Exists, `dir`.**  `$(dir //x:y)` expands to the package directory of the dependency, and that directory
    is where every output of the dependency is linked (`pkg/out` for each `out`; "." for the root package). -/
theorem C37_exists_dir (root : Str) (t : Target) (label : Label) (d : DepDecl) (dep : TSpec) (rest : List TSpec)
    (inp : Str) (allOutputs : Bool)
    (hfind : t.deps.find? (fun x => x.declared = label) = some d) (hdeps : d.deps = dep :: rest)
    (hin : buildInput t label d) (htool : t.isTool dep.label = false)
    (houts : ∀ o ∈ dep.outs, o ≠ [] ∧ hasPrefix o ['/'] = false) :
    ∀ p ∈ seqPaths root false dep inp true false false allOutputs false,
      p = dep.pkgDir ∧ ∀ o ∈ dep.outs, pathJoin [p, o] ∈ t.tmpPaths := by
  intro p hp
  simp only [seqPaths, ↓reduceIte, List.mem_map] at hp
  obtain ⟨out, _, rfl⟩ := hp
  have e : fileDestination false dep out true false false = dep.pkgDir := by simp [fileDestination, handleDir]
  rw [e]
  exact ⟨rfl, C37_outs_linked t label d dep rest hfind hdeps hin htool houts⟩

/-- **End to end, one sequence.**  `$(locations L)` for a label `L` (no entry point) that parses, is not the
    target itself, resolves through a build-input declaration and is not a tool: `replaceSequence` — label
    parsing, dependency lookup, the guards, the output loop, quoting — yields the rendering of exactly the
    dependency's outputs under its package; each of those paths is linked into the build directory; and, when
    the paths are good, the shell hands the command exactly those paths, one word each. -/
theorem C37_locations_end_to_end (root : Str) (t : Target) (inp : Str) (label : Label) (d : DepDecl) (dep : TSpec)
    (rest : List TSpec)
    (hl : looksLikeLabel inp = true) (hnoep : splitEntryPoint inp = (inp, []))
    (hparse : tryParseLabel inp t.spec.label.pkg t.spec.label.sub = some label) (hself : label ≠ t.spec.label)
    (hfind : t.deps.find? (fun x => x.declared = label) = some d) (hdeps : d.deps = dep :: rest)
    (hin : buildInput t label d) (htool : t.isTool dep.label = false) (htool' : t.isTool label = false)
    (houts : ∀ o ∈ dep.outs, o ≠ [] ∧ hasPrefix o ['/'] = false) :
    replaceSequence qf root t inp false true false false false false
        = .ok (render qf (dep.outs.map fun o => pathJoin [dep.pkgDir, o]))
    ∧ (∀ p ∈ dep.outs.map (fun o => pathJoin [dep.pkgDir, o]), p ∈ t.tmpPaths)
    ∧ ((∀ o ∈ dep.outs, goodPath qf (pathJoin [dep.pkgDir, o]) = true) →
        shellWords (render qf (dep.outs.map fun o => pathJoin [dep.pkgDir, o]))
          = some (dep.outs.map fun o => pathJoin [dep.pkgDir, o])) := by
  have hdf : t.dependenciesFor label = dep :: rest := by simp [Target.dependenciesFor, hfind, hdeps]
  refine ⟨?_, ?_, ?_⟩
  · unfold replaceSequence
    simp only [hl, ↓reduceIte, hnoep, hparse, replaceSequenceLabel, hself, hdf, htool']
    unfold checkAndReplace
    simp only [qf_guard, Bool.false_eq_true, ↓reduceIte]
    have hf : dep.outs.filter (fun _ => true) = dep.outs := List.filter_eq_self.mpr (fun _ _ => rfl)
    simp [seqPaths, fileDestination, handleDir, hf]
  · intro p hp
    obtain ⟨o, ho, rfl⟩ := List.mem_map.mp hp
    exact C37_outs_linked t label d dep rest hfind hdeps hin htool houts o ho
  · intro hg
    exact C37_words_partial _ (by
      intro p hp
      obtain ⟨o, ho, rfl⟩ := List.mem_map.mp hp
      exact hg o ho)

/-- **Entry points.**  `$(location L|ep)` (no guard firing, `L` not a tool) expands to the quoted destination of the
    output the entry point names; in a build command without `out_` that is `pkg/out`. -/
theorem C37_entry_point (root : Str) (self : Bool) (dep : TSpec) (ep inp out : Str) (multiple dir : Bool)
    (hne : ep ≠ []) (hfind : dep.eps.find? (fun e => e.1 = ep) = some (ep, out)) :
    checkAndReplace qf root self dep ep inp false multiple dir false false false true false
      = .ok (quote qf (if dir then dep.pkgDir else pathJoin [dep.pkgDir, out])) := by
  unfold checkAndReplace
  simp only [qf_guard, Bool.false_eq_true, ↓reduceIte]
  simp [hne, hfind, fileDestination, handleDir]

/-- **Entry points of tools** (repaired): like every other tool output they are addressed by the absolute path of
    the real output, `<root>/plz-out/{bin,gen}/pkg/out` — tools are not linked into the build directory. -/
theorem C37_tool_entry_point_abs (root : Str) (self : Bool) (dep : TSpec) (ep inp out : Str) (runnable multiple outPrefix : Bool)
    (hne : ep ≠ []) (hfind : dep.eps.find? (fun e => e.1 = ep) = some (ep, out)) (hb : runnable = true → dep.bin = true)
    (ho : dep.outs ≠ []) :
    checkAndReplace qf root self dep ep inp runnable multiple false outPrefix false false true true
      = .ok (quote qf (pathJoin [root, pathJoin [dep.outDir, out]])) := by
  unfold checkAndReplace
  simp only [qf_guard, Bool.false_eq_true, ↓reduceIte]
  have hl : dep.outs.length ≠ 0 := by intro h; exact ho (List.length_eq_zero_iff.mp h)
  cases runnable with
  | false => simp [hne, hfind, handleDir]
  | true => simp [hne, hfind, handleDir, hb rfl, hl]

/-- **Exists, files.**  In a build command a plain name that is a source file expands to the quoted path
    `prepareSources` links it at. -/
theorem C37_exists_file (root : Str) (t : Target) (inp : Str) (multiple dir outPrefix : Bool)
    (hl : looksLikeLabel inp = false) (hsrc : ⟨inp, none⟩ ∈ t.srcs)
    (hlab : ∀ i ∈ t.srcs, i.label.isSome → i.str ≠ inp) (habs : hasPrefix inp ['/'] = false) :
    replaceSequence qf root t inp false multiple dir outPrefix false false = .ok (quote qf (pathJoin [t.spec.label.pkg, inp]))
    ∧ pathJoin [t.spec.label.pkg, inp] ∈ t.tmpPaths := by
  constructor
  · unfold replaceSequence
    simp only [hl, Bool.false_eq_true, ↓reduceIte, habs]
    have : ∀ l : List Input, (∀ i ∈ l, i.label.isSome → i.str ≠ inp) →
        matchInputs qf root t inp false multiple dir outPrefix false false l = none := by
      intro l
      induction l with
      | nil => intro _; rfl
      | cons x xs ih =>
        intro h
        unfold matchInputs
        cases hx : x.label with
        | none => simp only [Bool.false_and, Bool.false_eq_true, ↓reduceIte]; exact ih (fun i hi => h i (by simp [hi]))
        | some l =>
          have := h x (by simp) (by simp [hx])
          simp only [this, ↓reduceIte]; exact ih (fun i hi => h i (by simp [hi]))
    rw [this t.srcs hlab]
  · unfold Target.tmpPaths
    simp only [List.mem_append, List.mem_flatMap]
    left
    exact ⟨⟨inp, none⟩, hsrc, by simp⟩

/-- Witness: a plain name that is *not* a source is not rejected; it expands to a path nothing creates. -/
theorem C37_witness_nonsource_file :
    let t : Target := ⟨⟨⟨[], ['p'], ['t']⟩, [['o']], false, [], []⟩, [⟨['a','.','t','x','t'], none⟩], [], []⟩
    replaceSequence qf [] t ['t','y','p','o'] false false false false false false = .ok ['p','/','t','y','p','o']
    ∧ ['p','/','t','y','p','o'] ∉ t.tmpPaths := by decide

/-- `out_` sequences name the outputs under `plz-out/{gen,bin}` (relative to the repository root). -/
theorem C37_out_paths (root : Str) (self : Bool) (dep : TSpec) (inp : Str) (test allOutputs : Bool) :
    ∀ p ∈ seqPaths root self dep inp false true test allOutputs false, p ∈ dep.fullPaths := by
  intro p hp
  simp only [seqPaths, Bool.false_eq_true, ↓reduceIte, List.mem_map, List.mem_filter] at hp
  obtain ⟨out, ⟨ho, _⟩, rfl⟩ := hp
  simp only [fileDestination, ↓reduceIte, handleDir, Bool.false_eq_true, TSpec.fullPaths, List.mem_map]
  exact ⟨out, ho, rfl⟩

/-- Tools are named by the absolute path of their real output. -/
theorem C37_tool_abs (root : Str) (self : Bool) (dep : TSpec) (inp : Str) (outPrefix test allOutputs : Bool) :
    ∀ p ∈ seqPaths root self dep inp false outPrefix test allOutputs true, ∃ f ∈ dep.fullPaths, p = pathJoin [root, f] := by
  intro p hp
  simp only [seqPaths, Bool.false_eq_true, ↓reduceIte, List.mem_map, List.mem_filter] at hp
  obtain ⟨out, ⟨ho, _⟩, rfl⟩ := hp
  refine ⟨pathJoin [dep.outDir, out], ?_, by simp [handleDir]⟩
  simp only [TSpec.fullPaths, List.mem_map]
  exact ⟨out, ho, rfl⟩

-- the former witness of `tool-entry-point-not-absolute`: `$(exe //tl:x|m)` on a tool now gives the absolute path
example :
    let tool : TSpec := ⟨⟨[], ['t','l'], ['x']⟩, [['b','i','n']], true, [(['m'], ['b','i','n'])], []⟩
    let t : Target := ⟨⟨⟨[], ['p'], ['t']⟩, [['o']], false, [], []⟩, [], [⟨tool.label.str, some tool.label⟩], [⟨tool.label, 4, [tool]⟩]⟩
    replaceSequence qf ['/','r'] t ['/','/','t','l',':','x','|','m'] true false false false false false
      = .ok (cl% "/r/plz-out/bin/tl/bin") := by decide

/-- **`$(dir …)` is never empty** (repaired: `PackageDir()`): it is the package directory of the dependency, "." for
    the root package. -/
theorem C37_dir_full (root : Str) (dep : TSpec) (inp o : Str) (os : List Str) (allOutputs : Bool)
    (ho : dep.outs = o :: os) (ha : allOutputs = true) :
    seqPaths root false dep inp true false false allOutputs false = [dep.pkgDir] ∧ dep.pkgDir ≠ [] := by
  refine ⟨by simp [seqPaths, ho, ha, fileDestination, handleDir], pkgDir_ne_nil dep⟩

-- the former witness of `dir-of-root-package-is-empty`
example :
    let dep : TSpec := ⟨⟨[], [], ['x']⟩, [['o']], false, [], []⟩
    let t : Target := ⟨⟨⟨[], ['p'], ['t']⟩, [['o']], false, [], []⟩, [], [], [⟨dep.label, 2, [dep]⟩]⟩
    replaceSequence qf [] t ['/','/',':','x'] false true true false false false = .ok ['.'] := by decide

-- non-vacuity of C37_exists_label: a source dependency with two outputs
example :
    let dep : TSpec := ⟨⟨[], ['l','i','b'], ['d']⟩, [['a'], ['b',' ','c']], false, [], []⟩
    let t : Target := ⟨⟨⟨[], ['p'], ['t']⟩, [['o']], false, [], []⟩, [⟨dep.label.str, some dep.label⟩], [], [⟨dep.label, 1, [dep]⟩]⟩
    replaceSequence qf [] t ['/','/','l','i','b',':','d'] false true false false false false = .ok (cl% "lib/a lib/b c")
    ∧ t.tmpPaths = [(cl% "lib/a"), (cl% "lib/b c")] := by decide

/-! ## From one sequence to the whole command (`replaceSequencesInternal`) -/

/-- The regenerated table has distinct keywords without blanks or `$`, and offsets that skip `$(kw `. -/
theorem C37_seqs_ok : SeqsOK seqs := by
  unfold SeqsOK
  decide

/-- A command that is exactly one sequence naming a label that is not a dependency is rejected by
    `ReplaceSequences` as a whole (all nine passes), for every sequence of the table. -/
theorem C37_command_reject_nondep (root : Str) (t : Target) (test : Bool) (sd : SeqDef) (hsd : sd ∈ seqs)
    (arg : Str) (label : Label) (hp : ')' ∉ arg) (hd : '$' ∉ arg)
    (hl : looksLikeLabel arg = true)
    (hparse : tryParseLabel (splitEntryPoint arg).1 t.spec.label.pkg t.spec.label.sub = some label)
    (hself : label ≠ t.spec.label) (hdep : t.dependenciesFor label = []) :
    replaceSequences seqs qf root t test (seqText sd.kw arg) = .error .nodep := by
  have ha : arg ≠ [] := by intro e; rw [e] at hl; revert hl; decide
  exact replaceSequences_single_err seqs C37_seqs_ok qf root t test sd hsd arg ha hp hd _
    (C37_reject_nondep root t arg label _ _ _ _ _ test hl hparse hself hdep)

/-- A command that is exactly one sequence expands to what `replaceSequence` yields for that keyword's
    flags, when that text has no `$` for a later pass to pick up. -/
theorem C37_command_single (root : Str) (t : Target) (test : Bool) (sd : SeqDef) (hsd : sd ∈ seqs)
    (arg r : Str) (ha : arg ≠ []) (hp : ')' ∉ arg) (hd : '$' ∉ arg)
    (hr : replaceSequence qf root t arg sd.runnable sd.multiple sd.dir sd.outPrefix sd.hash test = .ok r)
    (hdr : '$' ∉ r) :
    replaceSequences seqs qf root t test (seqText sd.kw arg) = .ok r :=
  replaceSequences_single_ok seqs C37_seqs_ok qf root t test sd hsd arg ha hp hd r hr hdr

/-- The sequence inside a longer command, `pre ++ $(kw arg) ++ post` with no other `$`: the expansion replaces
    the sequence in place and the rest of the command is untouched … -/
theorem C37_command_in_context (root : Str) (t : Target) (test : Bool) (sd : SeqDef) (hsd : sd ∈ seqs)
    (arg pre post r : Str) (ha : arg ≠ []) (hp : ')' ∉ arg) (hd : '$' ∉ arg) (hpre : '$' ∉ pre) (hpost : '$' ∉ post)
    (hr : replaceSequence qf root t arg sd.runnable sd.multiple sd.dir sd.outPrefix sd.hash test = .ok r)
    (hdr : '$' ∉ r) :
    replaceSequences seqs qf root t test (inCtx pre (seqText sd.kw arg) post) = .ok (inCtx pre r post) :=
  replaceSequences_ctx_ok seqs C37_seqs_ok qf root t test sd hsd arg pre post ha hp hd hpre hpost r hr hdr

/-- … and a rejected sequence rejects the whole command. -/
theorem C37_command_in_context_reject (root : Str) (t : Target) (test : Bool) (sd : SeqDef) (hsd : sd ∈ seqs)
    (arg pre post : Str) (e : Err) (ha : arg ≠ []) (hp : ')' ∉ arg) (hd : '$' ∉ arg) (hpre : '$' ∉ pre) (hpost : '$' ∉ post)
    (hr : replaceSequence qf root t arg sd.runnable sd.multiple sd.dir sd.outPrefix sd.hash test = .error e) :
    replaceSequences seqs qf root t test (inCtx pre (seqText sd.kw arg) post) = .error e :=
  replaceSequences_ctx_err seqs C37_seqs_ok qf root t test sd hsd arg pre post ha hp hd hpre hpost e hr

example : replaceSequences seqs qf [] rejT false (inCtx (cl% "cat ") (seqText kwLocation (cl% "a.txt")) (cl% " > out")) =
    .ok (cl% "cat p/a.txt > out") := by decide

-- non-vacuity: `$(locations //lib:d)` end to end, and the shell words of the result
example :
    let dep : TSpec := ⟨⟨[], ['l','i','b'], ['d']⟩, [['a'], ['b','&','c']], false, [], []⟩
    let t : Target := ⟨⟨⟨[], ['p'], ['t']⟩, [['o']], false, [], []⟩, [⟨dep.label.str, some dep.label⟩], [], [⟨dep.label, 1, [dep]⟩]⟩
    replaceSequences seqs qf [] t false (seqText kwLocations (cl% "//lib:d")) = .ok (cl% "lib/a \"lib/b&c\"")
    ∧ shellWords (cl% "lib/a \"lib/b&c\"") = some [(cl% "lib/a"), (cl% "lib/b&c")] := by decide

/-- Witness of the re-scan: an output whose *name* looks like a sequence is expanded by a later pass. -/
theorem C37_witness_rescan :
    let dep : TSpec := ⟨⟨[], ['l'], ['d']⟩, [(cl% "$(dir :d)")], false, [], []⟩
    let t : Target := ⟨⟨⟨[], ['l'], ['t']⟩, [['o']], false, [], []⟩, [⟨dep.label.str, some dep.label⟩], [], [⟨dep.label, 1, [dep]⟩]⟩
    replaceSequences seqs qf [] t false (seqText kwLocation (cl% ":d")) = .ok (cl% "\"l/l\"") := by decide

end PlzVerif.Props.C37
