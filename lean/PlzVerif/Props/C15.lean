import PlzVerif.Lemmas.CMapWake
import PlzVerif.Lemmas.CMapTorn
import PlzVerif.Lemmas.CMapValues
import PlzVerif.Lemmas.CMapFacts
import PlzVerif.Generated.C15
/-!
C15  The concurrent awaitable map is linearizable and never loses wake-ups.

The model (`Model/CMap.lean`) has one atomic step per critical section of `src/cmap/cmap.go` and interleaves
any number of threads; `ErrMap.GetOrSet` (`cerrmap.go:62`) is a client built from `GetOrWait`, `Set`, `Get`.
Everything below is for every shard count, every hash function, every number of threads and every
interleaving (`Exec`/`Reach` are unbounded).
-/
namespace PlzVerif.Props.C15
open PlzVerif.CMap

/-! ## 0. The model is the code: regenerated facts -/

open PlzVerif.CMap.Facts PlzVerif.Generated in
/-- The decision tables extracted from `cmap.go` / `cerrmap.go` on this run are the ones the model was
    transcribed from: per case (absent / value / awaited, overwrite) what each critical section stores, closes,
    returns, calls and which lock it holds; how each `Map` method picks its shard and delegates; the shard loop
    of `Values`; the mask computation; the branch structure of `ErrMap.GetOrSet`. -/
def FactsOK : Bool :=
  C15.setRows == expectedSetRows && C15.lazySetRows == expectedLazySetRows && C15.getRows == expectedGetRows &&
  C15.containsRows == expectedContainsRows && C15.valuesRows == expectedValuesRows &&
  C15.rangeRows == expectedRangeRows && C15.mapRows == expectedMapRows && C15.valuesLoop == expectedValuesLoop &&
  C15.newFacts == expectedNewFacts && C15.getOrSetRows == expectedGetOrSetRows && C15.errGetRows == expectedErrGetRows

/-- Obligation a code change can break. -/
theorem C15_facts_ok : FactsOK = true := by decide

open PlzVerif.CMap.Facts in
/-- …and those tables say exactly what the model's critical sections do on the representative states (the
    model functions branch on nothing but the entry case and `overwrite`, so the representatives cover them). -/
theorem C15_model_matches_tables :
    expectedSetRows.map core = modelSetRows ∧ expectedLazySetRows.map core = modelLazySetRows ∧
    expectedGetRows.map core = modelGetRows ∧
    modelContains = [("absent", false), ("val", true), ("waiting", true)] ∧
    modelValues = [("val", [7]), ("waiting", [])] ∧
    expectedMapRows.map shardCall = modelMapRows ∧
    (∀ e f w, expectedGosAct e f w = modelGosAct e f w) := by
  refine ⟨by decide, by decide, by decide, by decide, by decide, by decide, by decide⟩

open PlzVerif.CMap.Facts in
/-- **One critical section = one atomic step** is what the code does: in every path of every shard method each
    map access (lookup, store, close, iteration) lies between taking and releasing the shard lock, and every path
    that stores or closes does so under the write lock (the second, re-checking access of `Get` included). -/
theorem C15_accesses_under_lock :
    (expectedSetRows ++ expectedLazySetRows ++ expectedGetRows ++ expectedContainsRows ++ expectedValuesRows ++
      expectedRangeRows).all rowLockOK = true := by decide

/-- `hasher(key) & mask` with `mask = shardCount - 1` and `shardCount` a power of two is `hasher(key) % shardCount`
    (the index function the driver uses). -/
theorem C15_mask_is_mod (h j : Nat) : h &&& (2 ^ j - 1) = h % 2 ^ j := Nat.and_two_pow_sub_one_eq_mod h j

variable {V : Type} [Inhabited V] (c : Cfg V)

/-! ## 1. Linearizability -/

/-- **Every history of the implementation is linearizable** with respect to the sequential specification
    `apply` (add-if-absent, overwrite, lookup, awaited-lookup, contains take effect atomically), where a
    `Values` call is a sequence of per-shard atomic snapshots taken in shard order. -/
theorem C15_linearizable {tr : List (Ev V)} {s : Sys V} (h : Exec c Sys.init tr s) : Linearizable c false tr :=
  ⟨abs s, exec_sim c h⟩

-- non-vacuity: a two-thread execution in which thread 1's Add lands between the two critical sections of
-- thread 0's GetOrWait (the interesting interleaving), and its history.
example : ∃ s : Sys Nat, Exec ⟨4, id, fun _ => false⟩ Sys.init
    [.inv 0 (.getOrWait 5), .inv 1 (.add 5 9), .ret 1 (.bool true), .ret 0 (.gw 9 none false)] s := by
  have e0 := Exec.nil (c := (⟨4, id, fun _ => false⟩ : Cfg Nat)) Sys.init
  have e1 := Exec.ev e0 (Step.invoke _ 0 (.getOrWait 5) rfl rfl)
  have e2 := Exec.tau e1 (Step.getFastMiss _ 0 5 true (by simp [upd, startPC]) (by decide))
  have e3 := Exec.ev e2 (Step.invoke _ 1 (.add 5 9) (by simp [upd, Sys.init]) rfl)
  have e4 := Exec.tau e3 (Step.setCS _ 1 5 9 false (by simp [upd, startPC]))
  have e5 := Exec.ev e4 (Step.ret _ 1 (.bool true) (by simp [upd]; rfl) rfl)
  have e6 := Exec.tau e5 (Step.getSlowCS _ 0 5 true (by simp [upd]))
  have e7 := Exec.ev e6 (Step.ret _ 0 (.gw 9 none false) (by simp [upd]; decide) rfl)
  exact ⟨_, by simpa using e7⟩

/-! ### strong linearizability (whole-map `Values` snapshot) where it holds -/

/-- **Histories of `Add`/`AddOrGet`/`Set`/`Get`/`GetOrWait`/`Contains` (and of `GetOrSet`'s inner calls) are
    linearizable in the strongest sense**: each operation takes effect at one instant between its call and its
    return. (`_partial`: the full statement would also cover `Values`; see the witness below.) -/
theorem C15_linearizable_strong_partial {tr : List (Ev V)} {s : Sys V} (h : Exec c Sys.init tr s)
    (hv : noValues tr) : Linearizable c true tr :=
  ⟨abs s, (aexec_strong_of_noValues c (exec_sim c h) (by intro t i acc h; cases h) hv).1⟩

open PlzVerif.CMap.Torn (wcfg tornTrace torn_not_linearizable)

/-- `Values()` starts, reads shard 0 (empty); `Add(0,5)` returns, then `Add(1,6)` returns; `Values()` reads shard 1. -/
def tornSchedule : List (Tid × Option (Call Nat)) :=
  [(0, some (.op .values)), (0, none), (1, some (.op (.add 0 5))), (1, none), (1, none),
   (1, some (.op (.add 1 6))), (1, none), (1, none), (0, none), (0, none)]

/-- **Witness: a `Values()` call over more than one shard is not one snapshot** (cmap.go:89-95 reads the shards
    one critical section after the other).  In this execution `Values()` is about to return `[6]`, yet at no
    instant of the execution did the map hold exactly `[6]`: key 0 (value 5) was added, *and its `Add` had
    returned*, before key 1 (value 6) was added.  Hence no linearization point exists for this call in the
    strong sense; recorded as known finding `values-not-atomic-across-shards` (the source documents
    "no particular consistency guarantees"). What does hold is `C15_linearizable` (per-shard snapshots in
    shard order) and `C15_linearizable_strong_partial`. -/
theorem C15_witness_values_torn :
    ∃ states : List (Sys Nat), Chain wcfg states ∧ states.head? = some Sys.init ∧
      (∃ s, states.getLast? = some s ∧ s.pc 0 = .done (.vals [6])) ∧
      ∀ s ∈ states, (apply wcfg s.sh .values).2 ≠ .vals [6] := by
  refine ⟨runSched wcfg Sys.init tornSchedule, runSched_chain _ _ _, rfl, ⟨_, rfl, by decide⟩, ?_⟩
  have : (runSched wcfg Sys.init tornSchedule).all (fun s => decide ((apply wcfg s.sh .values).2 ≠ .vals [6])) = true := by
    decide
  intro s hs
  simpa using List.all_eq_true.mp this s hs

/-- **Witness at full strength: the implementation produces a history that is not linearizable** when `Values`
    is required to be one whole-map snapshot: `Values()` called; `Add(0,5)` called and returned true; `Set(1,6)`
    called and returned; `Values()` returns `[6]`.  No execution of the atomic automaton has this history
    (`Lemmas/CMapTorn.lean`: an invariant over all its executions whose trace is a prefix of it), while the
    two-shard implementation has it — and it is linearizable once `Values` is read shard by shard. -/
theorem C15_witness_values_not_linearizable :
    ∃ s : Sys Nat, Exec wcfg Sys.init tornTrace s ∧ ¬ Linearizable wcfg true tornTrace ∧
      Linearizable wcfg false tornTrace := by
  have e0 := Exec.nil (c := wcfg) Sys.init
  have e1 := Exec.ev e0 (Step.invoke _ 0 .values rfl rfl)
  have e2 := Exec.tau e1 (Step.valuesCS _ 0 0 [] (by simp [upd, startPC]) (by decide))
  have e3 := Exec.ev e2 (Step.invoke _ 1 (.add 0 5) (by simp [upd, Sys.init]) rfl)
  have e4 := Exec.tau e3 (Step.setCS _ 1 0 5 false (by simp [upd, startPC]))
  have e5 := Exec.ev e4 (Step.ret _ 1 (.bool true) (by simp [upd]; rfl) rfl)
  have e6 := Exec.ev e5 (Step.invoke _ 1 (.set 1 6) (by simp [upd]) rfl)
  have e7 := Exec.tau e6 (Step.setCS _ 1 1 6 true (by simp [upd, startPC]))
  have e8 := Exec.ev e7 (Step.ret _ 1 .unit (by simp [upd]) rfl)
  have e9 := Exec.tau e8 (Step.valuesCS _ 0 1 [] (by simp [upd]; rfl) (by decide))
  have e10 := Exec.tau e9 (Step.valuesEnd _ 0 2 [6] (by simp [upd]; rfl) (by decide))
  have e11 := Exec.ev e10 (Step.ret _ 0 (.vals [6]) (by simp [upd]) rfl)
  obtain ⟨s, hex⟩ : ∃ s, Exec wcfg Sys.init tornTrace s :=
    ⟨_, by simpa [tornTrace, Torn.e0, Torn.e1, Torn.e2, Torn.e3, Torn.e4, Torn.e5] using e11⟩
  exact ⟨s, hex, torn_not_linearizable, C15_linearizable wcfg hex⟩

/-- **What `Values()` guarantees regardless of how it walks the shards** (a statement that does not mirror the
    loop): every value it returns — and every value it has collected so far — was stored in the map under some key;
    never a placeholder's zero value, never an invented one.  (The converse, "every key added before the call is
    in the result", holds per shard by `C15_linearizable`; across shards see the witnesses above.) -/
theorem C15_values_sound {s : Sys V} (hr : Reach c s) {t : Tid} {l : List V} (h : s.pc t = .done (.vals l)) :
    ∀ v ∈ l, ∃ k, v ∈ s.sh.stored k :=
  (reach_vinv c hr).2.2 t l h

/-! ## 2. Wake-ups -/

/-- **A channel is closed iff its key has been added** (has a value; values are never removed). -/
theorem C15_wake (hz : c.isErr default = false) {s : Sys V} (h : Reach c s) {ch : Chan} {k : Key}
    (hc : s.sh.chanKey ch = some k) : ch ∈ s.sh.closed ↔ ∃ v, s.sh.lookup c k = some (.val v) :=
  winv_closed_iff c (reach_inv c hz h).w hc

/-- the channel `GetOrWait(k)` hands out is `k`'s channel (fast path / slow path) -/
theorem C15_getorwait_channel_fast (hz : c.isErr default = false) {s : Sys V} (h : Reach c s) {k v ch}
    (hf : csGetFast c s.sh k = some (v, some ch)) : s.sh.chanKey ch = some k :=
  ((csGetFast_resOK c (reach_inv c hz h).w hf).1 ch rfl).1

theorem C15_getorwait_channel_slow (hz : c.isErr default = false) {s : Sys V} (h : Reach c s) {k ch}
    (hf : (csGetSlow c s.sh k).2.2.1 = some ch) : (csGetSlow c s.sh k).1.chanKey ch = some k :=
  ((csGetSlow_resOK c (reach_inv c hz h).w k).1 ch hf).1

/-- a key has at most one channel, ever -/
theorem C15_one_channel_per_key (hz : c.isErr default = false) {s : Sys V} (h : Reach c s) {ch ch' : Chan} {k : Key}
    (h1 : s.sh.chanKey ch = some k) (h2 : s.sh.chanKey ch' = some k) : ch = ch' :=
  (reach_inv c hz h).w.chanUnique ch ch' k h1 h2

/-- **No cross-key wake-up**: the only step that closes a channel is the critical section of an
    `Add`/`Set`/`AddOrGet` *on the channel's own key*, executed while that key still holds the placeholder. -/
theorem C15_no_cross_wake (hz : c.isErr default = false) {s s' : Sys V} {l} (hr : Reach c s) (h : Step c s l s')
    {ch : Chan} (h1 : ch ∉ s.sh.closed) (h2 : ch ∈ s'.sh.closed) :
    ∃ t k v, s.sh.chanKey ch = some k ∧ s.sh.lookup c k = some (.waiting ch) ∧
      ((∃ ow, s.pc t = .set k v ow) ∨ s.pc t = .lazy k v) := by
  have hw := (reach_inv c hz hr).w
  rcases step_shared c h with e | ⟨t, k, v, ow, hpc, e⟩ | ⟨t, k, v, hpc, e⟩ | ⟨t, k, full, hpc, e⟩
  · rw [e] at h2; exact absurd h2 h1
  · rw [e] at h2
    have hl := csSet_closes c h1 h2
    exact ⟨t, k, v, (hw.waitingKey k ch hl).1, hl, .inl ⟨ow, hpc⟩⟩
  · rw [e] at h2
    have hl := csLazySet_closes c h1 h2
    exact ⟨t, k, v, (hw.waitingKey k ch hl).1, hl, .inr hpc⟩
  · rw [e, csGetSlow_closed] at h2; exact absurd h2 h1

/-- closed channels stay closed, values stay values, keys stay present -/
theorem C15_stable (hz : c.isErr default = false) {s s' : Sys V} {l} (hr : Reach c s) (h : Step c s l s') :
    Ext c s.sh s'.sh := by
  have hw := (reach_inv c hz hr).w
  rcases step_shared c h with e | ⟨t, k, v, ow, _, e⟩ | ⟨t, k, v, _, e⟩ | ⟨t, k, full, _, e⟩ <;> rw [e]
  · exact ext_refl c _
  · exact ext_csSet c _ k v ow
  · exact ext_csLazySet c _ k v
  · exact ext_csGetSlow c _ hw k

/-- **A waiter is released once its key is added**: its wake-up step is enabled (and stays enabled, by
    `C15_stable`) as soon as the key has a value. -/
theorem C15_waiter_released (hz : c.isErr default = false) {s : Sys V} (hr : Reach c s) {t : Tid} {ch : Chan} {k : Key}
    (hcl : s.cl t = .await ch) (hc : s.sh.chanKey ch = some k) (hv : ∃ v, s.sh.lookup c k = some (.val v)) :
    ∃ s', Step c s none s' ∧ s'.cl t = .free :=
  ⟨_, Step.awaitWake s t ch hcl ((C15_wake c hz hr hc).mpr hv), by simp⟩

/-- **…and never before**: a thread blocked on a channel leaves the wait only if the channel's key has a value. -/
theorem C15_waiter_not_early (hz : c.isErr default = false) {s s' : Sys V} {l} (hr : Reach c s) (h : Step c s l s')
    {t : Tid} {ch : Chan} (hcl : s.cl t = .await ch) (hne : s'.cl t ≠ .await ch) :
    ∃ k v, s.sh.chanKey ch = some k ∧ s.sh.lookup c k = some (.val v) := by
  have hi := reach_inv c hz hr
  rcases step_await c h hcl with e | ⟨hm, _⟩
  · exact absurd e hne
  · obtain ⟨k, hk, v, hv⟩ := hi.w.closedVal ch hm
    exact ⟨k, v, hk, hv⟩

/-! ## 3. `ErrMap.GetOrSet` -/

/-- **`GetOrSet` runs `f` at most once per key**, whatever the number of concurrent callers. -/
theorem C15_getorset_f_at_most_once (hz : c.isErr default = false) {s : Sys V} (hr : Reach c s) (k : Key) :
    s.fRuns k ≤ 1 :=
  (reach_inv c hz hr).f.runsLe k

/-- at any time at most one thread holds the right to run `f` for a key, and none once `f` has run -/
theorem C15_getorset_first_unique (hz : c.isErr default = false) {s : Sys V} (hr : Reach c s) {t t' : Tid} {k : Key}
    (h1 : Holder s t k) (h2 : Holder s t' k) : t = t' ∧ s.fRuns k = 0 :=
  ⟨(reach_inv c hz hr).f.holderUnique t t' k h1 h2, (reach_inv c hz hr).f.holder0 t k h1⟩

/-- **Every `GetOrSet(k, ·)` returns a value that was stored under `k`** (its own `f()` if it was first, the
    stored value or error otherwise) — never the zero value of a placeholder. -/
theorem C15_getorset_returns_stored (hz : c.isErr default = false) {s : Sys V} (hr : Reach c s) {t : Tid} {k : Key} {v : V}
    (hcl : s.cl t = .gosRet k v) : v ∈ s.sh.stored k := by
  have h := (reach_inv c hz hr).t t; rw [hcl] at h; exact h.2

/-- a `GetOrSet` waiter is released once the key has a value … -/
theorem C15_getorset_waiter_released (hz : c.isErr default = false) {s : Sys V} (hr : Reach c s) {t : Tid} {k : Key}
    {ch : Chan} (hcl : s.cl t = .gosW k ch) (hv : ∃ v, s.sh.lookup c k = some (.val v)) :
    ∃ l s', Step c s l s' ∧ s'.cl t = .gos3 k := by
  have h := (reach_inv c hz hr).t t; rw [hcl] at h
  exact ⟨_, _, Step.gosWake s t k ch h.1 hcl ((C15_wake c hz hr h.2).mpr hv), by simp⟩

/-- … and its final `Get` then hits the stored value on the fast path (it never sees the key absent and never
    registers a second placeholder). -/
theorem C15_getorset_waiter_reads_value (hz : c.isErr default = false) {s : Sys V} (hr : Reach c s) {t : Tid} {k : Key}
    (hcl : s.cl t = .gos3 k) :
    (∃ v, s.pc t = .getFast k false ∧ csGetFast c s.sh k = some (v, none) ∧ v ∈ s.sh.stored k) ∨
    (∃ v, s.pc t = .done (.val v) ∧ v ∈ s.sh.stored k) := by
  have hi := reach_inv c hz hr
  have h := hi.t t; rw [hcl] at h
  rcases h with ⟨hp, v, hv⟩ | ⟨v, hp, hs⟩
  · exact .inl ⟨v, hp, csGetFast_val c hi.w hv⟩
  · exact .inr ⟨v, hp, hs⟩

-- non-vacuity: a state with a GetOrSet waiter is reachable (thread 0 is first and about to run f, thread 1 waits)
example : ∃ s : Sys Nat, Reach ⟨4, id, fun v => v ≥ 100⟩ s ∧ s.cl 0 = .gosF 5 7 ∧ s.cl 1 = .gosW 5 0 := by
  have e0 := Exec.nil (c := (⟨4, id, fun v => decide (v ≥ 100)⟩ : Cfg Nat)) Sys.init
  have e1 := Exec.ev e0 (Step.gosStart _ 0 5 7 rfl rfl)
  have e2 := Exec.tau e1 (Step.getFastMiss _ 0 5 true (by simp [upd]) (by decide))
  have e3 := Exec.tau e2 (Step.getSlowCS _ 0 5 true (by simp [upd]))
  have e4 := Exec.ev e3 (Step.gosRet1 _ 0 5 7 0 (some 0) true (by simp [upd]; decide) (by simp [upd]))
  have e5 := Exec.ev e4 (Step.gosStart _ 1 5 8 (by simp [upd, Sys.init]) (by simp [upd, Sys.init]))
  have e6 := Exec.tau e5 (Step.getFastHit _ 1 5 true 0 (some 0) (by simp [upd]) (by decide))
  have e7 := Exec.ev e6 (Step.gosRet1 _ 1 5 8 0 (some 0) false (by simp [upd, getRet]) (by simp [upd]))
  exact ⟨_, ⟨_, e7⟩, by simp [upd, gosBranch], by simp [upd, gosBranch]⟩

/-! ## 4. The sequential specification is a map -/

/-- the plain map a state denotes: completed entries only -/
def plain (σ : Shared V) (k : Key) : Option V :=
  match σ.lookup c k with
  | some (.val v) => some v
  | _ => none

/-- `Add` is add-if-absent on the plain map and reports whether it inserted -/
theorem C15_spec_add (σ : Shared V) (k k' : Key) (v : V) :
    (apply c σ (.add k v)).2 = .bool (plain c σ k).isNone ∧
    plain c (apply c σ (.add k v)).1 k' = if k' = k ∧ plain c σ k = none then some v else plain c σ k' := by
  cases h : σ.lookup c k with
  | none => by_cases e : k' = k <;> simp [apply, csSet, plain, h, e]
  | some en =>
    cases en with
    | val old => by_cases e : k' = k <;> simp [apply, csSet, plain, h, e]
    | waiting ch => by_cases e : k' = k <;> simp [apply, csSet, plain, h, e]

/-- `Set` is overwrite -/
theorem C15_spec_set (σ : Shared V) (k k' : Key) (v : V) :
    plain c (apply c σ (.set k v)).1 k' = if k' = k then some v else plain c σ k' := by
  cases h : σ.lookup c k with
  | none => by_cases e : k' = k <;> simp [apply, csSet, plain, h, e]
  | some en =>
    cases en with
    | val old => by_cases e : k' = k <;> simp [apply, csSet, plain, h, e]
    | waiting ch => by_cases e : k' = k <;> simp [apply, csSet, plain, h, e]

/-- `AddOrGet` inserts `f()` if absent and returns what the map then holds -/
theorem C15_spec_addOrGet (σ : Shared V) (k k' : Key) (v : V) :
    (apply c σ (.addOrGet k v)).2 = .valBool ((plain c σ k).getD v) (plain c σ k).isNone ∧
    plain c (apply c σ (.addOrGet k v)).1 k' = if k' = k ∧ plain c σ k = none then some v else plain c σ k' := by
  cases h : σ.lookup c k with
  | none => by_cases e : k' = k <;> simp [apply, csLazySet, plain, h, e]
  | some en =>
    cases en with
    | val old => by_cases e : k' = k <;> simp [apply, csLazySet, plain, h, e]
    | waiting ch => by_cases e : k' = k <;> simp [apply, csLazySet, plain, h, e]

/-- `Get` is lookup (zero value when absent) and leaves the plain map unchanged -/
theorem C15_spec_get (σ : Shared V) (k k' : Key) :
    (apply c σ (.get k)).2 = .val ((plain c σ k).getD default) ∧
    plain c (apply c σ (.get k)).1 k' = plain c σ k' := by
  cases h : σ.lookup c k with
  | none => by_cases e : k' = k <;> simp [apply, specGet, csGetFast, csGetSlow, plain, h, e, getRet]
  | some en => cases en <;> simp [apply, specGet, csGetFast, plain, h, getRet, entryRet]

/-- `GetOrWait` returns the value iff the key has been added, otherwise a channel; plain map unchanged -/
theorem C15_spec_getOrWait (σ : Shared V) (k k' : Key) :
    (match plain c σ k with
     | some v => (apply c σ (.getOrWait k)).2 = .gw v none false
     | none => ∃ ch first, (apply c σ (.getOrWait k)).2 = .gw default (some ch) first ∧
          (first = true ↔ σ.lookup c k = none)) ∧
    plain c (apply c σ (.getOrWait k)).1 k' = plain c σ k' := by
  cases h : σ.lookup c k with
  | none => by_cases e : k' = k <;> simp [apply, specGet, csGetFast, csGetSlow, plain, h, e, getRet]
  | some en => cases en <;> simp [apply, specGet, csGetFast, plain, h, getRet, entryRet]

/-- `Contains` is "present **or awaited**" (DESIGN §5 reading decision) … -/
theorem C15_spec_contains (σ : Shared V) (k : Key) :
    (apply c σ (.contains k)).2 = .bool (σ.lookup c k).isSome ∧ (apply c σ (.contains k)).1 = σ := by
  simp [apply, csContains]

/-- … so it is not `plain`-lookup: after a `Get` of an absent key (which registers a placeholder),
    `Contains` answers `true` although the key was never added. -/
theorem C15_witness_contains_awaited :
    ∃ (c : Cfg Nat) (σ : Shared Nat) (k : Key), plain c σ k = none ∧
      (apply c (apply c σ (.get k)).1 (.contains k)).2 = .bool true ∧ plain c (apply c σ (.get k)).1 k = none :=
  ⟨⟨4, id, fun _ => false⟩, Shared.init, 5, by decide, by decide, by decide⟩

end PlzVerif.Props.C15
