import PlzVerif.Lemmas.CASFS
import PlzVerif.Lemmas.Cmd
import PlzVerif.Generated.C29
/-!
C29  The CAS-backed filesystem view is faithful to its tree.

Full statement: for every REAPI tree the view lists, stats and reads exactly the tree's entries, satisfies
the io/fs contracts, and fails cleanly on symlink loops and absolute symlinks.

Proved here, on `Model/CASFS.lean` (the structure the model assumes of fs.go is pinned by `C29_facts_ok`):
lookups are sound, and complete on well-formed trees (`C29_findNode_sound`, `C29_findNode_complete`), `Stat`
reports the entry found, `Open` terminates with the same answer for every sufficient fuel whenever the symlink
chain ends (`C29_open_ok_no_loop`, `C29_open_fuel_independent`), absolute targets fail cleanly, `ReadDir(n ≤ 0)`
lists exactly the directory.

Repaired in /repo (fix: commits) and now proved in full: symlink loops fail cleanly (`C29_open_loop_fails_cleanly`,
`C29_open_never_diverges`; the old behaviour survives as the negative control `C29_unlimited_open_diverges_*`), and
`ReadDir` pages as io/fs demands (`C29_readDir_paging`; negative control `C29_stateless_readDir_violates_paging`).

Still false on the code, with witnesses (each a separately classified known finding):
  * `Open` accepts names `fs.ValidPath` rejects                            (`C29_witness_invalid_path`)
  * `Stat` does not follow symlinks although `Open` does                   (`C29_witness_stat_lstat`)
  * a path through a symlink to a directory is not resolved                (`C29_witness_path_through_link`)
-/
namespace PlzVerif.Props.C29
open PlzVerif.CASFS PlzVerif.Cmd

/-- Side condition on the regenerated facts: the shape of fs.go the model transcribes.  `findNode` searches
    directories, then cuts when a directory is required, then files, then symlinks, with the `.` and `..`
    cases; `open` calls itself once, after the absolute-target check, under a depth limit (`if depth > N` first, the
    recursive call passes `depth+1`); `ReadDir` lists the three lists in the same order and the `dir` handle keeps a
    read offset that `ReadDir` advances, returning `io.EOF` at the end. -/
def FactsOK : Bool :=
  Generated.C29.findOrder == ["Directories", "mustBeDir", "Files", "Symlinks"] &&
  Generated.C29.findDot && Generated.C29.findDotDot &&
  Generated.C29.openSelfCalls == 1 && Generated.C29.openAbsCheckFirst && Generated.C29.openDepthLimit.isSome &&
  Generated.C29.readDirOrder == ["Directories", "Files", "Symlinks"] && Generated.C29.readDirHasOffset

theorem C29_facts_ok : FactsOK = true := by decide

/-- Canonical skeletons (parameters/receiver by position, locals by declaration order, messages blanked; compared by
    SHA-256 prefix, the texts are comments in Generated/C29.lean and Expected/C29.lean) of every function the model
    transcribes: any change of structure, operator, constant, call or statement order flips this. -/
def expectedSkeletons : List (String × String) :=
  [ ("skelFindNode", "e26aca13c73b607bb1d2d0c8"),
    ("skelOpenRec", "5f36039e3c392274b3c952e0"),
    ("skelReadDir", "40205a89e06838bfeeb3aabf"),
    ("skelOpen", "39fa4d196c4588e2c909fc80"),
    ("skelFindNodeAPI", "42632bc903bbe154e91c7cc1"),
    ("skelStat", "923da5766ad015867b74b039"),
    ("skelNew", "a6a62b23139ed4d5ea8bf079"),
    ("skelChangeDir", "c3c3137e116be5f13c6f737f"),
    ("skelOpenDir", "09731dbfddb700a7736f4c65"),
    ("skelOpenFile", "405022957d85bfcdbc1c328b"),
    ("skelInfo_newFileInfo", "b28959cb2e00d9dc37b1efcb"),
    ("skelInfo_newDirInfo", "2f2b80d6701c108853270e82"),
    ("skelInfo_newSymlinkInfo", "4c8df7e373f27b0f059797f0"),
    ("skelInfo_info_withProperties", "b2fca916b075c4928c5bc5d1") ]

def generatedSkeletons : List (String × String) :=
  [ ("skelFindNode", Generated.C29.skelFindNode), ("skelOpenRec", Generated.C29.skelOpenRec), ("skelReadDir", Generated.C29.skelReadDir), ("skelOpen", Generated.C29.skelOpen), ("skelFindNodeAPI", Generated.C29.skelFindNodeAPI), ("skelStat", Generated.C29.skelStat), ("skelNew", Generated.C29.skelNew), ("skelChangeDir", Generated.C29.skelChangeDir), ("skelOpenDir", Generated.C29.skelOpenDir), ("skelOpenFile", Generated.C29.skelOpenFile), ("skelInfo_newFileInfo", Generated.C29.skelInfo_newFileInfo), ("skelInfo_newDirInfo", Generated.C29.skelInfo_newDirInfo), ("skelInfo_newSymlinkInfo", Generated.C29.skelInfo_newSymlinkInfo), ("skelInfo_info_withProperties", Generated.C29.skelInfo_info_withProperties) ]

def SkeletonsOK : Bool := generatedSkeletons == expectedSkeletons

theorem C29_skeletons_ok : SkeletonsOK = true := by decide


/-! ## Lookup -/

/-- Whatever `findNode` returns is in the tree at exactly that path (any tree, even a malformed one). -/
theorem C29_findNode_sound (d : Dir) (p : List Str) (x : Node) (hp : ∀ c ∈ p, plain c)
    (h : findNode d p = some x) : At d p x := findNode_sound p d x hp h

/-- In a well-formed tree every entry is found at its path. -/
theorem C29_findNode_complete (d : Dir) (p : List Str) (x : Node) (hwf : WF d) (hp : ∀ c ∈ p, plain c)
    (h : At d p x) : findNode d p = some x := findNode_complete p d x hwf hp h

/-- Faithfulness as one statement: on well-formed trees `findNode` decides `At`. -/
theorem C29_findNode_faithful (d : Dir) (p : List Str) (x : Node) (hwf : WF d) (hp : ∀ c ∈ p, plain c) :
    findNode d p = some x ↔ At d p x :=
  ⟨findNode_sound p d x hp, findNode_complete p d x hwf hp⟩

/-- `..` never escapes: a path that starts by leaving the root does not exist. -/
theorem C29_dotdot_not_found (d : Dir) (rest : List Str) : findNode d (['.', '.'] :: rest) = none := by
  simp [findNode]

/-- `Stat` reports the entry `findNode` finds (name, kind, size, permission bits). -/
theorem C29_stat_is_found_entry (root : Dir) (wd name : Str) (x : Node)
    (h : findNode root (comps (pathJoin [pathClean wd, name])) = some x) : stat root wd name = some x.info := by
  simp [stat, h]

/-- **API-level faithfulness.**  For a name whose components are all plain (what `fs.ValidPath` accepts,
    other than "."), with the default working directory and a well-formed tree: `Stat(name)` succeeds exactly
    when the tree has an entry at those components, and it reports that entry.  (The name passes through
    `filepath.Join`/`Clean` unchanged — `comps_join_valid`.) -/
theorem C29_stat_faithful (root : Dir) (name : Str) (hwf : WF root)
    (hv : ∀ c ∈ splitOnChar '/' name, plain c) (i : Info) :
    stat root [] name = some i ↔ ∃ x, At root (splitOnChar '/' name) x ∧ x.info = i := by
  unfold stat
  rw [comps_join_valid name hv]
  constructor
  · intro h
    cases hf : findNode root (splitOnChar '/' name) with
    | none => simp [hf] at h
    | some x =>
      simp only [hf, Option.map_some, Option.some.injEq] at h
      exact ⟨x, findNode_sound _ root x hv hf, h⟩
  · rintro ⟨x, hat, rfl⟩
    rw [findNode_complete _ root x hwf hv hat]
    rfl

/-- The same with a working directory (`New(c, tree, wd)`; the production caller works below the output
    directory): for `wd` and `name` with plain components the lookup is at `wd/name`. -/
theorem C29_stat_faithful_wd (root : Dir) (wd name : Str) (hwf : WF root)
    (hw : ∀ c ∈ splitOnChar '/' wd, plain c) (hv : ∀ c ∈ splitOnChar '/' name, plain c) (i : Info) :
    stat root wd name = some i ↔ ∃ x, At root (splitOnChar '/' wd ++ splitOnChar '/' name) x ∧ x.info = i := by
  unfold stat
  rw [comps_join_wd wd name hw hv]
  have hall : ∀ c ∈ splitOnChar '/' wd ++ splitOnChar '/' name, plain c := by
    intro c hc
    rcases List.mem_append.mp hc with h | h
    · exact hw c h
    · exact hv c h
  constructor
  · intro h
    cases hf : findNode root (splitOnChar '/' wd ++ splitOnChar '/' name) with
    | none => simp [hf] at h
    | some x =>
      simp only [hf, Option.map_some, Option.some.injEq] at h
      exact ⟨x, findNode_sound _ root x hall hf, h⟩
  · rintro ⟨x, hat, rfl⟩
    rw [findNode_complete _ root x hwf hall hat]
    rfl

example : ∀ c ∈ splitOnChar '/' ['s'], plain c := by decide

/-- **A view is a prefix, nothing more**: opening `name` through a view with working directory `wd` is opening
    `wd/name` through the root view.  In particular the symlink resolution inside (`openAt`) is relative to the
    tree's *root*, never to the view's working directory — the working directory is joined in exactly once
    (re-entering through `Open` from inside `open` would join it a second time). -/
theorem C29_view_is_root_join (root : Dir) (fuel : Nat) (wd name : Str)
    (hw : ∀ c ∈ splitOnChar '/' wd, plain c) (hn : ∀ c ∈ splitOnChar '/' name, plain c) :
    openFS root fuel wd name = openFS root fuel [] (wd ++ '/' :: name) := by
  unfold openFS
  have hall : ∀ c ∈ splitOnChar '/' (wd ++ '/' :: name), plain c := by
    rw [splitOnChar_append_sep]
    intro c hc
    rcases List.mem_append.mp hc with h | h
    · exact hw c h
    · exact hn c h
  rw [join_wd_plain wd name hw hn, join_root_plain _ hall]

-- the tree of the seeded regression: foo at the root and under sub, sub/l -> ../foo must read the ROOT's foo
example :
    let t : Dir := .mk [(['s'], .mk [] [⟨['f'], 2, 6, 0⟩] [⟨['l'], ['.', '.', '/', 'f'], 0⟩] 0)] [⟨['f'], 1, 6, 0⟩] [] 0
    openFS t 3 ['s'] ['l'] = .file ⟨['f'], 1, 6, 0⟩ ∧ openFS t 3 [] ['s', '/', 'l'] = .file ⟨['f'], 1, 6, 0⟩ :=
  ⟨by rfl, by rfl⟩

/-- … and `Open(name)` on such a name starts its symlink resolution at exactly that entry. -/
theorem C29_open_valid (root : Dir) (name : Str) (fuel : Nat) (hv : ∀ c ∈ splitOnChar '/' name, plain c) :
    openFS root fuel [] name = openAt root fuel name := by
  have hne : name ≠ [] := by
    intro e; subst e
    have := hv [] (by simp [splitOnChar]); exact this.1 rfl
  unfold openFS
  have hc := comps_join_valid name hv
  -- the joined path is the name itself
  have : pathJoin [pathClean [], name] = name := by
    have h1 := congrArg (joinWith ['/']) hc
    simp only [comps, joinWith_splitOnChar] at h1
    exact h1
  rw [this]

-- non-vacuity: a small well-formed tree and a lookup two levels down
def sampleTree : Dir :=
  .mk [(['s'], .mk [] [⟨['f'], 1, 6, 420⟩] [⟨['l'], ['.', '.', '/', 'g'], 0⟩] 0)] [⟨['g'], 2, 7, 0⟩] [] 0

example : findNode sampleTree [['s'], ['f']] = some (.file ⟨['f'], 1, 6, 420⟩) := by rfl
example : At sampleTree [['s'], ['f']] (.file ⟨['f'], 1, 6, 420⟩) :=
  At.step (sub := .mk [] [⟨['f'], 1, 6, 420⟩] [⟨['l'], ['.', '.', '/', 'g'], 0⟩] 0) (by simp [sampleTree, Dir.dirs])
    (by simp) (At.file (f := ⟨['f'], 1, 6, 420⟩) (by simp [Dir.files]))

-- non-vacuity of C29_stat_faithful: the sample tree is well-formed and "s/f" has plain components
example : WF sampleTree :=
  WF.mk (by decide) (by
    intro e he
    simp only [sampleTree, Dir.dirs, List.mem_singleton] at he
    subst he
    exact WF.mk (by decide) (by intro e he; simp [Dir.dirs] at he))
example : ∀ c ∈ splitOnChar '/' ['s', '/', 'f'], plain c := by decide

-- `New` cleans the working directory, `ChangeDir` keeps it raw: the empty name at the empty working directory
example : (stat sampleTree [] []).map (·.kind) = some 1 ∧ (statCD sampleTree [] []).map (·.kind) = none := by decide

/-! ## Open -/

/-- Once `open` has an answer, more fuel gives the same answer (the fuel is not observable). -/
theorem C29_open_fuel_independent (root : Dir) (n m : Nat) (p : Str) (r : OpenRes) (h : openAt root n p = r)
    (hr : r ≠ .outOfFuel) (hm : n ≤ m) : openAt root m p = r := by
  induction hm with
  | refl => exact h
  | step _ ih => exact openAt_mono root _ p r ih hr

/-- No loop ⇒ clean termination: if the symlink chain from `p` reaches, after `k` hops, something that is not
    a relative symlink, `open` returns (a file, a directory, "not found" or "absolute target") with any fuel
    above `k`. -/
theorem C29_open_ok_no_loop (root : Dir) (k : Nat) (p : Str) (h : Resolves root k p) (n : Nat) (hn : k < n) :
    openAt root n p ≠ .outOfFuel := openAt_resolves h n hn

/-- **Open reads through symlinks**: if `k` hops lead from `p` to a path `q` that is not a relative
    symlink, `open` returns — for every fuel above `k` — exactly the entry the tree has at `q` (its file, its
    directory, "not found", or "absolute target").  (`Hop` is stated on `findNode`; `C29_hop_iff_tree` restates it on the tree.) -/
theorem C29_open_follows_chain (root : Dir) (k : Nat) (p q : Str) (h : HopsTo root k p q) (ht : Terminal root q)
    (n : Nat) (hn : k < n) : openAt root n p = direct root q := by
  obtain ⟨m, rfl⟩ : ∃ m, n = (m + 1) + k := ⟨n - k - 1, by omega⟩
  rw [openAt_hopsTo h, openAt_terminal_eq ht]

/-- The depth limit read from the code. -/
theorem C29_depth_limit_extracted : ∃ l, Generated.C29.openDepthLimit = some l := by
  have h := C29_facts_ok
  simp only [FactsOK, Bool.and_eq_true] at h
  exact Option.isSome_iff_exists.mp h.1.1.2

/-- **Open always returns** (repaired: fs.go `maxSymlinkDepth`): with the extracted limit no fuel is involved
    any more — the model's "out of fuel" (Go's unbounded recursion) cannot be the result. -/
theorem C29_open_never_diverges (l : Nat) (hl : Generated.C29.openDepthLimit = some l) (root : Dir) (fuel : Nat) (p : Str) :
    openWith Generated.C29.openDepthLimit root fuel p ≠ .outOfFuel := by
  rw [hl]; exact openWith_ne_outOfFuel l root fuel p

/-- **Symlink loops fail cleanly**: on every cycle, of any length, `Open` returns the "too many levels of symbolic
    links" error. -/
theorem C29_open_loop_fails_cleanly (l : Nat) (hl : Generated.C29.openDepthLimit = some l) (root : Dir) (k fuel : Nat)
    (p : Str) (h : HopsTo root (k + 1) p p) : openWith Generated.C29.openDepthLimit root fuel p = .tooManyLinks := by
  rw [hl]; exact openWith_cycle l fuel h

/-- A chain of at most `l` links is followed to its end and the entry there is returned … -/
theorem C29_open_follows_chain_limited (l : Nat) (hl : Generated.C29.openDepthLimit = some l) (root : Dir) (k fuel : Nat)
    (p q : Str) (h : HopsTo root k p q) (ht : Terminal root q) (hk : k ≤ l) :
    openWith Generated.C29.openDepthLimit root fuel p = direct root q := by
  rw [hl]; exact openWith_chain l fuel h ht hk

/-- … and (**partial**: the price of the limit, as with the kernel's ELOOP) a loop-free chain of more than `l` links
    is refused with the same clean error. -/
theorem C29_open_deep_chain_refused_partial (l : Nat) (hl : Generated.C29.openDepthLimit = some l) (root : Dir)
    (k fuel : Nat) (p q : Str) (h : HopsTo root k p q) (hk : l < k) :
    openWith Generated.C29.openDepthLimit root fuel p = .tooManyLinks := by
  rw [hl]; exact openWith_deep l fuel h hk

example : openWith (some 3) (.mk [] [] [⟨['a'], ['b'], 0⟩, ⟨['b'], ['a'], 0⟩] 0) 0 ['a'] = .tooManyLinks := by rfl
example : openWith (some 3) sampleTree 0 ['s', '/', 'l'] = .file ⟨['g'], 2, 7, 0⟩ := by rfl

/-- A symlink hop, in terms of the tree: for plain components in a well-formed tree, `p` hops to `q` exactly
    when the tree has a relative symlink at `p` whose target, joined to `p`'s directory, is `q`. -/
theorem C29_hop_iff_tree (root : Dir) (p q : Str) (hwf : WF root) (hp : ∀ c ∈ comps p, plain c) :
    Hop root p q ↔ ∃ l, At root (comps p) (.link l) ∧ hasPrefix l.target ['/'] = false ∧ q = pathJoin [pathDir p, l.target] := by
  unfold Hop
  constructor
  · rintro ⟨l, hf, ha, rfl⟩; exact ⟨l, findNode_sound _ root _ hp hf, ha, rfl⟩
  · rintro ⟨l, hat, ha, rfl⟩; exact ⟨l, findNode_complete _ root _ hwf hp hat, ha, rfl⟩

/-- Whatever file `Open` returns is a file `findNode` finds at some path (so, by soundness, a file of the
    tree whenever that path has plain components): the view never invents content. -/
theorem C29_open_returns_tree_file (root : Dir) (fuel : Nat) (wd name : Str) (f : FileN)
    (h : openFS root fuel wd name = .file f) : ∃ q, findNode root (comps q) = some (.file f) :=
  openAt_file_found fuel _ f h

/-- An absolute symlink target fails cleanly. -/
theorem C29_abs_link_clean (root : Dir) (p : Str) (l : LinkN) (n : Nat)
    (hf : findNode root (comps p) = some (.link l)) (ha : hasPrefix l.target ['/'] = true) :
    openAt root (n + 1) p = .absLink := by
  rw [openAt]; simp [hf, ha]

example : openAt (.mk [] [] [⟨['a'], ['/', 'x'], 0⟩] 0) 1 ['a'] = .absLink := by rfl

/-- The tree `{a -> b, b -> a}`. -/
def loop2 : Dir := .mk [] [] [⟨['a'], ['b'], 0⟩, ⟨['b'], ['a'], 0⟩] 0

/-- The tree `{a -> a}`. -/
def loop1 : Dir := .mk [] [] [⟨['a'], ['a'], 0⟩] 0

/-- Negative control (the finding `symlink-loop-stack-overflow`, repaired by the depth limit): *without* a limit —
    `openFS`/`openAt` are the unlimited recursion — a two-link symlink loop exhausts every fuel: the recursion never
    ends (in Go: fatal stack overflow). -/
theorem C29_unlimited_open_diverges_on_loop : ∀ fuel, openFS loop2 fuel [] ['a'] = .outOfFuel := by
  intro fuel
  have h1 : Hop loop2 ['a'] ['b'] := ⟨⟨['a'], ['b'], 0⟩, by rfl, by decide, by decide⟩
  have h2 : Hop loop2 ['b'] ['a'] := ⟨⟨['b'], ['a'], 0⟩, by rfl, by decide, by decide⟩
  have e : pathJoin [pathClean [], ['a']] = ['a'] := by decide
  unfold openFS
  rw [e]
  exact (openAt_cycle2 h1 h2 fuel).1

theorem C29_unlimited_open_diverges_on_self_loop : ∀ fuel, openFS loop1 fuel [] ['a'] = .outOfFuel := by
  intro fuel
  have h1 : Hop loop1 ['a'] ['a'] := ⟨⟨['a'], ['a'], 0⟩, by rfl, by decide, by decide⟩
  have e : pathJoin [pathClean [], ['a']] = ['a'] := by decide
  unfold openFS
  rw [e]
  exact openAt_cycle1 h1 fuel

/-- Negative control, general form: without a limit every symlink cycle exhausts every fuel. -/
theorem C29_unlimited_open_diverges_on_any_cycle (root : Dir) (k : Nat) (p : Str) (h : HopsTo root (k + 1) p p) :
    ∀ fuel, openAt root fuel p = .outOfFuel := openAt_cycle h

-- non-vacuity: a three-link cycle a -> b -> c -> a
example : HopsTo (.mk [] [] [⟨['a'], ['b'], 0⟩, ⟨['b'], ['c'], 0⟩, ⟨['c'], ['a'], 0⟩] 0) 3 ['a'] ['a'] :=
  HopsTo.succ (q := ['b']) ⟨⟨['a'], ['b'], 0⟩, by rfl, by decide, by decide⟩
    (HopsTo.succ (q := ['c']) ⟨⟨['b'], ['c'], 0⟩, by rfl, by decide, by decide⟩
      (HopsTo.succ (q := ['a']) ⟨⟨['c'], ['a'], 0⟩, by rfl, by decide, by decide⟩ (HopsTo.zero _)))

-- non-vacuity of C29_open_ok_no_loop: s/l -> ../g resolves in one hop
example : Resolves sampleTree 1 ['s', '/', 'l'] :=
  Resolves.hop (q := ['g']) ⟨⟨['l'], ['.', '.', '/', 'g'], 0⟩, by rfl, by decide, by decide⟩
    (Resolves.done (by
      intro l h
      have e : findNode sampleTree (comps ['g']) = some (.file ⟨['g'], 2, 7, 0⟩) := by rfl
      rw [e] at h; cases h))

example : openAt sampleTree 2 ['s', '/', 'l'] = .file ⟨['g'], 2, 7, 0⟩ := by rfl

/-! ## ReadDir -/

/-- **The listing is the tree**: `ReadDir(n ≤ 0)` returns an entry exactly when the tree has, directly in that
    directory, an entry of that name with that kind, size and permission bits. -/
theorem C29_readDir_lists_tree (d : Dir) (n : Int) (hn : n ≤ 0) (i : Info) :
    i ∈ readDir d n ↔ ∃ x, At d [i.name] x ∧ x.info = i := by
  simp only [readDir, hn, ↓reduceIte]
  exact mem_entries_iff d i

/-- … with one entry per node: as many entries as the directory has sub-directories, files and symlinks. -/
theorem C29_readDir_length (d : Dir) (n : Int) (hn : n ≤ 0) :
    (readDir d n).length = d.dirs.length + d.files.length + d.links.length := by
  simp [readDir, hn, entries]; omega

/-- `ReadDir(n ≤ 0)` in order: sub-directories, then files, then symlinks (the order of the code's three loops). -/
theorem C29_readDir_all (d : Dir) (n : Int) (h : n ≤ 0) :
    readDir d n = d.dirs.map (fun e => dirInfo e.1 e.2) ++ d.files.map fileInfo ++ d.links.map linkInfo := by
  simp [readDir, h, entries]

/-- **Paging** (repaired: the handle keeps a read offset): the `k`-th of successive calls `ReadDir(n)`, `n > 0`,
    returns exactly what `io/fs.ReadDirFile` demands — the next chunk of at most `n` entries, and `io.EOF` exactly
    when nothing is left. -/
theorem C29_readDir_paging (d : Dir) (n : Nat) (hn : 0 < n) (k : Nat) :
    readDirCall Generated.C29.readDirHasOffset d (n : Int) k = readDirSpec (entries d) n k := by
  have h := C29_facts_ok
  simp only [FactsOK, Bool.and_eq_true] at h
  simp only [readDirCall, h.2, ↓reduceIte]
  exact readDirStep_spec (entries d) n hn k

/-- `ReadDir(n ≤ 0)` on the same handle: the first call returns the whole listing, every later call nothing, and
    never an error (what `fstest.TestFS` checks as "ReadDir(-1) at EOF"). -/
theorem C29_readDir_all_then_empty (d : Dir) (n : Int) (hn : n ≤ 0) :
    readDirCall Generated.C29.readDirHasOffset d n 0 = (entries d, false) ∧
    ∀ k, readDirCall Generated.C29.readDirHasOffset d n (k + 1) = ([], false) := by
  have h := C29_facts_ok
  simp only [FactsOK, Bool.and_eq_true] at h
  simp only [readDirCall, h.2, ↓reduceIte]
  exact readDirStep_all (entries d) n hn

example : readDirCall true (.mk [] [⟨['x'], 1, 6, 0⟩, ⟨['y'], 2, 7, 0⟩, ⟨['z'], 3, 8, 0⟩] [] 0) 2 1 =
    ([fileInfo ⟨['z'], 3, 8, 0⟩], false) := by decide
example : readDirCall true (.mk [] [⟨['x'], 1, 6, 0⟩, ⟨['y'], 2, 7, 0⟩, ⟨['z'], 3, 8, 0⟩] [] 0) 2 2 = ([], true) := by decide

/-- Negative control (the finding `readdir-has-no-offset`, repaired): a handle *without* an offset returns the first
    two entries of a three-entry directory on every call and never `io.EOF`. -/
theorem C29_stateless_readDir_violates_paging :
    let d : Dir := .mk [] [⟨['x'], 1, 6, 0⟩, ⟨['y'], 2, 7, 0⟩, ⟨['z'], 3, 8, 0⟩] [] 0
    readDirCall false d 2 1 ≠ readDirSpec (entries d) 2 1 ∧ readDirCall false d 2 2 ≠ readDirSpec (entries d) 2 2 := by
  decide

/-! ## io/fs path and Stat contracts -/

/-- `fs.ValidPath`: unrooted, slash-separated, no empty / `.` / `..` elements, except the single name `.`. -/
def validPath (name : Str) : Bool :=
  name = ['.'] || (splitOnChar '/' name).all (fun c => c ≠ [] && c ≠ ['.'] && c ≠ ['.', '.'])

/-- Witness: `Open("/g")` — invalid for io/fs — succeeds, because the name goes through `filepath.Join`. -/
theorem C29_witness_invalid_path :
    validPath ['/', 'g'] = false ∧ openFS sampleTree 2 [] ['/', 'g'] = .file ⟨['g'], 2, 7, 0⟩ := ⟨by decide, by rfl⟩

/-- Witness: `Stat` describes the symlink itself while `Open` follows it. -/
theorem C29_witness_stat_lstat :
    (stat sampleTree [] ['s', '/', 'l']).map (·.kind) = some 2 ∧
    openFS sampleTree 3 [] ['s', '/', 'l'] = .file ⟨['g'], 2, 7, 0⟩ := ⟨by decide, by rfl⟩

/-- Witness: a path *through* a symlink to a directory is not resolved: `l` opens as the directory `s`
    (which contains `f`), yet `l/f` does not exist for the view. -/
theorem C29_witness_path_through_link :
    let t : Dir := .mk [(['s'], .mk [] [⟨['f'], 1, 6, 0⟩] [] 0)] [] [⟨['l'], ['s'], 0⟩] 0
    (∃ d, openFS t 2 [] ['l'] = .dir ['s'] d ∧ d.files.map (·.name) = [['f']]) ∧
    findNode t (comps ['l', '/', 'f']) = none ∧ findNode t (comps ['s', '/', 'f']) = some (.file ⟨['f'], 1, 6, 0⟩) :=
  ⟨⟨_, by rfl, by rfl⟩, by rfl, by rfl⟩

end PlzVerif.Props.C29
