import PlzVerif.Lemmas.BuildCache
import PlzVerif.Model.BuildFacts
import PlzVerif.Model.Collapse
import PlzVerif.Generated.C02
/-!
C02  Cache restores are indistinguishable from building.

`C02_main_if_injective`: for every history of cached builds, removals from plz-out (`rm -rf plz-out` included) and cache
evictions, the final build gives each requested target its clean-build output — conditional, like C01, on the
injectivity of the rule/path pre-images, and with the cache key (`CollapseHash` of the stamp digests) idealised as
injective on the stamp.  The `collapse_*` theorems are about the regenerated transcription of `CollapseHash`:
every stamp component reaches the key, and the XOR fold is not injective in general (recorded caveat).
-/
namespace PlzVerif.Props.C02
open PlzVerif.Build PlzVerif.Collapse PlzVerif.Generated
set_option linter.unusedSectionVars false

variable {K A F N C S H : Type} [DecidableEq K] [DecidableEq S] [DecidableEq N] [DecidableEq H]
variable (exec : A → List (N × C) → C) (ruleSer : A → S) (pathSer : C → H)

theorem C02_facts_ok : (FactsOK && (C02.collapseEqualBranch == [0, 2, 3]) && (C02.collapseElseBranch == [0, 1, 2, 3]) &&
    (C02.collapseCond == "bytes.Equal(key[0:sha1.Size],key[sha1.Size:2*sha1.Size])")) = true := by decide

theorem facts_cmp : generatedFacts.cmpRule = true ∧ generatedFacts.cmpSource = true := by decide

/-- A cache hit under the invariant restores exactly what building would produce. -/
theorem C02_no_wrong_restore (hR : Function.Injective ruleSer) (hP : Function.Injective pathSer)
    (cache : Cache K C S N H) (hc : InvC exec ruleSer pathSer cache)
    (k : K) (a : A) (ins : List (N × C)) (c : C)
    (hit : cache (k, stampOf ruleSer pathSer a ins) = some c) : c = exec a ins := by
  obtain ⟨a', ins', hs, hce⟩ := hc _ _ _ hit
  simp only [stampOf, Stamp.mk.injEq] at hs
  have ha : a' = a := (hR hs.1).symm
  have hi : ins' = ins := (map_inj (pairSer_inj pathSer hP) hs.2).symm
  rw [hce, ha, hi]

/-- The property over all histories with a cache. -/
theorem C02_main_if_injective (hR : Function.Injective ruleSer) (hP : Function.Injective pathSer)
    (history : List (HOpC K A F N C S H)) (r : Repo K A F N C) (sel : K → Bool) (hwf : WFList sel [] r.targets) :
    let s := runHistC generatedFacts (mvCoded generatedFacts pathSer) rsCoded exec ruleSer pathSer history (fun _ => none, fun _ => none)
    ∀ k ∈ selKeys sel r.targets, ∃ c st,
      (buildC generatedFacts (mvCoded generatedFacts pathSer) rsCoded exec ruleSer pathSer r sel s.1 s.2).1 k = some (c, st) ∧
      (clean exec r sel).lookup k = some c := by
  intro s
  obtain ⟨hi, hci⟩ := runHistC_inv generatedFacts (mvCoded generatedFacts pathSer) rsCoded exec ruleSer pathSer (mvCoded_ok _ _) (fun _ _ => rfl) hP history (fun _ => none, fun _ => none)
    (inv_empty exec ruleSer pathSer) (invC_empty exec ruleSer pathSer)
  have h := buildListC_spec generatedFacts (mvCoded generatedFacts pathSer) rsCoded exec ruleSer pathSer (mvCoded_ok _ _) (fun _ _ => rfl) facts_cmp hR hP r sel r.targets [] s.1 s.2 [] rfl hi hci
    (by intro k hk; simp at hk) hwf
  intro k hk
  exact h.2.2.2 k (by simpa using hk)

/-! ### CollapseHash -/

def collapseG := collapse C02.collapseEqualBranch C02.collapseElseBranch

theorem xor_right_ne {a b c : Nat} (h : b ≠ c) : a ^^^ b ≠ a ^^^ c := by
  intro e
  apply h
  have := congrArg (fun x => a ^^^ x) e
  simpa [← Nat.xor_assoc] using this

theorem xor_left_ne {a b c : Nat} (h : b ≠ c) : b ^^^ a ≠ c ^^^ a := by
  rw [Nat.xor_comm b a, Nat.xor_comm c a]; exact xor_right_ne h

theorem rulesEqual_congr (key key' : Nat → Nat) (h : ∀ j, j < 2 * blockSize → key' j = key j) :
    rulesEqual key' = rulesEqual key := by
  simp only [rulesEqual]
  apply Bool.eq_iff_iff.mpr
  simp only [List.all_eq_true, List.mem_range]
  constructor
  · intro hh j hj
    have := hh j hj
    rwa [h j (by omega), h (j + blockSize) (by omega)] at this
  · intro hh j hj
    have := hh j hj
    rwa [← h j (by omega), ← h (j + blockSize) (by omega)] at this

/-- Every byte of the config block (2) and of the source block (3) reaches the collapsed key:
    changing one such byte changes the corresponding output byte. -/
theorem C02_collapse_sensitive (key key' : Nat → Nat) (i : Nat) (hi : i < blockSize) (b : Nat) (hb : b = 2 ∨ b = 3)
    (hsame : ∀ j, j ≠ i + b * blockSize → key' j = key j) (hdiff : key' (i + b * blockSize) ≠ key (i + b * blockSize)) :
    collapseG key' i ≠ collapseG key i := by
  have hre : rulesEqual key' = rulesEqual key := by
    apply rulesEqual_congr
    intro j hj
    apply hsame
    rcases hb with rfl | rfl <;> omega
  unfold collapseG collapse
  rw [hre]
  have bs : blockSize = 20 := rfl
  rcases hb with rfl | rfl
  · have h0 : key' i = key i := hsame _ (by omega)
    have h1 : key' (i + 1 * blockSize) = key (i + 1 * blockSize) := hsame _ (by omega)
    have h3 : key' (i + 3 * blockSize) = key (i + 3 * blockSize) := hsame _ (by omega)
    split
    · simp only [xorBlocks, C02.collapseEqualBranch, List.foldl, Nat.zero_mul, Nat.add_zero, h0, h3]
      exact xor_left_ne (xor_right_ne hdiff)
    · simp only [xorBlocks, C02.collapseElseBranch, List.foldl, Nat.zero_mul, Nat.add_zero, h0, h1, h3]
      exact xor_left_ne (xor_right_ne hdiff)
  · have h0 : key' i = key i := hsame _ (by omega)
    have h1 : key' (i + 1 * blockSize) = key (i + 1 * blockSize) := hsame _ (by omega)
    have h2 : key' (i + 2 * blockSize) = key (i + 2 * blockSize) := hsame _ (by omega)
    split
    · simp only [xorBlocks, C02.collapseEqualBranch, List.foldl, Nat.zero_mul, Nat.add_zero, h0, h2]
      exact xor_right_ne hdiff
    · simp only [xorBlocks, C02.collapseElseBranch, List.foldl, Nat.zero_mul, Nat.add_zero, h0, h1, h2]
      exact xor_right_ne hdiff

/-- Caveat recorded in the trusted base: the XOR fold is NOT injective — swapping the config and source digests
    gives the same cache key (so "key idealised as injective" is an assumption about digests, not a theorem). -/
theorem C02_collapse_not_injective :
    ∃ k k' : List Nat, k.length = 80 ∧ k'.length = 80 ∧ k ≠ k' ∧
      collapseList C02.collapseEqualBranch C02.collapseElseBranch k =
      collapseList C02.collapseEqualBranch C02.collapseElseBranch k' :=
  ⟨List.replicate 40 0 ++ List.replicate 20 1 ++ List.replicate 20 2,
   List.replicate 40 0 ++ List.replicate 20 2 ++ List.replicate 20 1, by decide, by decide, by decide, by decide⟩

-- non-vacuity of C02_collapse_sensitive's hypotheses
example : ∃ key key' : Nat → Nat, (∀ j, j ≠ 3 + 2 * blockSize → key' j = key j) ∧ key' (3 + 2 * blockSize) ≠ key (3 + 2 * blockSize) :=
  ⟨fun _ => 0, fun j => if j = 43 then 1 else 0, by intro j hj; simp [blockSize] at hj; simp [hj], by simp [blockSize]⟩

end PlzVerif.Props.C02
