import PlzVerif.Lemmas.BuildCache
import PlzVerif.Lemmas.BuildCacheKey
import PlzVerif.Model.BuildE2E
import PlzVerif.Model.BuildFacts
import PlzVerif.Model.Collapse
import PlzVerif.Generated.C02
/-!
C02  Cache restores are indistinguishable from building.

`C02_main_if_injective`: for every history of cached builds, removals from plz-out (`rm -rf plz-out` included) and cache
evictions, the final build gives each requested target its clean-build output — conditional, like C01, on the
injectivity of the rule/path pre-images, and with the cache key (`CollapseHash` of the stamp digests) idealised as
injective on the stamp.  `C02_main_keyed` makes that idealisation an explicit hypothesis (`Function.Injective keyOf`
for an arbitrary key function), `C02_witness_key_collision` shows it is needed and `C02_keyXor_not_injective` that the
XOR fold alone does not provide it.  The `collapse_*` theorems are about the regenerated transcription of `CollapseHash`:
every stamp component reaches the key, and the XOR fold is not injective in general (recorded caveat).
-/
namespace PlzVerif.Props.C02
open PlzVerif.Build PlzVerif.Collapse PlzVerif.Generated
set_option linter.unusedSectionVars false

variable {K A F N C S H : Type} [DecidableEq K] [DecidableEq S] [DecidableEq N] [DecidableEq H]
variable (exec : A → List (N × C) → C) (ruleSer : A → S) (pathSer : C → H)

theorem C02_facts_ok : (FactsOK && (C02.collapseEqualBranch == [0, 2, 3]) && (C02.collapseElseBranch == [0, 1, 2, 3]) &&
    (C02.collapseCond == "bytes.Equal(key[0:sha1.Size],key[sha1.Size:2*sha1.Size])")) = true := by decide

theorem facts_cmp : generatedFacts.cmpRule = true ∧ generatedFacts.cmpSource = true := by decide

/-- A cache hit under the invariant restores exactly what building would produce. -/
theorem C02_no_wrong_restore (hR : Function.Injective ruleSer) (hP : Function.Injective pathSer)
    (cache : Cache K C S N H) (hc : InvC exec ruleSer pathSer cache)
    (k : K) (a : A) (ins : List (N × C)) (c : C)
    (hit : cache (k, stampOf ruleSer pathSer a ins) = some c) : c = exec a ins := by
  obtain ⟨a', ins', hs, hce⟩ := hc _ _ _ hit
  simp only [stampOf, Stamp.mk.injEq] at hs
  have ha : a' = a := (hR hs.1).symm
  have hi : ins' = ins := (map_inj (pairSer_inj pathSer hP) hs.2).symm
  rw [hce, ha, hi]

/-- The property over all histories with a cache. -/
theorem C02_main_if_injective (hR : Function.Injective ruleSer) (hP : Function.Injective pathSer)
    (history : List (HOpC K A F N C S H)) (r : Repo K A F N C) (sel : K → Bool) (hwf : WFList sel [] r.targets) :
    let s := runHistC generatedFacts (mvCoded generatedFacts pathSer) rsCoded exec ruleSer pathSer history (fun _ => none, fun _ => none)
    ∀ k ∈ selKeys sel r.targets, ∃ c st,
      (buildC generatedFacts (mvCoded generatedFacts pathSer) rsCoded exec ruleSer pathSer r sel s.1 s.2).1 k = some (c, st) ∧
      (clean exec r sel).lookup k = some c := by
  intro s
  obtain ⟨hi, hci⟩ := runHistC_inv generatedFacts (mvCoded generatedFacts pathSer) rsCoded exec ruleSer pathSer (mvCoded_ok _ _) (fun _ _ => rfl) hP history (fun _ => none, fun _ => none)
    (inv_empty exec ruleSer pathSer) (invC_empty exec ruleSer pathSer)
  have h := buildListC_spec generatedFacts (mvCoded generatedFacts pathSer) rsCoded exec ruleSer pathSer (mvCoded_ok _ _) (fun _ _ => rfl) facts_cmp hR hP r sel r.targets [] s.1 s.2 [] rfl hi hci
    (by intro k hk; simp at hk) hwf
  intro k hk
  exact h.2.2.2 k (by simpa using hk)

-- non-vacuity of `C02_no_wrong_restore`: a cache with one entry that satisfies the invariant, and a hit on it
example : InvC (K := Nat) (N := Nat) (C := Nat) (fun (a : Nat) (ins : List (Nat × Nat)) => a + (ins.map (·.2)).sum) id id
      (fun q => if q = (0, ⟨3, [(1, 4)]⟩) then some 7 else none) ∧
    (fun q => if q = ((0 : Nat), (⟨3, [(1, 4)]⟩ : Stamp Nat Nat Nat)) then some 7 else none)
      (0, stampOf id id 3 [(1, 4)]) = some 7 := by
  refine ⟨?_, by decide⟩
  intro k st c h
  by_cases hq : (k, st) = (0, ⟨3, [(1, 4)]⟩)
  · simp [hq] at h; obtain ⟨rfl, rfl⟩ := Prod.mk.inj hq
    exact ⟨3, [(1, 4)], rfl, by rw [← h]; decide⟩
  · simp [hq] at h

/-! ### The cache key as a function -/

/-- **C02 with the key made explicit.**  `keyOf` is whatever maps (label, stamp) to the slot an artifact is filed
    under (`mustShortTargetHash` = `CollapseHash` of the four digests).  If it separates distinct target states —
    `Function.Injective keyOf`, now a hypothesis and no longer a property of the model's types — then after every
    history of cached builds, removals and evictions the final build gives each requested target its clean-build
    output (conditional on the two pre-image hypotheses like `C02_main_if_injective`). -/
theorem C02_main_keyed {Q : Type} [DecidableEq Q] (keyOf : K × Stamp S N H → Q) (hKey : Function.Injective keyOf)
    (hR : Function.Injective ruleSer) (hP : Function.Injective pathSer)
    (history : List (HOpCK K A F N C Q)) (r : Repo K A F N C) (sel : K → Bool) (hwf : WFList sel [] r.targets) :
    let s := runHistCK keyOf generatedFacts (mvCoded generatedFacts pathSer) rsCoded exec ruleSer pathSer history
      (fun _ => none, fun _ => none)
    ∀ k ∈ selKeys sel r.targets, ∃ c st,
      (buildCK keyOf generatedFacts (mvCoded generatedFacts pathSer) rsCoded exec ruleSer pathSer r sel s.1 s.2).1 k = some (c, st) ∧
      (clean exec r sel).lookup k = some c := by
  intro s
  have hsim := runHistCK_sim keyOf generatedFacts (mvCoded generatedFacts pathSer) rsCoded exec ruleSer pathSer hKey history
    (fun _ => none) (fun _ => none)
  simp only at hsim
  have hb := buildListCK_sim keyOf generatedFacts (mvCoded generatedFacts pathSer) rsCoded exec ruleSer pathSer hKey r sel
    r.targets s.1 s.2
  simp only at hb
  have hmain := C02_main_if_injective exec ruleSer pathSer hR hP (histOf keyOf history) r sel hwf
  simp only at hmain
  have hempty : cacheOf keyOf (fun (_ : Q) => (none : Option C)) = (fun (_ : K × Stamp S N H) => none) := rfl
  rw [hempty] at hsim
  rw [← hsim] at hmain
  intro k hk
  obtain ⟨c, st, h1, h2⟩ := hmain k hk
  refine ⟨c, st, ?_, h2⟩
  have e : (buildCK keyOf generatedFacts (mvCoded generatedFacts pathSer) rsCoded exec ruleSer pathSer r sel s.1 s.2).1 =
      (buildC generatedFacts (mvCoded generatedFacts pathSer) rsCoded exec ruleSer pathSer r sel s.1 (cacheOf keyOf s.2)).1 := by
    have := congrArg Prod.fst hb
    simpa [buildCK, buildC] using this
  rw [e]; exact h1

namespace KeyWitness
/-- one target reading one source file; the action copies the file's content -/
def tgt : Target Nat Nat Nat := ⟨0, 0, [0], []⟩
def repo (v : Nat) : Repo Nat Nat Nat Nat Nat := { files := fun _ => v, fname := id, outName := id, targets := [tgt] }
def execK (_a : Nat) (ins : List (Nat × Nat)) : Nat := (ins.map (·.2)).sum
/-- a key that forgets the stamp (the extreme case of a non-injective `CollapseHash`) -/
def labelOnly (p : Nat × Stamp Nat Nat Nat) : Nat := p.1
def all : Nat → Bool := fun _ => true
end KeyWitness

open KeyWitness in
/-- `Function.Injective keyOf` is needed: with a key that does not separate two states of a target, the artifact
    built from source content 1 is restored — after `rm -rf plz-out` — for source content 2. -/
theorem C02_witness_key_collision :
    let s := runHistCK labelOnly generatedFacts (mvCoded generatedFacts id) rsCoded execK id id
      [.build (repo 1) all, .remove (fun _ => false)] (fun _ => none, fun _ => none)
    ((buildCK labelOnly generatedFacts (mvCoded generatedFacts id) rsCoded execK id id (repo 2) all s.1 s.2).1 0).map Prod.fst = some 1 ∧
    (clean execK (repo 2) all).lookup 0 = some 2 := by decide

/-! ### Lean witnesses of the two known findings of the corpus -/

namespace PoisonWitness
abbrev Dir := List (Nat × Nat)
def pserBad (d : Dir) : List Nat := d.map (·.2)
def execW (_a : Nat) (ins : List (Nat × Dir)) : Dir := ((ins.map (·.2)).flatten.map (·.1)).map (fun n => (n, 7))
def tgt : Target Nat Nat Nat := ⟨0, 0, [0], []⟩
def repo1 : Repo Nat Nat Nat Nat Dir := { files := fun _ => [(1, 0), (2, 0)], fname := id, outName := id, targets := [tgt] }
def repo2 : Repo Nat Nat Nat Nat Dir := { files := fun _ => [(1, 0), (9, 0)], fname := id, outName := id, targets := [tgt] }
def all : Nat → Bool := fun _ => true
end PoisonWitness

open PoisonWitness in
/-- `dir-hash-poisons-cache` (corpus/C02/known-dir-hash-poisons-cache.ops): with the directory pre-image as coded
    (contents only), building names `a b`, renaming to `a z` and building again re-runs the action, `moveOutput` keeps
    the OLD directory, and that tree is stored under the NEW key.  After `rm -rf plz-out` the next build of the same
    tree is a cache HIT that restores `a b`; a clean build has `a z`. -/
theorem C02_witness_dir_hash_poisons_cache :
    let s := runHistC generatedFacts (mvCoded generatedFacts pserBad) rsCoded execW id pserBad
      [.build repo1 all, .build repo2 all, .remove (fun _ => false)] (fun _ => none, fun _ => none)
    let res := buildC generatedFacts (mvCoded generatedFacts pserBad) rsCoded execW id pserBad repo2 all s.1 s.2
    (res.1 0).map Prod.fst = some [(1, 7), (2, 7)] ∧ res.2.2 = [] ∧
    (clean execW repo2 all).lookup 0 = some [(1, 7), (9, 7)] := by decide

/-- `aba-optional-output-metadata` (lingering optional output on restore): restoring as coded (`rsE2E`) does not
    remove an optional output the restored entry does not have, so it violates the hypothesis `∀ o n, rs o n = n`
    under which the cache lemmas hold. -/
theorem C02_witness_restore_lingers : ¬ ∀ o n, PlzVerif.BuildE2E.rsE2E o n = n := by
  intro h
  have := h (.fileOpt "a" (some "a")) (.fileOpt "" none)
  simp [PlzVerif.BuildE2E.rsE2E, PlzVerif.BuildE2E.extraOf] at this

/-! ### CollapseHash -/

def collapseG := collapse C02.collapseEqualBranch C02.collapseElseBranch

theorem xor_right_ne {a b c : Nat} (h : b ≠ c) : a ^^^ b ≠ a ^^^ c := by
  intro e
  apply h
  have := congrArg (fun x => a ^^^ x) e
  simpa [← Nat.xor_assoc] using this

theorem xor_left_ne {a b c : Nat} (h : b ≠ c) : b ^^^ a ≠ c ^^^ a := by
  rw [Nat.xor_comm b a, Nat.xor_comm c a]; exact xor_right_ne h

theorem rulesEqual_congr (key key' : Nat → Nat) (h : ∀ j, j < 2 * blockSize → key' j = key j) :
    rulesEqual key' = rulesEqual key := by
  simp only [rulesEqual]
  apply Bool.eq_iff_iff.mpr
  simp only [List.all_eq_true, List.mem_range]
  constructor
  · intro hh j hj
    have := hh j hj
    rwa [h j (by omega), h (j + blockSize) (by omega)] at this
  · intro hh j hj
    have := hh j hj
    rwa [← h j (by omega), ← h (j + blockSize) (by omega)] at this

/-- Every byte of the config block (2) and of the source block (3) reaches the collapsed key:
    changing one such byte changes the corresponding output byte. -/
theorem C02_collapse_sensitive (key key' : Nat → Nat) (i : Nat) (hi : i < blockSize) (b : Nat) (hb : b = 2 ∨ b = 3)
    (hsame : ∀ j, j ≠ i + b * blockSize → key' j = key j) (hdiff : key' (i + b * blockSize) ≠ key (i + b * blockSize)) :
    collapseG key' i ≠ collapseG key i := by
  have hre : rulesEqual key' = rulesEqual key := by
    apply rulesEqual_congr
    intro j hj
    apply hsame
    rcases hb with rfl | rfl <;> omega
  unfold collapseG collapse
  rw [hre]
  have bs : blockSize = 20 := rfl
  rcases hb with rfl | rfl
  · have h0 : key' i = key i := hsame _ (by omega)
    have h1 : key' (i + 1 * blockSize) = key (i + 1 * blockSize) := hsame _ (by omega)
    have h3 : key' (i + 3 * blockSize) = key (i + 3 * blockSize) := hsame _ (by omega)
    split
    · simp only [xorBlocks, C02.collapseEqualBranch, List.foldl, Nat.zero_mul, Nat.add_zero, h0, h3]
      exact xor_left_ne (xor_right_ne hdiff)
    · simp only [xorBlocks, C02.collapseElseBranch, List.foldl, Nat.zero_mul, Nat.add_zero, h0, h1, h3]
      exact xor_left_ne (xor_right_ne hdiff)
  · have h0 : key' i = key i := hsame _ (by omega)
    have h1 : key' (i + 1 * blockSize) = key (i + 1 * blockSize) := hsame _ (by omega)
    have h2 : key' (i + 2 * blockSize) = key (i + 2 * blockSize) := hsame _ (by omega)
    split
    · simp only [xorBlocks, C02.collapseEqualBranch, List.foldl, Nat.zero_mul, Nat.add_zero, h0, h2]
      exact xor_right_ne hdiff
    · simp only [xorBlocks, C02.collapseElseBranch, List.foldl, Nat.zero_mul, Nat.add_zero, h0, h1, h2]
      exact xor_right_ne hdiff

/-- Caveat recorded in the trusted base: the XOR fold is NOT injective — swapping the config and source digests
    gives the same cache key (so "key idealised as injective" is an assumption about digests, not a theorem). -/
theorem C02_collapse_not_injective :
    ∃ k k' : List Nat, k.length = 80 ∧ k'.length = 80 ∧ k ≠ k' ∧
      collapseList C02.collapseEqualBranch C02.collapseElseBranch k =
      collapseList C02.collapseEqualBranch C02.collapseElseBranch k' :=
  ⟨List.replicate 40 0 ++ List.replicate 20 1 ++ List.replicate 20 2,
   List.replicate 40 0 ++ List.replicate 20 2 ++ List.replicate 20 1, by decide, by decide, by decide, by decide⟩

/-- … hence the key function the code uses — the XOR fold of the four digests — is NOT injective by itself:
    `C02_main_keyed`'s hypothesis `Function.Injective keyOf` is an assumption about the digests that go in (they
    would have to collide after a swap), not something the fold provides. -/
theorem C02_keyXor_not_injective :
    ¬ Function.Injective (fun k : {l : List Nat // l.length = 80} =>
        collapseList C02.collapseEqualBranch C02.collapseElseBranch k.1) := by
  intro h
  obtain ⟨k, k', h1, h2, hne, he⟩ := C02_collapse_not_injective
  have := @h ⟨k, h1⟩ ⟨k', h2⟩ he
  exact hne (congrArg Subtype.val this)

-- non-vacuity of C02_collapse_sensitive's hypotheses
example : ∃ key key' : Nat → Nat, (∀ j, j ≠ 3 + 2 * blockSize → key' j = key j) ∧ key' (3 + 2 * blockSize) ≠ key (3 + 2 * blockSize) :=
  ⟨fun _ => 0, fun j => if j = 43 then 1 else 0, by intro j hj; simp [blockSize] at hj; simp [hj], by simp [blockSize]⟩

end PlzVerif.Props.C02
