import PlzVerif.Lemmas.Visibility
import PlzVerif.Model.VisibilityFacts
/-!
C33  Visibility and test_only restrictions are enforced exactly.

Model: `PlzVerif.Visibility.canSee` / `checkDeps` (BuildLabel.CanSee, BuildTarget.CheckDependencyVisibility) on
top of the label model of C20 (`Includes`, `Parent`, `isExperimental`).  Specification (`Lemmas/Visibility`):
`Visible`, `TestOnlyOK`, `DepOK`, written from the documented rules and aware of subrepos.

Result on the pinned tree: the check is exact whenever the labels involved live in one repository
(`C33_exact_partial`); it never rejects what the rules allow (`C33_complete`); across repositories it is too
permissive in two places, each with a witness: the same-package shortcut compares package names only, and
visibility patterns are matched on package names only.
-/
namespace PlzVerif.Props.C33
open PlzVerif.Label PlzVerif.Visibility PlzVerif.Generated

abbrev lf : Label.Facts := generatedFacts
abbrev vf : VFacts := generatedVFacts
abbrev df : DFacts := generatedDFacts

def CoreOK : Bool := lf.includesSlash && !df.unsetIsFalsy

/-- The sequence of tests in the two functions, with identifiers replaced by roles. -/
def ShapeOK : Bool :=
  C33.canSeeSteps == [
    "if SELF.PackageName == DEP.Label.PackageName -> true",
    "if DEP.Label.isExperimental(STATE) && !SELF.isExperimental(STATE) -> false",
    "for V in DEP.Visibility: if V.Includes(PARENT) -> true",
    "if DEP.Label.PackageName == PARENT.PackageName -> true",
    "if SELF.isExperimental(STATE) -> true",
    "return false"] &&
  !C33.canSeeMentionsSubrepo && C33.targetCanSeeDelegates &&
  C33.checkSteps == [
    "for D in SELF.dependencies",
    "DEP := STATE.Graph.TargetOrDie(*D.declared)",
    "if !SELF.CanSee(STATE, DEP) -> error",
    "if DEP.TestOnly && !SELF.IsTest() && !SELF.TestOnly -> nested { if SELF.Label.isExperimental(STATE) -> continue else -> error }",
    "return nil"] &&
  -- the declared restriction: which buildRule arguments take a default, from where, and what an empty visibility means
  C33.defaultUnsetTest == "ARG == nil || ARG == None" &&
  C33.buildRuleDefaults.contains "visibilityBuildRuleArgIdx=DEFAULT_VISIBILITY" &&
  C33.buildRuleDefaults.contains "testOnlyBuildRuleArgIdx=DEFAULT_TESTONLY" &&
  C33.buildRuleDefaultsAligned &&
  C33.configDefaults == ["DEFAULT_VISIBILITY=None", "DEFAULT_TESTONLY=False"] &&
  C33.populateVisibilityCond == "vis, ok := asList(args[visibilityBuildRuleArgIdx]); ok && len(vis) != 0" &&
  C20.isExperimentalUsesIncludes && C20.isExperimentalChecksSubrepo && C20.experimentalLabelName == "..." &&
  C20.parentLits == ["#", "_"] && C20.allSubpackagesName == ["..."] && C20.allTargetsName == ["all"]

def FactsOK : Bool := CoreOK && ShapeOK

set_option maxRecDepth 16384 in
/-- Obligation a code change can break. -/
theorem C33_facts_ok : FactsOK = true := by decide

theorem core : lf.includesSlash = true := by
  have h := C33_facts_ok
  simp only [FactsOK, CoreOK, Bool.and_eq_true] at h
  exact h.1.1

/-- `defaultFromConfig` treats only `nil`/`None` as "not set" (read from the source on this run). -/
theorem unset_is_none : df.unsetIsFalsy = false := by
  have h := C33_facts_ok
  simp only [FactsOK, CoreOK, Bool.and_eq_true, Bool.not_eq_true'] at h
  exact h.1.2

/-- What `CanSee` computes, exactly. -/
theorem C33_cansee_characterisation (dirs : List Str) (src : Label) (dep : VTarget) :
    canSee lf vf dirs src dep = true ↔ CodeVisible vf dirs src dep := canSee_iff lf core vf dirs src dep

/-- `CanSee` never refuses a dependency the documented rules make visible. -/
theorem C33_visible_complete (dirs : List Str) (src : Label) (dep : VTarget) (h : Visible dirs src dep) :
    canSee lf vf dirs src dep = true :=
  (C33_cansee_characterisation dirs src dep).mpr (visible_imp_code vf dirs src dep h)

/-- Within one repository `CanSee` is exactly the documented rule: same package, a granting visibility
    pattern (component-wise for `/...`, hidden sub-targets as their parent) or PUBLIC, the experimental
    exemption, and never from outside into the experimental tree. -/
theorem C33_visible_exact_partial (dirs : List Str) (src : Label) (dep : VTarget) (hr : OneRepo src dep) :
    canSee lf vf dirs src dep = true ↔ Visible dirs src dep :=
  ⟨fun h => code_imp_visible vf dirs src dep hr ((C33_cansee_characterisation dirs src dep).mp h),
   C33_visible_complete dirs src dep⟩

example : OneRepo ⟨"a/b".toList, "_x#y".toList, []⟩
    ⟨⟨"lib".toList, "l".toList, []⟩, [⟨"a".toList, dots, []⟩, publicLabel], false, false⟩ := by
  refine ⟨rfl, ?_⟩; intro v hv; simp at hv; rcases hv with rfl | rfl
  · right; rfl
  · left; rfl

/-! ### the declared restriction of a target is what it wrote -/

/-- An explicit `visibility = …` — the empty list included — is the target's visibility; only an omitted or `None`
    argument takes the package default, and without one the configuration default (no visibility). -/
theorem C33_declared_visibility_exact (arg pkgDef : Option (List Label)) :
    effVis df arg pkgDef = match arg with
      | some l => l
      | none => (match pkgDef with | some l => l | none => []) := by
  cases arg with
  | none => cases pkgDef <;> simp [effVis]
  | some l => simp [effVis, unset_is_none]

/-- An explicit `test_only = …` — `False` included — is the target's flag. -/
theorem C33_declared_testonly_exact (arg pkgDef : Option Bool) :
    effTestOnly df arg pkgDef = match arg with
      | some b => b
      | none => (match pkgDef with | some b => b | none => false) := by
  cases arg with
  | none => cases pkgDef <;> simp [effTestOnly]
  | some b => simp [effTestOnly, unset_is_none]

/-- Composition with the visibility theorems: a dependent is admitted by a target with an EXPLICIT declaration iff
    that declaration (not the package default) makes it visible. -/
theorem C33_explicit_declaration_decides (dirs : List Str) (src lab : Label) (l : List Label)
    (pkgDef : Option (List Label)) (to isTest : Bool) (hr : OneRepo src ⟨lab, l, to, isTest⟩) :
    canSee lf vf dirs src ⟨lab, effVis df (some l) pkgDef, to, isTest⟩ = true ↔ Visible dirs src ⟨lab, l, to, isTest⟩ := by
  rw [C33_declared_visibility_exact]
  exact C33_visible_exact_partial dirs src ⟨lab, l, to, isTest⟩ hr

-- the shape of the round-3 seed, positively: `package(default_visibility = ["PUBLIC"])`, `visibility = []`: private
example : effVis df (some []) (some [publicLabel]) = [] ∧
    canSee lf vf [] ⟨"app".toList, "x".toList, []⟩ ⟨⟨"lib".toList, "t".toList, []⟩, effVis df (some []) (some [publicLabel]), false, false⟩ = false ∧
    canSee lf vf [] ⟨"app".toList, "x".toList, []⟩ ⟨⟨"lib".toList, "t".toList, []⟩, effVis df none (some [publicLabel]), false, false⟩ = true ∧
    effTestOnly df (some false) (some true) = false := by decide

/-- Witness for the truthiness variant of `defaultFromConfig` (a falsy argument counts as not set): an explicit
    `visibility = []` is replaced by the package default PUBLIC and a dependent the declaration rejects is admitted;
    an explicit `test_only = False` becomes `True`. -/
theorem C33_witness_falsy_counts_as_unset :
    effVis ⟨true⟩ (some []) (some [publicLabel]) = [publicLabel] ∧
    canSee lf vf [] ⟨"app".toList, "x".toList, []⟩ ⟨⟨"lib".toList, "t".toList, []⟩, effVis ⟨true⟩ (some []) (some [publicLabel]), false, false⟩ = true ∧
    ¬ Visible [] ⟨"app".toList, "x".toList, []⟩ ⟨⟨"lib".toList, "t".toList, []⟩, [], false, false⟩ ∧
    effTestOnly ⟨true⟩ (some false) (some true) = true := by decide

/-- The test_only rule, exactly (all repositories). -/
theorem C33_test_only_exact (dirs : List Str) (t d : VTarget) :
    ((!(d.testOnly && !t.isTest && !t.testOnly) || isExperimental lf dirs t.label) = true) ↔ TestOnlyOK dirs t d := by
  unfold TestOnlyOK
  rw [← experimental_iff lf core dirs t.label]
  generalize isExperimental lf dirs t.label = E
  cases d.testOnly <;> cases t.isTest <;> cases t.testOnly <;> cases E <;> simp

theorem codeOK_of_depOK (dirs : List Str) (t d : VTarget) (h : DepOK dirs t d) : codeOK lf vf dirs t d = true := by
  unfold codeOK
  rw [Bool.and_eq_true]
  exact ⟨C33_visible_complete dirs t.label d h.1, (C33_test_only_exact dirs t d).mpr h.2⟩

/-- The build step never fails on a target all of whose dependencies satisfy the documented rules. -/
theorem C33_complete (dirs : List Str) (t : VTarget) (deps : List VTarget) (h : ∀ d ∈ deps, DepOK dirs t d) :
    checkDeps lf vf dirs t deps = none :=
  (checkDeps_none_iff lf vf dirs t deps).mpr fun d hd => codeOK_of_depOK dirs t d (h d hd)

-- non-vacuity of `C33_complete`: a hidden sub-target of //a/b:x depending on a library visible to //a/... and on a
-- test_only PUBLIC helper while itself being a test
example : ∀ d ∈ [(⟨⟨"lib".toList, "l".toList, []⟩, [⟨"a".toList, dots, []⟩], false, false⟩ : VTarget),
      ⟨⟨"testing".toList, "h".toList, []⟩, [publicLabel], true, false⟩],
    DepOK [] ⟨⟨"a/b".toList, "_x#y".toList, []⟩, [], false, true⟩ d := by
  intro d hd; simp at hd; rcases hd with rfl | rfl
  · exact ⟨by decide, Or.inl rfl⟩
  · exact ⟨by decide, Or.inr (Or.inl rfl)⟩

/-- The property, for dependencies within one repository: `CheckDependencyVisibility` returns no error
    exactly when every declared dependency is visible and respects test_only.
    Full statement (false on the pinned tree across repositories, see the witnesses):
      checkDeps lf vf dirs t deps = none ↔ ∀ d ∈ deps, DepOK dirs t d. -/
theorem C33_exact_partial (dirs : List Str) (t : VTarget) (deps : List VTarget)
    (hr : ∀ d ∈ deps, OneRepo t.label d) :
    checkDeps lf vf dirs t deps = none ↔ ∀ d ∈ deps, DepOK dirs t d := by
  refine ⟨fun h d hd => ?_, C33_complete dirs t deps⟩
  have := (checkDeps_none_iff lf vf dirs t deps).mp h d hd
  unfold codeOK at this
  rw [Bool.and_eq_true] at this
  exact ⟨(C33_visible_exact_partial dirs t.label d (hr d hd)).mp this.1, (C33_test_only_exact dirs t d).mp this.2⟩

/-- The error names the first offending dependency, and its kind says which rule it breaks. -/
theorem C33_first_error (dirs : List Str) (t : VTarget) (deps : List VTarget) (i : Nat) (e : Err)
    (h : checkDeps lf vf dirs t deps = some (i, e)) :
    ∃ d, deps[i]? = some d ∧ codeOK lf vf dirs t d = false ∧
      (∀ j, j < i → ∀ d', deps[j]? = some d' → codeOK lf vf dirs t d' = true) ∧
      (e = .notVisible ↔ canSee lf vf dirs t.label d = false) := checkDeps_some lf vf dirs t deps i e h

/-- Witness (class `cansee-same-package-ignores-subrepo`): a target of subrepo `s`, package `p`, may depend on
    a private target of the top-level package `p`. -/
theorem C33_witness_same_package_subrepo (h : vf.samePkgChecksSubrepo = false) :
    ∃ (src : Label) (dep : VTarget), canSee lf vf [] src dep = true ∧ ¬ Visible [] src dep := by
  refine ⟨⟨"p".toList, "x".toList, "s".toList⟩, ⟨⟨"p".toList, "y".toList, []⟩, [], false, false⟩, ?_, ?_⟩
  · rw [C33_cansee_characterisation]; left; exact ⟨rfl, fun h' => by rw [h] at h'; exact Bool.noConfusion h'⟩
  · rintro (⟨_, h2⟩ | ⟨_, ⟨v, hv, _⟩ | ⟨h3, _⟩⟩)
    · revert h2; decide
    · simp at hv
    · revert h3; decide

/-- Witness (class `visibility-pattern-ignores-subrepo`): visibility `//a/...` declared in the top-level repo
    admits a target of package `a/b` in subrepo `s`. -/
theorem C33_witness_pattern_subrepo :
    ∃ (src : Label) (dep : VTarget), canSee lf vf [] src dep = true ∧ ¬ Visible [] src dep :=
  ⟨⟨"a/b".toList, "x".toList, "s".toList⟩, ⟨⟨"lib".toList, "l".toList, []⟩, [⟨"a".toList, dots, []⟩], false, false⟩,
    by decide, by decide⟩

-- non-vacuity of the rules themselves: a sibling package sharing a string prefix is not granted access
example : canSee lf vf [] ⟨"ab".toList, "x".toList, []⟩ ⟨⟨"lib".toList, "l".toList, []⟩, [⟨"a".toList, dots, []⟩], false, false⟩ = false ∧
    canSee lf vf [] ⟨"a/b".toList, "_x#y".toList, []⟩ ⟨⟨"lib".toList, "l".toList, []⟩, [⟨"a/b".toList, "x".toList, []⟩], false, false⟩ = true ∧
    checkDeps lf vf ["exp".toList] ⟨⟨"exp/t".toList, "x".toList, []⟩, [], false, false⟩
      [⟨⟨"lib".toList, "l".toList, []⟩, [], true, false⟩] = none ∧
    checkDeps lf vf ["exp".toList] ⟨⟨"expt".toList, "x".toList, []⟩, [], false, false⟩
      [⟨⟨"lib".toList, "l".toList, []⟩, [publicLabel], true, false⟩] = some (0, .testOnly) := by decide

end PlzVerif.Props.C33
