import PlzVerif.Lemmas.Config
import PlzVerif.Generated.C39
/-!
C39  Configuration layering follows the documented precedence.

The model (`Model/Config.lean`) transcribes `ReadConfigFiles` / `readConfigFile` / gcfg's `set` /
`ApplyOverrides` as a fold over sources that mutates a record.  The theorems below characterise its
result declaratively, for every kind table `K`, every initial record, every list of sources and
overrides (no bound on their number or size).  `Generated.C39` ties the order of the sources and the
shape of the loop to the code of this run.

The property as stated fails in four places (each with a witness here, a replayed witness in
corpus/C39 and an entry in known findings); the `…_partial` theorems say exactly where it holds.
-/
namespace PlzVerif.Props.C39
open PlzVerif.Config PlzVerif.Generated

/-! ### Facts regenerated from /repo -/

def documentedRoles : List String := ["machine", "xdgdirs", "user", "xdghome", "repo", "arch", "local"]

/-- Side condition on the regenerated facts (decidable). -/
def FactsOK : Bool :=
  C39.fileOrder.map roleOf == documentedRoles &&
  C39.defaultReaderFiles == "defaultConfigFiles()" &&
  C39.profileMode == "after-each-file" && C39.profilePath == "$F.$P" && C39.reader == "readConfigFile" &&
  C39.defaultsAfterLoop && C39.setDefaultCond == "len(*CONF) == 0" && C39.setDefaultAssign == "*CONF = DEF" &&
  C39.readFileSteps == ["reset-plugins", "read", "merge-plugins"] && C39.pluginMergeKeepsNew &&
  C39.missingFileIgnored &&
  C39.overrideKeyLowered && C39.overrideSliceOp == "set:SPLIT sep=," &&
  C39.overridePluginOp == "[]string{VALUE} key-lowered" &&
  C39.readConfigSeq == ["read-files", "apply-overrides"] &&
  -- cli.Version.UnmarshalFlag assigns IsGTE on every call: the value of a layer does not depend on the layers below it
  C39.versionResetsGTE &&
  -- every representative scalar option has a pre-populated default or is a bool that defaults to false
  (lookup C39.scalarDefaults "build.lang").isSome && (lookup C39.scalarDefaults "build.config").isSome &&
  (lookup C39.scalarDefaults "please.numoldversions").isSome && (lookup C39.scalarDefaults "build.xattrs").isSome &&
  (lookup C39.sliceDefaults "parse.buildfilename").isSome && (lookup C39.sliceDefaults "parse.builddefsdir").isSome

/-- Obligation a code change can break: the facts extracted from /repo satisfy the side condition. -/
theorem C39_facts_ok : FactsOK = true := by decide

/-- The profile mode of this run's code. -/
def mode : ProfileMode := (ProfileMode.ofString C39.profileMode).getD .none

theorem mode_eq : mode = .afterEachFile := by decide

/-- Without the XDG variables the files are exactly the documented five, lowest priority first. -/
theorem C39_documented_order :
    expandRoles (C39.fileOrder.map roleOf) 0 false = ["machine", "user", "repo", "arch", "local"] := by decide

/-- With them, the XDG directories sit between the machine and the user file, XDG_CONFIG_HOME right after
    the user file; the repo files stay last. -/
theorem C39_documented_order_xdg :
    expandRoles (C39.fileOrder.map roleOf) 2 true
      = ["machine", "xdgdir0", "xdgdir1", "user", "xdghome", "repo", "arch", "local"] := by decide

/-! ### Reading order: a profile file is read right after the file it belongs to -/

/-- For every position of a file in the list: all sources of earlier files, then the file, then its
    profile files in `--profile` order, then all sources of later files. -/
theorem C39_profile_adjacent (before after : List String) (f : String) (profiles : List String) :
    readOrder mode (before ++ f :: after) profiles
      = readOrder mode before profiles
        ++ ((f, none) :: profiles.map fun p => (f, some p))
        ++ readOrder mode after profiles := by
  rw [mode_eq, readOrder_afterEach_append, readOrder_afterEach_cons]
  simp [block]

/-- … and the two outer parts mention only the earlier resp. later files. -/
theorem C39_profile_adjacent_sides (fs profiles : List String) (x : SrcName)
    (h : x ∈ readOrder mode fs profiles) : x.1 ∈ fs := by
  rw [mode_eq] at h; exact mem_readOrder_afterEach h

example : readOrder mode ["repo", "arch", "local"] ["p", "q"]
    = [("repo", none), ("repo", some "p"), ("repo", some "q"), ("arch", none), ("arch", some "p"),
       ("arch", some "q"), ("local", none), ("local", some "p"), ("local", some "q")] := by decide

/-! ### Errors -/

variable (K : Nat → Kind) (low : Nat → Nat) (init : Cfg) (D : Nat → List String)

/-- Reading succeeds iff no source has a blank for a string-like option (refinement of the
    abort-at-first-error loop into "check everything, then fold"). -/
theorem C39_read_ok_iff (srcs : List (Option Source)) :
    (readConfig K init D srcs).isSome = srcs.all (srcOk K) := by
  simp only [readConfig, readFiles_eq]
  by_cases h : srcs.all (srcOk K) = true <;> simp [h]

/-- A missing file and an empty file are the same thing. -/
theorem C39_missing_is_empty (c : Cfg) : readFile K c none = readFile K c (some []) := rfl

/-- The record after all files, when reading succeeds. -/
theorem readConfig_some {srcs : List (Option Source)} {c : Cfg} (h : readConfig K init D srcs = some c) :
    c = setDefaults D (srcs.foldl (readFileT K) init) := by
  simp only [readConfig, readFiles_eq] at h
  by_cases hok : srcs.all (srcOk K) = true
  · simp [hok] at h; exact h.symm
  · simp [hok] at h

theorem effective_some {srcs : List (Option Source)} {ovs : List Override} {c : Cfg}
    (h : effective K low init D srcs ovs = some c) :
    c = ovs.foldl (applyOverride K low) (setDefaults D (srcs.foldl (readFileT K) init)) := by
  unfold effective at h
  cases hr : readConfig K init D srcs with
  | none => simp [hr] at h
  | some c0 =>
    simp only [hr, applyOverrides] at h
    by_cases hok : ovs.all (overrideOk K c0) = true
    · simp [hok] at h; rw [← h, readConfig_some K init D hr]
    · simp [hok] at h

/-! ### Single-valued options: the highest-priority source that sets the option wins -/

/-- No `-o` for the option: the last statement for it, in reading order over all files, decides. -/
theorem C39_single_last_wins (srcs : List (Option Source)) (ovs : List Override) (c : Cfg) (o : Nat)
    (h : effective K low init D srcs ovs = some c)
    (hk : isSingleKind (K o) = true)
    (hov : ∀ x ∈ ovs, ovHits K low 0 o x = false)
    (pre post : Source) (s : Stmt) (hflat : flat srcs = pre ++ s :: post)
    (hs : s.isFor o = true) (hpost : mentions o post = false) :
    c.single o = some (storedVal (K o) s.val) := by
  have hall : srcs.all (srcOk K) = true := by
    have := C39_read_ok_iff K init D srcs
    unfold effective at h
    cases hr : readConfig K init D srcs with
    | none => simp [hr] at h
    | some _ => simpa [hr] using this.symm
  -- the deciding statement itself is not fatal
  have hsok : (K o == .str && s.val.isNone) = false := by
    have hmem : s ∈ flat srcs := by rw [hflat]; simp
    simp only [flat, List.mem_flatMap] at hmem
    obtain ⟨src, hsrc, hin⟩ := hmem
    have h1 : srcOk K src = true := (List.all_eq_true.mp hall) src hsrc
    have h2 : stmtOk K s = true := (List.all_eq_true.mp h1) s hin
    have ho : s.opt = o := by simpa [Stmt.isFor] using hs
    simp only [stmtOk, ho, Bool.not_eq_true'] at h2
    exact h2
  rw [effective_some K low init D h, foldl_override_single, foldl_sel_none _ _ _ _ hov]
  show (srcs.foldl (readFileT K) init).single o = _
  rw [readFilesT_single, hflat]
  exact singleFold_last (K o) o pre post s _ hk hs hsok hpost

/-- Precedence in one statement: lay the sources out in the reading order of this run's code
    (`readOrder mode files profiles`, i.e. every file followed by its profile files), let `content` say what each
    source holds.  If source `n` sets option `o` (last by statement `s`) and no source AFTER `n` in that order
    mentions `o`, and there is no `-o` for it, then `n` decides — whatever lower-priority sources say. -/
theorem C39_highest_priority_source_wins (files profiles : List String) (content : SrcName → Option Source)
    (ovs : List Override) (c : Cfg) (o : Nat)
    (h : effective K low init D ((readOrder mode files profiles).map content) ovs = some c)
    (hk : isSingleKind (K o) = true) (hov : ∀ x ∈ ovs, ovHits K low 0 o x = false)
    (before after : List SrcName) (n : SrcName) (horder : readOrder mode files profiles = before ++ n :: after)
    (a b : Source) (s : Stmt) (hn : content n = some (a ++ s :: b))
    (hs : s.isFor o = true) (hb : mentions o b = false)
    (hafter : ∀ m ∈ after, mentions o ((content m).getD []) = false) :
    c.single o = some (storedVal (K o) s.val) := by
  have hflat_app : ∀ l₁ l₂ : List (Option Source), flat (l₁ ++ l₂) = flat l₁ ++ flat l₂ := by
    intro l₁ l₂; simp [flat, List.flatMap_append]
  have hment : ∀ l : List SrcName, (∀ m ∈ l, mentions o ((content m).getD []) = false) →
      mentions o (flat (l.map content)) = false := by
    intro l hl
    induction l with
    | nil => rfl
    | cons m rest ih =>
      have h1 := hl m (by simp)
      have h2 := ih (fun x hx => hl x (by simp [hx]))
      simp only [List.map_cons, flat, List.flatMap_cons, mentions, List.any_append, Bool.or_eq_false_iff] at h1 h2 ⊢
      exact ⟨h1, h2⟩
  apply C39_single_last_wins K low init D _ ovs c o h hk hov (flat (before.map content) ++ a) (b ++ flat (after.map content)) s
  · rw [horder, List.map_append, List.map_cons, hflat_app]
    simp [flat, List.flatMap_cons, hn, List.append_assoc]
  · exact hs
  · simp only [mentions, List.any_append, Bool.or_eq_false_iff]
    exact ⟨by simpa [mentions] using hb, by simpa [mentions] using hment after hafter⟩

-- non-vacuity: .plzconfig.local wins over .plzconfig's profile file and over .plzconfig
example : (effective kindOf lowOf (initOf C39.scalarDefaults C39.prepopulatedSlices) (defaultsOf C39.sliceDefaults)
    ((readOrder mode ["repo", "local"] ["p"]).map fun n =>
      if n = ("repo", none) then some [⟨0, some "r"⟩] else if n = ("repo", some "p") then some [⟨0, some "rp"⟩]
      else if n = ("local", none) then some [⟨0, some "l"⟩] else none) []).map (·.single 0) = some (some "l") := by decide

/-- `[please] version` is an ordinary single-valued option of the table (kind `str`): with the facts of this run
    (`versionResetsGTE`) its effective value is the one written in the last layer that sets it, `>=` prefix included —
    an instance of `C39_single_last_wins`. -/
theorem C39_version_is_single : isSingleKind (kindOf 13) = true ∧ nameOf 13 = "please.version" := by decide

/-- `cli.Version` before the repair, as (IsGTE, version): `UnmarshalFlag` only ever turned the flag on. -/
def versionSetOld (cur new : Bool × String) : Bool × String := (cur.1 || new.1, new.2)

/-- Before the repair a `>=` from a lower layer survived a higher layer that set a plain version: the result
    `>=17.0.0` is a value no source set.  (Statement about the OLD code, `versionResetsGTE = false`.) -/
theorem C39_old_version_gte_sticky :
    versionSetOld (versionSetOld (false, "") (true, "1.2.3")) (false, "17.0.0") = (true, "17.0.0") := by decide

/-- `-o` beats every file: the last override for the option decides (Go ranges over a map, so "last" is
    only meaningful when it is the only one; see `C39_override_order_irrelevant`). -/
theorem C39_single_override_wins (srcs : List (Option Source)) (ovs : List Override) (c : Cfg) (o : Nat)
    (h : effective K low init D srcs ovs = some c)
    (pre post : List Override) (x : Override) (hovs : ovs = pre ++ x :: post)
    (hx : ovHits K low 0 o x = true) (hpost : ∀ y ∈ post, ovHits K low 0 o y = false) :
    c.single o = some x.val := by
  rw [effective_some K low init D h, foldl_override_single, hovs]
  exact foldl_sel_last _ _ pre post x _ hx hpost

/-- The pre-populated default stays exactly when no source sets the option. -/
theorem C39_single_default_iff_unset (srcs : List (Option Source)) (ovs : List Override) (c : Cfg) (o : Nat)
    (h : effective K low init D srcs ovs = some c)
    (hov : ∀ x ∈ ovs, ovHits K low 0 o x = false) (hun : mentions o (flat srcs) = false) :
    c.single o = init.single o := by
  rw [effective_some K low init D h, foldl_override_single, foldl_sel_none _ _ _ _ hov]
  show (srcs.foldl (readFileT K) init).single o = _
  rw [readFilesT_single]
  exact singleFold_none _ o _ _ hun

-- non-vacuity: .plzconfig sets lang, .plzconfig.local sets it again, no override
example : (effective kindOf lowOf (initOf C39.scalarDefaults C39.prepopulatedSlices) (defaultsOf C39.sliceDefaults)
    [some [⟨0, some "a"⟩, ⟨4, some "X"⟩], none, some [⟨0, some "b"⟩]] []).map (·.single 0) = some (some "b") := by decide

/-! ### List options -/

/-- The raw slice after all files (before `setDefault`). -/
theorem list_raw (srcs : List (Option Source)) (o : Nat) (hk : K o = .list) :
    (srcs.foldl (readFileT K) init).list o = (flat srcs).foldl (listStep o) (init.list o) :=
  readFilesT_list K o hk srcs init

/-- A blank clears everything set before it, in whatever file: what remains are the values after the
    last blank, accumulated across files in reading order. -/
theorem C39_list_after_last_blank (srcs : List (Option Source)) (ovs : List Override) (c : Cfg) (o : Nat)
    (h : effective K low init D srcs ovs = some c) (hk : K o = .list)
    (hov : ∀ x ∈ ovs, ovHits K low 1 o x = false)
    (pre post : Source) (s : Stmt) (hflat : flat srcs = pre ++ s :: post)
    (hs : s.isFor o = true) (hb : s.val = none) (hpost : hasBlank o post = false)
    (hne : valsFor o post ≠ []) :
    c.list o = valsFor o post := by
  rw [effective_some K low init D h, foldl_override_list, foldl_sel_none _ _ _ _ hov]
  show (if ((srcs.foldl (readFileT K) init).list o).isEmpty then D o else _) = _
  rw [list_raw K init srcs o hk, hflat, listFold_afterBlank o pre post s _ hs hb hpost]
  simp [hne]

/-- No blank anywhere and nothing pre-populated: all values of all files, in reading order. -/
theorem C39_list_accumulates (srcs : List (Option Source)) (ovs : List Override) (c : Cfg) (o : Nat)
    (h : effective K low init D srcs ovs = some c) (hk : K o = .list)
    (hov : ∀ x ∈ ovs, ovHits K low 1 o x = false)
    (hinit : init.list o = []) (hnb : hasBlank o (flat srcs) = false) (hne : valsFor o (flat srcs) ≠ []) :
    c.list o = srcs.flatMap fun s => valsFor o (s.getD []) := by
  rw [effective_some K low init D h, foldl_override_list, foldl_sel_none _ _ _ _ hov]
  show (if ((srcs.foldl (readFileT K) init).list o).isEmpty then D o else _) = _
  rw [list_raw K init srcs o hk, listFold_noBlank o _ _ hnb, hinit, ← valsFor_flat]
  simp [hne]

/-- A command-line override replaces the whole list. -/
theorem C39_override_replaces_list (srcs : List (Option Source)) (ovs : List Override) (c : Cfg) (o : Nat)
    (h : effective K low init D srcs ovs = some c)
    (pre post : List Override) (x : Override) (hovs : ovs = pre ++ x :: post)
    (hx : ovHits K low 1 o x = true) (hpost : ∀ y ∈ post, ovHits K low 1 o y = false) :
    c.list o = x.val.splitOn "," := by
  rw [effective_some K low init D h, foldl_override_list, hovs]
  exact foldl_sel_last _ _ pre post x _ hx hpost

-- non-vacuity: `-o parse.buildfilename:x,y` on top of a file that set the option twice
-- (the hypotheses are met: the configuration exists and the override hits the option; its value is then
-- `"x,y".splitOn ","` by the theorem)
example : (effective kindOf lowOf (initOf [] []) (defaultsOf []) [some [⟨4, some "A"⟩, ⟨4, some "B"⟩]] [⟨4, "x,y"⟩]).isSome = true ∧
    ovHits kindOf lowOf 1 4 ⟨4, "x,y"⟩ = true := by decide

/-- The documented default applies when no source sets the option (and nothing is pre-populated). -/
theorem C39_list_default_when_unset (srcs : List (Option Source)) (ovs : List Override) (c : Cfg) (o : Nat)
    (h : effective K low init D srcs ovs = some c) (hk : K o = .list)
    (hov : ∀ x ∈ ovs, ovHits K low 1 o x = false)
    (hinit : init.list o = []) (hun : mentions o (flat srcs) = false) :
    c.list o = D o := by
  have hnb : hasBlank o (flat srcs) = false := by
    simp only [hasBlank, mentions, List.any_eq_false, Bool.and_eq_true, not_and] at hun ⊢
    intro s hs h1; exact absurd h1 (by simpa using hun s hs)
  have hv : valsFor o (flat srcs) = [] := by
    simp only [valsFor, List.map_eq_nil_iff, List.filter_eq_nil_iff]
    simp only [mentions, List.any_eq_false] at hun
    intro s hs; simpa using hun s hs
  rw [effective_some K low init D h, foldl_override_list, foldl_sel_none _ _ _ _ hov]
  show (if ((srcs.foldl (readFileT K) init).list o).isEmpty then D o else _) = _
  rw [list_raw K init srcs o hk, listFold_noBlank o _ _ hnb, hinit, hv]
  simp

/-- What a reference that "applies the sources in order; default only if no source sets the option"
    computes for a list option without override: the values after the last blank (all values when there
    is no blank), the default only when nothing mentions the option. -/
def specList (D : Nat → List String) (o : Nat) (all : Source) : List String :=
  if mentions o all then all.foldl (listStep o) [] else D o

/-- Full-strength statement "defaults apply only to options that no source sets", for list options. -/
def DefaultOnlyIfUnset (K : Nat → Kind) (low : Nat → Nat) (init : Cfg) (D : Nat → List String) : Prop :=
  ∀ srcs c o, effective K low init D srcs [] = some c → K o = .list → c.list o = specList D o (flat srcs)

/-- VIOLATED (1): set, then blank in a later file — the option is set by two sources, its value should be
    the empty list, but `setDefault` fires on `len == 0` and the default comes back. -/
theorem C39_witness_default_after_blank :
    ∃ (srcs : List (Option Source)) (c : Cfg),
      effective kindOf lowOf (initOf [] []) (defaultsOf [("parse.buildfilename", ["BUILD", "BUILD.plz"])]) srcs [] = some c ∧
      mentions 4 (flat srcs) = true ∧ specList (defaultsOf [("parse.buildfilename", ["BUILD", "BUILD.plz"])]) 4 (flat srcs) = [] ∧
      c.list 4 = ["BUILD", "BUILD.plz"] :=
  ⟨[some [⟨4, some "X"⟩], some [⟨4, none⟩]], _, rfl, by decide, by decide, by decide⟩

/-- VIOLATED (2): a slice pre-populated by `DefaultConfiguration` (java.defaultmavenrepo) is appended to,
    so its default stays although a source sets the option. -/
theorem C39_witness_prepopulated_default_kept :
    ∃ (srcs : List (Option Source)) (c : Cfg),
      effective kindOf lowOf (initOf [] [("java.defaultmavenrepo", ["https://repo1", "https://jcenter"])]) (defaultsOf []) srcs [] = some c ∧
      specList (defaultsOf []) 7 (flat srcs) = ["http://mine"] ∧
      c.list 7 = ["https://repo1", "https://jcenter", "http://mine"] :=
  ⟨[some [⟨7, some "http://mine"⟩]], _, rfl, by decide, by decide⟩

theorem C39_not_default_only_if_unset :
    ¬ DefaultOnlyIfUnset kindOf lowOf (initOf [] []) (defaultsOf [("parse.buildfilename", ["BUILD", "BUILD.plz"])]) := by
  intro h
  have := h [some [⟨4, some "X"⟩], some [⟨4, none⟩]] _ 4 rfl (by decide)
  revert this; decide

/-- Where it does hold: nothing pre-populated and the reference value is non-empty ⇒ no default is mixed
    in; and an option no source mentions gets exactly the default (`C39_list_default_when_unset`). -/
theorem C39_default_only_if_unset_partial (srcs : List (Option Source)) (c : Cfg) (o : Nat)
    (h : effective K low init D srcs [] = some c) (hk : K o = .list) (hinit : init.list o = [])
    (hne : specList D o (flat srcs) ≠ [] ∨ mentions o (flat srcs) = false) :
    c.list o = specList D o (flat srcs) := by
  rw [effective_some K low init D h]
  show (if ((srcs.foldl (readFileT K) init).list o).isEmpty then D o else _) = _
  rw [list_raw K init srcs o hk, hinit]
  unfold specList at hne ⊢
  by_cases hm : mentions o (flat srcs) = true
  · simp only [hm, if_true] at hne ⊢
    have hne' : (flat srcs).foldl (listStep o) [] ≠ [] := by
      rcases hne with h1 | h1
      · exact h1
      · simp at h1
    simp [hne']
  · have hm' : mentions o (flat srcs) = false := by simpa using hm
    have hnb : hasBlank o (flat srcs) = false := by
      simp only [hasBlank, mentions, List.any_eq_false, Bool.and_eq_true, not_and] at hm' ⊢
      intro s hs h1; exact absurd h1 (by simpa using hm' s hs)
    have hv : valsFor o (flat srcs) = [] := by
      simp only [valsFor, List.map_eq_nil_iff, List.filter_eq_nil_iff]
      simp only [mentions, List.any_eq_false] at hm'
      intro s hs; simpa using hm' s hs
    simp [hm', listFold_noBlank o _ _ hnb, hv]

example : (effective kindOf lowOf (initOf C39.scalarDefaults C39.prepopulatedSlices) (defaultsOf C39.sliceDefaults)
    [some [⟨4, some "A"⟩, ⟨4, some "B"⟩], some [⟨4, none⟩, ⟨4, some "C"⟩], some [⟨4, some "D"⟩]] []).map (·.list 4)
    = some ["C", "D"] := by decide

/-! ### Plugin options ([plugin "x"] key = value, repeatable) -/

/-- What the code does: the last file that mentions the key supplies all its values; earlier files'
    values for that key are dropped (`normaliseAndMergePluginConfig` keeps a new key as it is). -/
theorem C39_plugin_last_file_wins (srcs : List (Option Source)) (c : Cfg) (o : Nat)
    (h : effective K low init D srcs [] = some c) (hk : K o = .plugin)
    (pre post : List (Option Source)) (s : Option Source) (hsrcs : srcs = pre ++ s :: post)
    (hs : mentions o (s.getD []) = true) (hpost : ∀ x ∈ post, mentions o (x.getD []) = false) :
    c.plugin o = some (valsFor o (s.getD [])) := by
  rw [effective_some K low init D h]
  show (srcs.foldl (readFileT K) init).plugin o = _
  rw [readFilesT_plugin K o hk, hsrcs]
  exact pluginFiles_last o pre post s _ hs hpost

/-- VIOLATED (3): "repeated options accumulate across files": two files give a repeatable plugin option
    one value each; only the later file's value survives. -/
theorem C39_witness_plugin_not_accumulated :
    ∃ (srcs : List (Option Source)) (c : Cfg),
      effective kindOf lowOf (initOf [] []) (defaultsOf []) srcs [] = some c ∧
      valsFor 10 (flat srcs) = ["a", "b"] ∧ c.plugin 10 = some ["b"] :=
  ⟨[some [⟨10, some "a"⟩], some [⟨10, some "b"⟩]], _, rfl, by decide, by decide⟩

/-- VIOLATED (4): "a blank value clears everything set before it": a blank plugin option appends "". -/
theorem C39_witness_plugin_blank_appends :
    ∃ (srcs : List (Option Source)) (c : Cfg),
      effective kindOf lowOf (initOf [] []) (defaultsOf []) srcs [] = some c ∧ c.plugin 10 = some ["a", ""] :=
  ⟨[some [⟨10, some "a"⟩, ⟨10, none⟩]], _, rfl, by decide⟩

/-- Where plugin options do accumulate: within the single file that mentions the key, without blanks
    (then `valsFor` is exactly the list of written values). -/
theorem C39_plugin_accumulates_partial (srcs : List (Option Source)) (c : Cfg) (o : Nat)
    (h : effective K low init D srcs [] = some c) (hk : K o = .plugin)
    (pre post : List (Option Source)) (s : Option Source) (hsrcs : srcs = pre ++ s :: post)
    (hs : mentions o (s.getD []) = true)
    (hpre : ∀ x ∈ pre, mentions o (x.getD []) = false) (hpost : ∀ x ∈ post, mentions o (x.getD []) = false) :
    c.plugin o = some (valsFor o (flat srcs)) := by
  rw [C39_plugin_last_file_wins K low init D srcs c o h hk pre post s hsrcs hs hpost]
  have hnil : ∀ l : List (Option Source), (∀ x ∈ l, mentions o (x.getD []) = false) →
      (l.flatMap fun s => valsFor o (s.getD [])) = [] := by
    intro l hl
    simp only [List.flatMap_eq_nil_iff]
    intro x hx
    have := hl x hx
    simp only [mentions, List.any_eq_false] at this
    simp only [valsFor, List.map_eq_nil_iff, List.filter_eq_nil_iff]
    intro y hy; simpa using this y hy
  rw [valsFor_flat, hsrcs, List.flatMap_append, List.flatMap_cons, hnil pre hpre, hnil post hpost]
  simp

/-! ### `-o` overrides -/

/-- Go iterates over the override map in arbitrary order; as long as no two overrides write the same
    field (after lower-casing), the order does not matter. -/
theorem C39_override_order_irrelevant (c : Cfg) (l₁ l₂ : List Override) (p : l₁.Perm l₂)
    (hd : l₁.Pairwise fun x y => compOf (K x.opt) ≠ compOf (K y.opt) ∨ ovTarget K low x ≠ ovTarget K low y) :
    applyOverrides K low c l₁ = applyOverrides K low c l₂ := by
  unfold applyOverrides
  have hall : l₁.all (overrideOk K c) = l₂.all (overrideOk K c) := by
    rw [Bool.eq_iff_iff]; simp only [List.all_eq_true]
    exact ⟨fun h x hx => h x (p.mem_iff.mpr hx), fun h x hx => h x (p.mem_iff.mp hx)⟩
  rw [hall]
  suffices hf : l₁.foldl (applyOverride K low) c = l₂.foldl (applyOverride K low) c by rw [hf]
  clear hall
  induction p generalizing c with
  | nil => rfl
  | cons x _ ih =>
    simp only [List.foldl_cons]
    exact ih _ (List.Pairwise.of_cons hd)
  | swap x y l =>
    simp only [List.foldl_cons]
    have hxy : compOf (K y.opt) ≠ compOf (K x.opt) ∨ ovTarget K low y ≠ ovTarget K low x :=
      (List.pairwise_cons.mp hd).1 x (by simp)
    rw [applyOverride_comm K low c y x hxy]
  | trans p₁ p₂ ih₁ ih₂ =>
    rw [ih₁ c hd]
    exact ih₂ c (p₁.pairwise hd (fun h => by
      rcases h with h | h
      · exact Or.inl (Ne.symm h)
      · exact Or.inr (Ne.symm h)))

/-- VIOLATED (5): `-o buildconfig.Foo-Bar:v` is lower-cased by `ApplyOverrides` and lands on key
    `foo-bar`; the value the files gave to `Foo-Bar` stays (both end up in CONFIG.FOO_BAR). -/
theorem C39_witness_override_mapkey_case :
    ∃ (c : Cfg), effective kindOf lowOf (initOf [] []) (defaultsOf []) [some [⟨8, some "file"⟩]] [⟨8, "cli"⟩] = some c ∧
      c.single 8 = some "file" ∧ c.single 9 = some "cli" :=
  ⟨_, rfl, by decide, by decide⟩

/-- For options whose name is already lower case (every struct field; map keys written in lower case)
    `C39_single_override_wins` applies with `ovTarget = opt`. -/
theorem C39_override_target_partial (x : Override) (h : low x.opt = x.opt) : ovTarget K low x = x.opt := by
  unfold ovTarget; cases K x.opt <;> simp [h]

end PlzVerif.Props.C39
