import PlzVerif.Lemmas.AspLex
import PlzVerif.Lemmas.AspParse
import PlzVerif.Generated.C19
/-!
C19  The BUILD parser is total and fails only with positioned errors.

Part 1 (this section): the byte-level lexer.  All statements are about `AspLex.lexAll`, the model of
"newLexer, then Next() until the first EOF token has been returned" instantiated with the facts read from
/repo's lexer.go on this run (sentinel count, byte classes, unicode tables).
-/
namespace PlzVerif.Props.C19
open PlzVerif.AspLex PlzVerif.Generated

/-- The fixed cases of nextToken's switch, with the four byte classes the model takes from the facts. -/
def expectedSwitch : List (List Nat) :=
  [[0], [13], [10], [48], [49, 50, 51, 52, 53, 54, 55, 56, 57], [34, 39], C19.openBraces, C19.closeBraces,
   C19.eqOps, C19.singles, [47], [35], [45], [9], []]

/-- What each clause does, as summarised by the extractor (calls, buffer offsets read, fields written,
    token types produced, fallthrough) — the behaviour `Model/AspLex.lean` transcribes. -/
def expectedSummaries : List String :=
  ["type:EOF", "continue",
   "call:fail continue field:indent= field:indents= field:pos++ field:unindents++ read:+0 type:EOL",
   "call:consumeInteger fallthrough field:pos++ read:+0", "call:consumeInteger",
   "call:consumePossiblyTripleQuotedString", "field:braces++ type:literal", "field:braces-- type:literal",
   "fallthrough field:pos++ read:+0 read:-1 type:LexOperator", "type:literal",
   "field:pos++ read:+0 read:-1 type:LexOperator type:literal", "continue field:pos++ read:+0",
   "call:consumeInteger read:+0 type:literal", "call:fail", "call:fail"]

/-- What every grammar function of grammar_parse.go does, as summarised by the extractor: the calls on the
    parser / lexer in source order with the constant arguments of the token-consuming primitives — the
    structure `Model/AspParse.lean` transcribes. -/
def expectedParserCalls : List (String × String) := [
  ("assert", "fail"),
  ("assertTokenType", "fail"),
  ("next", "Next assertTokenType"),
  ("nextv", "Next fail"),
  ("optional", "Peek Next"),
  ("optionalv", "Peek Next"),
  ("anythingBut", "Peek"),
  ("oneof", "Next fail"),
  ("oneofval", "Next fail"),
  ("fail", ""),
  ("parseStatement", "Peek Next next(EOL) assert Next next(EOL) assert Next next(EOL) parseFuncDef parseFor parseIf Next parseReturn Next parseExpression next(EOL) Next parseExpression optional(',') parseExpression next(EOL) parseIdentStatement parseExpression next(EOL)"),
  ("parseStatements", "anythingBut(Unindent) parseStatement next(Unindent)"),
  ("parseReturn", "anythingBut(EOL) parseExpression optional(',') next(EOL)"),
  ("parseFuncDef", "nextv(\"def\") next(Ident) next('(') anythingBut(')') parseArgument optional(',') next(')') Peek next('-') next('>') oneofval next(':') next(EOL) Peek Next next(EOL) parseStatements"),
  ("parseArgument", "next(Ident) Peek oneof(':','&','=') oneofval(\"bool\",\"str\",\"int\",\"list\",\"dict\",\"function\",\"config\") optional('|') Peek oneof('&','=') next(Ident) optional('&') Peek next('=') parseExpression"),
  ("parseIf", "nextv(\"if\") parseExpressionInPlace next(':') next(EOL) parseStatements optionalv(\"elif\") parseExpressionInPlace next(':') next(EOL) parseStatements optionalv(\"else\") next(':') next(EOL) parseStatements"),
  ("parseFor", "nextv(\"for\") parseIdentList nextv(\"in\") parseExpressionInPlace next(':') next(EOL) parseStatements"),
  ("parseIdentList", "next(Ident) Peek Peek Next next(Ident)"),
  ("parseExpression", "parseUnconditionalExpression parseInlineIf"),
  ("parseExpressionInPlace", "Peek parseUnconditionalExpressionInPlace parseInlineIf"),
  ("parseInlineIf", "optionalv(\"if\") parseExpression nextv(\"else\") parseExpression"),
  ("parseUnconditionalExpression", "Peek parseUnconditionalExpressionInPlace"),
  ("parseUnconditionalExpressionInPlace", "Peek Next Next parseValueExpression Peek Next Peek assert Next Peek Next parseUnconditionalExpression"),
  ("parseValueExpression", "Peek parseFString Next Peek parseValueExpression assert assert Next Next Next Next parseList('[',']') parseList('(',')') parseDict parseLambda parseIdentExpr fail Peek parseSlice Peek optional('.') parseIdentExpr optional('(') parseCall"),
  ("parseIdentStatement", "Peek next(Ident) assert Peek Next parseIdentList next('=') parseExpression parseExpression next(']') oneofval(\"=\",\"+=\") parseExpression parseExpression parseIdentExpr parseCall parseExpression assert parseExpression"),
  ("parseIdentExpr", "next(Ident) Peek Peek Next parseIdentExpr parseCall"),
  ("parseCall", "Peek Peek AssignFollows next(Ident) next('=') assert parseExpressionInPlace optional(',') next(')')"),
  ("parseList", "next Peek Peek parseExpression optional(',') Peek assert parseComprehension next"),
  ("parseDict", "next('{') Peek Peek parseExpressionInPlace next(':') parseExpressionInPlace optional(',') Peek assert parseComprehension next('}')"),
  ("parseSlice", "next('[') optional(':') optional(':') parseExpression optional(':') Peek Next parseExpression next(']')"),
  ("parseComprehension", "nextv(\"for\") parseIdentList nextv(\"in\") parseUnconditionalExpression optionalv(\"for\") parseIdentList nextv(\"in\") parseUnconditionalExpression optionalv(\"if\") parseUnconditionalExpression"),
  ("parseLambda", "nextv(\"lambda\") Peek Peek Next optional('=') parseExpression optional(',') next(':') parseExpressionInPlace"),
  ("parseFString", "next(String) findBrace findBrace assert"),
  ("findBrace", "")]

/-- Bytes the model dispatches on before it consults the byte classes. -/
def fixedBytes : List Nat := [0, 13, 10, 35, 48, 49, 50, 51, 52, 53, 54, 55, 56, 57, 34, 39]

/-- Two sentinels: one terminates every scanning loop, the second is what "one Next() past EOF" reads. -/
def SentinelsOK : Bool := decide (2 ≤ C19.sentinels)

/-- concatStrings tests for an f-string without variables before it indexes `Vars[0]` (the repair of the
    finding concat-string-bare-fstring; `false` on the code before it). -/
def ConcatGuardOK : Bool := C19.concatGuardsBareFString && C19.concatGuardsBothFString

/-- Side condition on the regenerated facts (decidable). -/
def FactsOK : Bool :=
  SentinelsOK && ConcatGuardOK &&
  -- no read looks further than +1, no jump is larger than the triple-quote skip
  (decide (C19.maxLookahead ≤ 1) && decide (C19.maxLookbehind ≤ 1) &&
  decide (C19.maxPosJump ≤ 2) &&
  C19.tokenTypes == ["EOF", "Ident", "Int", "String", "LexOperator", "EOL", "Unindent"] &&
  -- the switch the model transcribes
  -- (the body is one `for { … }`: skipped input `continue`s — the repair of lexer-recursion-stack-overflow; each
  --  iteration is what a self-call was, and the model keeps that as its recursion)
  C19.nextTokenShape == "loop" &&
  C19.switchCases == expectedSwitch && C19.switchSummaries == expectedSummaries && C19.switchHasDefault &&
  (C19.openBraces ++ C19.closeBraces ++ C19.eqOps ++ C19.singles).all (fun c => !fixedBytes.contains c && c < 128) &&
  -- every panic is a positioned `fail`: the only other panic is dead code behind a switch all of whose
  -- clauses return, fall through or fail; fail panics with AddStackFrame's `error`; both wrappers pass
  -- their own position argument on
  C19.switchClausesAllLeave && C19.lexerPanics == [("nextToken", "lit:\"unreachable\"")] &&
  C19.grammarPanics == [] && C19.failPanics == [("fail", "call:AddStackFrame")] &&
  C19.addStackFrameReturnsError && C19.failOnlyPanics &&
  C19.lexFailDelegates == "param0" && C19.parserFailDelegates == "param0.Pos" &&
  C19.lexFailPosArgs.all (· == "pos") && C19.lexFailPosArgs.length == 5 &&
  -- the grammar functions the parser model transcribes
  C19.parserCalls == expectedParserCalls &&
  -- so the unchecked `err = r.(error)` in parseFileInput's recovery cannot itself panic
  (C19.recoverAssertion == "unchecked:error" || C19.recoverAssertion == "checked:error"))

/-- Obligation a code change can break: the facts extracted from /repo satisfy the side condition. -/
theorem C19_facts_ok : FactsOK = true := by decide +kernel

theorem C19_sentinels_ok : 2 ≤ C19.sentinels := by
  have h := C19_facts_ok
  simp only [FactsOK, Bool.and_eq_true] at h
  simpa [SentinelsOK] using h.1.1

theorem C19_concat_guard_ok : C19.concatGuardsBareFString = true ∧ C19.concatGuardsBothFString = true := by
  have h := C19_facts_ok
  simp only [FactsOK, Bool.and_eq_true] at h
  simpa [ConcatGuardOK] using h.1.2

/-- Length of the real input inside the lexer's buffer (after the newline fix-up, before the sentinels). -/
def inputEnd (data : Bytes) : Nat := (mkBuffer data).size - C19.sentinels

/-- lex_total.  Every loop of the model is a total function (Lean's termination checker accepted the
    measures `size - pos`); the two driver loops use fuel, and it never runs out. -/
theorem C19_lex_total (data : Bytes) : (lexAll data).2 ≠ some .outOfFuel := by
  have h := (lexAll_spec data C19_sentinels_ok).1
  rcases h with h | ⟨e, h, p, m, he, _⟩
  · rw [h]; simp
  · rw [h, he]; simp

/-- lex_in_bounds.  No read of `l.bytes[i]` is out of range and the indent stack is never empty when its
    top is read: the runtime-error constructors of the model are unreachable, for every input. -/
theorem C19_lex_in_bounds (data : Bytes) :
    (∀ i, (lexAll data).2 ≠ some (.oob i)) ∧ (lexAll data).2 ≠ some .emptyStack := by
  have h := (lexAll_spec data C19_sentinels_ok).1
  rcases h with h | ⟨e, h, p, m, he, _⟩
  · rw [h]; simp
  · rw [h, he]; simp

/-- lex_errors_positioned.  Whatever makes the lexer stop early is `l.fail(pos, …)` with `pos` inside the
    input (at most its length: the position of the end of file). -/
theorem C19_lex_errors_positioned (data : Bytes) (e : LexErr) (h : (lexAll data).2 = some e) :
    ∃ pos msg, e = .fail pos msg ∧ pos ≤ inputEnd data := by
  rcases (lexAll_spec data C19_sentinels_ok).1 with h' | ⟨e', h', p, m, he, hp⟩
  · rw [h'] at h; cases h
  · rw [h'] at h; cases h; exact ⟨p, m, he, hp⟩

/-- Every token the parser can see starts inside the input. -/
theorem C19_lex_token_positions (data : Bytes) : ∀ t ∈ (lexAll data).1, t.pos ≤ inputEnd data :=
  (lexAll_spec data C19_sentinels_ok).2.1

/-- A run without error ends with the EOF token (the parser's loop condition is reached). -/
theorem C19_lex_ends_with_eof (data : Bytes) (h : (lexAll data).2 = none) :
    ∃ t, (lexAll data).1.back? = some t ∧ t.ty = .eof :=
  (lexAll_spec data C19_sentinels_ok).2.2 h

/-- The per-call statement behind the three theorems above: from any position inside the input, one
    `nextToken` stays in bounds, fails only positioned, makes progress, and ends before the second
    sentinel; a non-EOF token ends before the first. -/
theorem C19_nextToken_in_bounds (b : Bytes) (n : Nat) (S : Sentinel b n) (s : LexState)
    (hst : StackOK s.indents) (hpos : s.pos ≤ n) :
    (∃ t s', nextToken b s = .ok (t, s') ∧ PostA b n s t s') ∨
    (∃ pos msg, nextToken b s = .error (.fail pos msg) ∧ pos ≤ n) := by
  rcases nextToken_specA S s hst hpos with h | ⟨e, h, p, m, he, hp⟩
  · exact Or.inl h
  · exact Or.inr ⟨p, m, by rw [h, he], hp⟩

/-- One `Next()` past the first EOF is still in bounds (this is what the second sentinel is for). -/
theorem C19_one_next_past_eof (b : Bytes) (n : Nat) (S : Sentinel b n) (s : LexState)
    (hst : StackOK s.indents) (h1 : n ≤ s.pos) (h2 : s.pos < b.size) :
    ∃ t s', nextToken b s = .ok (t, s') ∧ s'.pos ≤ s.pos + 1 :=
  let ⟨t, s', h, hp, _⟩ := nextToken_specB S s hst h1 h2
  ⟨t, s', h, hp⟩

/-- … and the hazard noted in the design is real in the model: once the position has reached the end of
    the buffer (after the EOF token read from the last sentinel), any further `nextToken` indexes past
    it.  The parser model's `pastEOF` theorem is what keeps the real parser away from this. -/
theorem C19_next_at_buffer_end_is_oob (b : Bytes) (s : LexState) (h : s.pos = b.size) :
    nextToken b s = .error (.oob b.size) := by
  have hsk : skipSpaces b s.pos = .error (.oob b.size) := by
    unfold skipSpaces; simp [h]
  fun_induction nextToken b s <;> simp_all

-- non-vacuity: the hypotheses of C19_nextToken_in_bounds hold for the buffer of "\t\n", and the run on
-- that input ends in a positioned error (hypothesis of C19_lex_errors_positioned); a clean run
example : Sentinel #[9, 10, 0, 0] 2 := ⟨by decide, by
  intro i h hi
  have : i = 2 ∨ i = 3 := by simp at h; omega
  rcases this with h | h <;> subst h <;> rfl⟩
example : (lexAll #[9, 10]).2 = some (.fail 0 .tabs) := by decide +kernel
example : (lexAll "x = [\n  1,\n]\n".toUTF8.data).2 = none := by decide +kernel

/-! ## Part 2: the parser (`AspParse.parseFile`, the model of parseFileInput) -/
open PlzVerif.AspParse

def errOf {α : Type} : Except PErr α → Option PErr
  | .ok _ => none
  | .error e => some e

/-- The defect that was repaired (finding concat-string-bare-fstring, fixed in /repo): on the code *without*
    the `len(rhs.FString.Vars) == 0` test, a plain string literal followed by an f-string without
    `{variable}`s made concatStrings index `Vars[0]` of an empty slice — a Go runtime error without a
    position — and that was the only way it could fail at that index. -/
theorem C19_old_concat_runtime_iff (k1 k2 : VKind) :
    concatKindsWith false true k1 k2 = .error (.runtime 0) ↔ k1 = .plain ∧ k2 = .fstr 0 := by
  cases k1 <;> cases k2 <;> simp [concatKindsWith]
  split <;> simp

/-- The other guard of concatStrings (both operands f-strings, grammar_parse.go:433) is a fact too: without it
    `f"a" f"b"` would index `Vars[0]` of an empty slice in the same way. -/
theorem C19_unguarded_both_runtime_iff (k1 k2 : VKind) :
    concatKindsWith true false k1 k2 = .error (.runtime 0) ↔ (∃ m, k1 = .fstr m) ∧ k2 = .fstr 0 := by
  cases k1 <;> cases k2 <;> simp [concatKindsWith]

/-- On the repaired code concatStrings cannot fail on two string values. -/
theorem C19_concat_total (k1 k2 : VKind) (h1 : k1 ≠ .other) (h2 : k2 ≠ .other) :
    ∃ r, concatKinds k1 k2 = .ok r ∧ r ≠ .other := by
  have h := concat_good h1 h2
  cases hc : concatKinds k1 k2 with
  | ok r => rw [hc] at h; exact ⟨r, rfl, h⟩
  | error e =>
    rw [hc] at h
    have hg := C19_concat_guard_ok
    rcases h.2 with h' | h'
    · rw [h'] at hg; cases hg.1
    · rw [h'] at hg; cases hg.2

-- the former witness now parses (corpus/C19/fixed-concat-string-bare-fstring.ops replays it on the real parser)
example : errOf (parseFile "x = \"a\" f\"b\"\n".toUTF8.data) = none := by decide +kernel

/-- parse_total.  The fuel `parseFile` hands out (a multiple of the token-level progress measure of the
    lexer at the start) is never exhausted: every call chain of the grammar consumes a token or descends
    in rank. -/
theorem C19_parse_total (data : Bytes) : errOf (parseFile data) ≠ some .outOfFuel := by
  have h := parseFile_spec data C19_sentinels_ok
  cases hp : parseFile data with
  | ok v => simp [errOf]
  | error e =>
    rw [hp] at h
    simp only [errOf]
    intro he
    cases he
    exact h

/-- The parser never drives the lexer out of its buffer: it consumes the EOF token at most once, and then
    fails at once (`parseFile_spec`; cf. `C19_next_at_buffer_end_is_oob` for what a further `Next()` would do). -/
theorem C19_parse_in_bounds (data : Bytes) :
    (∀ i, errOf (parseFile data) ≠ some (.lex (.oob i))) ∧ errOf (parseFile data) ≠ some (.lex .emptyStack) := by
  have h := parseFile_spec data C19_sentinels_ok
  cases hp : parseFile data with
  | ok v => simp [errOf]
  | error e =>
    rw [hp] at h
    simp only [errOf]
    constructor
    · intro i he
      cases he
      obtain ⟨p, m, hpm, _⟩ := h
      cases hpm
    · intro he
      cases he
      obtain ⟨p, m, hpm, _⟩ := h
      cases hpm

/-- parse_errors.  Whatever makes parsing stop carries a position: it is a positioned lexer error inside the
    input, or a positioned parser error (inside the input, or the f-string brace error whose position is
    computed inside the token).  No runtime error, no unpositioned error, for any byte string. -/
theorem C19_parse_errors (data : Bytes) (e : PErr) (h : parseFile data = .error e) :
    (∃ pos msg, e = .lex (.fail pos msg) ∧ pos ≤ inputEnd data) ∨
    (∃ pos kind, e = .fail pos kind ∧ (pos ≤ inputEnd data ∨ kind = .fbrace)) := by
  have hs := parseFile_spec data C19_sentinels_ok
  rw [h] at hs
  cases e with
  | lex le =>
    obtain ⟨p, m, hpm, hp⟩ := hs
    exact Or.inl ⟨p, m, by rw [hpm], hp⟩
  | fail p k => exact Or.inr ⟨p, k, rfl, hs⟩
  | runtime s =>
    have hg := C19_concat_guard_ok
    rcases hs.2 with h' | h'
    · rw [h'] at hg; cases hg.1
    · rw [h'] at hg; cases hg.2
  | outOfFuel => exact absurd hs (by simp [GoodErr])

-- the neighbouring shapes parse: f-string first, or an f-string with a variable after the plain string
-- non-vacuity of `C19_parse_errors`: parser (not lexer) errors, positioned
example : errOf (parseFile "x = )\n".toUTF8.data) = some (.fail 4 .value) := by decide +kernel
example : errOf (parseFile "x = f\"{a\"\n".toUTF8.data) = some (.fail 6 .fbrace) := by decide +kernel
example : errOf (parseFile "x = f\"a\" \"b\"\n".toUTF8.data) = none := by decide +kernel
example : errOf (parseFile "x = \"a\" f\"{b}\"\n".toUTF8.data) = none := by decide +kernel

end PlzVerif.Props.C19
