import PlzVerif.Model.AspInterp
import PlzVerif.Lemmas.AspFreeze
import PlzVerif.Model.AspGenerated
/-!
C18  Frozen (imported) values behave like ordinary values.

In the asp model a list imported through `subinclude` is `Val.list true …` (a `pyFrozenList` wrapper around the
same slice), a dict `Val.dict true …`.  "Behaves like an ordinary value" = every operation gives the same result
on `Val.list true a o l c` as on `Val.list false a o l c`.

* full statement `Transparent` (a program over `X` gives the same globals whether `X` is defined in the file or
  imported): refuted by witnesses for `==`, for the native builtins that assert `.(pyList)`, and for the type
  switches that list `pyList` only (slice, unpack, `int * list`, …) — three known findings;
* what holds for all states and arguments: indexing, `in`, `len`, iteration, `+` (either side) and `list * int` do
  not look at the wrapper at all; `==` looks at nothing but the wrapper (`C18_eq_partial`); and every native builtin
  for which the regenerated table says "asserts no pyList, or unwraps pyFrozenList itself" accepts a frozen list
  exactly as it accepts the unfrozen one (`C18_builtins_partial`) — so a repaired builtin is covered as soon
  as the table changes.
-/
namespace PlzVerif.Props.C18
open PlzVerif.Asp PlzVerif.Generated

abbrev raw : RawFacts := genRaw
abbrev F : Facts := genF

/-- Builtins of the model that take a list argument. -/
def listBuiltins : List String := ["sorted", "reversed", "enumerate", "zip", "any", "all", "min", "max"]

/-- Side condition on the regenerated table: every builtin the model uses has a row, and `==` is one of the two
    implementations the model knows. -/
def FactsOK : Bool :=
  (listBuiltins ++ ["len", "join", "map", "filter", "reduce"]).all (fun n => raw.natives.any (·.1 == n)) &&
  (raw.equalVia == "reflect.DeepEqual") &&
  -- `type pyFrozenList struct { pyList }` and the wrapper redefines nothing the transparent operations go through
  -- (Operator, Len, IsTruthy, Type, the iteration): that is why they cannot tell the wrapper from the list
  raw.frozenListEmbedsList &&
  -- both branches of list `+` clip the RESULT: a sum never has spare capacity, whether the right operand is frozen or not
  raw.listAddClips && raw.listAddFrozenClipsResult &&
  raw.frozenListMethods.all (fun m => ["Freeze", "IndexAssign", "MarshalJSON", "String"].contains m)

theorem C18_facts_ok : FactsOK = true := by decide

/-! ### The full statement and its witnesses -/

def label : String := "//fz:d"

def globalsOfRun (r : Except String (List (String × Globals) × List (String × Globals))) : Option Globals :=
  match r with
  | .ok ([(_, g)], _) => some g
  | _ => none

/-- `X = v` defined in the package file itself, then the program (asp model at the facts `F'`). -/
def localRunF (F' : Facts) (fuel : Nat) (v : Expr) (prog : Program) :=
  runPackages F' fuel [] [("p", Stmt.assign "X" v :: prog)]

/-- `X = v` defined in a subincluded file (so `X` arrives frozen), then the program. -/
def importedRunF (F' : Facts) (fuel : Nat) (v : Expr) (prog : Program) :=
  runPackages F' fuel [(label, [Stmt.assign "X" v])]
    [("p", Stmt.expr (.call "subinclude" [(none, .str label)]) :: prog)]

/-- … at the facts of this run. -/
def localRun (fuel : Nat) (v : Expr) (prog : Program) := localRunF F fuel v prog
def importedRun (fuel : Nat) (v : Expr) (prog : Program) := importedRunF F fuel v prog

def errorOf {α : Type} : Except String α → Option String
  | .error e => some e
  | .ok _ => none

/-- The program over `X` evaluates on the locally defined value, and evaluates differently (or not at all) on the
    imported one.  (`false` when the local run fails; the witnesses below say which of the two cases they are.) -/
def differsF (F' : Facts) (fuel : Nat) (v : Expr) (prog : Program) : Bool :=
  match globalsOfRun (localRunF F' fuel v prog), globalsOfRun (importedRunF F' fuel v prog) with
  | some g, some g' => !(g == g')
  | some _, none => true
  | none, _ => false

def differs (fuel : Nat) (v : Expr) (prog : Program) : Bool := differsF F fuel v prog

/-- C18 at full strength. -/
def Transparent : Prop := ∀ (fuel : Nat) (v : Expr) (prog : Program), differs fuel v prog = false

def vList : Expr := .list 1 [.int 3, .int 1, .int 2]
def vDict : Expr := .dict [(.str "a", .int 1)]

/-- `r = X == [3, 1, 2]` -/
def wEq : Program := [.assign "r" (.chain none (.name "X") [(.eq, none, .list 2 [.int 3, .int 1, .int 2])])]
/-- `r = X == {"a": 1}` -/
def wDictEq : Program := [.assign "r" (.chain none (.name "X") [(.eq, none, .dict [(.str "a", .int 1)])])]
/-- `r = sorted(X)` -/
def wSorted : Program := [.assign "r" (.call "sorted" [(none, .name "X")])]
/-- `r = X[0:1]` -/
def wSlice : Program := [.assign "r" (.slice (.name "X") (some (.int 0)) (some (.int 1)))]
/-- `r = len(X) + X[0]`, `q = 1 in X`, `w = X + [4]` — these do not differ -/
def okProg : Program :=
  [.assign "r" (.chain none (.call "len" [(none, .name "X")]) [(.add, none, .index (.name "X") (.int 0))]),
   .assign "q" (.chain none (.int 1) [(.in_, none, .name "X")]),
   .assign "w" (.chain none (.name "X") [(.add, none, .list 2 [.int 4])])]

set_option maxRecDepth 100000 in
/-- `==`: both runs succeed, with different values of `r` (`True` locally, `False` on the imported list). -/
theorem C18_witness_eq :
    differs 60 vList wEq = true ∧
    (globalsOfRun (localRun 60 vList wEq)).isSome = true ∧ (globalsOfRun (importedRun 60 vList wEq)).isSome = true := by
  decide +kernel

set_option maxRecDepth 100000 in
/-- … the same for a dict: `reflect.DeepEqual(pyFrozenDict{…}, pyDict{…})` is false. -/
theorem C18_witness_dict_eq :
    differs 60 vDict wDictEq = true ∧
    (globalsOfRun (localRun 60 vDict wDictEq)).isSome = true ∧
    (globalsOfRun (importedRun 60 vDict wDictEq)).isSome = true := by
  decide +kernel

/-- The facts before `fix: builtins accept frozen lists`: every list builtin asserted `.(pyList)`. -/
def oldBuiltins : Facts := { F with frozenOK := fun n => if listBuiltins.contains n then false else F.frozenOK n }

set_option maxRecDepth 100000 in
/-- `sorted` **before the repair**: the local run succeeds, the imported one fails in the builtin's own type
    assertion. -/
theorem C18_old_builtin_asserts_pylist :
    differsF oldBuiltins 60 vList wSorted = true ∧ (globalsOfRun (localRunF oldBuiltins 60 vList wSorted)).isSome = true ∧
    errorOf (importedRunF oldBuiltins 60 vList wSorted) = some "Argument seq must be a list, not list" := by
  decide +kernel

set_option maxRecDepth 100000 in
/-- … and today: both runs succeed with the same globals. -/
theorem C18_fixed_builtin_sample :
    differs 60 vList wSorted = false ∧ (globalsOfRun (localRun 60 vList wSorted)).isSome = true ∧
    (globalsOfRun (importedRun 60 vList wSorted)).isSome = true := by
  decide +kernel

set_option maxRecDepth 100000 in
/-- slicing: the local run succeeds, the imported one fails in `interpretSlice`'s type switch. -/
theorem C18_witness_type_switch :
    differs 60 vList wSlice = true ∧ (globalsOfRun (localRun 60 vList wSlice)).isSome = true ∧
    errorOf (importedRun 60 vList wSlice) = some "Unsliceable type list" := by
  decide +kernel

set_option maxRecDepth 100000 in
/-- A program made of transparent operations: both runs succeed with the same globals. -/
theorem C18_sample_transparent_program :
    differs 60 vList okProg = false ∧ (globalsOfRun (localRun 60 vList okProg)).isSome = true ∧
    (globalsOfRun (importedRun 60 vList okProg)).isSome = true := by
  decide +kernel

theorem C18_main_fails : ¬ Transparent := by
  intro h; have := h 60 vList wEq; rw [C18_witness_eq.1] at this; cases this

/-! ### What holds -/

/-- **Operations that never look at the wrapper**: index, `in` / `not in`, `len`, iteration, and `+` with the
    frozen list on either side (and `list * int`), in every state. -/
theorem C18_transparent_ops (a o l c : Nat) (idx item : Val) (neg : Bool) (F' : Facts) (other : Val) (n : Int) :
    indexOp (.list true a o l c) idx = indexOp (.list false a o l c) idx ∧
    inOp neg (.list true a o l c) item = inOp neg (.list false a o l c) item ∧
    objLen (.list true a o l c) = objLen (.list false a o l c) ∧
    iterOf (.list true a o l c) = iterOf (.list false a o l c) ∧
    binOp F' .add (.list true a o l c) other = binOp F' .add (.list false a o l c) other ∧
    binOp F' .mul (.list true a o l c) (.int n) = binOp F' .mul (.list false a o l c) (.int n) :=
  ⟨rfl, rfl, rfl, rfl, rfl, rfl⟩

/-- `+` with the frozen list on the **right**: the same sum as with the plain list when `pyList.Operator` has its
    branch for a `pyFrozenList` operand and that branch clips its result like the plain one (regenerated facts
    `addAcceptsFrozen`, `addFrozenClipsResult`); without the branch the sum fails, in every state. -/
theorem C18_add_frozen_right (F' : Facts) (a o l c a2 o2 l2 c2 : Nat) :
    (F'.addAcceptsFrozen = true → F'.addFrozenClipsResult = true →
      binOp F' .add (.list false a2 o2 l2 c2) (.list true a o l c)
        = binOp F' .add (.list false a2 o2 l2 c2) (.list false a o l c)) ∧
    (F'.addAcceptsFrozen = false → ∀ st,
      (binOp F' .add (.list false a2 o2 l2 c2) (.list true a o l c)).run st = .error "Cannot add list and list") := by
  constructor
  · intro h h2; simp [binOp, h, h2]
  · intro h st; simp [binOp, h]; rfl

/-- Today the branch is there. -/
theorem C18_add_frozen_right_today : F.addAcceptsFrozen = true := by decide

/-! ### Two values derived from one sum: the sum must not have spare capacity -/

/-- **`plain + imported` is `plain + local`** when the frozen branch is there and clips its result (regenerated
    facts `addAcceptsFrozen`, `addFrozenClipsResult`): the same computation, in every state. -/
theorem C18_add_frozen_right_clipped (F' : Facts) (h1 : F'.addAcceptsFrozen = true) (h2 : F'.addFrozenClipsResult = true)
    (a o l c a2 o2 l2 c2 : Nat) :
    binOp F' .add (.list false a2 o2 l2 c2) (.list true a o l c)
      = binOp F' .add (.list false a2 o2 l2 c2) (.list false a o l c) := by
  simp [binOp, h1, h2]

/-- the result of `listAppend` never has spare capacity -/
theorem listAppend_no_spare (F' : Facts) (arr off len cap : Nat) (ys : List Val) (st st' : St) (v : Val)
    (h : (listAppend F' arr off len cap ys).run st = .ok (v, st')) : ∃ a o n, v = .list false a o n n := by
  unfold listAppend at h
  by_cases ha : F'.addAppends = true
  · simp only [ha, if_true] at h
    by_cases hn : (ys.length == 0) = true
    · simp only [hn, if_true] at h; rw [run_pure_ok] at h; cases h; exact ⟨_, _, _, rfl⟩
    · simp only [hn, Bool.false_eq_true, if_false] at h
      by_cases hc : len + ys.length ≤ cap
      · simp only [hc, if_true] at h
        rw [run_bind_ok] at h; obtain ⟨u, s1, _, h⟩ := h
        rw [run_pure_ok] at h; cases h; exact ⟨_, _, _, rfl⟩
      · simp only [hc, if_false] at h
        rw [run_bind_ok] at h; obtain ⟨xs, s1, _, h⟩ := h
        unfold mkList at h
        rw [run_bind_ok] at h; obtain ⟨a, s2, _, h⟩ := h
        rw [run_pure_ok] at h; cases h; exact ⟨_, _, _, rfl⟩
  · simp only [ha, Bool.false_eq_true, if_false] at h
    rw [run_bind_ok] at h; obtain ⟨xs, s1, _, h⟩ := h
    unfold mkList at h
    rw [run_bind_ok] at h; obtain ⟨a, s2, _, h⟩ := h
    rw [run_pure_ok] at h; cases h; exact ⟨_, _, _, rfl⟩

/-- **Two-step derivations are safe under the fact**: with `addFrozenClipsResult`, the sum `x = plain + imported` has no
    spare capacity, so every later `x + ys` only extends the heap — `y = x + [a]` cannot be overwritten by
    `z = x + [b]` (all states, all lists). -/
theorem C18_sum_with_frozen_then_add_never_writes (F' : Facts) (h2 : F'.addFrozenClipsResult = true)
    (a o l c a2 o2 l2 c2 : Nat) (st st' : St) (x : Val)
    (hx : (binOp F' .add (.list false a2 o2 l2 c2) (.list true a o l c)).run st = .ok (x, st')) :
    (∃ ax ox n, x = .list false ax ox n n) ∧
    ∀ (fz3 : Bool) (a3 o3 l3 c3 : Nat) (st'' : St) (y : Val),
      (binOp F' .add x (.list fz3 a3 o3 l3 c3)).run st' = .ok (y, st'') → Ext st' st'' := by
  have hshape : ∃ ax ox n, x = .list false ax ox n n := by
    simp only [binOp, h2] at hx
    split at hx
    · exact absurd hx (fail_run _ _ _)
    · rw [run_bind_ok] at hx; obtain ⟨ys, s1, h1, hx⟩ := hx
      simp only [Bool.not_true, Bool.and_false, Bool.false_eq_true, if_false] at hx
      exact listAppend_no_spare F' _ _ _ _ ys _ _ x hx
  refine ⟨hshape, ?_⟩
  obtain ⟨ax, ox, n, rfl⟩ := hshape
  intro fz3 a3 o3 l3 c3 st'' y hy
  simp only [binOp, h2] at hy
  split at hy
  · exact absurd hy (fail_run _ _ _)
  · rw [run_bind_ok] at hy; obtain ⟨ys, s1, h1, hy⟩ := hy
    have := (elems_run h1).1; subst this
    simp only [Bool.not_true, Bool.and_false, Bool.false_eq_true, if_false] at hy
    exact listAppend_exact_cap F' ax ox n ys _ _ y hy

/-- `x = [5, 6, 7, 8] + X; y = x + [101]; z = x + [202]; r = y` -/
def wTwoDerived : Program :=
  [.assign "x" (.chain none (.list 2 [.int 5, .int 6, .int 7, .int 8]) [(.add, none, .name "X")]),
   .assign "y" (.chain none (.name "x") [(.add, none, .list 3 [.int 101])]),
   .assign "z" (.chain none (.name "x") [(.add, none, .list 4 [.int 202])]),
   .assign "r" (.name "y")]

/-- The facts of a frozen branch that clips its first argument instead of its result. -/
def unclipped : Facts := { F with addFrozenClipsResult := false }

set_option maxRecDepth 100000 in
/-- **The fact is necessary**: with `append(slices.Clip(l), l2.pyList...)` the sum of 4 + 3 elements gets capacity 8,
    `y` and `z` share the eighth slot, and on the imported `X` (only there) `y` ends in 202; today both runs give 101. -/
theorem C18_witness_unclipped_sum :
    differsF unclipped 60 vList wTwoDerived = true ∧
    (globalsOfRun (localRunF unclipped 60 vList wTwoDerived)).isSome = true ∧
    (globalsOfRun (importedRunF unclipped 60 vList wTwoDerived)).isSome = true ∧
    differs 60 vList wTwoDerived = false ∧ (globalsOfRun (importedRun 60 vList wTwoDerived)).isSome = true := by
  decide +kernel

/-- The same for dicts: index, `in`, `len`, `|` with the frozen dict on the left. -/
theorem C18_transparent_dict_ops (d : Nat) (idx item : Val) (neg : Bool) (F' : Facts) (other : Val) :
    indexOp (.dict true d) idx = indexOp (.dict false d) idx ∧
    inOp neg (.dict true d) item = inOp neg (.dict false d) item ∧
    objLen (.dict true d) = objLen (.dict false d) ∧
    binOp F' .union (.dict true d) other = binOp F' .union (.dict false d) other :=
  ⟨rfl, rfl, rfl, rfl⟩

/-- **`==` looks at nothing but the wrapper**: comparing two lists, the only influence of the frozen flags is
    that different flags (different Go types under `reflect.DeepEqual`) make the result `false`. -/
theorem C18_eq_partial (n : Nat) (f1 f2 : Bool) (a1 o1 l1 c1 a2 o2 l2 c2 : Nat) :
    deepEq (n + 1) (.list f1 a1 o1 l1 c1) (.list f2 a2 o2 l2 c2) =
      (if f1 != f2 then pure false else deepEq (n + 1) (.list false a1 o1 l1 c1) (.list false a2 o2 l2 c2)) := by
  cases f1 <;> cases f2 <;> simp [deepEq]

-- both branches occur: [3,1,2] frozen vs. unfrozen, and frozen vs. frozen
example : ((deepEq 5 (.list true 1 0 3 3) (.list false 1 0 3 3)).run { arrays := [[], [.int 3, .int 1, .int 2]] }).toOption.map (·.1)
    = some false := by decide +kernel
example : ((deepEq 5 (.list true 1 0 3 3) (.list true 1 0 3 3)).run { arrays := [[], [.int 3, .int 1, .int 2]] }).toOption.map (·.1)
    = some true := by decide +kernel

/-- **Lifting lemma for the assertion pattern `args[i].(pyList)`**: a builtin that the regenerated table marks as
    accepting frozen lists obtains the same slice from the frozen wrapper as from the plain list. -/
theorem C18_builtins_partial (F' : Facts) (name what : String) (h : F'.frozenOK name = true) (a o l c : Nat) :
    asListFor F' name what (.list true a o l c) = asListFor F' name what (.list false a o l c) := by
  simp [asListFor, h]

theorem range2 : List.range 2 = [0, 1] := by decide
theorem range3 : List.range 3 = [0, 1, 2] := by decide

/-- **Lifted to the builtins themselves**: for every list-taking builtin of the model, once the table says it
    accepts frozen lists, the whole call gives the same computation (result, effects, errors) on the frozen
    wrapper as on the plain list — for all facts records, heaps and slices. -/
theorem C18_builtins_lifted (F' : Facts) (name : String) (hn : name ∈ listBuiltins)
    (h : F'.frozenOK name = true) (a o l c : Nat) :
    callBuiltin F' name [(none, .list true a o l c)] = callBuiltin F' name [(none, .list false a o l c)] := by
  simp only [listBuiltins, List.mem_cons, List.mem_nil_iff, or_false] at hn
  rcases hn with rfl | rfl | rfl | rfl | rfl | rfl | rfl | rfl <;>
    simp [callBuiltin, builtinSig, bindNative, bindNative.go, bindNative.fill, validate, hasTy, asListFor, h,
      range2, range3, callBuiltin.lens]

-- the hypothesis is satisfiable: today's table
example : F.frozenOK "sorted" = true := by decide

/-- … and one that the table marks as asserting `pyList` rejects the frozen wrapper, in every state (none today;
    `oldBuiltins` is such a record). -/
theorem C18_builtins_reject (F' : Facts) (name what : String) (h : F'.frozenOK name = false) (a o l c : Nat) (st : St) :
    ∃ e, (asListFor F' name what (.list true a o l c)).run st = .error e := by
  refine ⟨s!"{what} must be a list, not list", ?_⟩
  simp [asListFor, h, fail, StateT.run, throw, throwThe, MonadExceptOf.throw, StateT.lift, bind, Except.bind]

/-- Which list-taking builtins accept a frozen list today, read off the regenerated table.  (`map`, `filter` and
    `reduce` call back into the interpreter and are not part of the Lean interpreter model: their rows are checked
    here, their behaviour by the direct oracle of the harness only.) -/
def acceptsFrozenToday : List (String × Bool) :=
  (listBuiltins ++ ["map", "filter", "reduce", "len", "join"]).map fun n => (n, F.frozenOK n)

/-- The table as extracted from the pinned source: every list-taking builtin goes through `asList` (or, `join`,
    through `asStringList`) and accepts a frozen list. -/
theorem C18_table_today :
    acceptsFrozenToday = [("sorted", true), ("reversed", true), ("enumerate", true), ("zip", true),
      ("any", true), ("all", true), ("min", true), ("max", true), ("map", true), ("filter", true),
      ("reduce", true), ("len", true), ("join", true)] := by decide

/-- **Every list builtin of the model is transparent today**: the whole call gives the same computation on the
    frozen wrapper as on the plain list — all heaps, all slices (`C18_builtins_lifted` at today's table). -/
theorem C18_builtins_transparent (name : String) (hn : name ∈ listBuiltins) (a o l c : Nat) :
    callBuiltin F name [(none, .list true a o l c)] = callBuiltin F name [(none, .list false a o l c)] := by
  have h : F.frozenOK name = true := by
    simp only [listBuiltins, List.mem_cons, List.mem_nil_iff, or_false] at hn
    rcases hn with rfl | rfl | rfl | rfl | rfl | rfl | rfl | rfl <;> decide
  exact C18_builtins_lifted F name hn h a o l c

end PlzVerif.Props.C18
