import PlzVerif.Lemmas.FmtSimplify
import PlzVerif.Model.AspLex
import PlzVerif.Generated.C38
/-!
C38  `plz fmt` never changes what a BUILD file means.

The formatter proper is the third-party `buildtools` library and is not modelled: it is validated per
program by the harness (evaluate before / after with the real asp, compare token streams through the lexer
model, second pass = identity).  What is proved here is please's own step between parsing and printing,
`simplify` (src/format/fmt.go:90), which merges consecutive string-only `subinclude` calls: it keeps the
meaning of the statement list under `subinclude(a, b) ≡ subinclude(a); subinclude(b)`, and it is idempotent.
All theorems are stated for the loop exactly as written in fmt.go (`simplifyLoop`).
-/
namespace PlzVerif.Props.C38
open PlzVerif.FmtSimplify PlzVerif.Generated

/-- Side condition on the regenerated facts: the pipeline is parse → simplify → print (and the
    "already formatted" test compares the printed bytes), the loop runs from `len-2` down to `0`, tests
    elements `i` and `i+1`, appends the later call's arguments to the earlier one's and deletes element
    `i+1`; `subinclude()` accepts only calls named `subinclude` whose arguments are all string literals. -/
def FactsOK : Bool :=
  C38.formatPipeline == ["build.ParseBuild", "simplify", "build.Format", "bytes.Equal", "fs.WriteFile"] &&
  C38.loopInit == "i:=len(f.Stmt)-2" && C38.loopCond == "i>=0" && C38.loopPost == "i--" &&
  C38.subincludeTests == ["f.Stmt[i]", "f.Stmt[i+1]"] && C38.appendRoles == ["cur.List,next.List"] &&
  C38.deleteRanges == ["i+1,i+2"] && C38.ifDepth == 2 &&
  C38.subincludeName == "subinclude" && C38.subincludeArgType == "*build.StringExpr" &&
  C38.subincludeNilReturns == 2

theorem C38_facts_ok : FactsOK = true := by decide

/-- The index loop of fmt.go is the structural "merge from the right". -/
theorem C38_simplify_loop_eq (s : List Stmt) : simplifyLoop s = simplify s := simplifyLoop_eq s

/-- simplify_preserves.  For every interpretation of "include one label" and of the other statements,
    running the simplified list from any state gives the same state as running the original list. -/
theorem C38_simplify_preserves {σ : Type} (incl : σ → String → σ) (run : Nat → σ → σ) (s : List Stmt) (st : σ) :
    exec incl run (simplifyLoop s) st = exec incl run s st := by
  rw [simplifyLoop_eq]; exact exec_simplify incl run s st

/-- … in particular the sequence of included labels, with every other statement as a barrier, is unchanged. -/
theorem C38_simplify_preserves_labels (s : List Stmt) : flatten (simplifyLoop s) = flatten s := by
  rw [simplifyLoop_eq]; exact flatten_simplify s

/-- simplify_idem.  A second pass changes nothing. -/
theorem C38_simplify_idem (s : List Stmt) : simplifyLoop (simplifyLoop s) = simplifyLoop s := by
  rw [simplifyLoop_eq, simplifyLoop_eq]; exact simplify_idem s

/-- After one pass no two mergeable subincludes are adjacent (all merging is done in one pass). -/
theorem C38_simplify_complete (s : List Stmt) : NoAdjacent (simplifyLoop s) := by
  rw [simplifyLoop_eq]; exact noAdjacent_simplify s

/-- … and a list that already has that shape is left alone (formatting a formatted file: this step is the
    identity). -/
theorem C38_simplify_fixpoint (s : List Stmt) (h : NoAdjacent s) : simplifyLoop s = s := by
  rw [simplifyLoop_eq]; exact simplify_of_noAdjacent s h

-- non-vacuity
example : simplifyLoop [.sub ["//a:b"], .sub ["//c:d", "//e:f"], .other 0, .sub [], .sub ["//g:h"]] =
    [.sub ["//a:b", "//c:d", "//e:f"], .other 0, .sub ["//g:h"]] := by decide
example : NoAdjacent [.sub ["//a:b"], .other 0, .sub ["//c:d"]] := by simp [NoAdjacent]

/-! ### Witnesses on the lexer model for two of the known findings of the translation validation

The formatter itself is not modelled, but what makes its output unacceptable to Please is a property of the
asp lexer, and that is: -/
open PlzVerif.AspLex

/-- fmt-backslash-continuation: buildtools prints adjacent string literals as `"a" \` + newline + `"b"`; asp has
    no backslash continuation — the lexer fails with "Unknown symbol \" at the backslash. -/
theorem C38_witness_backslash_not_lexed :
    (lexAll "x = \"a\" \\\n\"b\"\n".toUTF8.data).2 = some (.fail 8 (.unknownSymbol 92)) := by decide +kernel

/-- fmt-negative-octal: `-(0o17)` is printed as `-0o17`; the lexer glues `-` to the digits without the `0o`
    case, so the text lexes as the integer `-0` followed by the identifier `o17`. -/
theorem C38_witness_negative_octal :
    ((lexAll "-0o17\n".toUTF8.data).1.toList.map (fun t => (t.ty, t.val))).take 2 =
      [(.int, "-0".toUTF8.data), (.ident, "o17".toUTF8.data)] := by decide +kernel

end PlzVerif.Props.C38
