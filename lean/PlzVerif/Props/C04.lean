import PlzVerif.Lemmas.Sched
import PlzVerif.Lemmas.SchedFacts
import PlzVerif.Lemmas.SchedRun
import PlzVerif.Generated.C04
/-!
C04  Each action runs once, and only after its dependencies succeeded.

Model: `Model/Sched.lean` — one `Action` per atomic action of `queueResolvedTarget`, `queueTargetAsync`,
`addPendingBuild`, `taskDone`, `Stop`, the dispatcher/worker goroutines of `plz.Run` and `build.Build`.
All theorems are over `Reach`: every dependency relation `deps` (diamonds, fan-in, cycles even), every number of
workers, activations arriving from anywhere at any time, every interleaving.

`deps` is the *resolved* dependency relation: declared dependencies after require/provide resolution (one declared
dependency may stand for several targets) together with the dependencies that post-build functions of other targets
attach while the target waits (`add_dep`); the harness and the driver compute it that way (`EffDeps` / `effDeps`), so the
acceptor rejects a start of the target before the end of a late-attached dependency.

Scope (what the model leaves out, stated once): local execution only (`runRemotely = false`: on the remote path
build_step.go:362-376 logs `TargetBuilt` and a failing `EnsureDownloaded` then logs a failure as well — a second
terminal report); no `--prepare`/`--shell` (`errStop`: `SetState(Stopped)` without `FinishBuild`, build_step.go:67-70,
so no action produces `.stopped`); no test steps (test_step.go:288 moves Built → Stopped); no post-build functions;
`buildTarget` is one `workerOk`/`workerFail` step (its state changes and reports are pinned by the `sk_buildTarget` fact).
-/
namespace PlzVerif.Props.C04
open PlzVerif.Sched

/-! ## The model is the code: regenerated facts -/

open PlzVerif.Sched.Facts PlzVerif.Generated in
/-- What the extractor read from /repo on this run is what the model was transcribed from: the state enum in
    order, `IsBuilt`, `State`/`SetState`/`SyncUpdateState` as atomic load/store/CAS, `FinishBuild`/`WaitForBuild` as
    close/receive on `finishedBuilding`, the four CAS pairs, and the scheduling skeletons of
    `queueResolvedTarget`, `queueTargetAsync`, `addPendingBuild`, `taskDone`, `Stop`, `asyncError`, `build.Build`
    and the dispatcher/worker loops of `plz.Run`. -/
def FactsOK : Prop :=
  C04.enumOrder = modelEnumOrder ∧ C04.btIsBuilt = expected_btIsBuilt ∧ C04.btState = expected_btState ∧
  C04.btSetState = expected_btSetState ∧ C04.btSyncUpdateState = expected_btSyncUpdateState ∧
  C04.btFinishBuild = expected_btFinishBuild ∧ C04.btWaitForBuild = expected_btWaitForBuild ∧
  C04.casPairs = expectedCasPairs ∧
  C04.sk_queueResolvedTarget = expected_sk_queueResolvedTarget ∧
  C04.sk_queueTargetAsync = expected_sk_queueTargetAsync ∧ C04.sk_addPendingBuild = expected_sk_addPendingBuild ∧
  C04.sk_taskDone = expected_sk_taskDone ∧ C04.sk_Stop = expected_sk_Stop ∧
  C04.sk_asyncError = expected_sk_asyncError ∧ C04.sk_Build = expected_sk_Build ∧ C04.sk_Run = expected_sk_Run ∧
  C04.sk_buildTarget = expected_sk_buildTarget ∧ C04.initFacts = expectedInitFacts ∧
  C04.waitLoop = expectedWaitLoop ∧ C04.waitSkip = none

/-- Obligation a code change can break (each equation is between two literals: `rfl` checks it, and fails to
    check when the extracted text differs). -/
theorem C04_facts_ok : FactsOK :=
  ⟨by decide, rfl, rfl, rfl, rfl, rfl, rfl, by decide, rfl, rfl, rfl, rfl, rfl, rfl, rfl, rfl, rfl, rfl, rfl, rfl⟩

open PlzVerif.Sched.Facts in
/-- …and the model agrees with those facts where it can be asked: `rank` is the enum position, the only state
    changes `queueResolvedTarget` / the building queuer can make are the extracted CAS pairs, the early return is
    `State() >= Active && !forceBuild`, `isBuilt` is `Built <= s && s < DependencyFailed`. -/
theorem C04_model_matches_facts :
    rankSorted = true ∧
    ((modelQrtPairs ++ modelQueuerPairs).all (expectedCasPairs.contains ·) &&
      expectedCasPairs.all ((modelQrtPairs ++ modelQueuerPairs).contains ·)) = true ∧
    modelQrtEarlyReturn = expectedQrtEarlyReturn ∧ modelIsBuilt = expectedIsBuilt := by
  refine ⟨by decide, by decide, by decide, by decide⟩

open PlzVerif.Sched.Facts PlzVerif.Generated in
/-- The drivers replay logs through `fireG` instantiated with the wait-loop test extracted from the code (a state
    test before `WaitForBuild` that passes a dependency over, `waitSkip`); for the code at hand there is none, so what
    the drivers run is exactly the `fire` the theorems are about.  (A change such as `if t.State() >= Built { continue }`
    flips the fact: this theorem and `C04_facts_ok` stop checking, while the driver follows the code.) -/
theorem C04_driver_runs_the_model (c : Cfg) (s : St) (a : Action) :
    fireG c (skipOf C04.waitSkip) s a = fire c s a := by
  have : skipOf C04.waitSkip = none := rfl
  rw [this]; exact fireG_none c s a

variable (c : Cfg)

/-- **I1: the build of a target starts at most once** (hence its command runs at most once). -/
theorem C04_runs_at_most_once {s : St} (h : Reach c s) (t : T) : s.starts t ≤ 1 := by
  have hi := reach_inv c h
  by_cases h1 : (s.st t).rank < TS.building.rank ∨ s.st t = .depFailed
  · rw [hi.starts0 t h1]; exact Nat.zero_le 1
  · have : s.starts t = 1 := hi.starts1 t (by omega) (by intro e; exact h1 (.inr e))
    omega

/-- **I2: a build starts only after every dependency has finished building successfully.**
    `workerStart` is the step at which `build.Build` begins (`SetState(Building)`). -/
theorem C04_start_after_deps {s s' : St} (h : Reach c s) (w : Nat) (_hs : fire c s (.workerStart w) = some s')
    (t : T) (hw : s.ws w = some ⟨t, .taken⟩) :
    ∀ d ∈ c.deps t, s.fin d = true ∧ (s.st d).isBuilt = true := by
  have hi := reach_inv c h
  have hp := hi.takenPending w t hw
  exact hi.depsDone t (by rw [hp]; decide) (by rw [hp]; decide)

/-- … and this stays true for as long as the target is pending, building, built or failed. -/
theorem C04_deps_built_while_running {s : St} (h : Reach c s) (t : T)
    (hr : TS.pending.rank ≤ (s.st t).rank) (hd : s.st t ≠ .depFailed) :
    ∀ d ∈ c.deps t, s.fin d = true ∧ (s.st d).isBuilt = true :=
  (reach_inv c h).depsDone t hr hd

/-- **I3: a target that completes is reported exactly once**, as built/cached, failed, or dependency-failed,
    matching its final state; a target that has not completed has no terminal report. -/
theorem C04_reported_exactly_once {s : St} (h : Reach c s) (t : T) :
    s.nres t = (if s.fin t then 1 else 0) ∧ (s.res t).isSome = s.fin t ∧
    (∀ r, s.res t = some r → (r = .failed ↔ s.st t = .failed) ∧ (r = .depFailed ↔ s.st t = .depFailed)) ∧
    s.fin t = (s.st t).terminal :=
  ⟨(reach_inv c h).nresFin t, (reach_inv c h).resSome t, (reach_inv c h).resKind t, (reach_inv c h).finTerm t⟩

/-- a target whose dependency failed is never started -/
theorem C04_no_start_after_failed_dep {s : St} (h : Reach c s) (t d : T) (hd : d ∈ c.deps t)
    (hbad : (s.st d).isBad = true) : s.starts t = 0 := by
  have hi := reach_inv c h
  by_cases h1 : (s.st t).rank < TS.building.rank ∨ s.st t = .depFailed
  · exact hi.starts0 t h1
  · have e3 : TS.pending.rank = 3 := rfl
    have e4 : TS.building.rank = 4 := rfl
    have hb := (hi.depsDone t (by omega) (by intro e; exact h1 (.inr e)) d hd).2
    revert hb hbad
    cases s.st d <;> simp [TS.isBad, TS.isBuilt, TS.rank]

/-- **I4: a target's state only moves forward** in the order of the Go enum. -/
theorem C04_state_monotone {s s' : St} (h : Reach c s) (hs : Step c s s') (t : T) :
    (s.st t).rank ≤ (s'.st t).rank := by
  have hi := reach_inv c h
  obtain ⟨a, ha⟩ := hs
  have := hi.takenPending; have := hi.wBuilding; have := hi.bqActive; have := hi.waitBuilding
  cases a <;> simp only [fire, queuerStep, qrt, spawn, taskDone] at ha <;>
    (repeat' split at ha) <;> (try cases ha) <;>
    (try simp only [upd, Queuer.live] at *) <;> (try grind [TS.rank, TS.isBuilt])

/-- a chain 1 → 0 -/
def chain2 : Cfg := { n := 2, deps := fun t => if t = 1 then [0] else [], needBuild := true }

/-- target 1 requested; its queuer activates 0; 0 is queued, dispatched, built; 1's queuer passes its wait, 1 is
    queued, dispatched and built; every goroutine finishes and `numPending` reaches 0 -/
def chain2Schedule : List Action :=
  [.activate 1 false, .queuer 0, .queuer 0, .queuer 1, .queuer 1, .queuer 1, .take 0, .workerStart 0,
   .workerOk 0 .built false, .workerDone 0, .queuer 0, .queuer 0, .queuer 0, .take 1, .workerStart 1,
   .workerOk 1 .cached true, .workerDone 1, .initDone]

/-- **Non-vacuity in the kernel**: the reachable set contains a run in which both targets are built — each started
    once, the dependency first, each reported once, the queues stopped by `numPending` reaching 0. -/
theorem C04_witness_reachable_finished_build :
    Reach chain2 (after chain2 chain2Schedule) ∧
    (after chain2 chain2Schedule).st 0 = .built ∧ (after chain2 chain2Schedule).st 1 = .cached ∧
    (after chain2 chain2Schedule).starts 0 = 1 ∧ (after chain2 chain2Schedule).starts 1 = 1 ∧
    (after chain2 chain2Schedule).nres 1 = 1 ∧ (after chain2 chain2Schedule).res 1 = some .cached ∧
    (after chain2 chain2Schedule).numPending = 0 ∧ (after chain2 chain2Schedule).stopped = true :=
  ⟨after_reach chain2 _ rfl, rfl, rfl, rfl, rfl, rfl, rfl, rfl, rfl⟩

/-- the scheduler's statement of C04 -/
theorem C04_main {s : St} (h : Reach c s) (t : T) :
    s.starts t ≤ 1 ∧
    (TS.pending.rank ≤ (s.st t).rank → s.st t ≠ .depFailed → ∀ d ∈ c.deps t, s.fin d = true ∧ (s.st d).isBuilt = true) ∧
    s.nres t = (if s.fin t then 1 else 0) :=
  ⟨C04_runs_at_most_once c h t, C04_deps_built_while_running c h t, (reach_inv c h).nresFin t⟩

end PlzVerif.Props.C04
