import PlzVerif.Lemmas.Query
import PlzVerif.Lemmas.QueryRev
import PlzVerif.Lemmas.QuerySP
import PlzVerif.Lemmas.QueryDepsC
import PlzVerif.Lemmas.QueryRevC
import PlzVerif.Model.QueryFacts
/-!
C23  Dependency queries agree with graph reachability.

Specification (Lemmas/Query.lean): a dependency edge between two targets of one rule (same `Label.Parent()`)
costs nothing, every other edge costs one step (`costS`; with `--hidden` every edge costs one);
`WPath G (costS G hidden) a b k` is a non-empty dependency path from `a` to `b` of cost `k`.

* `deps` / `revdeps` with a level limit are SOUND for every graph (everything reported is within the limit)
  but NOT COMPLETE: three concrete witnesses below, each replayed on the real code from corpus/C23/known-*.ops.
  A fourth root cause (`isSameTarget` resolved the parent through the graph, so sub-targets of a rule that is not a
  target never counted as one rule) was repaired in /repo; its shape is an `example` below and corpus/C23/fixed-*.ops.
* `somepath` is sound and complete for every graph (cyclic ones included), the per-target memo included.

The theorems are about the models instantiated with the level bookkeeping read from /repo on this run
(`genCfg`, equal to `Cfg.std` by `C23_facts_ok`).
-/
namespace PlzVerif.Props.C23
open PlzVerif.Query PlzVerif.Generated

/-- Side condition on the regenerated facts (decidable). -/
def FactsOK : Bool :=
  genCfg == Cfg.std && (
  -- deps: cut-off test, iteration, done bookkeeping, the three branches
  C23.depsCutoff == "CUR == LIMIT" &&
  C23.depsIterates == ["DeclaredDependencies", "ProvideFor"] &&
  C23.depsSkip == "!STATE.ShouldInclude(DECLARED) || DONE[PROVIDED]" &&
  C23.depsMark == "DONE[PROVIDED] = true" &&
  C23.depsDepIs == "STATE.Graph.TargetOrDie(PROVIDED)" &&
  C23.depsBranchConds == ["HIDDEN || !DEP.HasParent()", "DEP.Label.Parent() == TARGET.Label.Parent()", "else"] &&
  C23.depsBranchPrints == ["print@+0", "silent", "silent"] && C23.depsAdjustBranch == [] &&
  -- revdeps: FIFO with dedup on push, depth bookkeeping, gate, report, isSameTarget
  C23.revPush == ["!present", "PushBack", "Front"] &&
  C23.revDepthInit == "NEXT.DEPTH" &&
  C23.revIncCond == "R.hidden || !isSameTarget(state.Graph, NEXT.target, T)" &&
  C23.revIncStmt == "DEPTH++" &&
  C23.revGate == "NEXT.DEPTH < R.maxDepth || R.maxDepth == -1" &&
  C23.revReportCond == "DEPTH > 0" &&
  C23.revReportBranches == ["R.hidden || !T.Label.IsHidden()", "PARENT := T.Parent(state.Graph); PARENT != nil"] &&
  C23.revReportWhat == ["ret[T]", "ret[PARENT]"] &&
  C23.revPushCall == "R.os.Push(&node{ target: T, DEPTH: DEPTH, })" &&
  C23.isSameTarget == ["if LHS == RHS { return true }", "return LHS.Label.Parent() == RHS.Label.Parent()"] &&
  C23.revInitDepths == ["0", "0"] && C23.revChildCond == "!HIDDEN && !label.IsHidden()" &&
  -- what the reverse map is, how the walk is seeded (roots and their hidden children at depth 0), the lookup, and the
  -- entry point of deps (one done map shared by all roots, start level 0)
  C23.buildRevdeps ==
    ["F1 := GRAPH.AllTargets()",
     "F2 := make(map[core.BuildLabel][]*core.BuildTarget, len(F1))",
     "for _, v01 := range F1 { for _, v02 := range v01.DeclaredDependencies() { if v03 := GRAPH.Target(v02); v03 == nil { F2[v02] = append(F2[v02], v03) } else { for _, v04 := range v03.ProvideFor(v01) { F2[v04] = append(F2[v04], v01) } } } if SUBREPOS && v01.Subrepo != nil && v01.Subrepo.Target != nil { F2[v01.Subrepo.Target.Label] = append(F2[v01.Subrepo.Target.Label], v01) } }",
     "return F2"] &&
  C23.findRevdepsEntry ==
    ["F1 := newRevdeps(STATE.Graph, HIDDEN, FOLLOW, SUBREPOS, DEPTH)",
     "for _, v01 := range ROOTS { v02 := STATE.Graph.TargetOrDie(v01) F1.os.Push(&node{ v02: v02, DEPTH: 0, }) if !HIDDEN && !v01.IsHidden() { for _, v03 := range STATE.Graph.PackageByLabel(v01).AllTargets() { if v03.Parent(STATE.Graph) == v02 { F1.os.Push(&node{ v02: v03, DEPTH: 0, }) } } } }",
     "return F1.findRevdeps(STATE)"] &&
  C23.revLookup ==
    ["ts := R.revdeps[NEXT.target.Label]"] &&
  C23.depsEntry ==
    ["F1 := map[core.BuildLabel]bool{}",
     "for _, v01 := range ROOTS { deps(OUT, STATE, STATE.Graph.TargetOrDie(v01), F1, LIMIT, 0, HIDDEN, DOT) }"] &&
  -- somepath: guard chain, marking before the loop, iteration, prepending, both directions, memo per target2
  C23.spGuards == ["T1.Label == T2.Label => return []core.BuildLabel{T1.Label}",
    "T1.Parent(GRAPH) == T2 => return []core.BuildLabel{T1.Label}", "SEEN[T1.Label] present => return nil"] &&
  C23.spMark == "SEEN[T1.Label] = struct{}{}" &&
  C23.spLoop == ["DeclaredDependencies", "ProvideFor", "TargetOrDie", "[]core.BuildLabel{T1.Label}"] &&
  C23.spBothOrder == ["AB", "BA"] && C23.spMemoKey == "T2")

set_option maxRecDepth 100000 in
/-- Obligation a code change can break. -/
theorem C23_facts_ok : FactsOK = true := by decide

theorem cfg_std : genCfg = Cfg.std := by
  have h := C23_facts_ok
  simp only [FactsOK, Bool.and_eq_true, beq_iff_eq] at h
  exact h.1

/-! ## deps -/

/-- the targets `plz query deps` prints -/
def depsPrinted (G : Graph) (lim : Limit) (hidden : Bool) (roots : List Nat) : List Nat :=
  (depsAll genCfg G lim hidden roots).out.map Prod.fst

/-- `x` is within the level limit of the query: some queried target reaches it by a non-empty path whose cost
does not exceed the limit -/
def WithinDeps (G : Graph) (lim : Limit) (hidden : Bool) (roots : List Nat) (x : Nat) : Prop :=
  ∃ r ∈ roots, ∃ k, (∀ N, lim = some N → k ≤ N) ∧ WPath G (costS G hidden) r x k

/-- what may be printed at all: hidden sub-targets only with `--hidden` -/
def Printable (G : Graph) (hidden : Bool) (x : Nat) : Prop := hidden = true ∨ hasParent G x = false

/-- Soundness (full): `deps` prints only printable targets within the limit, and the indentation it prints is an
upper bound of the distance. -/
theorem C23_deps_sound (G : Graph) (lim : Limit) (hidden : Bool) (roots : List Nat) (x : Nat)
    (h : x ∈ depsPrinted G lim hidden roots) : Printable G hidden x ∧ WithinDeps G lim hidden roots x := by
  unfold depsPrinted at h
  rw [cfg_std] at h
  simp only [List.mem_map] at h
  obtain ⟨⟨x', lv⟩, he, rfl⟩ := h
  obtain ⟨hp, hl, r, hr, k, hk, p⟩ := depsAll_sound G lim hidden roots _ he
  exact ⟨hp, r, hr, k, fun N hN => Nat.le_trans hk (hl N hN), p⟩

/-- The property as stated for `deps`: exactly the printable targets within the limit. -/
def DepsExact : Prop := ∀ (G : Graph) (lim : Limit) (hidden : Bool) (roots : List Nat) (x : Nat),
  x ∈ depsPrinted G lim hidden roots ↔ (Printable G hidden x ∧ WithinDeps G lim hidden roots x)

/-- witness 1 (known finding `deps-level-first-visit-depth`): a→{b,c}, b→c, c→d, level 2.  `c` is first reached
through `b` at level 1, so `d` falls on the cut-off; `c` is then skipped as done when reached directly from `a`. -/
def gW1 : Graph := { nodes := [0, 1, 2, 3], adj := fun | 0 => [1, 2] | 1 => [2] | 2 => [3] | _ => [], pl := id, hid := fun _ => false }

theorem C23_witness_deps_first_visit :
    Printable gW1 false 3 ∧ WithinDeps gW1 (some 2) false [0] 3 ∧ 3 ∉ depsPrinted gW1 (some 2) false [0] := by
  refine ⟨Or.inr (by decide), ⟨0, by simp, _, ?_, .cons (b := 2) (by decide) (.single (by decide))⟩, by decide⟩
  intro N hN; cases hN; decide

/-- witness 2 (known finding `deps-subtarget-to-own-rule-edge`): `_r#t`→`r`→`x`, level 1 from `_r#t`.  The edge
from the sub-target to its own rule is charged a full step. -/
def gW2 : Graph := { nodes := [0, 1, 2], adj := fun | 0 => [1] | 1 => [2] | _ => [], pl := fun | 0 => 1 | n => n,
                     hid := fun | 0 => true | _ => false }

theorem C23_witness_deps_subtarget_edge :
    Printable gW2 false 2 ∧ WithinDeps gW2 (some 1) false [0] 2 ∧ 2 ∉ depsPrinted gW2 (some 1) false [0] := by
  refine ⟨Or.inr (by decide), ⟨0, by simp, _, ?_, .cons (b := 1) (by decide) (.single (by decide))⟩, by decide⟩
  intro N hN; cases hN; decide

/-- The property as stated does not hold for `deps`. -/
theorem C23_deps_not_exact : ¬ DepsExact := by
  intro h
  obtain ⟨hp, hw, hn⟩ := C23_witness_deps_first_visit
  exact hn ((h gW1 (some 2) false [0] 3).mpr ⟨hp, hw⟩)

/-- The recursion bound of the `deps` model is never reached on a graph that holds its dependencies. -/
theorem C23_deps_fuel (G : Graph) (hwf : GWF G) (lim : Limit) (hidden : Bool) (roots : List Nat)
    (hr : ∀ r ∈ roots, r ∈ G.nodes) : (depsAll genCfg G lim hidden roots).oof = false :=
  depsAll_fuel genCfg G hwf lim hidden roots hr

/-- Where the property does hold for `deps` (partial: no level limit, i.e. `--level -1`): exactly the printable
targets below the query are printed — on every graph, cyclic ones included.
(Full statement `DepsExact` fails with a limit: `C23_deps_not_exact`.) -/
theorem C23_deps_exact_unlimited_partial (G : Graph) (hwf : GWF G) (hidden : Bool) (roots : List Nat)
    (hr : ∀ r ∈ roots, r ∈ G.nodes) (x : Nat) :
    x ∈ depsPrinted G none hidden roots ↔ (Printable G hidden x ∧ ∃ r ∈ roots, Path G r x) := by
  constructor
  · intro h
    obtain ⟨hp, r, hr', k, _, p⟩ := C23_deps_sound G none hidden roots x h
    exact ⟨hp, r, hr', p.path⟩
  · rintro ⟨hp, r, hr', p⟩
    exact depsAll_complete_unlimited genCfg G hidden roots (C23_deps_fuel G hwf none hidden roots hr) r hr' x p hp

example : GWF gW1 ∧ 3 ∈ depsPrinted gW1 none false [0] := ⟨by unfold GWF; decide, by decide⟩

/-! ## revdeps -/

/-- the targets `plz query revdeps` prints -/
def revReported (G : Graph) (lim : Limit) (hidden : Bool) (roots : List Nat) : List Nat :=
  (findRevdeps genCfg G lim hidden roots).ret

/-- `t` depends on a queried target (or on a hidden sub-target pushed with it) within the limit -/
def WithinRev (G : Graph) (lim : Limit) (hidden : Bool) (roots : List Nat) (t : Nat) : Prop :=
  ∃ src, IsSource G hidden roots src ∧ ∃ k, (∀ N, lim = some N → k ≤ N) ∧ WPath G (costS G hidden) t src k

/-- Soundness (full): everything `revdeps` reports stands for a target (itself, or one of its hidden sub-targets) that
depends on the query within the limit. -/
theorem C23_revdeps_sound (G : Graph) (lim : Limit) (hidden : Bool) (roots : List Nat) (x : Nat)
    (h : x ∈ revReported G lim hidden roots) :
    ∃ t, report G hidden t = some x ∧ WithinRev G lim hidden roots t := by
  unfold revReported at h
  rw [cfg_std] at h
  exact findRevdeps_sound lim hidden roots x h

/-- The loop bound of the `findRevdeps` model is never reached. -/
theorem C23_revdeps_fuel (G : Graph) (lim : Limit) (hidden : Bool) (roots : List Nat)
    (hr : ∀ r ∈ roots, r ∈ G.nodes) : (findRevdeps genCfg G lim hidden roots).oof = false :=
  findRevdeps_fuel genCfg G lim hidden roots hr

/-- Where completeness does hold for `revdeps` (partial: no level limit, hidden targets counted — the way
`plz query changes` calls it): every target that transitively depends on a queried target is reported.
(Full statement `RevComplete` fails with a limit: `C23_revdeps_not_complete`.) -/
theorem C23_revdeps_complete_unlimited_partial (G : Graph) (roots : List Nat) (hr : ∀ r ∈ roots, r ∈ G.nodes)
    (u : Nat) (hu : DependsOn G roots u) : u ∈ revReported G none true roots :=
  (findRevdeps_complete_unlimited genCfg G true roots hr u hu).2 rfl

/-- The property as stated for `revdeps` (completeness half): every target that depends on the query through at
least one real step within the limit is reported (as itself or as its rule). -/
def RevComplete : Prop := ∀ (G : Graph) (lim : Limit) (hidden : Bool) (roots : List Nat) (t x : Nat),
  t ∈ G.nodes → report G hidden t = some x →
  (∃ src, IsSource G hidden roots src ∧ ∃ k, 1 ≤ k ∧ (∀ N, lim = some N → k ≤ N) ∧ WPath G (costS G hidden) t src k) →
  x ∈ revReported G lim hidden roots

/-- witness 3 (known finding `revdeps-level-first-visit-depth`): R←A←C←D←E, R←`_B#h`←B←D, level 3.  The FIFO
queue pops C (depth 2) before B (depth 1, found through the free edge from `_B#h`), so D is recorded at depth 3
instead of 2 and E (3 steps away through B) is never examined. -/
def gW3 : Graph := { nodes := [1, 5, 2, 3, 4, 0, 6],
                     adj := fun | 1 => [0] | 2 => [1] | 3 => [5, 2] | 4 => [3] | 5 => [6] | 6 => [0] | _ => [],
                     pl := fun | 6 => 5 | n => n, hid := fun | 6 => true | _ => false }

-- the witness graphs are well-formed (every edge ends at a listed node)
example : GWF gW2 := by unfold GWF; decide
example : GWF gW3 := by unfold GWF; decide

theorem gW3_wf : LabelsWF gW3 := by
  intro t h
  unfold gW3 at h ⊢
  simp only at h ⊢
  split at h <;> simp_all

-- non-vacuity of `C23_revdeps_complete_unlimited_partial`
example : DependsOn gW3 [0] 4 :=
  .step (x := 3) (.step (x := 2) (.step (x := 1) (.direct (x := 0) (by simp) (by decide) (by decide))
    (by decide) (by decide)) (by decide) (by decide)) (by decide) (by decide)

theorem C23_witness_revdeps_fifo :
    report gW3 false 4 = some 4 ∧
    (∃ src, IsSource gW3 false [0] src ∧ ∃ k, 1 ≤ k ∧ (∀ N, some 3 = some N → k ≤ N) ∧ WPath gW3 (costS gW3 false) 4 src k) ∧
    4 ∉ revReported gW3 (some 3) false [0] := by
  refine ⟨by decide, ⟨0, Or.inl (by simp), _, ?_, ?_,
    .cons (b := 3) (by decide) (.cons (b := 5) (by decide) (.cons (b := 6) (by decide) (.single (by decide))))⟩, by decide⟩
  · decide
  · intro N hN; cases hN; decide

/-- the shape of the repaired finding `revdeps-orphan-subtargets-cost-one` (fixed): y→`_g#b`→`_g#a`→x where no rule `g`
exists, level 2 from x.  `isSameTarget` compares parent labels, so the edge between the two sub-targets is free (as it is
for `deps`) and `y` is reported. -/
def gW4 : Graph := { nodes := [1, 2, 0, 3], adj := fun | 1 => [0] | 2 => [1] | 3 => [2] | _ => [],
                     pl := fun | 1 => 4 | 2 => 4 | n => n, hid := fun | 1 => true | 2 => true | _ => false }

example : 3 ∈ revReported gW4 (some 2) false [0] := by decide

/-- The property as stated does not hold for `revdeps`. -/
theorem C23_revdeps_not_complete : ¬ RevComplete := by
  intro h
  obtain ⟨hr, hw, hn⟩ := C23_witness_revdeps_fifo
  exact hn (h gW3 (some 3) false [0] 4 4 (by decide) hr hw)

/-! ## somepath -/

/-- Soundness and completeness of one `somePath(target1, target2)` call from any safe seen-set (the memo): a
returned path is a real dependency chain from `target1` to `target2` or to one of its hidden sub-targets, and
"no path" means that no such chain exists. -/
theorem C23_somepath_call (G : Graph) (t2 fuel : Nat) (seen : List Nat) (t1 : Nat) (hs : GoodSeen G t2 seen) :
    (∀ p, (somePath G t2 fuel seen t1).1 = .found p → GoodPath G t1 t2 p) ∧
    ((somePath G t2 fuel seen t1).1 = .nopath → NoConn G t1 t2) :=
  ⟨fun p h => somePath_sound G t2 fuel seen t1 p h, fun h => (somePath_complete G t2 fuel seen t1 hs h).2⟩

/-- Soundness of `plz query somepath` (with `--hidden`; without it the same path is printed with every hidden
target replaced by its rule and repeats removed): a printed path is a real dependency chain between one of the
requested pairs, in one of the two directions. -/
theorem C23_somepath_sound (G : Graph) (frm to : List Nat) (p : List Nat)
    (h : somePathAll G true frm to = .found p) :
    ∃ a ∈ frm, ∃ b ∈ to, GoodPath G a b p ∨ GoodPath G b a p := by
  unfold somePathAll at h
  obtain ⟨e, he, hg⟩ := (go_spec G _ [] (by intro e he; simp at he)).1 p h
  simp only [List.mem_flatMap, List.mem_map] at he
  obtain ⟨a, ha, b, hb, rfl⟩ := he
  exact ⟨a, ha, b, hb, hg⟩

/-- Completeness of `plz query somepath`: when it reports that there is no path, no requested pair is connected
in either direction. -/
theorem C23_somepath_complete (G : Graph) (sh : Bool) (frm to : List Nat)
    (h : somePathAll G sh frm to = .nopath) : ∀ a ∈ frm, ∀ b ∈ to, NoConn G a b ∧ NoConn G b a := by
  have h' : somePathAll G true frm to = .nopath := by
    unfold somePathAll at h ⊢
    exact go_flag G sh _ [] h
  unfold somePathAll at h'
  intro a ha b hb
  exact (go_spec G _ [] (by intro e he; simp at he)).2 h' (a, b)
    (by simp only [List.mem_flatMap, List.mem_map]; exact ⟨a, ha, b, hb, rfl⟩)
where
  go_flag (G : Graph) (sh : Bool) : ∀ (ps : List (Nat × Nat)) (m : Memo),
      somePathAll.go G sh ps m = .nopath → somePathAll.go G true ps m = .nopath := by
    intro ps
    induction ps with
    | nil => intro m h; exact h
    | cons e ps ih =>
      intro m h
      obtain ⟨a, b⟩ := e
      simp only [somePathAll.go] at h ⊢
      generalize spBoth G m a b = r at h ⊢
      obtain ⟨res, m'⟩ := r
      cases res with
      | nopath => exact ih m' h
      | found q => simp at h
      | oof => simp at h

/-- The recursion bound of the `somePath` model is never reached. -/
theorem C23_somepath_fuel (G : Graph) (hwf : GWF G) (sh : Bool) (frm to : List Nat)
    (hf : ∀ a ∈ frm, a ∈ G.nodes) (ht : ∀ b ∈ to, b ∈ G.nodes) : somePathAll G sh frm to ≠ .oof := by
  unfold somePathAll
  apply go_fuel G hwf sh _ [] (by intro e he; simp at he)
  intro e he
  simp only [List.mem_flatMap, List.mem_map] at he
  obtain ⟨a, ha, b, hb, rfl⟩ := he
  exact ⟨hf a ha, ht b hb⟩

/-- `plz query somepath` prints a path if and only if one exists (between some requested pair, in one of the two
directions, ending at the other target or at one of its hidden sub-targets). -/
theorem C23_somepath_iff (G : Graph) (hwf : GWF G) (frm to : List Nat)
    (hf : ∀ a ∈ frm, a ∈ G.nodes) (ht : ∀ b ∈ to, b ∈ G.nodes) :
    (∃ p, somePathAll G true frm to = .found p) ↔ ∃ a ∈ frm, ∃ b ∈ to, Conn G a b ∨ Conn G b a := by
  constructor
  · rintro ⟨p, h⟩
    obtain ⟨a, ha, b, hb, hg⟩ := C23_somepath_sound G frm to p h
    exact ⟨a, ha, b, hb, hg.imp GoodPath.conn GoodPath.conn⟩
  · rintro ⟨a, ha, b, hb, hc⟩
    cases h : somePathAll G true frm to with
    | found p => exact ⟨p, rfl⟩
    | oof => exact absurd h (C23_somepath_fuel G hwf true frm to hf ht)
    | nopath =>
      obtain ⟨h1, h2⟩ := C23_somepath_complete G true frm to h a ha b hb
      rcases hc with hc | hc
      · exact absurd hc h1.not_conn
      · exact absurd hc h2.not_conn

/-! ### `somepath` in its default mode (no `--hidden`) -/

/-- Soundness in the default mode: what is printed is a real dependency chain between one of the requested pairs,
with every hidden target replaced by its rule and repeats removed; consecutive printed rules are different and the
first depends on the second through one of their targets. -/
theorem C23_somepath_sound_default (G : Graph) (frm to : List Nat) (q : List Nat)
    (h : somePathAll G false frm to = .found q) :
    ∃ a ∈ frm, ∃ b ∈ to, ∃ p, (GoodPath G a b p ∨ GoodPath G b a p) ∧ q = compact (p.map G.pl) ∧ RChain G q := by
  unfold somePathAll at h
  rw [go_shape] at h
  cases ht : somePathAll.go G true (frm.flatMap fun a => to.map fun b => (a, b)) [] with
  | nopath => rw [ht] at h; simp at h
  | oof => rw [ht] at h; simp at h
  | found p =>
    rw [ht] at h
    simp only [Bool.false_eq_true, ite_false, PRes.found.injEq] at h
    obtain ⟨a, ha, b, hb, hg⟩ := C23_somepath_sound G frm to p (by unfold somePathAll; exact ht)
    refine ⟨a, ha, b, hb, p, hg, h.symm, ?_⟩
    rw [← h]
    rcases hg with hg | hg <;> exact compact_chain G p hg.2.1

/-- Sound and complete in the default mode: a path is printed if and only if one exists in the resolved graph (between
some requested pair, in one of the two directions, ending at the other target or one of its hidden sub-targets). -/
theorem C23_somepath_iff_default (G : Graph) (hwf : GWF G) (frm to : List Nat)
    (hf : ∀ a ∈ frm, a ∈ G.nodes) (ht : ∀ b ∈ to, b ∈ G.nodes) :
    (∃ q, somePathAll G false frm to = .found q) ↔ ∃ a ∈ frm, ∃ b ∈ to, Conn G a b ∨ Conn G b a := by
  rw [← C23_somepath_iff G hwf frm to hf ht]
  unfold somePathAll
  rw [go_shape]
  cases somePathAll.go G true (frm.flatMap fun a => to.map fun b => (a, b)) [] with
  | nopath => simp
  | oof => simp
  | found p => simp

example : somePathAll gW4 false [3] [0] = .found [3, 4, 0] := by decide

/-! ### `revdeps` in its default mode (no `--hidden`) -/

/-- The property as stated for the default mode, completeness half, WITHOUT a level limit (with a limit it fails:
`C23_revdeps_not_complete`): every target that depends directly on the query — or on anything that transitively
depends on it — across a rule boundary is reported, as itself or (a hidden `_x#y` target) as its rule `x`.
PARTIAL: a target joined to the dependants of the query only through edges inside its own rule is represented by the
member of the rule that crosses the boundary (it has the same `report`); hidden targets whose rule is not a target have
no `report` and are not printed (that is what the code does, `report = none`). -/
theorem C23_revdeps_complete_unlimited_default_partial (G : Graph) (roots : List Nat) (hr : ∀ r ∈ roots, r ∈ G.nodes)
    (x u r : Nat) (hx : x ∈ roots ∨ DependsOn G roots x) (hun : u ∈ G.nodes) (he : Edge G u x)
    (hcross : isSameTarget G x u = false) (hrep : report G false u = some r) :
    r ∈ revReported G none false roots :=
  findRevdeps_reports_crossing genCfg G false roots hr x u r hx hun he (Or.inr hcross) hrep

-- non-vacuity: in gW3, `_B#h` (6) depends on the root R (0) across a rule boundary and is reported as its rule B (5)
example : (0 ∈ [0] ∨ DependsOn gW3 [0] 0) ∧ 6 ∈ gW3.nodes ∧ Edge gW3 6 0 ∧ isSameTarget gW3 0 6 = false ∧
    report gW3 false 6 = some 5 ∧ 5 ∈ revReported gW3 none false [0] := by
  refine ⟨Or.inl (by simp), by decide, by decide, by decide, by decide, by decide⟩

-- non-vacuity: concrete runs of the three models
example : depsPrinted gW1 none false [0] = [1, 2, 3] := by decide
example : revReported gW3 none false [0] = [4, 3, 3, 5, 2, 5, 1] := by decide
example : somePathAll gW1 true [0] [3] = .found [0, 1, 2, 3] := by decide
example : somePathAll gW1 true [3] [0] = .found [0, 1, 2, 3] := by decide
example : somePathAll gW4 true [3] [0] = .found [3, 2, 1, 0] := by decide
example : somePathAll gW1 true [1] [3] = .found [1, 2, 3] := by decide
example : somePathAll { gW1 with adj := fun _ => [] } true [1] [3] = .nopath := by decide

end PlzVerif.Props.C23
