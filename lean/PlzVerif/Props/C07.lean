import PlzVerif.Lemmas.RuleHash
import PlzVerif.Generated.C08
import PlzVerif.Generated.C07
import PlzVerif.Model.ParseOrder
/-!
C07  Target hashes are deterministic across runs and parallelism.

The rule hash of a target is computed from Go maps (Provides, Env, EntryPoints, Commands, named sources /
outputs / data) whose iteration order is random, and from the dependency list, which is filled in whatever
order parsing and concurrent resolution add to it.  The theorems say that none of these orders can reach
the pre-image `ruleSer Generated.C08.facts` — the model of `build.ruleHash` instantiated with the write
schema and the per-accessor sort flags read from /repo on this run — and `C07_facts_ok` is the obligation
that every such map range is sorted (or an order-insensitive maximum) in today's source, and that output-hash
checking works on a copy of `target.Hashes` (`C07_hash_check_stable`; the aliasing defect it replaced is kept as
`C07_witness_hash_check_aliasing`).
-/
namespace PlzVerif.Props.C07
open PlzVerif.RuleHash PlzVerif.Generated

abbrev F : Facts := C08.facts

/-- Every range over a map in the functions behind the rule hash is sorted / order-insensitive, and the five
    accessors the model parameterises on all sort. -/
def FactsOK : Bool :=
  F.allSorted && C07.mapRanges.all (fun r => r.2.2 == "sorted" || r.2.2 == "max") &&
  -- the ranges the model knows about are all present (a new, unsorted one would be listed as UNSORTED;
  -- a vanished one means the code was restructured)
  ["ruleHash", "hashMap", "BuildTarget.DeclaredOutputNames", "BuildTarget.allBuildInputs", "BuildTarget.getCommand"].all
    (fun fn => C07.mapRanges.any fun r => r.1 == fn) &&
  -- which dependency-list accessors sort, and which return declaration order (the source hash follows the latter)
  C07.depOrderAccessors == [("BuildTarget.DeclaredDependencies", "sorted"), ("BuildTarget.DeclaredDependenciesStrict", "sorted"),
    ("BuildTarget.BuildDependencies", "sorted"), ("BuildTarget.ExportedDependencies", "insertion-order")] &&
  -- UnprefixedHashes strips the algorithm prefixes on a copy, not inside target.Hashes
  !C07.unprefixedAliases

/-- Obligation a code change can break: dropping one `sort.Strings` / `sort.Sort` makes it false. -/
theorem C07_facts_ok : FactsOK = true := by decide

theorem allSorted : F.allSorted = true := by
  have h := C07_facts_ok
  simp only [FactsOK, Bool.and_eq_true] at h
  exact h.1.1.1.1

/-- PARTIAL with respect to the property (which also names the source hash and the target hash): this is the
    *rule hash* only.  Its pre-image is the same for every iteration order of every map-typed field and every
    insertion order of the dependencies (no bound on sizes).  Not covered by any theorem: the source hash
    (`sourceHash` over `IterInputs`, which follows `ExportedDependencies()` in declaration order — fact
    `depOrderAccessors`; deterministic because a BUILD file is evaluated sequentially, but not invariant under
    reordering) and the config hash; both are observed end to end only (`e2e` ops).  `RuleHash` memoises the
    pre-build hash on first call (assumption: the target is not edited between calls other than by
    post-build functions, which take the non-memoised path). -/
theorem C07_partial_rule_hash (c : Ctx) (t t' : Target) (ok : MapsOK t) (p : PermEq t t') : ruleSer F c t = ruleSer F c t' := by
  unfold ruleSer
  rw [view_perm F allSorted c ok p]

/-- The same for the runtime hash (`runtime = true`): it is the same function with another context. -/
theorem C07_partial_rule_hash_runtime (c : Ctx) (t t' : Target) (ok : MapsOK t) (p : PermEq t t') :
    ruleSer F { c with runtime := true } t = ruleSer F { c with runtime := true } t' :=
  C07_partial_rule_hash _ t t' ok p

/-- `DeclaredDependencies`: whatever order (parse order, concurrent resolution) the dependencies were added
    in, the hashed list is the same. -/
theorem C07_deps (l l' : List Label) (p : l.Perm l') : isort Label.lt l = isort Label.lt l' := isort_labels_perm p

/-- The per-config command does not depend on the iteration order of `Commands`. -/
theorem C07_command (c : Ctx) (m m' : List (Bytes × Bytes)) (hn : KeysNodup m) (p : m.Perm m') (s : Bytes) :
    getCommand c (some m) s = getCommand c (some m') s := getCommand_perm c hn p s

def ka : Bytes := [97]
def kb : Bytes := [98]
def t1 : Target := { label := ⟨[], [112], [116]⟩, env := [(ka, [49]), (kb, [50])], deps := [⟨[], [112], ka⟩, ⟨[], [112], kb⟩],
                     provides := [(ka, []), (kb, [])] }
def t2 : Target := { label := ⟨[], [112], [116]⟩, env := [(kb, [50]), (ka, [49])], deps := [⟨[], [112], kb⟩, ⟨[], [112], ka⟩],
                     provides := [(kb, []), (ka, [])] }

-- non-vacuity: a concrete pair of different encodings of the same target meets the hypotheses
example : MapsOK t1 ∧ PermEq t1 t2 ∧ t1 ≠ t2 := by
  refine ⟨⟨by decide, by decide, by decide, by decide, by decide, by decide, by simp [t1], by simp [t1]⟩,
    ⟨List.Perm.swap _ _ _, List.Perm.refl _, List.Perm.refl _, List.Perm.swap _ _ _, List.Perm.refl _,
     List.Perm.swap _ _ _, List.Perm.refl _, trivial, trivial, by decide⟩, by decide⟩

def t3 : Target := { label := ⟨[], [112], [116]⟩, namedOuts := [(ka, [[111]]), (kb, [[112]])], namedSrcs := [(ka, [[120]]), (kb, [[121]])] }
def t4 : Target := { label := ⟨[], [112], [116]⟩, namedOuts := [(kb, [[112]]), (ka, [[111]])], namedSrcs := [(kb, [[121]]), (ka, [[120]])] }

def t5 : Target := { label := ⟨[], [112], [116]⟩, namedData := [(ka, [[120]]), (kb, [[121]])] }
def t6 : Target := { label := ⟨[], [112], [116]⟩, namedData := [(kb, [[121]]), (ka, [[120]])] }

/-- Every one of the six sorts is *needed*: with it removed, two encodings of the same target get different
    pre-images (the two key sorts inside `ruleHash` — provides, named sources —, `hashMap`, `DeclaredDependencies`,
    `DeclaredOutputNames`, and `allBuildInputs` for the runtime data). -/
theorem C07_sort_needed :
    ruleSer { F with providesSorted := false } {} t1 ≠ ruleSer { F with providesSorted := false } {} t2 ∧
    ruleSer { F with hashMapSorted := false } {} t1 ≠ ruleSer { F with hashMapSorted := false } {} t2 ∧
    ruleSer { F with depsSorted := false } {} t1 ≠ ruleSer { F with depsSorted := false } {} t2 ∧
    ruleSer { F with outputNamesSorted := false } {} t3 ≠ ruleSer { F with outputNamesSorted := false } {} t4 ∧
    ruleSer { F with namedSrcsSorted := false } {} t3 ≠ ruleSer { F with namedSrcsSorted := false } {} t4 ∧
    ruleSer { F with buildInputsSorted := false } { runtime := true } t5 ≠
      ruleSer { F with buildInputsSorted := false } { runtime := true } t6 := by decide

/-! ### the rule hash as a function of the *definition*: output-hash checking must not rewrite the target -/

/-- Checking the output hashes of a built target leaves its (post-build) rule hash alone.
    `aliases` is how `UnprefixedHashes` obtains its working slice (regenerated fact `C07.unprefixedAliases`). -/
def StableUnderHashCheck (F : Facts) (aliases : Bool) : Prop :=
  ∀ (c : Ctx) (t : Target), postBuildSer F c t (afterHashCheck aliases t) = postBuildSer F c t t

/-- Full strength, for the code as it is now (`hashes := slices.Clone(target.Hashes)`): the rule hash of an
    unchanged target is the same before and after its outputs were hash-checked. -/
theorem C07_hash_check_stable : StableUnderHashCheck F C07.unprefixedAliases := by
  have h : C07.unprefixedAliases = false := by
    have := C07_facts_ok
    simp only [FactsOK, Bool.and_eq_true, Bool.not_eq_true'] at this
    exact this.2
  intro c t
  simp [afterHashCheck, h]

def th : Target := { label := ⟨[], [112], [116]⟩, hashes := [[115, 104, 97, 49, 58, 32, 97, 98]], outputDirs := [[111, 100]] }

/-- The defect that was repaired (kept as a theorem about the *old* fact value): with `hashes := target.Hashes[:]`
    the entry `"sha1: ab"` of a target with `output_dirs` became `"ab"` inside the target, and the post-build rule
    hash stored with the outputs was not the one the next invocation computed (the target was rebuilt on every run). -/
theorem C07_witness_hash_check_aliasing : ¬ StableUnderHashCheck F true := by
  intro h
  have := h {} th
  revert this
  decide

/-- Even with the aliasing it was stable for targets that cannot modify themselves while building and for hashes
    without an algorithm prefix / surrounding blanks. -/
theorem C07_partial_hash_check_aliasing (c : Ctx) (t : Target)
    (h : couldModify t = false ∨ ∀ x ∈ t.hashes, unprefix x = x) :
    postBuildSer F c t (afterHashCheck true t) = postBuildSer F c t t := by
  rcases h with h | h
  · have h' : couldModify (afterHashCheck true t) = false := by simpa [couldModify, afterHashCheck] using h
    simp [postBuildSer, h, h']
  · have e : afterHashCheck true t = t := by
      simp only [afterHashCheck, if_true]
      have : t.hashes.map unprefix = t.hashes := by
        conv => rhs; rw [← List.map_id t.hashes]
        exact List.map_congr_left h
      rw [this]
    rw [e]

example : couldModify ({} : Target) = false ∧ (∀ x ∈ ({ hashes := [[97, 98]] } : Target).hashes, unprefix x = x) := by
  decide

/-! ### independence of what else was parsed (package level) -/

section ParseOrder
open PlzVerif.ParseOrder

/-- Evaluating a package leaves the cached frozen CONFIG of every subincluded file as it was.  This is C17's
    non-interference property (packages cannot mutate each other's values) specialised to the subinclude cache; it is an
    explicit hypothesis here until C17's theorem can be imported. -/
def ConfigIsolated (after : World → Pkg → World) : Prop := ∀ w p, after w p = w

/-- PARTIAL (hypothesis `ConfigIsolated` is C17's, not proved here for the real interpreter; the model abstracts the asp
    interpreter to CONFIG merging): under isolation the hashes reported for a package's targets are those of evaluating
    it alone — whatever other packages the invocation parsed before it, in whatever order (`schedule` is arbitrary,
    which covers the set and order of requested targets, the thread count and the scheduler's choices). -/
theorem C07_partial_parse_order (after : World → Pkg → World) (iso : ConfigIsolated after)
    (schedule : List Pkg) (w : World) (p : Pkg) (h : p ∈ schedule) :
    runWith after w schedule p = some (hashOf w p) := by
  induction schedule with
  | nil => cases h
  | cons q rest ih =>
    by_cases e : q = p
    · simp [runWith, e]
    · have hm : p ∈ rest := by
        rcases List.mem_cons.1 h with h | h
        · exact absurd h.symm e
        · exact h
      simp only [runWith, e, if_false, iso w q]
      exact ih hm

/-- Two invocations that both evaluate `p` report the same hashes for it. -/
theorem C07_partial_invocations_agree (after : World → Pkg → World) (iso : ConfigIsolated after)
    (s₁ s₂ : List Pkg) (w : World) (p : Pkg) (h₁ : p ∈ s₁) (h₂ : p ∈ s₂) :
    runWith after w s₁ p = runWith after w s₂ p := by
  rw [C07_partial_parse_order after iso s₁ w p h₁, C07_partial_parse_order after iso s₂ w p h₂]

/-- The copying merge is isolated, so for it the statement holds outright. -/
theorem C07_copying_merge_isolated : ConfigIsolated (worldAfter false) := by
  intro w p; rfl

theorem C07_parse_order_copying (s₁ s₂ : List Pkg) (w : World) (p : Pkg) (h₁ : p ∈ s₁) (h₂ : p ∈ s₂) :
    run false w s₁ p = run false w s₂ p :=
  C07_partial_invocations_agree _ C07_copying_merge_isolated s₁ s₂ w p h₁ h₂

/-- build_defs `0` sets OPTS(=key 7) to 1, `1` sets it to 2; `multi` subincludes both, `single` only the first. -/
def w0 : World := fun d => if d = 0 then [(7, 1)] else if d = 1 then [(7, 2)] else []
def multi : Pkg := ⟨[0, 1], 7⟩
def single : Pkg := ⟨[0], 7⟩

/-- Why isolation is needed: with the borrowing merge, `single`'s hash depends on whether `multi` was parsed first
    (the shape of the defect: `subinclude("//build_defs:a", "//build_defs:b")` in one package rewrites `a`'s cached
    CONFIG for every package parsed later). -/
theorem C07_witness_borrowed_overlay :
    run true w0 [single] single ≠ run true w0 [multi, single] single ∧
    run false w0 [single] single = run false w0 [multi, single] single := by decide

end ParseOrder

end PlzVerif.Props.C07
