import PlzVerif.Lemmas.SchedProgress
import PlzVerif.Lemmas.SchedFinal
import PlzVerif.Lemmas.SchedFacts
import PlzVerif.Lemmas.SchedRun
import PlzVerif.Lemmas.SchedStuck
import PlzVerif.Lemmas.SchedNeeded
import PlzVerif.Generated.C04
/-!
C05  Builds always terminate and report failure faithfully.

Same model as C04 (`Model/Sched.lean`); failures are the `workerFail` action (a command fails) and the
`queuerAbort` action (`asyncError`: a dependency cannot be queued — the target stays Active without a queuer, the
queues are stopped); `--keep_going` off is the external `stop` action arriving after a failure
(output/targets.go:106, pinned by the `sk_handleOutput` fact); a dependency failure propagates through the
`DependencyFailed` branch of the queuer.  Real time and the Go scheduler are not in the model: "terminates" is "no
infinite execution", "no deadlock" is "some goroutine can step unless Run returns".  The idle-time cycle check is the
`cycleCheck` action: enabled whenever `forwardResults` has no active target (the 5 s timer is armed only then) and the
graph has a cycle the detector reports (`Cfg.hasCycle`, C06); the goroutines waiting for a target to be built
(`WaitForBuiltTarget`: the parse of a package that subincludes it) are the `subWait` action and the `waitTarget` phase.
How a *failed* target is treated by the active set and by those waiters is read from the code (`Cfg.failClears`,
`Cfg.failWakes`, `Cfg.lateOK` — `C05_facts_ok` establishes `true` for the code at hand; the section "Liveness mechanisms
outside the task counting" has the theorems and, for the three repaired hangs, witnesses under the old values).

**What these theorems do NOT cover (the parse phase).**  Three of the property's anchors are outside the model:
`SyncParsePackage` / `WaitForPackage` (waiters on `pendingPackages` / `packageWaits`, state.go:847-897), the
`ErrMap.GetOrSet` waiters of subincludes (cerrmap.go:62; their wake-up discipline is C15's subject) and parse tasks
(`addPendingParse`; only the one parse task per subincluded target that waits in `WaitForBuiltTarget` is modelled, counted
during the initial scan).  In particular the hang the property is motivated by — a waiter on a package whose parse failed:
`LogParseResult` closes the channel only on `PackageParsed` — is not excluded by any theorem here; what ends such a run
is `Stop()` from the display loop on `ParseFailed` (even with --keep_going).  Those functions are pinned as facts
(`C05_facts_ok`: `sk_SyncParsePackage`, `sk_WaitForPackage`, `sk_LogParseResult`, `sk_addPendingParse`,
`sk_handleOutput`), and the behaviour is checked on the real binary only (harness/cmd/c05: syntax errors, missing
packages, several waiters on a package that fails to parse, 60 s limit).  Hence the `_build_phase_partial` names.
-/
namespace PlzVerif.Props.C05
open PlzVerif.Sched

variable (c : Cfg)

/-- The facts this property depends on are those of C04 (same functions); in addition `Stop` closes both queues
    exactly once, `asyncError` and the cycle check log a failure and `Stop`, `taskDone` stops at `<= 0`. -/
theorem C05_facts_ok :
    PlzVerif.Generated.C04.sk_taskDone = Facts.expected_sk_taskDone ∧
    PlzVerif.Generated.C04.sk_Stop = Facts.expected_sk_Stop ∧
    PlzVerif.Generated.C04.sk_asyncError = Facts.expected_sk_asyncError ∧
    PlzVerif.Generated.C04.sk_checkForCycles = Facts.expected_sk_checkForCycles ∧
    PlzVerif.Generated.C04.sk_queueTargetAsync = Facts.expected_sk_queueTargetAsync ∧
    PlzVerif.Generated.C04.sk_Build = Facts.expected_sk_Build ∧
    PlzVerif.Generated.C04.sk_Run = Facts.expected_sk_Run ∧
    -- outside the model, pinned as they are (see the note on the parse phase below):
    PlzVerif.Generated.C04.sk_addPendingParse = Facts.expected_sk_addPendingParse ∧
    PlzVerif.Generated.C04.sk_LogParseResult = Facts.expected_sk_LogParseResult ∧
    PlzVerif.Generated.C04.sk_SyncParsePackage = Facts.expected_sk_SyncParsePackage ∧
    PlzVerif.Generated.C04.sk_WaitForPackage = Facts.expected_sk_WaitForPackage ∧
    PlzVerif.Generated.C04.sk_handleOutput = Facts.expected_sk_handleOutput ∧
    PlzVerif.Generated.C04.initFacts = Facts.expectedInitFacts ∧
    -- the liveness mechanisms outside the task counting: the active set that arms the cycle check, the wake-up of the
    -- waiters of a target on success and on failure, no wait for a target that has already failed
    PlzVerif.Generated.C04.sk_forwardResults = Facts.expected_sk_forwardResults ∧
    PlzVerif.Generated.C04.sk_LogBuildResult = Facts.expected_sk_LogBuildResult ∧
    PlzVerif.Generated.C04.sk_TargetFailed = Facts.expected_sk_TargetFailed ∧
    PlzVerif.Generated.C04.sk_WaitForBuiltTarget = Facts.expected_sk_WaitForBuiltTarget ∧
    Facts.failClearsOf PlzVerif.Generated.C04.activeSet = true ∧
    Facts.failWakesOf PlzVerif.Generated.C04.wakeFacts = true ∧
    Facts.lateOKOf PlzVerif.Generated.C04.wakeFacts = true ∧
    -- the dependency wait loop: wait first, then the DependencyFailed test, no state test that passes a dependency over
    PlzVerif.Generated.C04.waitLoop = Facts.expectedWaitLoop ∧ Facts.skipOf PlzVerif.Generated.C04.waitSkip = none :=
  ⟨rfl, rfl, rfl, rfl, rfl, rfl, rfl, rfl, rfl, rfl, rfl, rfl, rfl, rfl, rfl, rfl, rfl, rfl, rfl, rfl, rfl, rfl⟩

/-- **Progress measure**: every step of the scheduler either leaves the state unchanged (a redundant activation
    or `Stop`) or strictly decreases `mu` — whatever the graph (cycles included), the failures, the number of
    workers and the schedule; no fairness assumption. -/
theorem C05_progress (hwf : WF c) {s s' : St} (hr : Reach c s) (hs : Step c s s') :
    s' = s ∨ mu c s' < mu c s := by
  obtain ⟨a, ha⟩ := hs
  rcases step_mu c (reach_inv c hr) (reach_inv2 c hwf hr) a ha with h | h
  · exact .inl h.1
  · exact .inr h

/-- **Every execution is finite**: the state-changing steps from reachable states form a well-founded relation,
    i.e. there is no infinite sequence of them. -/
theorem C05_terminates (hwf : WF c) : WellFounded (fun s' s => Reach c s ∧ Step c s s' ∧ s' ≠ s) := by
  apply Subrelation.wf (r := InvImage (· < ·) (mu c))
  · intro s' s ⟨hr, hs, hne⟩
    rcases C05_progress c hwf hr hs with h | h
    · exact absurd h hne
    · exact h
  · exact InvImage.wf (mu c) Nat.lt_wfRel.wf

/-- **No deadlock in the build phase on acyclic graphs** (partial: parse-phase waits are outside the model, see
    the header): in every reachable state either `plz.Run` is about to return (queues closed and drained, all
    workers done) or some goroutine of the scheduler can take a step — whatever commands fail, whichever
    dependencies cannot be queued, with or without an external `Stop`. -/
theorem C05_no_deadlock_build_phase_partial {s : St} (hr : Reach c s) (hacy : Acyclic c)
    (hfw : c.failWakes = true) (hlo : c.lateOK = true) : Final s ∨ CanStep c s :=
  no_deadlock c hr hacy hfw hlo

-- `Acyclic` is satisfiable by graphs with edges: a diamond 3 → {1,2} → 0
example : Acyclic { n := 4, deps := fun t => if t = 3 then [1, 2] else if t = 1 ∨ t = 2 then [0] else [], needBuild := true } :=
  ⟨fun t => t, by
    intro t d h
    show d < t
    simp only at h
    split at h
    · rename_i h3; subst h3; simp at h; rcases h with h | h <;> subst h <;> decide
    · split at h
      · rename_i h12; simp at h; subst h; rcases h12 with h1 | h2 <;> subst_vars <;> decide
      · simp at h⟩

/-- the enabled step changes the state (so together with `C05_terminates`: on an acyclic graph every maximal
    execution is finite and ends in a `Final` state) -/
theorem C05_step_changes_state (hwf : WF c) {s s' : St} (hr : Reach c s) {a : Action} (hi : Internal a)
    (h : fire c s a = some s') : mu c s' < mu c s := by
  rcases step_mu c (reach_inv c hr) (reach_inv2 c hwf hr) a h with e | e
  · exact absurd hi e.2
  · exact e

/-- two targets that depend on each other -/
def cyc2 : Cfg := { n := 2, deps := fun t => if t = 0 then [1] else if t = 1 then [0] else [], needBuild := true, hasCycle := true }

/-- the state after: target 0 requested; its queuer activates 1 and starts waiting; 1's queuer finds 0 already
    active and starts waiting; the initial scan is done -/
def cycState : St :=
  (runActs cyc2 St.init [.activate 0 false, .queuer 0, .queuer 0, .queuer 1, .queuer 1, .initDone]).getD St.init

theorem cycState_reach : Reach cyc2 cycState := by
  have h : (runActs cyc2 St.init [.activate 0 false, .queuer 0, .queuer 0, .queuer 1, .queuer 1, .initDone]).isSome = true := rfl
  cases hr : runActs cyc2 St.init [.activate 0 false, .queuer 0, .queuer 0, .queuer 1, .queuer 1, .initDone] with
  | none => rw [hr] at h; cases h
  | some s =>
    have : cycState = s := by unfold cycState; rw [hr]; rfl
    rw [this]; exact runActs_reach cyc2 _ Reach.init hr

/-- **Why the cycle check is needed** (witness): on a two-target cycle the scheduler reaches a state that is
    not final and in which no goroutine can step — both queuers wait for each other's `finishedBuilding` while
    `numPending` stays at 2.  Only an external `Stop` (state.go:700, the inactivity check) ends the run; `stop`
    is always enabled.  (Acyclicity is therefore necessary in `C05_no_deadlock_build_phase_partial`.) -/
theorem C05_witness_cycle_needs_detector :
    Reach cyc2 cycState ∧ ¬ Final cycState ∧ ¬ CanStep cyc2 cycState ∧ cycState.numPending = 2 ∧
      (fire cyc2 cycState .stop).isSome = true := by
  have hr := cycState_reach
  have hi := reach_inv cyc2 hr
  have hq : cycState.nextQ = 2 := rfl
  have hm : cycState.nextM = 0 := rfl
  have hw : cycState.nextW = 0 := rfl
  have hq0 : cycState.qs 0 = some ⟨0, true, false, .waitDeps [1]⟩ := rfl
  have hq1 : cycState.qs 1 = some ⟨1, true, false, .waitDeps [0]⟩ := rfl
  have hf0 : cycState.fin 0 = false := rfl
  have hf1 : cycState.fin 1 = false := rfl
  have hst : cycState.stopped = false := rfl
  have hid : cycState.initDone = true := rfl
  have hchan : ∀ m, cycState.chan m = none := by
    intro m
    cases h : cycState.chan m with
    | none => rfl
    | some t => have := hi.mFresh m t h; rw [hm] at this; exact absurd this (Nat.not_lt_zero _)
  have hws : ∀ w, cycState.ws w = none := by
    intro w
    cases h : cycState.ws w with
    | none => rfl
    | some x => have := hi.wFresh w x h; rw [hw] at this; exact absurd this (Nat.not_lt_zero _)
  refine ⟨hr, ?_, ?_, rfl, rfl⟩
  · intro hf; have h1 := hf.1; rw [hst] at h1; cases h1
  · intro ⟨a, s', hint, hf⟩
    cases a with
    | activate t f => exact hint
    | stop => exact hint
    | queuer i =>
      simp only [fire] at hf
      by_cases h0 : i = 0
      · subst h0; rw [hq0] at hf; simp [queuerStep, hf1] at hf
      · by_cases h1 : i = 1
        · subst h1; rw [hq1] at hf; simp [queuerStep, hf0] at hf
        · cases h : cycState.qs i with
          | none => rw [h] at hf; cases hf
          | some q => have := hi.qFresh i q h; rw [hq] at this; omega
    | queuerAbort i =>
      simp only [fire] at hf
      by_cases h0 : i = 0
      · subst h0; rw [hq0] at hf; simp at hf
      · by_cases h1 : i = 1
        · subst h1; rw [hq1] at hf; simp at hf
        · cases h : cycState.qs i with
          | none => rw [h] at hf; cases hf
          | some q => have := hi.qFresh i q h; rw [hq] at this; omega
    | take m => simp [fire, hchan m] at hf
    | drop m => simp [fire, hchan m] at hf
    | workerStart w => simp [fire, hws w] at hf
    | workerOk w ts cd => simp [fire, hws w] at hf
    | workerFail w => simp [fire, hws w] at hf
    | workerDone w => simp [fire, hws w] at hf
    | initDone => simp [fire, hid] at hf
    | subWait t => exact hint
    | cycleCheck => exact hint

/-- **C05, completeness half (final state of a keep-going run).**
    For every graph with acyclic, in-range dependencies, with `NeedBuild`:
    * (termination) there is no infinite sequence of state-changing steps — whatever fails, whatever the schedule,
      no fairness assumption (`C05_terminates`);
    * for every keep-going run of the build phase (`RunKG req s`: the targets `req` are requested during the initial
      scan, the program then does whatever it can in any order; nobody closes the queues from outside the task
      counting and every dependency can be queued) that is maximal (`¬ CanStep`: no goroutine can step any more):
      - `plz.Run` returns (`Final`: queues closed — by `numPending` reaching 0 — and drained, all workers done);
      - the exit flag is set exactly when some target failed; it is set whenever a requested target is tainted;
      - every requested target `t` has exactly one terminal report, and it is a failure report
        (`failed` / `depFailed`) **exactly when** `t` failed or transitively depends on a target that failed
        (`Tainted`), with state Failed resp. DependencyFailed;
      - every requested target that is not tainted ends in a Built state and is reported built or cached.
    The same holds for every target a requested one needs (`s.st t ≠ .inactive`), see `final_state`.
    (`C05_exit_flag_iff_requested_tainted`: the flag is set iff some requested target is tainted.)
    Not covered (stated in the header): the parse phase, runs in which the queues are stopped from outside
    (no --keep_going after a failure, the cycle check, `asyncError`) — there unbuilt requested targets remain and
    only "exit flag set" (`C05_failure_sets_exit_flag`) holds; the translation of the flag into the process exit
    status (`toExitCode`), which is checked end to end. -/
theorem C05_final_complete (hn : c.needBuild = true) (hwf : WF c) (hacy : Acyclic c)
    (hfw : c.failWakes = true) (hlo : c.lateOK = true) :
    WellFounded (fun s' s => Reach c s ∧ Step c s s' ∧ s' ≠ s) ∧
    ∀ (req : List T) (s : St), RunKG c req s → ¬ CanStep c s →
      Final s ∧ (s.failed = true ↔ ∃ t, s.st t = .failed) ∧ ((∃ t ∈ req, Tainted c s t) → s.failed = true) ∧
      ∀ t ∈ req, s.nres t = 1 ∧
        (Tainted c s t ↔ (s.res t = some .failed ∨ s.res t = some .depFailed)) ∧
        (Tainted c s t → s.st t = .failed ∨ s.st t = .depFailed) ∧
        (¬ Tainted c s t → (s.st t).isBuilt = true ∧ (s.res t = some .built ∨ s.res t = some .cached)) := by
  refine ⟨C05_terminates c hwf, ?_⟩
  intro req s hrun hmax
  obtain ⟨hfin, _, hterm, hbad, hbuilt, hflag⟩ := final_state c hn hacy hfw hlo hrun hmax
  have hi := reach_inv c (runKG_reach c hrun)
  have kg := runKG_inv c hrun
  refine ⟨hfin, hflag, ?_, ?_⟩
  · intro ⟨t, _, ht⟩
    obtain ⟨d, hd⟩ := tainted_has_failed c ht
    exact hi.failedFlag d hd
  · intro t ht
    have hne : s.st t ≠ .inactive := by
      intro e; have := kg.requested hn t ht; rw [e] at this; revert this; decide
    have hT := hterm t hne
    have hfint : s.fin t = true := by rw [hi.finTerm t]; exact hT
    have hnres : s.nres t = 1 := by rw [hi.nresFin t, hfint]; rfl
    have hsome := hi.resSome t
    rw [hfint] at hsome
    obtain ⟨r, hr⟩ := Option.isSome_iff_exists.mp hsome
    have hk := hi.resKind t r hr
    have hb := hbad t hne
    have bad_iff : (s.st t).isBad = true ↔ (s.st t = .failed ∨ s.st t = .depFailed) := by
      cases s.st t <;> simp [TS.isBad, TS.rank]
    refine ⟨hnres, ?_, ?_, ?_⟩
    · rw [← hb, bad_iff, hr]
      constructor
      · rintro (h | h)
        · exact .inl (congrArg some (hk.1.mpr h))
        · exact .inr (congrArg some (hk.2.mpr h))
      · rintro (h | h)
        · exact .inl (hk.1.mp (Option.some.inj h))
        · exact .inr (hk.2.mp (Option.some.inj h))
    · intro hta; exact bad_iff.mp (hb.mpr hta)
    · intro hnt
      have hbu := hbuilt t hne hnt
      refine ⟨hbu, ?_⟩
      rw [hr]
      have h1 : r ≠ .failed := fun e => by
        have := hk.1.mp e; rw [this] at hbu; revert hbu; decide
      have h2 : r ≠ .depFailed := fun e => by
        have := hk.2.mp e; rw [this] at hbu; revert hbu; decide
      cases r <;> simp_all

/-- **The exit flag, both directions, in terms of what was asked for**: at every point of a keep-going run the flag
    `progress.failed` is set exactly when some *requested* target (or a target some package subincludes) has failed or
    transitively depends on a target that has failed — nothing is built, and so nothing can fail, that was not asked
    for (`runKG_needed`).  With `C05_final_complete` (every requested target is reported as failed / dependency-failed
    exactly when tainted): the run exits non-zero iff some requested target could not be built. -/
theorem C05_exit_flag_iff_requested_tainted {req : List T} {s : St} (hrun : RunKG c req s) :
    s.failed = true ↔ ∃ r, (r ∈ req ∨ s.sw r = true) ∧ Tainted c s r := by
  have hi := reach_inv c (runKG_reach c hrun)
  constructor
  · intro hf
    obtain ⟨t, ht⟩ := (runKG_inv c hrun).failedWitness hf
    obtain ⟨r, hsrc, hp⟩ := runKG_needed c hrun t (by rw [ht]; decide)
    exact ⟨r, hsrc, tainted_of_path c hp (.self ht)⟩
  · intro ⟨r, _, hta⟩
    obtain ⟨d, hd⟩ := tainted_has_failed c hta
    exact hi.failedFlag d hd

/-- a failing leaf 0 with two dependants 1 and 2, and an independent target 3 -/
def leafFails : Cfg := { n := 4, deps := fun t => if t = 1 ∨ t = 2 then [0] else [], needBuild := true }

/-- 1, 2 and 3 are requested; 3 and 0 are queued and dispatched; 3 is built, 0 fails; the queuers of 1 and 2 find
    their dependency failed; everybody finishes; the initial scan ends -/
def leafFailsSchedule : List Action :=
  [.activate 1 false, .activate 2 false, .activate 3 false,
   .queuer 0, .queuer 0, .queuer 1, .queuer 1,
   .queuer 2, .queuer 2, .queuer 2, .queuer 3, .queuer 3, .queuer 3,
   .take 0, .workerStart 0, .workerOk 0 .built false, .workerDone 0,
   .take 1, .workerStart 1, .workerFail 1, .workerDone 1,
   .queuer 0, .queuer 0, .queuer 1, .queuer 1, .initDone]

def leafFailsEnd : St := ((runKGActs leafFails [] St.init leafFailsSchedule).map (·.2)).getD St.init

-- non-vacuity of `C05_final_complete`: a keep-going run on that graph that is maximal, with acyclic in-range
-- dependencies; its final state is as the theorem says (0 failed, its dependants 1 and 2 dependency-failed,
-- the independent 3 built, exit flag set)
example : RunKG leafFails [3, 2, 1] leafFailsEnd ∧ ¬ CanStep leafFails leafFailsEnd ∧ WF leafFails ∧ Acyclic leafFails ∧
    leafFails.needBuild = true ∧
    leafFailsEnd.st 0 = .failed ∧ leafFailsEnd.st 1 = .depFailed ∧ leafFailsEnd.st 2 = .depFailed ∧
    leafFailsEnd.st 3 = .built ∧ leafFailsEnd.failed = true ∧
    Tainted leafFails leafFailsEnd 1 ∧ leafFailsEnd.res 1 = some .depFailed ∧ leafFailsEnd.res 3 = some .built := by
  have hrun : RunKG leafFails [3, 2, 1] leafFailsEnd := by
    have h : runKGActs leafFails [] St.init leafFailsSchedule = some ([3, 2, 1], leafFailsEnd) := by
      have hs : (runKGActs leafFails [] St.init leafFailsSchedule).isSome = true := rfl
      have hq : ((runKGActs leafFails [] St.init leafFailsSchedule).map (·.1)) = some [3, 2, 1] := rfl
      cases hr : runKGActs leafFails [] St.init leafFailsSchedule with
      | none => rw [hr] at hs; cases hs
      | some p =>
        obtain ⟨rq, st⟩ := p
        rw [hr] at hq
        simp only [Option.map_some, Option.some.injEq] at hq
        subst hq
        have : leafFailsEnd = st := by unfold leafFailsEnd; rw [hr]; rfl
        rw [this]
    exact runKGActs_run leafFails _ RunKG.init h
  have hi := reach_inv leafFails (runKG_reach leafFails hrun)
  have hu : units leafFailsEnd = 0 := rfl
  have hwf : WF leafFails := by
    intro t d h
    show d < 4
    simp only [leafFails] at h
    split at h
    · simp at h; subst h; decide
    · simp at h
  have hacy : Acyclic leafFails := by
    refine ⟨fun t => t, ?_⟩
    intro t d h
    show d < t
    simp only [leafFails] at h
    split at h
    · rename_i h12; simp at h; subst h; rcases h12 with h1 | h2 <;> subst_vars <;> decide
    · simp at h
  exact ⟨hrun, quiet_not_canStep leafFails (quiet_of_units leafFails hi hu), hwf, hacy, rfl, rfl, rfl, rfl, rfl, rfl,
    .dep (d := 0) (by decide) (.self rfl), rfl, rfl⟩

/-! ## Liveness mechanisms outside the task counting: the cycle check's arming and the waiters of a target

Three repaired defects (/repo 377a4ab, ed8e9e3, 52b6f63) concern exactly these; for each the model carries the
mechanism, the theorem for the repaired code, and a witness (`C05_old_*`) that with the OLD value of the fact the model
reaches a state in which nothing but an external `Stop` changes anything — the hang. -/

/-- **No deadlock on any graph, cycles included, with the idle-time cycle check** (keep-going or not, whatever fails):
    in every reachable state `plz.Run` is about to return, or some goroutine can step, or `forwardResults` has no active
    target and starts the cycle check, which finds the cycle.  Needs: a failure result clears its target from the active
    set (`failClears`), failures wake the waiters of a target (`failWakes`), a failed target is not waited for
    (`lateOK`) — all three are facts of the code (`C05_facts_ok`); `hcyc`: a graph in which the detector finds no cycle
    is acyclic (C06). -/
theorem C05_no_deadlock_with_cycle_check {s : St} (hr : Reach c s) (hcyc : c.hasCycle = false → Acyclic c)
    (hfc : c.failClears = true) (hfw : c.failWakes = true) (hlo : c.lateOK = true) :
    Final s ∨ CanStep c s ∨ (fire c s .cycleCheck).isSome = true :=
  no_deadlock_cyclic c hr hcyc hfc hfw hlo

/-- the cycle check closes the queues and sets the exit flag (`asyncError`); what is left is draining: from then on
    every reachable state is final or has an enabled step, on any graph -/
theorem C05_cycle_check_stops_and_flags {s s' : St} (h : fire c s .cycleCheck = some s') :
    s'.stopped = true ∧ s'.failed = true ∧ (Final s' ∨ CanStep c s') := by
  simp only [fire] at h
  split at h
  · cases h; exact ⟨rfl, rfl, stopped_final_or_step c rfl⟩
  · cases h

/-- **Termination with --keep_going, a failing target and a cycle** (and with a failing subincluded target): no
    infinite execution, and no reachable state in which the build sits idle for ever — every maximal execution ends in
    a `Final` state, if necessary through the cycle check. -/
theorem C05_keep_going_terminates (hwf : WF c) (hcyc : c.hasCycle = false → Acyclic c)
    (hfc : c.failClears = true) (hfw : c.failWakes = true) (hlo : c.lateOK = true) :
    WellFounded (fun s' s => Reach c s ∧ Step c s s' ∧ s' ≠ s) ∧
    ∀ s, Reach c s → ¬ Final s → (∃ a s', (Internal a ∨ a = .cycleCheck) ∧ fire c s a = some s' ∧ mu c s' < mu c s) := by
  refine ⟨C05_terminates c hwf, ?_⟩
  intro s hr hnf
  have hi := reach_inv c hr
  have h2 := reach_inv2 c hwf hr
  rcases no_deadlock_cyclic c hr hcyc hfc hfw hlo with h | ⟨a, s', hint, hf⟩ | h
  · exact absurd h hnf
  · exact ⟨a, s', .inl hint, hf, C05_step_changes_state c hwf hr hint hf⟩
  · cases hf : fire c s .cycleCheck with
    | none => rw [hf] at h; cases h
    | some s' =>
      refine ⟨.cycleCheck, s', .inr rfl, hf, ?_⟩
      rcases step_mu c hi h2 .cycleCheck hf with e | e
      · exfalso
        have := (C05_cycle_check_stops_and_flags c hf).1
        simp only [fire] at hf
        split at hf
        · rename_i hg
          rw [e.1] at this
          simp [this] at hg
        · cases hf
      · exact e

/-- **Nobody is left waiting for a target**: at the end of a maximal keep-going run on an acyclic graph no goroutine
    remains — in particular none inside `WaitForBuiltTarget`, whether the target it waited for was built or failed. -/
theorem C05_waiters_all_released (hn : c.needBuild = true) (hacy : Acyclic c) (hfw : c.failWakes = true)
    (hlo : c.lateOK = true) {req : List T} {s : St} (hrun : RunKG c req s) (hmax : ¬ CanStep c s) :
    Final s ∧ ∀ i, s.qs i = none := by
  obtain ⟨hfin, hq, _⟩ := final_state c hn hacy hfw hlo hrun hmax
  exact ⟨hfin, hq.2.1⟩

/-! ### witness 1: the active set (377a4ab) -/

/-- target 0 fails; 1 and 2 depend on each other; `fc`: does a failure result clear the active set -/
def failCyc (fc : Bool) : Cfg :=
  { n := 3, deps := fun t => if t = 1 then [2] else if t = 2 then [1] else [], needBuild := true,
    failClears := fc, hasCycle := true }

/-- 0 and 1 are requested; 0 is queued, dispatched and fails; the queuers of 1 and 2 end up waiting for each other -/
def failCycSchedule : List Action :=
  [.activate 0 false, .activate 1 false, .queuer 0, .queuer 0, .queuer 0, .queuer 1, .queuer 1, .queuer 2, .queuer 2,
   .take 0, .workerStart 0, .workerFail 0, .workerDone 0, .initDone]

def failCycState (fc : Bool) : St := after (failCyc fc) failCycSchedule

/-- **OLD fact value** (active set keyed by target pointer, never cleared by a failure): `plz build --keep_going
    //pkg:fail //pkg:a` with a cycle a → b → a reaches a state in which the failed target is still "active", so the
    cycle check is never armed, no goroutine can step, `numPending` stays at 2 and the run is not over: it hangs. -/
theorem C05_old_active_set_blocks_cycle_check :
    Reach (failCyc false) (failCycState false) ∧ Stuck (failCyc false) (failCycState false) ∧
    (failCycState false).numPending = 2 ∧ (failCycState false).st 0 = .failed ∧ (failCycState false).active 0 = true := by
  have hr : Reach (failCyc false) (failCycState false) := after_reach _ _ rfl
  have hi := reach_inv _ hr
  refine ⟨hr, ?_, rfl, rfl, rfl⟩
  apply stuck_of
  · rfl
  · rfl
  · exact none_from1 _ (fun i x h => hi.mFresh i x h) rfl
  · exact none_from1 _ (fun i x h => hi.wFresh i x h) rfl
  · intro i q hq
    have hlt : i < 3 := hi.qFresh i q hq
    have : i = 0 ∨ i = 1 ∨ i = 2 := by omega
    rcases this with rfl | rfl | rfl
    · have e : (failCycState false).qs 0 = none := rfl
      rw [e] at hq; cases hq
    · have e : (failCycState false).qs 1 = some ⟨1, true, false, .waitDeps [2]⟩ := rfl
      rw [e] at hq; cases hq
      exact ⟨rfl, fun d r h => by cases h⟩
    · have e : (failCycState false).qs 2 = some ⟨2, true, false, .waitDeps [1]⟩ := rfl
      rw [e] at hq; cases hq
      exact ⟨rfl, fun d r h => by cases h⟩
  · intro t f ht
    have ht' : t < 3 := ht
    have : t = 0 ∨ t = 1 ∨ t = 2 := by omega
    rcases this with rfl | rfl | rfl <;> cases f <;> rfl
  · rfl

def failCycEnd : St := after (failCyc true) (failCycSchedule ++ [.cycleCheck])

/-- **Repaired**: the same schedule leaves the active set empty, the cycle check fires, the queues are closed, the
    exit flag is set and `plz.Run` returns. -/
theorem C05_failure_and_cycle_ends_by_cycle_check :
    Reach (failCyc true) (failCycState true) ∧ (failCycState true).active 0 = false ∧
    fire (failCyc true) (failCycState true) .cycleCheck = some failCycEnd ∧
    Reach (failCyc true) failCycEnd ∧ Final failCycEnd ∧ failCycEnd.failed = true := by
  have hr : Reach (failCyc true) failCycEnd := after_reach _ _ rfl
  have hi := reach_inv _ hr
  refine ⟨after_reach _ _ rfl, rfl, rfl, hr, ⟨rfl, ?_, ?_⟩, rfl⟩
  · exact none_from1 _ (fun i x h => hi.mFresh i x h) rfl
  · exact none_from1 _ (fun i x h => hi.wFresh i x h) rfl

/-! ### witnesses 2 and 3: the waiters of a target (ed8e9e3, 52b6f63) -/

/-- one target (the subincluded one), whose command fails; `fw`: are its waiters signalled on failure; `lo`: does
    `WaitForBuiltTarget` return at once for a target that has already failed -/
def subCfg (fw lo : Bool) : Cfg := { n := 1, deps := fun _ => [], needBuild := true, failWakes := fw, lateOK := lo }

/-- the parse of the subincluding package asks for the target first (registers the channel, queues the target); then
    the target is dispatched and fails -/
def subScheduleA : List Action :=
  [.subWait 0, .queuer 0, .queuer 0, .queuer 0, .take 0, .workerStart 0, .workerFail 0, .workerDone 0, .initDone]

/-- the target is requested, built and fails; only then does the parse of a subincluding package ask for it -/
def subScheduleB : List Action :=
  [.activate 0 false, .queuer 0, .queuer 0, .queuer 0, .take 0, .workerStart 0, .workerFail 0, .workerDone 0,
   .subWait 0, .initDone]

theorem stuck_waiter (c : Cfg) (hn : c.n = 1) (sch : List Action) (hsome : (runActs c St.init sch).isSome = true)
    (h0 : (after c sch).qs 0 = none) (h1 : (after c sch).qs 1 = some ⟨0, false, true, .waitTarget 0⟩)
    (hw : (after c sch).woken 0 = false) (hnq : (after c sch).nextQ = 2) (hnm : (after c sch).nextM = 1)
    (hnw : (after c sch).nextW = 1) (hm : (after c sch).chan 0 = none) (hws : (after c sch).ws 0 = none)
    (hinit : (after c sch).initDone = true) (hst : (after c sch).stopped = false)
    (hact : ∀ f, qrt c (after c sch) 0 f = after c sch) (hcc : fire c (after c sch) .cycleCheck = none) :
    Reach c (after c sch) ∧ Stuck c (after c sch) := by
  have hr : Reach c (after c sch) := after_reach _ _ hsome
  have hi := reach_inv _ hr
  refine ⟨hr, ?_⟩
  apply stuck_of
  · exact hinit
  · exact hst
  · exact none_from1 _ (fun i x h => by have := hi.mFresh i x h; omega) hm
  · exact none_from1 _ (fun i x h => by have := hi.wFresh i x h; omega) hws
  · intro i q hq
    have hlt := hi.qFresh i q hq
    have : i = 0 ∨ i = 1 := by omega
    rcases this with rfl | rfl
    · rw [h0] at hq; cases hq
    · rw [h1] at hq; cases hq
      exact ⟨by simp [queuerStep, hw], fun d r h => by cases h⟩
  · intro t f ht
    have : t = 0 := by omega
    subst this; exact hact f
  · exact hcc

/-- **OLD fact value** (`build.Build` does not signal the waiters of a failed target): `plz build --keep_going //pkg:a`
    where pkg/BUILD subincludes a target whose command fails reaches a state in which the parse task waits on
    `pendingTargets` for ever: the target is Failed, the channel is never closed, `numPending` stays at 1. -/
theorem C05_old_failed_subinclude_never_wakes_waiter :
    Reach (subCfg false true) (after (subCfg false true) subScheduleA) ∧
    Stuck (subCfg false true) (after (subCfg false true) subScheduleA) ∧
    (after (subCfg false true) subScheduleA).st 0 = .failed ∧ (after (subCfg false true) subScheduleA).numPending = 1 := by
  obtain ⟨h1, h2⟩ := stuck_waiter (subCfg false true) rfl subScheduleA rfl rfl rfl rfl rfl rfl rfl rfl rfl rfl rfl
    (fun f => by cases f <;> rfl) rfl
  exact ⟨h1, h2, rfl, rfl⟩

/-- **OLD fact value** (`WaitForBuiltTarget` waits even for a target that has already failed): when the target fails
    before the first waiter has registered its channel, the failure is signalled to nobody; the waiter that arrives
    later registers a channel nobody will close. -/
theorem C05_old_waiter_after_failure_waits_for_ever :
    Reach (subCfg true false) (after (subCfg true false) subScheduleB) ∧
    Stuck (subCfg true false) (after (subCfg true false) subScheduleB) ∧
    (after (subCfg true false) subScheduleB).st 0 = .failed ∧ (after (subCfg true false) subScheduleB).numPending = 1 := by
  obtain ⟨h1, h2⟩ := stuck_waiter (subCfg true false) rfl subScheduleB rfl rfl rfl rfl rfl rfl rfl rfl rfl rfl rfl
    (fun f => by cases f <;> rfl) rfl
  exact ⟨h1, h2, rfl, rfl⟩

/-- **Repaired**, both orders: the waiter is woken (resp. does not wait), releases its task, the counter reaches 0, the
    queues are closed, the exit flag is set, nobody is left waiting. -/
theorem C05_failed_subinclude_run_ends :
    (let s := after (subCfg true true) (subScheduleA ++ [.queuer 1, .queuer 1])
     Reach (subCfg true true) s ∧ units s = 0 ∧ s.stopped = true ∧ s.failed = true ∧ s.numPending = 0) ∧
    (let s := after (subCfg true true) subScheduleB
     Reach (subCfg true true) s ∧ units s = 0 ∧ s.stopped = true ∧ s.failed = true ∧ s.numPending = 0) :=
  ⟨⟨after_reach _ _ rfl, rfl, rfl, rfl, rfl⟩, ⟨after_reach _ _ rfl, rfl, rfl, rfl, rfl⟩⟩

/-- **Never runs a target whose dependency failed**: a target with a failed (or dependency-failed) dependency
    has not been started and, being unable to pass the wait for that dependency, never will be. -/
theorem C05_no_run_after_failed_dep {s : St} (hr : Reach c s) (t d : T) (hd : d ∈ c.deps t)
    (hbad : (s.st d).isBad = true) : s.starts t = 0 := by
  have hi := reach_inv c hr
  by_cases h1 : (s.st t).rank < TS.building.rank ∨ s.st t = .depFailed
  · exact hi.starts0 t h1
  · have e3 : TS.pending.rank = 3 := rfl
    have e4 : TS.building.rank = 4 := rfl
    have hb := (hi.depsDone t (by omega) (by intro e; exact h1 (.inr e)) d hd).2
    revert hb hbad
    cases s.st d <;> simp [TS.isBad, TS.isBuilt, TS.rank]

/-- **The exit status cannot miss a failure**: whenever a target is Failed, or a queuer gave up through
    `asyncError`, the `failed` flag (`progress.failed`/`buildFailed`, from which `toExitCode` derives a non-zero
    status) is set — and it is never reset.  (The converse half, "non-zero only if something requested could not be
    built", involves the result stream and `MonitorState` and is checked end to end only.) -/
theorem C05_failure_sets_exit_flag {s : St} (hr : Reach c s) (t : T) (hf : s.st t = .failed) : s.failed = true :=
  (reach_inv c hr).failedFlag t hf

theorem C05_abort_sets_exit_flag_and_stops {s s' : St} (i : Nat) (h : fire c s (.queuerAbort i) = some s') :
    s'.failed = true ∧ s'.stopped = true := by
  simp only [fire] at h
  split at h
  · split at h
    · cases h; exact ⟨rfl, rfl⟩
    · cases h
  · cases h

/-- a failure is never lost: a failed target stays failed and reported as failed -/
theorem C05_failure_reported {s : St} (hr : Reach c s) (t : T) (hf : s.st t = .failed) :
    s.fin t = true ∧ s.res t = some .failed ∧ s.nres t = 1 := by
  have hi := reach_inv c hr
  have hfin : s.fin t = true := by rw [hi.finTerm t, hf]; decide
  refine ⟨hfin, ?_, by rw [hi.nresFin t, hfin]; rfl⟩
  have hs := hi.resSome t
  rw [hfin] at hs
  cases hr' : s.res t with
  | none => rw [hr'] at hs; cases hs
  | some r => exact congrArg some (((hi.resKind t r hr').1).mpr hf)

end PlzVerif.Props.C05
