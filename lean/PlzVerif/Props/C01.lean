import PlzVerif.Lemmas.Build
import PlzVerif.Lemmas.BuildNoop
import PlzVerif.Model.BuildFacts
import PlzVerif.Model.BuildE2E
import PlzVerif.Lemmas.BuildOn
import PlzVerif.Lemmas.BuildE2EFiles
/-!
C01  Incremental builds produce exactly what a clean build produces.

`C01_main_if_injective` is the property for EVERY history (any sequence of builds of arbitrary repository states and arbitrary
removals from plz-out), every deterministic action semantics `exec`, every well-formed dependency-ordered target
list — under the two injectivity hypotheses on the hash pre-images, which are exactly the statements of C08
(`ruleSer`) and C09 (`pathSer`).  On the pinned tree BOTH hypotheses are false for the pre-images as coded — the path pre-image ignores entry names
inside directories and permission bits (`C01_witness`, `C01_witness_mode_not_hashed`), the rule pre-image is
concatenated unframed (`C01_witness_rule_preimage_not_injective`, C08) — so the theorem is named `_if_injective`: it
says exactly which two repairs make the property hold, and it is instantiable for any injective pair of
pre-images.  `C01_main_on` is the same statement with injectivity restricted to the values that occur in the
history, and `C01_e2e_files` instantiates it for the pre-images AS CODED on a class of repositories where they are
injective (plain-file outputs, prefix-code names) — no hypothesis about the pre-images is left there.
The witnesses are kernel-checked and the corresponding histories are replayed on the real binary
(corpus/C01/known-*.ops, known findings).
-/
namespace PlzVerif.Props.C01
open PlzVerif.Build

variable {K A F N C S H : Type} [DecidableEq K] [DecidableEq S] [DecidableEq N] [DecidableEq H]
variable (exec : A → List (N × C) → C) (ruleSer : A → S) (pathSer : C → H)

/-- Obligation a code change can break: the facts regenerated from needsBuilding / moveOutput / sourceHash /
    readRuleHashFromXattrs satisfy the side condition of the theorems below. -/
theorem C01_facts_ok : FactsOK = true := by decide

theorem facts_cmp : generatedFacts.cmpRule = true ∧ generatedFacts.cmpSource = true := by
  have h := C01_facts_ok
  simp only [FactsOK, Bool.and_eq_true] at h
  exact ⟨h.1.1.1.1.1.1.1.1.1, h.1.1.1.1.1.1.1.1.2⟩

/-- From ANY plz-out satisfying the history invariant, one incremental build gives every requested target
    (and dependency) exactly its clean-build output. -/
theorem C01_incremental_eq_clean_if_injective (hR : Function.Injective ruleSer) (hP : Function.Injective pathSer)
    (r : Repo K A F N C) (sel : K → Bool) (out : Out K C S N H)
    (hinv : Inv exec ruleSer pathSer out) (hwf : WFList sel [] r.targets) :
    ∀ k ∈ selKeys sel r.targets, ∃ c st,
      (build generatedFacts (mvCoded generatedFacts pathSer) exec ruleSer pathSer r sel out).1 k = some (c, st) ∧ (clean exec r sel).lookup k = some c := by
  have h := buildList_spec generatedFacts (mvCoded generatedFacts pathSer) exec ruleSer pathSer (mvCoded_ok _ _) facts_cmp hR hP r sel r.targets [] out [] rfl hinv
    (by intro k hk; simp at hk) hwf
  intro k hk
  exact h.2.2 k (by simpa using hk)

/-- The property over all histories: start from an empty plz-out, let the user do anything (builds of any
    intermediate repository states with any requested sets, deleting any outputs), then build `r` for `sel`. -/
theorem C01_main_if_injective (hR : Function.Injective ruleSer) (hP : Function.Injective pathSer)
    (history : List (HOp K A F N C)) (r : Repo K A F N C) (sel : K → Bool) (hwf : WFList sel [] r.targets) :
    ∀ k ∈ selKeys sel r.targets, ∃ c st,
      (build generatedFacts (mvCoded generatedFacts pathSer) exec ruleSer pathSer r sel (runHist generatedFacts (mvCoded generatedFacts pathSer) exec ruleSer pathSer history (fun _ => none))).1 k = some (c, st) ∧
      (clean exec r sel).lookup k = some c :=
  C01_incremental_eq_clean_if_injective exec ruleSer pathSer hR hP r sel _
    (runHist_inv generatedFacts (mvCoded generatedFacts pathSer) exec ruleSer pathSer (mvCoded_ok _ _) hP history _ (inv_empty exec ruleSer pathSer)) hwf

/-- A target skipped as up to date has the output its current definition would produce (the induction step). -/
theorem C01_skip_sound (hR : Function.Injective ruleSer) (hP : Function.Injective pathSer)
    (r : Repo K A F N C) (out : Out K C S N H) (t : Target K A F) (ins : List (N × C)) (c : C) (st : Stamp S N H)
    (hinv : Inv exec ruleSer pathSer out) (hin : inputs r out t = some ins)
    (ho : out t.key = some (c, st)) (hst : st = stampOf ruleSer pathSer t.attrs ins) :
    c = exec t.attrs ins := by
  obtain ⟨a, ins', hs, hc⟩ := hinv t.key c st ho
  rw [hst] at hs
  simp only [stampOf, Stamp.mk.injEq] at hs
  have ha : a = t.attrs := (hR hs.1).symm
  have hi := map_inj (pairSer_inj pathSer hP) hs.2
  rw [hc, ha, ← hi]

/-! ### Witness: with the directory pre-image as coded (contents only, no entry names) the property fails. -/
namespace Witness
abbrev Dir := List (Nat × Nat)                         -- (entry name, content)
def pserBad (d : Dir) : List Nat := d.map (·.2)         -- fs/hash.go:203: directory = contents of its files, in order
/-- "mkdir $OUT; for each name in the source: echo 7 > $OUT/name" -/
def execW (_a : Nat) (ins : List (Nat × Dir)) : Dir := ((ins.map (·.2)).flatten.map (·.1)).map (fun n => (n, 7))
def tgt : Target Nat Nat Nat := ⟨0, 0, [0], []⟩
def repo1 : Repo Nat Nat Nat Nat Dir := { files := fun _ => [(1, 0), (2, 0)], fname := id, outName := id, targets := [tgt] }
def repo2 : Repo Nat Nat Nat Nat Dir := { files := fun _ => [(1, 0), (9, 0)], fname := id, outName := id, targets := [tgt] }
def all : Nat → Bool := fun _ => true
def out1 : Out Nat Dir Nat Nat (List Nat) := (build generatedFacts (mvCoded generatedFacts pserBad) execW id pserBad repo1 all (fun _ => none)).1
def out2 : Out Nat Dir Nat Nat (List Nat) := (build generatedFacts (mvCoded generatedFacts pserBad) execW id pserBad repo2 all out1).1
end Witness

open Witness in
/-- names `a b` → `a z`: the action re-runs, moveOutput sees equal (content-only) hashes and keeps the old
    directory; a clean build has `a z`. -/
theorem C01_witness :
    (out2 0).map Prod.fst = some [(1, 7), (2, 7)] ∧ (clean execW repo2 all).lookup 0 = some [(1, 7), (9, 7)] := by
  decide

open Witness in
/-- the hypothesis of `C01_main_if_injective` that fails on the witness: the coded directory pre-image is not injective -/
theorem C01_witness_pathSer_not_injective : ¬ Function.Injective pserBad := by
  intro h
  have := @h [(1, 7), (2, 7)] [(1, 7), (9, 7)] (by decide)
  exact absurd this (by decide)

/-- Second witness (optional outputs): the move of outputs as coded lets an optional output that is no longer
    produced linger in plz-out, so it does not satisfy `MvOK` — the hypothesis under which the build lemmas hold.
    Replayed on the real binary by corpus/C01/optional-out-disappears.ops (known finding). -/
theorem C01_witness_optional_output_lingers : ¬ MvOK PlzVerif.BuildE2E.pathSer PlzVerif.BuildE2E.mvE2E := by
  intro h
  rcases h (.fileOpt "a" (some "a")) (.fileOpt "" none) with h1 | ⟨h1, _⟩
  · simp [PlzVerif.BuildE2E.mvE2E, PlzVerif.BuildE2E.extraOf] at h1
  · simp [PlzVerif.BuildE2E.pathSer] at h1

/-- …while for everything that is not an optional output the coded move is `mvCoded`, which is fine. -/
theorem C01_mvE2E_declared (old : PlzVerif.BuildE2E.Tree) (c : String) :
    PlzVerif.BuildE2E.mvE2E old (.file c) = mvCoded generatedFacts PlzVerif.BuildE2E.pathSer old (.file c) := rfl

/-- Third witness (permission bits): the coded path pre-image of a file is its bytes, so an executable and a
    non-executable file with the same bytes are identified; moveOutput then keeps the old one. Replayed on the real
    binary by corpus/C01/known-mode-not-hashed.ops (known finding). -/
theorem C01_witness_mode_not_hashed :
    PlzVerif.BuildE2E.pathSer (.file "hi\n") = PlzVerif.BuildE2E.pathSer (.filex "hi\n") ∧
    (PlzVerif.BuildE2E.Tree.file "hi\n" ≠ .filex "hi\n") ∧
    PlzVerif.BuildE2E.mvE2E (.file "hi\n") (.filex "hi\n") = .file "hi\n" := by
  refine ⟨rfl, by simp, ?_⟩
  have hk : generatedFacts.keepOld = true := by decide
  simp [PlzVerif.BuildE2E.mvE2E, mvCoded, PlzVerif.BuildE2E.pathSer, hk]

/-- The rule pre-image of the end-to-end instance is concatenated unframed, exactly like `ruleHash`: it is not
    injective either (C08's finding), so `C01_main_if_injective`'s first hypothesis also fails for the code as it is. -/
theorem C01_witness_rule_preimage_not_injective : ¬ Function.Injective PlzVerif.BuildE2E.ruleSer := by
  intro h
  have := @h ⟨"ab", .cat, [], "o"⟩ ⟨"a", .cat, ["b"], "o"⟩ (by simp [PlzVerif.BuildE2E.ruleSer, String.join])
  simp at this

/-! ### The instantiable form: injectivity restricted to the values that occur in the history -/

/-- `C01_main_if_injective` with injectivity required only ON DOMAINS: `DA` contains the attribute records of every
    target of every repository state of the history (and of the final one), `DC` their source trees and is closed
    under the actions.  The proof never compares anything else (Lemmas/BuildOn.lean). -/
theorem C01_main_on (mv : C → C → C) (DA : A → Prop) (DC : C → Prop)
    (hmv : MvOKOn mv pathSer DC) (hR : InjROn ruleSer DA) (hP : InjPOn pathSer DC) (hE : ExecClosed exec DA DC)
    (history : List (HOp K A F N C)) (hh : HistOn DA DC history)
    (r : Repo K A F N C) (hr : RepoOn DA DC r) (sel : K → Bool) (hwf : WFList sel [] r.targets) :
    ∀ k ∈ selKeys sel r.targets, ∃ c st,
      (build generatedFacts mv exec ruleSer pathSer r sel
        (runHist generatedFacts mv exec ruleSer pathSer history (fun _ => none))).1 k = some (c, st) ∧
      (clean exec r sel).lookup k = some c := by
  have hinv := runHist_inv_on generatedFacts mv exec ruleSer pathSer DA DC hmv hP hE history _ hh
    (invOn_empty exec ruleSer pathSer DA DC)
  have h := buildList_spec_on generatedFacts mv exec ruleSer pathSer DA DC hmv facts_cmp hR hP hE r sel r.targets []
    _ [] hr rfl hinv (by intro k hk; simp at hk) hwf
  intro k hk
  exact h.2.2 k (by simpa using hk)

/-- **The theorem that applies to the code as it is** (end-to-end instance: path pre-image without names and modes,
    rule pre-image concatenated unframed, the coded move of outputs `mvE2E`), with NO unproved hypothesis about the
    pre-images: for repositories whose outputs are plain files (commands cat / catfirst / catn / const / text and
    filegroups) and whose labels, sources and output names are words of a prefix code (end in a terminator character
    that occurs nowhere else in them, no `\x01`), after ANY history of such repository states and removals the
    incremental build gives every requested target exactly its clean-build output. -/
theorem C01_e2e_files (term : Char → Bool)
    (history : List (HOp String PlzVerif.BuildE2E.Attrs String String PlzVerif.BuildE2E.Tree))
    (hh : HistOn (PlzVerif.BuildE2E.DAttrs term) PlzVerif.BuildE2E.IsFile history)
    (r : PlzVerif.BuildE2E.Repo') (hr : RepoOn (PlzVerif.BuildE2E.DAttrs term) PlzVerif.BuildE2E.IsFile r)
    (sel : String → Bool) (hwf : WFList sel [] r.targets) :
    ∀ k ∈ selKeys sel r.targets, ∃ c st,
      (PlzVerif.BuildE2E.buildE2E r sel
        (runHist generatedFacts PlzVerif.BuildE2E.mvE2E PlzVerif.BuildE2E.exec PlzVerif.BuildE2E.ruleSer
          PlzVerif.BuildE2E.pathSer history (fun _ => none))).1 k = some (c, st) ∧
      (PlzVerif.BuildE2E.cleanE2E r sel).lookup k = some c :=
  C01_main_on PlzVerif.BuildE2E.exec PlzVerif.BuildE2E.ruleSer PlzVerif.BuildE2E.pathSer PlzVerif.BuildE2E.mvE2E
    (PlzVerif.BuildE2E.DAttrs term) PlzVerif.BuildE2E.IsFile PlzVerif.BuildE2E.mvE2E_ok_files
    (PlzVerif.BuildE2E.ruleSer_inj_on term) PlzVerif.BuildE2E.pathSer_inj_files (PlzVerif.BuildE2E.exec_closed_files term)
    history hh r hr sel hwf

namespace E2EExample
open PlzVerif.BuildE2E
/-- terminator: a decimal digit -/
def digit (c : Char) : Bool := c.isDigit
/-- `//p:t1 = cat(f1)`, `//p:t2 = catn(//p:t1, f2)`; names end in their only digit. -/
def t1 : Target' := ⟨"//p:t1", ⟨"//p:t1", .cat, ["f1"], "o1"⟩, ["f1"], []⟩
def t2 : Target' := ⟨"//p:t2", ⟨"//p:t2", .catn, ["//p:t1", "f2"], "o2"⟩, ["f2"], ["//p:t1"]⟩
def repoA : Repo' := { files := fun f => .file (f ++ "-v1\n"), fname := id, outName := id, targets := [t1, t2] }
/-- the same with every source edited and `t1` redefined as a constant -/
def repoB : Repo' := { files := fun f => .file (f ++ "-v2\n"), fname := id, outName := id,
                       targets := [⟨"//p:t1", ⟨"//p:t1", .const "k", [], "o1"⟩, [], []⟩, t2] }

theorem goodWord_of (s : String) (body : List Char) (t : Char) (h : s.toList = body ++ [t])
    (ht : digit t = true) (hb : ∀ c ∈ body, digit c = false) (hs : sep ∉ s.toList) : GoodWord digit s :=
  ⟨⟨body, t, h, ht, hb⟩, hs⟩

theorem repoA_on : RepoOn (DAttrs digit) IsFile repoA := by
  intro t ht
  simp [repoA] at ht
  rcases ht with rfl | rfl
  · refine ⟨⟨rfl, goodWord_of _ "//p:t".toList '1' (by decide) (by decide) (by decide) (by decide), ?_,
      goodWord_of _ "o".toList '1' (by decide) (by decide) (by decide) (by decide)⟩, fun f _ => trivial⟩
    intro s hs; simp [t1] at hs; subst hs
    exact goodWord_of _ "f".toList '1' (by decide) (by decide) (by decide) (by decide)
  · refine ⟨⟨rfl, goodWord_of _ "//p:t".toList '2' (by decide) (by decide) (by decide) (by decide), ?_,
      goodWord_of _ "o".toList '2' (by decide) (by decide) (by decide) (by decide)⟩, fun f _ => trivial⟩
    intro s hs; simp [t2] at hs
    rcases hs with rfl | rfl
    · exact goodWord_of _ "//p:t".toList '1' (by decide) (by decide) (by decide) (by decide)
    · exact goodWord_of _ "f".toList '2' (by decide) (by decide) (by decide) (by decide)

theorem repoB_on : RepoOn (DAttrs digit) IsFile repoB := by
  intro t ht
  simp [repoB] at ht
  rcases ht with rfl | rfl
  · exact ⟨⟨rfl, goodWord_of _ "//p:t".toList '1' (by decide) (by decide) (by decide) (by decide), by simp,
      goodWord_of _ "o".toList '1' (by decide) (by decide) (by decide) (by decide)⟩, fun f hf => by simp at hf⟩
  · exact repoA_on t2 (by simp [repoA])

/-- non-vacuity of `C01_e2e_files`: a two-target repository in the class, a history that builds it, removes an
    output and builds an edited state; all hypotheses hold. -/
example : HistOn (DAttrs digit) IsFile [.build repoA (fun _ => true), .remove (fun k => k != "//p:t2")] ∧
    RepoOn (DAttrs digit) IsFile repoB ∧ WFList (fun _ => true) [] repoB.targets :=
  ⟨⟨repoA_on, trivial⟩, repoB_on, by simp [WFList, repoB, t2]⟩
end E2EExample

-- non-vacuity of C01_main_if_injective's hypotheses: a well-formed two-target list with injective pre-images
example : WFList (fun _ => true) [] ([⟨0, 0, [0], []⟩, ⟨1, 1, [], [0]⟩] : List (Target Nat Nat Nat)) := by
  simp [WFList]

end PlzVerif.Props.C01
