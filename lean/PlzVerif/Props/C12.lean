import PlzVerif.Lemmas.DirCacheRestore
import PlzVerif.Generated.C12
/-!
C12  Directory cache: faithful, atomic store and retrieve.

The store is the list of atomic filesystem operations `storeOpsU` / `storeOpsC` (Model/DirCache.lean), built
from the phase order read from /repo's `dirCache.Store` on this run.  A crash is a cut of that list at ANY
position — including inside the recursive removal of an old entry, inside `RecursiveLink`, and between any two
writes of the tarball.  A concurrent retrieve is a reader whose every step sees the state after some prefix.

Status on the pinned tree:
* round trip, miss, crash atomicity and interleaving hold for compressed caches and, in plain mode, for keys
  that are fresh or whose old entry has only leaf outputs;
* `C12_witness_restore_crash`: re-storing a key whose old entry has a directory output removes that entry in
  place (`fs.RemoveAll(cacheDir)`), so a crash — or a concurrent retrieve — in the middle of the removal is a
  HIT that restores part of the old tree;
* FIXED (`fix:` commit in /repo): `retrieveFiles` used to return `true, err` for compressed caches and `retrieve`
  lets `os.IsNotExist(err)` through, so an entry that disappeared between `PathExists` and `os.Open` was a HIT
  that restored nothing (`C12_witness_concurrent_compressed`, now conditional on the old fact value).  With
  `return false, err` the interleaving statement holds at full strength: `C12_concurrent_compressed`.
-/
namespace PlzVerif.Props.C12
open PlzVerif.DirCache PlzVerif.Generated

/-- Side condition on the regenerated facts (decidable). -/
def FactsOK : Bool :=
  C12.storeOrder == canonOrder && C12.tmpSuffix == "=" &&
  C12.readyOrder == ["mkdirall-parent", "removeall-path"] &&
  C12.storeFileOrder == ["ready-dest", "link-to-dest"] &&
  C12.failedTarballRemoved && C12.retrieveChecksExistsFirst && C12.emptyOutsIsHit &&
  C12.pathParts == ["join-b64key", "param2", "param3", "field-Suffix"] &&
  C12.damagedIsMiss &&
  -- since the fix of `compressed-retrieve-enoent-reported-as-hit`: retrieveFiles returns `false, err` for compressed caches
  C12.enoentIsMiss &&
  -- restoring: EVERY archive entry / requested output is prepared (parent created when the name has a slash, destination
  -- unlinked unconditionally) before it is written; needed because the open does not truncate
  C12.retrievePreparesEveryEntry && C12.plainRetrievePreparesEveryOut &&
  C12.retrieveReadySeq == ["assign", "mkdir-parent-if-slash", "unlink-dest", "return"] &&
  !C12.retrieveReadyReturnsBeforeUnlink

/-- Obligation a code change can break: the facts extracted from /repo satisfy the side condition. -/
theorem C12_facts_ok : FactsOK = true := by decide

theorem order_canon : C12.storeOrder = canonOrder := by decide

theorem damaged_is_miss : C12.damagedIsMiss = true := by decide

theorem enoent_is_miss : C12.enoentIsMiss = true := by decide

/-- The compressed retrieve of this run's /repo. -/
abbrev retrC := retrieveC C12.damagedIsMiss

/-- The store of this run's /repo, plain and compressed. -/
def storeU (src : Tree) (rm outs : List Path) : List Op := storeOpsU C12.storeOrder src rm outs
def storeC (src : Tree) (outs : List Path) : List COp := storeOpsC C12.storeOrder src outs

/-- The complete restored tree: everything the source holds at or below the requested outputs. -/
def completeU (cands : List Path) (src : Tree) (outs : List Path) : Tree :=
  cands.filterMap fun p => if outs.any (·.isPrefixOf p) then (src.get p).map (p, ·) else none

/-! ## Round trip -/

/-- Plain mode, node by node: after a complete store the entry holds, at and below every requested output,
    exactly what the source tree holds there (contents, executable bits, symlink targets, empty directories;
    nothing extra).  Any leftovers of earlier interrupted stores of the same outputs may be present before. -/
theorem C12_store_faithful_plain (src : Tree) (hsrc : srcOK [] src = true) (outs rm : List Path)
    (hinc : Incomparable outs) (hne : ∀ o ∈ outs, o ≠ []) (fs0 : FS) (hstale : StaleOK fs0 outs) :
    ∀ o ∈ outs, ∀ p, o <+: p → applyOps fs0 (storeU src rm outs) .final p = src.get p := by
  unfold storeU; rw [order_canon]
  exact (store_complete src hsrc outs rm hinc hne fs0 hstale).1

theorem C12_roundtrip_plain (src : Tree) (hsrc : srcOK [] src = true) (outs rm : List Path)
    (hinc : Incomparable outs) (hne : ∀ o ∈ outs, o ≠ []) (hout : outs ≠ []) (fs0 : FS) (hstale : StaleOK fs0 outs)
    (hexists : ∀ o ∈ outs, src.get o ≠ none) (cands : List Path) :
    retrieveU (applyOps fs0 (storeU src rm outs)) cands outs = .hit (completeU cands src outs) := by
  have hpt := C12_store_faithful_plain src hsrc outs rm hinc hne fs0 hstale
  have hroot : applyOps fs0 (storeU src rm outs) .final [] = some .dir := by
    unfold storeU; rw [order_canon]
    exact (store_complete src hsrc outs rm hinc hne fs0 hstale).2 hout
  unfold retrieveU completeU
  have hany : (outs.any fun o => decide (applyOps fs0 (storeU src rm outs) .final o = none)) = false := by
    rw [List.any_eq_false]
    intro o ho
    simp only [decide_eq_true_eq]
    rw [hpt o ho o (List.prefix_refl _)]
    exact hexists o ho
  simp only [hroot, hany, if_false, Bool.false_eq_true]
  simp only [reduceCtorEq, if_false]
  congr 1
  apply filterMap_congr'
  intro p _
  by_cases hp : (outs.any (·.isPrefixOf p)) = true
  · simp only [hp, if_true]
    rw [List.any_eq_true] at hp
    obtain ⟨o, ho, hop⟩ := hp
    rw [hpt o ho p (isPrefixOf_eq_true_iff.mp hop)]
  · simp [hp]

-- non-vacuity: a directory with a file and a relative symlink, an executable, an empty directory
example : retrieveU (applyOps FS.empty (storeU
      [(["a"], .file [104, 105] true), (["d"], .dir), (["d", "e"], .dir), (["d", "x"], .file [120] false), (["d", "y"], .link [120])]
      [] [["a"], ["d"]])) [["a"], ["d"], ["d", "e"], ["d", "x"], ["d", "y"], ["z"]] [["a"], ["d"]] =
    .hit [(["a"], .file [104, 105] true), (["d"], .dir), (["d", "e"], .dir), (["d", "x"], .file [120] false), (["d", "y"], .link [120])] := by
  decide

/-- Compressed mode: the retrieve restores exactly the walked entries of the requested outputs. -/
theorem C12_roundtrip_compressed (src : Tree) (hsrc : srcOK [] src = true) (outs : List Path) (fs0 : CFS)
    (hexists : ∀ o ∈ outs, src.get o ≠ none) :
    retrC (applyOpsC fs0 (storeC src outs)) outs = .hit (outs.flatMap (src.below ·)) := by
  unfold storeC; rw [order_canon]
  have := (storeC_complete src hsrc outs fs0).1 hexists
  unfold retrC retrieveC
  rw [this]
  by_cases h : outs = []
  · subst h; rfl
  · simp [h]

/-- A store of outputs that do not all exist leaves no entry (compressed) / an entry that misses (plain). -/
theorem C12_store_missing_output_compressed (src : Tree) (hsrc : srcOK [] src = true) (outs : List Path) (fs0 : CFS)
    (hmiss : ∃ o ∈ outs, src.get o = none) :
    retrC (applyOpsC fs0 (storeC src outs)) outs = .miss := by
  unfold storeC; rw [order_canon]
  have := (storeC_complete src hsrc outs fs0).2 hmiss
  unfold retrC retrieveC
  rw [this]

theorem C12_store_missing_output_plain (src : Tree) (hsrc : srcOK [] src = true) (outs rm : List Path)
    (hinc : Incomparable outs) (hne : ∀ o ∈ outs, o ≠ []) (fs0 : FS) (hstale : StaleOK fs0 outs)
    (hmiss : ∃ o ∈ outs, src.get o = none) (cands : List Path) :
    retrieveU (applyOps fs0 (storeU src rm outs)) cands outs = .miss := by
  have hpt := C12_store_faithful_plain src hsrc outs rm hinc hne fs0 hstale
  obtain ⟨o, ho, hon⟩ := hmiss
  unfold retrieveU
  by_cases h0 : applyOps fs0 (storeU src rm outs) .final [] = none
  · simp [h0]
  · have : (outs.any fun o => decide (applyOps fs0 (storeU src rm outs) .final o = none)) = true := by
      rw [List.any_eq_true]
      exact ⟨o, ho, by simp [hpt o ho o (List.prefix_refl _), hon]⟩
    simp [h0, this]

/-- Every archive entry is prepared before it is written (this run's /repo). -/
def prepFact : Bool := C12.retrievePreparesEveryEntry && !C12.retrieveReadyReturnsBeforeUnlink

theorem prep_fact : prepFact = true := by decide

/-- What `Store` puts into the tarball: the walked entries of the requested outputs, in order. -/
def archive (src : Tree) (outs : List Path) : Tree := outs.flatMap (src.below ·)

/-- ROUND TRIP INTO A DIRTY OUTPUT DIRECTORY (compressed): whatever an earlier build left in plz-out — longer files,
    files where directories come and the other way round, siblings whose names merely start like a directory output —
    after a complete store a retrieve restores, at and below every requested output, exactly the stored tree.  This is
    where the per-entry `ensureRetrieveReady` is needed (`prep_fact`): the open does not truncate.
    `ParentsFree`: no stale non-directory sits where a parent directory of an entry has to be (that is a miss). -/
theorem C12_roundtrip_compressed_over_stale (src : Tree) (hsrc : srcOK [] src = true) (outs : List Path) (fs0 : CFS)
    (hexists : ∀ o ∈ outs, src.get o ≠ none) (hout : outs ≠ [])
    (hes : esOK [] (outs.flatMap (src.below ·)) = true)
    (d0 : Dest) (hd0 : ParentsFree d0 (outs.flatMap (src.below ·))) (cands : List Path) :
    retrieveCInto prepFact C12.retrieveOpenTruncates C12.damagedIsMiss (applyOpsC fs0 (storeC src outs)) d0 cands outs =
      .hit (Dest.listing (fun p => (archive src outs).get p) cands outs) := by
  have harch : archive src outs = outs.flatMap (src.below ·) := rfl
  rw [harch]
  have hfin : applyOpsC fs0 (storeC src outs) .final = some ⟨outs.flatMap (src.below ·), true⟩ := by
    unfold storeC; rw [order_canon]
    exact (storeC_complete src hsrc outs fs0).1 hexists
  have hinit : RInv d0 d0 [] := ⟨fun q h => absurd rfl h, fun q ⟨s, hs, _⟩ _ => (by cases hs), fun q => Or.inl rfl⟩
  obtain ⟨d, hd, hinv⟩ := restore_all d0 C12.retrieveOpenTruncates (outs.flatMap (src.below ·)) [] d0 hes hd0 hinit
  simp only [List.nil_append] at hinv
  unfold retrieveCInto
  rw [hfin, prep_fact]
  simp only [hout, if_false, Bool.not_true, Bool.false_eq_true, hd]
  congr 1
  unfold Dest.listing
  apply filterMap_congr'
  intro p _
  by_cases hp : (outs.any (·.isPrefixOf p)) = true
  · simp only [hp, if_true]
    rw [List.any_eq_true] at hp
    obtain ⟨o, ho, hop⟩ := hp
    -- the output itself is an archive entry
    obtain ⟨e, hem, heq⟩ := get_mem (t := src) (q := o) (hexists o ho)
    have hin : e ∈ outs.flatMap (src.below ·) := by
      rw [List.mem_flatMap]
      exact ⟨o, ho, List.mem_filter.mpr ⟨hem, by rw [heq]; exact isPrefixOf_eq_true_iff.mpr (List.prefix_refl _)⟩⟩
    have hbelow : ∃ s ∈ outs.flatMap (src.below ·), s.1 <+: p := ⟨e, hin, heq ▸ isPrefixOf_eq_true_iff.mp hop⟩
    cases hg : Tree.get (outs.flatMap (src.below ·)) p with
    | none => rw [hinv.clean p hbelow hg]
    | some v => rw [hinv.have_ p (by rw [hg]; simp), hg]
  · simp [hp]

-- non-vacuity: directory `d` and its sibling `d.txt`, restored over a longer stale `d.txt`, a stale file inside `d`, and a
-- stale directory where nothing comes
example : esOK [] ([["d"], ["d.txt"]].flatMap
    (Tree.below [(["d"], .dir), (["d", "x"], .file [1] false), (["d.txt"], .file [2] false)] ·)) = true := by decide
example : retrieveCInto true false true
    (applyOpsC CFS.empty (storeC [(["d"], .dir), (["d", "x"], .file [1] false), (["d.txt"], .file [2] false)] [["d"], ["d.txt"]]))
    (fun p => if p = ["d.txt"] then some (.file [9, 9, 9, 9] true) else if p = ["d"] then some .dir
      else if p = ["d", "old"] then some (.file [7] false) else none)
    [["d"], ["d", "old"], ["d", "x"], ["d.txt"]] [["d"], ["d.txt"]] =
    .hit [(["d"], .dir), (["d", "x"], .file [1] false), (["d.txt"], .file [2] false)] := by decide

/-- WITHOUT the per-entry preparation (`prep = false`) the same restore keeps the tail and the mode of the longer stale
    file — a HIT that is not the stored tree: what the facts `retrievePreparesEveryEntry` /
    `retrieveReadyReturnsBeforeUnlink` stand against. -/
theorem C12_witness_unprepared_restore :
    ∃ (src : Tree) (outs : List Path) (d0 : Dest) (cands : List Path) (t : Tree),
      retrieveCInto false false true (applyOpsC CFS.empty (storeC src outs)) d0 cands outs = .hit t ∧
      t ≠ Dest.listing (fun p => (archive src outs).get p) cands outs :=
  ⟨[(["d.txt"], .file [2] false)], [["d.txt"]],
   fun p => if p = ["d.txt"] then some (.file [9, 9, 9, 9] true) else none, [["d.txt"]],
   [(["d.txt"], .file [2, 9, 9, 9] true)], by decide, by decide⟩

/-! ## Miss -/

theorem C12_miss_plain (cands outs : List Path) : retrieveU FS.empty cands outs = .miss := by
  simp [retrieveU, FS.empty]

theorem C12_miss_compressed (outs : List Path) : retrC CFS.empty outs = .miss := rfl

/-- More generally: no entry directory / tarball, whatever else lies around (temporaries included). -/
theorem C12_miss_no_entry (fs : FS) (h : fs .final [] = none) (cands outs : List Path) :
    retrieveU fs cands outs = .miss := retrieve_miss_of_absent cands outs h

/-- A damaged entry — an archive that does not decompress to its end, however it came to be there — is a
    miss, never a hit with part of the tree.  (This is where `damagedIsMiss` is needed; on the pinned tree the
    store itself never leaves such an archive at the entry path, see `C12_crash_atomic_compressed`.) -/
theorem C12_damaged_entry_is_miss (fs : CFS) (es : Tree) (h : fs .final = some ⟨es, false⟩) (outs : List Path)
    (hout : outs ≠ []) : retrC fs outs = .miss := by
  simp [retrC, retrieveC, h, hout, damaged_is_miss]

/-! ## Crash atomicity -/

/-- Compressed mode, full strength: cut the store anywhere — the retrieve misses, or answers as before the
    store began, or as after the complete store. -/
theorem C12_crash_atomic_compressed (src : Tree) (hsrc : srcOK [] src = true) (outs : List Path) (fs0 : CFS) (n : Nat) :
    let s := applyOpsC fs0 ((storeC src outs).take n)
    retrC s outs = .miss ∨ retrC s outs = retrC fs0 outs ∨
      retrC s outs = retrC (applyOpsC fs0 (storeC src outs)) outs := by
  unfold storeC; rw [order_canon, storeOpsC_shape src hsrc]
  exact crashC_generic _ fs0 (midC src outs) (midC_tmpOnly src outs) outs n

/-- Plain mode, where it holds: the old entry's requested outputs are leaves (this includes every fresh key).
    `rm` is the order in which the recursive removal deletes the old entry's nodes — arbitrary. -/
theorem C12_crash_atomic_plain_partial (src : Tree) (outs rm : List Path) (fs0 : FS) (cands : List Path)
    (hleaf : LeafOuts fs0 outs) (n : Nat) :
    let s := applyOps fs0 ((storeU src rm outs).take n)
    retrieveU s cands outs = .miss ∨ retrieveU s cands outs = retrieveU fs0 cands outs ∨
      retrieveU s cands outs = retrieveU (applyOps fs0 (storeU src rm outs)) cands outs := by
  unfold storeU; rw [order_canon, storeOpsU_shape]
  exact crash_generic fs0 rm (midU src outs) (midU_tmpOnly src outs) cands outs hleaf n

-- non-vacuity of the hypothesis: a fresh key, and an old entry with two files
example : LeafOuts FS.empty [["a"], ["d"]] := by intro _ _ _ _ _; rfl
/-- an old entry holding the two files `a` and `b` (and nothing below them) -/
def fsTwoFiles : FS := fun r p => if r = .final ∧ (p = ["a"] ∨ p = ["b"]) then some (.file [1] false) else none
example : LeafOuts fsTwoFiles [["a"], ["b"]] := by
  intro o ho p hp hne
  simp at ho
  unfold fsTwoFiles
  have hnot : ¬ (p = ["a"] ∨ p = ["b"]) := by
    rcases ho with rfl | rfl
    · rintro (h | h)
      · exact hne h
      · subst h; revert hp; decide
    · rintro (h | h)
      · subst h; revert hp; decide
      · exact hne h
  simp [hnot]

/-- The tree used by the witnesses: one output directory `d` holding `x` and `y`. -/
def wSrc : Tree := [(["d"], .dir), (["d", "x"], .file [120] false), (["d", "y"], .file [121] false)]
def wCands : List Path := [["d"], ["d", "x"], ["d", "y"]]
/-- The cache after a complete store of `wSrc`. -/
def wOld : FS := applyOps FS.empty (storeU wSrc [] [["d"]])

/-- FULL STATEMENT FAILS in plain mode.  The key already holds the complete tree; it is stored again; the
    process dies inside `fs.RemoveAll(cacheDir)` after the first unlink (`d/x`).  A later retrieve is a HIT that
    restores `d` with `y` only — neither a miss nor the complete tree (old or new). -/
theorem C12_witness_restore_crash :
    ∃ (fs0 : FS) (src : Tree) (rm outs cands : List Path) (n : Nat) (t : Tree),
      retrieveU fs0 cands outs = .hit (completeU cands src outs) ∧
      retrieveU (applyOps fs0 ((storeU src rm outs).take n)) cands outs = .hit t ∧
      t ≠ completeU cands src outs :=
  ⟨wOld, wSrc, [["d", "x"], ["d", "y"], ["d"]], [["d"]], wCands, 1,
    [(["d"], .dir), (["d", "y"], .file [121] false)], by decide, by decide, by decide⟩

/-! ## One store and one retrieve, interleaved -/

/-- Plain mode on a fresh key: however the reader's steps fall between the store's operations (`sched i` = how
    many operations are done when the reader takes its `i`-th step), the reader misses or reads exactly what it
    reads from the finished entry. -/
theorem C12_concurrent_fresh_plain (src : Tree) (outs rm : List Path) (fs0 : FS) (hfresh : fs0 .final [] = none)
    (cands : List Path) (sched : Nat → Nat) (hmono : ∀ i j, i ≤ j → sched i ≤ sched j) (fuel : Nat) (hfuel : 0 < fuel) :
    readRun cands outs (fun i => applyOps fs0 ((storeU src rm outs).take (sched i))) fuel = .done .miss ∨
    readRun cands outs (fun i => applyOps fs0 ((storeU src rm outs).take (sched i))) fuel =
      readRun cands outs (fun _ => applyOps fs0 (storeU src rm outs)) fuel := by
  unfold storeU; rw [order_canon, storeOpsU_shape]
  exact conc_generic fs0 hfresh rm (midU src outs) (midU_tmpOnly src outs) cands outs sched hmono fuel hfuel

-- the reader on a quiescent complete entry returns the complete tree (ties `readRun` to `retrieveU`)
example : readRun wCands [["d"]] (fun _ => wOld) 6 = .done (.hit (completeU wCands wSrc [["d"]])) := by decide

/-- FULL STATEMENT FAILS in plain mode when the key is being re-stored: the reader finds the old entry, the
    store's removal unlinks `d/x`, the reader then lists `d` — a HIT with `y` only. -/
theorem C12_witness_concurrent_restore :
    ∃ (sched : Nat → Nat) (t : Tree), (∀ i j, i ≤ j → sched i ≤ sched j) ∧
      readRun wCands [["d"]] (fun i => applyOps wOld
        ((storeU wSrc [["d", "x"], ["d", "y"], ["d"]] [["d"]]).take (sched i))) 6 = .done (.hit t) ∧
      t ≠ completeU wCands wSrc [["d"]] :=
  ⟨fun i => if i = 0 then 0 else 1, [(["d"], .dir), (["d", "y"], .file [121] false)],
    by intro i j h; by_cases hi : i = 0 <;> by_cases hj : j = 0 <;> simp [hi, hj] <;> omega,
    by decide, by decide⟩

/-- Compressed mode on a fresh key: `PathExists` sees the state after `a` operations, `os.Open` after `b ≥ a`. -/
theorem C12_concurrent_fresh_compressed (src : Tree) (hsrc : srcOK [] src = true) (outs : List Path) (fs0 : CFS)
    (hfresh : fs0 .final = none) (a b : Nat) (hab : a ≤ b) (e : Bool) :
    let st := fun n => applyOpsC fs0 ((storeC src outs).take n)
    retrieveC2 e C12.damagedIsMiss (st a) (st b) outs = .miss ∨
      retrieveC2 e C12.damagedIsMiss (st a) (st b) outs = retrC (applyOpsC fs0 (storeC src outs)) outs := by
  unfold storeC; rw [order_canon, storeOpsC_shape src hsrc]
  intro st
  by_cases ha : a < (COp.rm .final :: (midC src outs ++ [COp.rename])).length
  · left
    have := absentC_before_rename fs0 hfresh (midC src outs) (midC_tmpOnly src outs) a ha
    simp only [st, retrieveC2, this]
  · right
    have hla : (COp.rm .final :: (midC src outs ++ [COp.rename])).length ≤ a := Nat.le_of_not_lt ha
    have e1 : st a = applyOpsC fs0 (COp.rm .final :: (midC src outs ++ [COp.rename])) := by
      simp only [st]; rw [List.take_of_length_le hla]
    have e2 : st b = applyOpsC fs0 (COp.rm .final :: (midC src outs ++ [COp.rename])) := by
      simp only [st]; rw [List.take_of_length_le (Nat.le_trans hla hab)]
    rw [e1, e2]
    unfold retrieveC2 retrC retrieveC
    cases applyOpsC fs0 (COp.rm .final :: (midC src outs ++ [COp.rename])) .final <;> rfl

/-- FULL STATEMENT FAILS for compressed caches as long as a not-exist error from the archive read is let through
    as a hit (`enoentIsMiss = false`, the value extracted from the pinned tree): the key holds a complete
    tarball, the retrieve sees it exist, the store removes it, the retrieve's `os.Open` fails with ENOENT — the
    result is a HIT that restored nothing. -/
theorem C12_witness_concurrent_compressed (hfact : C12.enoentIsMiss = false) :
    ∃ (fs0 : CFS) (src : Tree) (outs : List Path) (a b : Nat), a ≤ b ∧
      retrC fs0 outs = .hit src ∧ src ≠ [] ∧
      retrieveC2 C12.enoentIsMiss C12.damagedIsMiss (applyOpsC fs0 ((storeC src outs).take a)) (applyOpsC fs0 ((storeC src outs).take b)) outs
        = .hit [] := by
  rw [hfact]
  exact ⟨applyOpsC CFS.empty (storeC [(["a"], .file [104] false)] [["a"]]), [(["a"], .file [104] false)], [["a"]], 0, 1,
    by decide, by decide, by decide, by decide⟩

/-- With the error reported as a miss the compressed interleaving holds at full strength, old entry or not. -/
theorem C12_concurrent_compressed_if_enoent_is_miss (src : Tree) (hsrc : srcOK [] src = true) (outs : List Path)
    (fs0 : CFS) (a b : Nat) :
    let st := fun n => applyOpsC fs0 ((storeC src outs).take n)
    retrieveC2 true C12.damagedIsMiss (st a) (st b) outs = .miss ∨
      retrieveC2 true C12.damagedIsMiss (st a) (st b) outs = retrC fs0 outs ∨
      retrieveC2 true C12.damagedIsMiss (st a) (st b) outs = retrC (applyOpsC fs0 (storeC src outs)) outs := by
  intro st
  have hA := C12_crash_atomic_compressed src hsrc outs fs0 a
  have hB := C12_crash_atomic_compressed src hsrc outs fs0 b
  simp only at hA hB
  show retrieveC2 true C12.damagedIsMiss (st a) (st b) outs = .miss ∨ _
  have ea : st a = applyOpsC fs0 ((storeC src outs).take a) := rfl
  have eb : st b = applyOpsC fs0 ((storeC src outs).take b) := rfl
  rw [← ea] at hA; rw [← eb] at hB
  generalize st a = sa at hA ⊢
  generalize st b = sb at hB ⊢
  generalize applyOpsC fs0 (storeC src outs) = se at hA hB ⊢
  unfold retrieveC2
  unfold retrC retrieveC at hA hB ⊢
  cases h1 : sa .final with
  | none => left; rfl
  | some t1 =>
    by_cases ho : outs = []
    · subst ho
      simp only [h1, if_true] at hA ⊢
      rcases hA with h | h | h
      · cases h
      · right; left; exact h
      · right; right; exact h
    · simp only [ho, if_false] at hA hB ⊢
      cases h2 : sb .final with
      | none => left; rfl
      | some t2 =>
        simp only [h2] at hB ⊢
        exact hB

/-- The same statement for the value read from /repo on this run: as soon as the extracted fact says that a
    not-exist error of the archive read is a miss, the compressed interleaving holds at full strength (exactly one
    of this theorem and `C12_witness_concurrent_compressed` has a true hypothesis on any given tree). -/
theorem C12_concurrent_compressed_if_fact (hfact : C12.enoentIsMiss = true) (src : Tree) (hsrc : srcOK [] src = true)
    (outs : List Path) (fs0 : CFS) (a b : Nat) :
    let st := fun n => applyOpsC fs0 ((storeC src outs).take n)
    retrieveC2 C12.enoentIsMiss C12.damagedIsMiss (st a) (st b) outs = .miss ∨
      retrieveC2 C12.enoentIsMiss C12.damagedIsMiss (st a) (st b) outs = retrC fs0 outs ∨
      retrieveC2 C12.enoentIsMiss C12.damagedIsMiss (st a) (st b) outs = retrC (applyOpsC fs0 (storeC src outs)) outs := by
  rw [hfact]; exact C12_concurrent_compressed_if_enoent_is_miss src hsrc outs fs0 a b

/-- FULL STRENGTH for the repaired code (an error from reading the tarball is a miss): one store and one retrieve of
    a compressed cache, interleaved anyhow, old entry or not — the retrieve misses, or answers as before the store
    began, or as after the complete store. -/
theorem C12_concurrent_compressed (src : Tree) (hsrc : srcOK [] src = true) (outs : List Path) (fs0 : CFS) (a b : Nat) :
    let st := fun n => applyOpsC fs0 ((storeC src outs).take n)
    retrieveC2 C12.enoentIsMiss C12.damagedIsMiss (st a) (st b) outs = .miss ∨
      retrieveC2 C12.enoentIsMiss C12.damagedIsMiss (st a) (st b) outs = retrC fs0 outs ∨
      retrieveC2 C12.enoentIsMiss C12.damagedIsMiss (st a) (st b) outs = retrC (applyOpsC fs0 (storeC src outs)) outs :=
  C12_concurrent_compressed_if_fact enoent_is_miss src hsrc outs fs0 a b

end PlzVerif.Props.C12
