import PlzVerif.Lemmas.Filter
import PlzVerif.Model.FilterFacts
/-!
C36  Label include/exclude filters select exactly the documented targets.

Model: `PlzVerif.Filter` (match, HasLabel, HasAllLabels, BuildTarget.ShouldInclude, SetIncludeAndExclude,
BuildState.ShouldInclude, expandOriginalPseudoTarget) at the facts read from /repo on this run; exclude build
patterns go through the label model of C20 (`Includes`).  Specification (`Lemmas/Filter.lean`): `Carries`,
`GroupHolds`, `PatternSelects`, `Selected`, written without reference to the code's control flow.
-/
namespace PlzVerif.Props.C36
open PlzVerif.Label PlzVerif.Filter PlzVerif.Generated

abbrev lf : Label.Facts := generatedFacts
abbrev ff : FFacts := generatedFFacts

/-- What the proofs need. -/
def CoreOK : Bool := lf.includesSlash && ff.excludeLast && ff.defaultInclude

/-- Syntactic facts pinning what the model hard-codes. -/
def ShapeOK : Bool :=
  C36.matchSuffixOf == "param0" && C36.matchPrefixArgs == ["param1", "param0[:len(P) - 1]"] && C36.matchHasEquality &&
  C36.hasLabelPatternIsQuery && C36.testLabelNeedsIsTest &&
  C36.hasAllLabelsShape == ["range", "not-HasLabel", "return false", "return true"] &&
  C36.loopOrder == ["includes", "excludes"] && C36.loopAssigns == ["includes=true;break", "excludes=false;break"] &&
  C36.earlyReturnCond == "len(INCLUDES) == 0 && len(EXCLUDES) == 0" &&
  C36.stateExcludeTargetsVia == "Includes:false" && C36.stateTailCall == "ShouldInclude(Include,Exclude)" &&
  C36.setSplitsOnLooksLike && C36.looksLikeLits == ["//", ":", "@"] &&
  C36.expandShape == ["ShouldInclude", "and(not-justTests-or-IsTest)", "all:PackageByLabel", "subtree:PackageMap+Includes", "sorted"]

def FactsOK : Bool := CoreOK && ShapeOK

/-- Obligation a code change can break. -/
theorem C36_facts_ok : FactsOK = true := by decide

theorem core : lf.includesSlash = true ∧ ff.excludeLast = true ∧ ff.defaultInclude = true := by
  have h := C36_facts_ok
  simp only [FactsOK, CoreOK, Bool.and_eq_true] at h
  exact ⟨h.1.1.1, h.1.1.2, h.1.2⟩

/-- A trailing wildcard in the requested label matches by prefix; otherwise labels match by equality. -/
theorem C36_wildcard_exact (p s : Str) :
    matchLabel ff p s = true ↔ s = p ∨ ∃ pre, p = pre ++ [ff.star] ∧ pre <+: s := matchLabel_iff ff p s

example : matchLabel ff "go*".toList "go_test".toList = true ∧ matchLabel ff "go*".toList "g".toList = false ∧
    matchLabel ff "go".toList "go_test".toList = false := by decide

/-- `HasLabel`: a carried label (by equality or wildcard prefix), or the implicit test label of a test. -/
theorem C36_has_label_exact (t : Target) (lab : Str) : hasLabel ff t lab = true ↔ Carries ff t lab :=
  hasLabel_iff ff t lab

/-- A comma-separated group holds iff every label in it is carried (`splitOn` is `strings.Split`:
    `splitOn_join`, `splitOn_no_sep`). -/
theorem C36_group_exact (t : Target) (g : Str) : groupHolds ff t g = true ↔ GroupHolds ff t g :=
  groupHolds_iff ff t g

theorem C36_split_is_split (g : Str) :
    [ff.sep].intercalate (splitOn ff.sep g) = g ∧ ∀ x ∈ splitOn ff.sep g, ff.sep ∉ x :=
  ⟨splitOn_join ff.sep g, splitOn_no_sep ff.sep g⟩

/-- The property: a target passes `state.ShouldInclude` exactly when it carries every label of at least one
    include group (or no include is given), carries no exclude group completely, and is not selected by an
    exclude build pattern. -/
theorem C36_exact (st : FilterState) (t : Target) : shouldIncludeS lf ff st t = true ↔ Selected ff st t :=
  shouldIncludeS_iff lf ff core.1 core.2.1 core.2.2 st t

/-- Exclusion always takes priority over inclusion. -/
theorem C36_exclusion_wins (st : FilterState) (t : Target) (g : Str) (hg : g ∈ st.excl) (h : GroupHolds ff t g) :
    shouldIncludeS lf ff st t = false := by
  rw [Bool.eq_false_iff, Ne, C36_exact]; intro hs; exact hs.2.1 ⟨g, hg, h⟩

-- non-vacuity: the group "go,manual" holds for a target labelled go, manual, lib (and it is also included by "go*")
example : GroupHolds ff ⟨⟨"a".toList, "x".toList, []⟩, ["go".toList, "manual".toList, "lib".toList], false⟩ "go,manual".toList ∧
    GroupHolds ff ⟨⟨"a".toList, "x".toList, []⟩, ["go".toList, "manual".toList, "lib".toList], false⟩ "go*".toList := by
  constructor <;> (rw [← groupHolds_iff]; decide)

/-- An exclude build pattern removes exactly the targets it selects (component-wise for `/...`). -/
theorem C36_pattern_exclusion_wins (st : FilterState) (t : Target) (e : Label) (he : e ∈ st.excludeTargets)
    (h : PatternSelects e t.label) : shouldIncludeS lf ff st t = false := by
  rw [Bool.eq_false_iff, Ne, C36_exact]; intro hs; exact hs.2.2 ⟨e, he, h⟩

example : PatternSelects ⟨"third_party".toList, dots, []⟩ ⟨"third_party/go".toList, "x".toList, []⟩ ∧
    ¬ PatternSelects ⟨"third_party".toList, dots, []⟩ ⟨"third_partyx".toList, "x".toList, []⟩ := by decide

theorem C36_pattern_exact (e l : Label) : includes lf e l = true ↔ PatternSelects e l :=
  includes_iff_patternSelects lf core.1 e l

/-- Expansion of `:all` / `/...` (set of labels; the code then sorts it): exactly the selected targets of
    exactly the named packages, restricted to tests when only tests are wanted. -/
theorem C36_expand_exact (st : FilterState) (pkgs : List Pkg) (pat : Label) (justTests : Bool) (l : Label) :
    l ∈ expand lf ff st pkgs pat justTests ↔
      ∃ p ∈ pkgs, PkgSelected pat p.1 ∧ ∃ t ∈ p.2, t.label = l ∧ Selected ff st t ∧ (justTests = true → t.isTest = true) :=
  mem_expand_iff lf ff core.1 core.2.1 core.2.2 st pkgs pat justTests l

/-- The expansion does not depend on the iteration order of the package map (as a set). -/
theorem C36_expand_order_independent (st : FilterState) {pkgs₁ pkgs₂ : List Pkg} (hp : pkgs₁.Perm pkgs₂)
    (pat : Label) (justTests : Bool) (l : Label) :
    l ∈ expand lf ff st pkgs₁ pat justTests ↔ l ∈ expand lf ff st pkgs₂ pat justTests := by
  simp only [C36_expand_exact]
  constructor
  · rintro ⟨p, hp', h⟩; exact ⟨p, hp.mem_iff.mp hp', h⟩
  · rintro ⟨p, hp', h⟩; exact ⟨p, hp.mem_iff.mpr hp', h⟩

-- non-vacuity: a concrete state where include group, exclude label and exclude pattern all matter
example :
    let st : FilterState := ⟨["go,lib".toList], ["manual".toList], [⟨"third_party".toList, dots, []⟩]⟩
    shouldIncludeS lf ff st ⟨⟨"a".toList, "x".toList, []⟩, ["go".toList, "lib".toList], false⟩ = true ∧
    shouldIncludeS lf ff st ⟨⟨"a".toList, "y".toList, []⟩, ["go".toList], false⟩ = false ∧
    shouldIncludeS lf ff st ⟨⟨"a".toList, "z".toList, []⟩, ["go".toList, "lib".toList, "manual".toList], false⟩ = false ∧
    shouldIncludeS lf ff st ⟨⟨"third_party/go".toList, "w".toList, []⟩, ["go".toList, "lib".toList], false⟩ = false ∧
    shouldIncludeS lf ff st ⟨⟨"third_partyx".toList, "w".toList, []⟩, ["go".toList, "lib".toList], false⟩ = true := by
  decide

end PlzVerif.Props.C36
