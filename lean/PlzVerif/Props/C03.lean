import PlzVerif.Lemmas.Build
import PlzVerif.Lemmas.BuildNoop
import PlzVerif.Lemmas.BuildOnlyIf
import PlzVerif.Model.BuildFacts
/-!
C03  No-op and cut-off: actions re-run only when their inputs changed.

None of these needs an injectivity hypothesis: equal definition and inputs ⇒ equal pre-images ⇒ not rebuilt.
All are about the model instantiated with the facts regenerated from `needsBuilding` / `moveOutput` on this run.
-/
namespace PlzVerif.Props.C03
set_option linter.unusedSectionVars false
open PlzVerif.Build

variable {K A F N C S H : Type} [DecidableEq K] [DecidableEq S] [DecidableEq N] [DecidableEq H]
variable (exec : A → List (N × C) → C) (ruleSer : A → S) (pathSer : C → H)

theorem C03_facts_ok : FactsOK = true := by decide

theorem facts_cmp : generatedFacts.cmpRule = true ∧ generatedFacts.cmpSource = true := by
  have h := C03_facts_ok
  simp only [FactsOK, Bool.and_eq_true] at h
  exact ⟨h.1.1.1.1.1.1.1.1.1, h.1.1.1.1.1.1.1.1.2⟩

theorem facts_keepOld : generatedFacts.keepOld = true := by decide

/-- No-op: building again with nothing changed executes no action and leaves plz-out exactly as it was —
    from ANY starting plz-out, for every well-formed target list and requested set. -/
theorem C03_noop (r : Repo K A F N C) (sel : K → Bool) (out : Out K C S N H) (hwf : WFList sel [] r.targets) :
    build generatedFacts (mvCoded generatedFacts pathSer) exec ruleSer pathSer r sel (build generatedFacts (mvCoded generatedFacts pathSer) exec ruleSer pathSer r sel out).1 =
      ((build generatedFacts (mvCoded generatedFacts pathSer) exec ruleSer pathSer r sel out).1, []) := by
  have h := buildList_fresh generatedFacts (mvCoded generatedFacts pathSer) exec ruleSer pathSer facts_cmp r sel r.targets [] out hwf
    (by intro k hk; simp at hk)
  exact buildList_all_fresh generatedFacts (mvCoded generatedFacts pathSer) exec ruleSer pathSer r sel r.targets _ h.2

/-- Only-if-changed, one target: if the action of an already-built target runs, then the rule pre-image or the
    (name, pre-image) list of its inputs differs from what was recorded when it was last built. -/
theorem C03_only_if_changed (r : Repo K A F N C) (out : Out K C S N H) (t : Target K A F)
    (ins : List (N × C)) (c : C) (st : Stamp S N H)
    (hin : inputs r out t = some ins) (ho : out t.key = some (c, st))
    (hran : (buildOne generatedFacts (mvCoded generatedFacts pathSer) exec ruleSer pathSer r out t).2 = true) :
    st.rule ≠ ruleSer t.attrs ∨ st.ins ≠ ins.map (fun p => (p.1, pathSer p.2)) := by
  unfold buildOne at hran
  rw [hin] at hran
  simp only [ho] at hran
  split at hran
  · simp at hran
  · rename_i hne
    have : st ≠ stampOf ruleSer pathSer t.attrs ins := by
      intro e; exact hne ((stampEq_iff generatedFacts facts_cmp _ _).mpr e)
    obtain ⟨sr, si⟩ := st
    simp only [stampOf, ne_eq, Stamp.mk.injEq] at this
    by_cases h1 : sr = ruleSer t.attrs
    · exact Or.inr (fun h2 => this ⟨h1, h2⟩)
    · exact Or.inl h1

/-- …and conversely an unchanged target (fresh stamp) is not run. -/
theorem C03_unchanged_not_run (r : Repo K A F N C) (out : Out K C S N H) (t : Target K A F)
    (h : Fresh ruleSer pathSer r out t) :
    buildOne generatedFacts (mvCoded generatedFacts pathSer) exec ruleSer pathSer r out t = (out, false) :=
  buildOne_noop generatedFacts (mvCoded generatedFacts pathSer) exec ruleSer pathSer r out t h

/-- moveOutput: when a re-executed action produces an output with the same path pre-image, the old output
    stays in place. -/
theorem C03_same_output_kept (r : Repo K A F N C) (out : Out K C S N H) (d : Target K A F)
    (ins : List (N × C)) (c : C) (st : Stamp S N H)
    (hin : inputs r out d = some ins) (ho : out d.key = some (c, st))
    (hsame : pathSer (exec d.attrs ins) = pathSer c) :
    ((buildOne generatedFacts (mvCoded generatedFacts pathSer) exec ruleSer pathSer r out d).1 d.key).map Prod.fst = some c := by
  unfold buildOne
  rw [hin]
  simp only [ho]
  split
  · simp [ho]
  · simp [mvCoded, facts_keepOld, hsame.symm]

theorem depIns_congr_tree (r : Repo K A F N C) (out out' : Out K C S N H) (deps : List K)
    (h : ∀ d ∈ deps, (out' d).map Prod.fst = (out d).map Prod.fst) : depIns r out' deps = depIns r out deps := by
  induction deps with
  | nil => rfl
  | cons d ds ih =>
    have hd := h d (List.mem_cons_self ..)
    have ih' := ih (fun d' hd' => h d' (List.mem_cons_of_mem _ hd'))
    simp only [depIns] at ih' ⊢
    simp only [List.mapM_cons, ih']
    cases h1 : out' d <;> cases h2 : out d <;> simp_all

/-- Cut-off: a dependency rebuilt to an output with the same pre-image does not trigger its dependents:
    a dependent that was up to date before the dependency's rebuild is still up to date after it, so its
    action is not run. -/
theorem C03_cutoff (r : Repo K A F N C) (out : Out K C S N H) (d t : Target K A F)
    (ins : List (N × C)) (c : C) (st : Stamp S N H) (hne : t.key ≠ d.key)
    (hin : inputs r out d = some ins) (ho : out d.key = some (c, st))
    (hsame : pathSer (exec d.attrs ins) = pathSer c)
    (hfresh : Fresh ruleSer pathSer r out t) :
    buildOne generatedFacts (mvCoded generatedFacts pathSer) exec ruleSer pathSer r (buildOne generatedFacts (mvCoded generatedFacts pathSer) exec ruleSer pathSer r out d).1 t =
      ((buildOne generatedFacts (mvCoded generatedFacts pathSer) exec ruleSer pathSer r out d).1, false) := by
  apply buildOne_noop
  obtain ⟨tins, tc, hti, hto⟩ := hfresh
  refine ⟨tins, tc, ?_, ?_⟩
  · have : inputs r (buildOne generatedFacts (mvCoded generatedFacts pathSer) exec ruleSer pathSer r out d).1 t = inputs r out t := by
      simp only [inputs]
      rw [depIns_congr_tree r out _ t.deps]
      intro k _
      by_cases hk : k = d.key
      · subst hk
        rw [C03_same_output_kept exec ruleSer pathSer r out d ins c st hin ho hsame, ho]; rfl
      · rw [buildOne_other generatedFacts (mvCoded generatedFacts pathSer) exec ruleSer pathSer r out d k hk]
    rw [this]; exact hti
  · rw [buildOne_other generatedFacts (mvCoded generatedFacts pathSer) exec ruleSer pathSer r out d t.key hne]; exact hto

/-- **Only-if-changed for a whole build** (two builds and an edit: `out` is whatever earlier builds left in plz-out,
    `r` the repository after the edit).  Every key in the run list belongs to a selected target whose output was
    missing, or whose recorded rule pre-image differs from the current one, or whose recorded (name, pre-image) list
    of inputs differs from its current inputs — sources as they are now, dependency outputs as they are after this
    build.  For every plz-out, every well-formed target list, with no injectivity hypothesis. -/
theorem C03_build_only_if_changed (r : Repo K A F N C) (sel : K → Bool) (out : Out K C S N H)
    (hwf : WFList sel [] r.targets) :
    ∀ k ∈ (build generatedFacts (mvCoded generatedFacts pathSer) exec ruleSer pathSer r sel out).2,
      ∃ t ∈ r.targets, t.key = k ∧ sel t.key = true ∧
        RanReason ruleSer pathSer r out (build generatedFacts (mvCoded generatedFacts pathSer) exec ruleSer pathSer r sel out).1 t :=
  buildList_ran_reason generatedFacts (mvCoded generatedFacts pathSer) exec ruleSer pathSer facts_cmp r sel r.targets [] out hwf

/-- Consequence in the other direction: a selected target whose stamp in the old plz-out records exactly its
    current rule pre-image and the (name, pre-image) list of its inputs as they are after the build cannot be the
    reason for an entry of the run list (stated on `RanReason`, which is what `C03_build_only_if_changed` delivers). -/
theorem C03_unchanged_no_reason (r : Repo K A F N C) (before after : Out K C S N H) (t : Target K A F)
    (c : C) (st : Stamp S N H) (ins : List (N × C))
    (ho : before t.key = some (c, st)) (hr : st.rule = ruleSer t.attrs)
    (hi : inputs r after t = some ins) (hs : st.ins = ins.map (fun p => (p.1, pathSer p.2))) :
    ¬ RanReason ruleSer pathSer r before after t := by
  rintro (h | ⟨c', st', ho', h | h⟩)
  · rw [ho] at h; exact absurd h (by simp)
  · rw [ho] at ho'; obtain ⟨_, rfl⟩ := Prod.mk.inj (Option.some.inj ho'); exact h hr
  · rw [ho] at ho'; obtain ⟨_, rfl⟩ := Prod.mk.inj (Option.some.inj ho'); exact h ins hi hs

namespace EditExample
/-- `0` copies a source file, `1` adds 100 to the output of `0`, `2` is an unrelated constant. -/
def ts : List (Target Nat Nat Nat) := [⟨0, 0, [0], []⟩, ⟨1, 100, [], [0]⟩, ⟨2, 7, [], []⟩]
def repo (v : Nat) : Repo Nat Nat Nat Nat Nat := { files := fun _ => v, fname := id, outName := id, targets := ts }
def execE (a : Nat) (ins : List (Nat × Nat)) : Nat := a + (ins.map (·.2)).sum
def all : Nat → Bool := fun _ => true
def out1 : Out Nat Nat Nat Nat Nat :=
  (build generatedFacts (mvCoded generatedFacts id) execE id id (repo 5) all (fun _ => none)).1
end EditExample

open EditExample in
/-- non-vacuity: build, edit the source file, build again — exactly the target that reads the file and its dependent
    run (the unrelated target does not), and the list is well-formed. -/
example : (build generatedFacts (mvCoded generatedFacts id) execE id id (repo 6) all out1).2 = [0, 1] ∧
    WFList all [] (repo 6).targets := by
  refine ⟨by decide, by simp [WFList, repo, ts, all]⟩

-- non-vacuity: a fresh target exists (build one target from nothing, it is then fresh)
example : Fresh (S := Nat) (H := Nat) id id
    ({ files := fun _ => 5, fname := id, outName := id, targets := [] } : Repo Nat Nat Nat Nat Nat)
    (fun k => if k = 0 then some (7, ⟨3, [(1, 5)]⟩) else none) ⟨0, 3, [1], []⟩ :=
  ⟨[(1, 5)], 7, by simp [inputs, depIns], by simp [stampOf]⟩

end PlzVerif.Props.C03
