/-
C32: the local build step (src/build/build_step.go `buildTarget` from `prepareDirectories` on, `StoreTargetMetadata`,
`moveOutputs`/`moveOutput`, `calculateAndCheckRuleHash` → `writeRuleHash`, `storeInCache`) re-expressed as a LIST OF
ATOMIC FILESYSTEM OPERATIONS over the target's slice of plz-out, and `needsBuilding`/`readRuleHashFromXattrs`
(src/build/incrementality.go) as a function of that filesystem state.  Core Lean only.

What one target owns:
  * the metadata file `plz-out/gen/<pkg>/.target_build_metadata_<name>` (+ its xattr / fallback record),
  * per declared output `n`: the temporary `plz-out/tmp/<pkg>/<name>._build/n`, the real output `plz-out/gen/<pkg>/n`
    (content + the `user.plz_build` xattr that lives on its inode) and the fallback record `plz-out/gen/<pkg>/.rule_hash_n`
    (src/fs/attr.go: used when xattrs are disabled or the output is a symlink).
A crash is a cut of the operation list at any position.  File writes are split in arbitrary pieces, `os.RemoveAll` of an
old directory output goes through arbitrary intermediate contents (`rmSteps`), `os.WriteFile` of a fallback record
truncates first and goes through arbitrary partial lengths.
-/
namespace PlzVerif.CrashBuild

/-- an entry of plz-out/gen: content, and the stamp xattr on its inode -/
structure Node (C S : Type) where
  content : C
  attr    : Option S
deriving DecidableEq, Repr

/-- a fallback record file `.rule_hash_<out>`: a complete record, or the first `k` bytes of one (`os.WriteFile`
    truncates, then writes).  A truncated record reads back as no usable stamp (the code compares the zero-extended
    bytes, whose secret component can never equal a real one; checked end-to-end for every length). -/
inductive Fb (S : Type) where
  | trunc (k : Nat)
  | full (s : S)
deriving DecidableEq, Repr

def Fb.read {S : Type} : Fb S → Option S
  | .trunc _ => none
  | .full s => some s

/-- one declared output's part of the filesystem -/
structure Slice (C S : Type) where
  tmp : Option C
  gen : Option (Node C S)
  fb  : Option (Fb S)
deriving DecidableEq, Repr

/-- atomic operations on one output's slice -/
inductive SOp (C S : Type) where
  | prep                 -- prepareDirectories: RemoveAll(tmp dir) + MkdirAll
  | run (c : C)          -- the build command leaves the output in the tmp dir
  | keep                 -- moveOutput: old and new hash agree, nothing is touched
  | degrade (c : C)      -- one unlink inside RemoveAll of an old DIRECTORY output: content shrinks, inode (xattr) stays
  | remove               -- the old output is gone (unlink / final rmdir)
  | rename               -- os.Rename(tmp, real): the tmp inode (no stamp) appears under the real name
  | setAttr (s : S)      -- xattr.LSet(user.plz_build)
  | fbTrunc              -- os.WriteFile(.rule_hash_n): O_TRUNC
  | fbPart (k : Nat)     -- ... k bytes written
  | fbFull (s : S)       -- ... all bytes written
  | clear                -- NOT in the code: drop the stamp (xattr and fallback record) — the proposed fix, see `fixedOrder`
deriving DecidableEq, Repr

def sstep {C S : Type} (sl : Slice C S) : SOp C S → Slice C S
  | .prep => { sl with tmp := none }
  | .run c => { sl with tmp := some c }
  | .keep => sl
  | .degrade c => { sl with gen := sl.gen.map (fun nd => { nd with content := c }) }
  | .remove => { sl with gen := none }
  | .rename =>
    match sl.tmp with
    | some c => { sl with tmp := none, gen := some ⟨c, none⟩ }
    | none => sl                                       -- ENOENT: nothing changes
  | .setAttr s => { sl with gen := sl.gen.map (fun nd => { nd with attr := some s }) }
  | .fbTrunc => { sl with fb := some (.trunc 0) }
  | .fbPart k => { sl with fb := some (.trunc k) }
  | .fbFull s => { sl with fb := some (.full s) }
  | .clear => { sl with gen := sl.gen.map (fun nd => { nd with attr := none }), fb := none }

def srun {C S : Type} (sl : Slice C S) (ops : List (SOp C S)) : Slice C S := ops.foldl sstep sl

/-- the target's slice of the filesystem -/
structure TState (N C S : Type) where
  md     : Option (List UInt8)      -- metadata file content (none = absent)
  mdAttr : Option S                 -- xattr on the metadata file
  mdFb   : Option (Fb S)            -- .rule_hash_.target_build_metadata_<name>
  out    : N → Slice C S
  cached : Nat                      -- number of cache.Store calls made (the cache itself is C12's model)

/-- atomic operations of the build step -/
inductive Op (N C S : Type) where
  | prepTmp
  | out (n : N) (o : SOp C S)
  | mdRemove                         -- fs.RemoveAll(metadata file)
  | mdCreate                         -- os.Create: the file exists and is empty
  | mdAppend (bs : List UInt8)       -- one write(2) of the gob encoder
  | mdDone                           -- Close
  | mdSetAttr (s : S)
  | mdFbTrunc
  | mdFbFull (s : S)
  | cacheStore
  | finish
deriving DecidableEq, Repr

variable {N C S H : Type} [DecidableEq N]

def apply1 (fs : TState N C S) : Op N C S → TState N C S
  | .prepTmp => { fs with out := fun n => sstep (fs.out n) .prep }
  | .out n o => { fs with out := fun m => if m = n then sstep (fs.out m) o else fs.out m }
  | .mdRemove => { fs with md := none, mdAttr := none }
  | .mdCreate => { fs with md := some [], mdAttr := none }
  | .mdAppend bs => { fs with md := fs.md.map (· ++ bs) }
  | .mdDone => fs
  | .mdSetAttr s => { fs with mdAttr := fs.md.map (fun _ => s) }
  | .mdFbTrunc => { fs with mdFb := some (.trunc 0) }
  | .mdFbFull s => { fs with mdFb := some (.full s) }
  | .cacheStore => { fs with cached := fs.cached + 1 }
  | .finish => fs

def applyOps (fs : TState N C S) (ops : List (Op N C S)) : TState N C S := ops.foldl apply1 fs

/-- What the build that is running wants to leave behind. -/
structure Params (N C S H : Type) where
  outs    : List N                  -- declared outputs, in order
  new     : N → C                   -- what the command produces for each
  stamp   : S                       -- targetHash ++ secretHash of the current tree
  hash    : C → H                   -- PathHasher.Hash (pre-image idealised)
  mdBytes : List UInt8              -- gob of the build metadata
  mdSplit : List Nat                -- the encoder's writes: piece lengths (the remainder is the last piece)
  mdLoads : List UInt8 → Bool       -- does gob decode this file content?
  useFb   : N → Bool                -- stamp of this output is kept in the fallback record (xattrs off / symlink)
  mdUseFb : Bool
  rmSteps : N → List C              -- intermediate contents of the OLD output while RemoveAll runs ([] for a file)
  fbParts : List Nat                -- partial lengths a fallback record goes through while written
  cache   : Bool                    -- a cache is configured
  readsMd : Bool                    -- BuildCouldModifyTarget: the metadata is loaded when the target is up to date

/-- pieces of a byte string -/
def splitBy : List Nat → List UInt8 → List (List UInt8)
  | [], bs => [bs]
  | k :: ks, bs => bs.take k :: splitBy ks (bs.drop k)

variable [DecidableEq H]

/-- moveOutput for one output, decided on the state of the real output when it is reached. -/
def moveS (b : Params N C S H) (sl : Slice C S) (n : N) : List (SOp C S) :=
  match sl.gen with
  | some nd =>
    if b.hash nd.content = b.hash (b.new n) then [.keep]
    else (b.rmSteps n).map .degrade ++ [.remove, .rename]
  | none => [.rename]

/-- fs.RecordAttr for one output -/
def stampS (b : Params N C S H) (n : N) : List (SOp C S) :=
  if b.useFb n then [.fbTrunc] ++ b.fbParts.map .fbPart ++ [.fbFull b.stamp] else [.setAttr b.stamp]

/-- everything the build step does to output `n`'s slice, in order -/
def localOps (b : Params N C S H) (fs : TState N C S) (n : N) : List (SOp C S) :=
  [.prep, .run (b.new n)] ++ moveS b (fs.out n) n ++ stampS b n

def mdOps (b : Params N C S H) : List (Op N C S) :=
  [.mdRemove, .mdCreate] ++ (splitBy b.mdSplit b.mdBytes).map .mdAppend ++ [.mdDone]

def moveOps (b : Params N C S H) (fs : TState N C S) : List (Op N C S) :=
  b.outs.flatMap fun n => (moveS b (fs.out n) n).map (.out n)

def stampOps (b : Params N C S H) : List (Op N C S) :=
  (b.outs.flatMap fun n => (stampS b n).map (.out n)) ++
  (if b.mdUseFb then [.mdFbTrunc, .mdFbFull b.stamp] else [.mdSetAttr b.stamp])

def cacheOps (b : Params N C S H) : List (Op N C S) := if b.cache then [.cacheStore] else []

/-- the phases between "command has run" and "done", by the name the fact extractor gives them -/
def phaseOps (b : Params N C S H) (fs : TState N C S) : String → List (Op N C S)
  | "metadata" => mdOps b
  | "move" => moveOps b fs
  | "stamp" => stampOps b
  | "cache" => cacheOps b
  | "unstamp" => b.outs.map fun n => .out n .clear      -- only in `fixedOrder`
  | _ => []

/-- The operation list of a build step that runs the command, with the phase order as a parameter
    (regenerated from buildTarget on every run). -/
def planWith (order : List String) (b : Params N C S H) (fs : TState N C S) : List (Op N C S) :=
  [.prepTmp] ++ b.outs.map (fun n => .out n (.run (b.new n))) ++ order.flatMap (phaseOps b fs) ++ [.finish]

def codedOrder : List String := ["metadata", "move", "stamp", "cache"]

def plan (b : Params N C S H) (fs : TState N C S) : List (Op N C S) := planWith codedOrder b fs

/-- The proposed repair (findings C32): before anything destructive, drop the stamp of every declared output. -/
def fixedOrder : List String := "unstamp" :: codedOrder

def planFixed (b : Params N C S H) (fs : TState N C S) : List (Op N C S) := planWith fixedOrder b fs

def localOpsFixed (b : Params N C S H) (fs : TState N C S) (n : N) : List (SOp C S) :=
  [.prep, .run (b.new n), .clear] ++ moveS b (fs.out n) n ++ stampS b n

/-- build.Build after a failed step: RemoveOutputs (fs.RemoveAll of every declared output) -/
def failOps (b : Params N C S H) : List (Op N C S) := b.outs.map fun n => .out n .remove

/-- The build step of a target whose outputs do NOT pass the verification of its declared `hashes`:
    calculateAndCheckRuleHash returns "Bad output hash" at `checkRuleHashes`, buildTarget returns it, Build removes the
    outputs.  `stampFirst`: whether the rule-hash record is written BEFORE the verification inside
    calculateAndCheckRuleHash (false in the code as it is: regenerated fact `verifyThenStamp`). -/
def planFailWith (order : List String) (stampFirst : Bool) (b : Params N C S H) (fs : TState N C S) : List (Op N C S) :=
  [.prepTmp] ++ b.outs.map (fun n => .out n (.run (b.new n))) ++ (order.takeWhile (· != "stamp")).flatMap (phaseOps b fs) ++
  (if stampFirst then stampOps b else []) ++ failOps b

/-! ### needsBuilding as a function of the filesystem state -/
variable [DecidableEq S]

def sliceStamp (fb : Bool) (sl : Slice C S) : Option S :=
  if fb then sl.fb.bind Fb.read else sl.gen.bind (·.attr)

/-- fs.ReadAttr(output) -/
def readStamp (b : Params N C S H) (fs : TState N C S) (n : N) : Option S := sliceStamp (b.useFb n) (fs.out n)

/-- the loop of readRuleHashFromXattrs: `none` = "return ruleHashes{}", `some h` = the running value -/
def readAll (b : Params N C S H) (fs : TState N C S) : List N → Option S → Option (Option S)
  | [], h => some h
  | n :: ns, h =>
    match readStamp b fs n with
    | none => none
    | some s =>
      match h with
      | some s' => if s' = s then readAll b fs ns (some s) else none
      | none => readAll b fs ns (some s)

/-- readRuleHashFromXattrs for a target with at least one output (for none the record lives on the metadata
    file / a fallback file of the target itself: not modelled, reads as nothing). -/
def readRuleHash (b : Params N C S H) (fs : TState N C S) : Option S :=
  match readAll b fs b.outs none with
  | some (some s) => some s
  | _ => none

/-- needsBuilding (without `state.ShouldRebuild`, which is the `force` argument of `buildFS`): metadata file missing,
    or the stamp read back differs from the current one, or an output is missing. -/
def needsBuilding (b : Params N C S H) (fs : TState N C S) : Bool :=
  fs.md.isNone || !(readRuleHash b fs == some b.stamp) || b.outs.any (fun n => (fs.out n).gen.isNone)

/-- build.Build on failure: RemoveOutputs -/
def removeOutputs (b : Params N C S H) (fs : TState N C S) : TState N C S :=
  { fs with out := fun n => if n ∈ b.outs then { fs.out n with gen := none } else fs.out n }

/-- does the up-to-date path fail to load the metadata? (only targets whose build can modify them load it) -/
def mdFails (b : Params N C S H) (fs : TState N C S) : Bool :=
  b.readsMd && !(match fs.md with | some bs => b.mdLoads bs | none => false)

/-- One complete `buildTarget` of the current tree on filesystem state `fs`.  Second component: success.
    Up to date ⇒ nothing is written (for a target whose build can modify it, the metadata is loaded first and a
    failure to decode it fails the build, upon which `Build` removes the outputs). -/
def buildFSWith (order : List String) (b : Params N C S H) (force : Bool) (fs : TState N C S) : TState N C S × Bool :=
  if force || needsBuilding b fs then (applyOps fs (planWith order b fs), true)
  else if mdFails b fs then (removeOutputs b fs, false)
  else (fs, true)

def buildFS (b : Params N C S H) (force : Bool) (fs : TState N C S) : TState N C S × Bool := buildFSWith codedOrder b force fs

/-- what a later build sees of a single-output target: content and stamp, when the metadata file, the output and a
    readable stamp are all there (the `Out` of the history model, Model/Build.lean) -/
def view (b : Params N C S H) (fs : TState N C S) (n0 : N) : Option (C × S) :=
  match fs.md, (fs.out n0).gen, readStamp b fs n0 with
  | some _, some nd, some s => some (nd.content, s)
  | _, _, _ => none

/-! ### several targets: operations of different targets touch disjoint files -/
def applyG {K : Type} [DecidableEq K] (g : K → TState N C S) (p : K × Op N C S) : K → TState N C S :=
  fun k => if k = p.1 then apply1 (g k) p.2 else g k

def applyGs {K : Type} [DecidableEq K] (g : K → TState N C S) (l : List (K × Op N C S)) : K → TState N C S :=
  l.foldl applyG g

end PlzVerif.CrashBuild
