/-!
C23 model: transcriptions of `query.deps` (src/query/deps.go), `revdeps.findRevdeps` / `FindRevdeps`
(src/query/reverse_deps.go) and `somePath` / `somepath.SomePath` / `SomePath` (src/query/somepath.go).
Core Lean only.

Go                                                       here
-------------------------------------------------------  ------------------------------------------------
`*BuildTarget` / `BuildLabel`                             `Nat` (labels that are not targets get ids outside `nodes`)
`graph.AllTargets()`                                      `G.nodes`
`for l in t.DeclaredDependencies() { for p in            `G.adj t` (the flattened list, in that order; provide/require is
   graph.Target(l).ProvideFor(t) {…} }`                     resolved by the real code before the graph reaches the model)
`label.Parent()`                                          `G.pl t` (= `t` when the label has no parent)
`label.IsHidden()` (name starts with `_`)                 `G.hid t`
`target.Parent(graph)`                                    `parentT G t`
`done` / `seen` / `openSet.done` maps                     membership lists
`container/list` FIFO                                     `List (Nat × Nat)` (front = head)
recursion / loop bound                                    `fuel` (Lemmas/Query.lean: `nodes.length + 1` suffices)
not modelled: `state.ShouldInclude` (no include/exclude labels), subincludes, subrepos, `except`, dot output
-/
namespace PlzVerif.Query

structure Graph where
  nodes : List Nat
  adj : Nat → List Nat
  pl : Nat → Nat
  hid : Nat → Bool

/-- `label.HasParent()` -/
def hasParent (G : Graph) (t : Nat) : Bool := G.pl t != t

/-- `target.Parent(graph)`: the parent target, if the label has a parent and that parent is in the graph. -/
def parentT (G : Graph) (t : Nat) : Option Nat :=
  if hasParent G t && G.nodes.contains (G.pl t) then some (G.pl t) else none

/-- A level limit: `none` is Go's `-1` (unlimited). -/
abbrev Limit := Option Nat

/-- Numeric / operator facts of the level bookkeeping, read from the source on every run. -/
structure Cfg where
  /-- `currentLevel + incPrint` in the recursive call of the printing branch of `deps` -/
  incPrint : Nat
  /-- … of the "hidden dependency of the current rule" branch -/
  incSame : Nat
  /-- … of the last branch -/
  incOther : Nat
  /-- the limit gate of `findRevdeps` is `next.depth < maxDepth` (`false`: `<=`) -/
  gateStrict : Bool
deriving DecidableEq, Repr

/-- the pinned code -/
def Cfg.std : Cfg := ⟨1, 0, 1, true⟩

/-! ### deps -/

structure DSt where
  done : List Nat
  out : List (Nat × Nat)        -- printed (target, indentation level), in print order
  oof : Bool := false
deriving Repr

/-- Which recursive call `deps` makes for a dependency `l` of `target` that was not done yet:
`(printed?, level of the recursive call)`. -/
def depsStep (cfg : Cfg) (G : Graph) (hidden : Bool) (target level l : Nat) : Bool × Nat :=
  if hidden || !hasParent G l then (true, level + cfg.incPrint)     -- printed; recurse one level deeper
  else if G.pl l == G.pl target then (false, level + cfg.incSame)   -- hidden dependency of the current rule: same level
  else (false, level + cfg.incOther)

/-- the `for _, l := range …` loops of `deps(target, currentLevel)` with the recursive call passed in -/
def depsList (cfg : Cfg) (G : Graph) (hidden : Bool) (rec : DSt → Nat → Nat → DSt) (target level : Nat) :
    List Nat → DSt → DSt
  | [], s => s
  | l :: ls, s =>
    if l ∈ s.done then depsList cfg G hidden rec target level ls s
    else
      let st := depsStep cfg G hidden target level l
      let s1 : DSt := { s with done := l :: s.done, out := if st.1 then s.out ++ [(l, level)] else s.out }
      depsList cfg G hidden rec target level ls (rec s1 l st.2)

/-- `deps(out, state, target, done, targetLevel, currentLevel, hidden, false)` -/
def deps (cfg : Cfg) (G : Graph) (lim : Limit) (hidden : Bool) : Nat → DSt → Nat → Nat → DSt
  | 0, s, _, _ => { s with oof := true }
  | fuel+1, s, target, level =>
    if lim == some level then s
    else depsList cfg G hidden (deps cfg G lim hidden fuel) target level (G.adj target) s

/-- `Deps(out, state, labels, hidden, targetLevel, false)`: one shared `done` map over all roots. -/
def depsAll (cfg : Cfg) (G : Graph) (lim : Limit) (hidden : Bool) (roots : List Nat) : DSt :=
  roots.foldl (fun s r => deps cfg G lim hidden (G.nodes.length + 1) s r 0) { done := [], out := [] }

/-! ### revdeps -/

/-- `buildRevdeps`: immediate reverse dependencies of `p`, in `AllTargets` order, with multiplicity. -/
def rev (G : Graph) (p : Nat) : List Nat :=
  G.nodes.flatMap fun t => (G.adj t).filterMap fun d => if d == p then some t else none

/-- `isSameTarget(graph, lhs, rhs)`: the same target, or two targets whose labels have the same parent -/
def isSameTarget (G : Graph) (a b : Nat) : Bool := a == b || G.pl a == G.pl b

structure RSt where
  queue : List (Nat × Nat)      -- (target, depth), front first
  done : List Nat
  ret : List Nat
  oof : Bool := false
deriving Repr

/-- `openSet.Push` -/
def push (s : RSt) (t d : Nat) : RSt :=
  if t ∈ s.done then s else { s with done := t :: s.done, queue := s.queue ++ [(t, d)] }

/-- `next.depth < r.maxDepth || r.maxDepth == -1` -/
def within (cfg : Cfg) (lim : Limit) (d : Nat) : Bool :=
  match lim with
  | none => true
  | some n => if cfg.gateStrict then d < n else d ≤ n

/-- what `findRevdeps` adds to `ret` for `t` (when `depth > 0`) -/
def report (G : Graph) (hidden : Bool) (t : Nat) : Option Nat :=
  if hidden || !G.hid t then some t else parentT G t

/-- depth given to `t` when it is found from `next` at depth `d` -/
def nextDepth (G : Graph) (hidden : Bool) (next d t : Nat) : Nat :=
  if hidden || !isSameTarget G next t then d + 1 else d

/-- the `for _, t := range ts` loop of `findRevdeps` for the popped node `(next, d)` -/
def revStep (cfg : Cfg) (G : Graph) (lim : Limit) (hidden : Bool) (next d : Nat) : List Nat → RSt → RSt
  | [], s => s
  | t :: ts, s =>
    let depth := nextDepth G hidden next d t
    let s' :=
      if within cfg lim d then
        let s1 := if depth > 0 then
            match report G hidden t with
            | some x => { s with ret := x :: s.ret }
            | none => s
          else s
        push s1 t depth
      else s
    revStep cfg G lim hidden next d ts s'

/-- `for next := r.os.Pop(); next != nil; next = r.os.Pop() {…}` -/
def revLoop (cfg : Cfg) (G : Graph) (lim : Limit) (hidden : Bool) : Nat → RSt → RSt
  | 0, s => if s.queue.isEmpty then s else { s with oof := true }
  | fuel+1, s =>
    match s.queue with
    | [] => s
    | (next, d) :: q => revLoop cfg G lim hidden fuel (revStep cfg G lim hidden next d (rev G next) { s with queue := q })

/-- hidden children of `label` that `FindRevdeps` pushes with the root (order here: `AllTargets`; the real
code ranges over a Go map) -/
def children (G : Graph) (label : Nat) : List Nat :=
  G.nodes.filter fun c => parentT G c == some label

/-- the initialisation loop of `FindRevdeps` -/
def revInit (G : Graph) (hidden : Bool) (roots : List Nat) : RSt :=
  roots.foldl (fun s r =>
      let s := push s r 0
      if !hidden && !G.hid r then (children G r).foldl (fun s c => push s c 0) s else s)
    { queue := [], done := [], ret := [] }

/-- `FindRevdeps(state, roots, hidden, false, false, depth)` -/
def findRevdeps (cfg : Cfg) (G : Graph) (lim : Limit) (hidden : Bool) (roots : List Nat) : RSt :=
  revLoop cfg G lim hidden (G.nodes.length + 1) (revInit G hidden roots)

/-! ### somepath -/

inductive PRes where
  | found (p : List Nat)
  | nopath
  | oof
deriving DecidableEq, Repr

/-- the dependency loop of `somePath(target1, target2)` with the recursive call passed in -/
def spList (rec : List Nat → Nat → PRes × List Nat) : List Nat → List Nat → PRes × List Nat
  | [], seen => (.nopath, seen)
  | l :: ls, seen =>
    match rec seen l with
    | (.nopath, seen') => spList rec ls seen'
    | r => r

/-- `somePath(graph, target1, target2, seen, nil)` -/
def somePath (G : Graph) (t2 : Nat) : Nat → List Nat → Nat → PRes × List Nat
  | 0, seen, _ => (.oof, seen)
  | fuel+1, seen, t1 =>
    if t1 == t2 then (.found [t1], seen)
    else if parentT G t1 == some t2 then (.found [t1], seen)
    else if t1 ∈ seen then (.nopath, seen)
    else
      match spList (somePath G t2 fuel) (G.adj t1) (t1 :: seen) with
      | (.found p, seen') => (.found (t1 :: p), seen')
      | r => r

abbrev Memo := List (Nat × List Nat)

def memoGet (m : Memo) (k : Nat) : List Nat := match m.lookup k with | some s => s | none => []
def memoSet (m : Memo) (k : Nat) (v : List Nat) : Memo := (k, v) :: m.filter (·.1 != k)

/-- `somepath.somePath(target1, target2)`: the `seen` set is memoised per `target2` -/
def spMemo (G : Graph) (m : Memo) (t1 t2 : Nat) : PRes × Memo :=
  let r := somePath G t2 (G.nodes.length + 1) (memoGet m t2) t1
  (r.1, memoSet m t2 r.2)

/-- `somepath.SomePath(target1, target2)`: both directions -/
def spBoth (G : Graph) (m : Memo) (t1 t2 : Nat) : PRes × Memo :=
  match spMemo G m t1 t2 with
  | (.nopath, m') => spMemo G m' t2 t1
  | r => r

/-- `slices.Compact` -/
def compact : List Nat → List Nat
  | [] => []
  | [a] => [a]
  | a :: b :: r => if a == b then compact (b :: r) else a :: compact (b :: r)

/-- `SomePath(graph, from, to, nil, showHidden)`: first pair with a path wins -/
def somePathAll (G : Graph) (showHidden : Bool) (frm to : List Nat) : PRes :=
  let pairs := frm.flatMap fun a => to.map fun b => (a, b)
  let rec go : List (Nat × Nat) → Memo → PRes
    | [], _ => .nopath
    | (a, b) :: ps, m =>
      match spBoth G m a b with
      | (.nopath, m') => go ps m'
      | (.found p, _) => .found (if showHidden then p else compact (p.map G.pl))
      | (.oof, _) => .oof
  go pairs []

end PlzVerif.Query
