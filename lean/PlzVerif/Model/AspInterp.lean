import PlzVerif.Model.AspEval
/-
The statement / expression interpreter of the asp model (interpreter.go:517-1048, objects.go:694-815,
builtins.go:425-1135), on top of the value layer of `AspEval.lean`.  All functions recurse on fuel.
-/
namespace PlzVerif.Asp

/-- Rendered values: what the harness compares (JSON without object identity). -/
inductive RVal
  | int (n : Int)
  | str (s : String)
  | bool (b : Bool)
  | none
  | list (l : List RVal)
  | dict (l : List (String × RVal))
  | fn (name : String)
  | deep
  deriving Repr, Inhabited

mutual
  def RVal.beq : RVal → RVal → Bool
    | .int a, .int b => a == b
    | .str a, .str b => a == b
    | .bool a, .bool b => a == b
    | .none, .none => true
    | .list a, .list b => RVal.beqList a b
    | .dict a, .dict b => RVal.beqDict a b
    | .fn a, .fn b => a == b
    | .deep, .deep => true
    | _, _ => false
  def RVal.beqList : List RVal → List RVal → Bool
    | [], [] => true
    | x :: xs, y :: ys => RVal.beq x y && RVal.beqList xs ys
    | _, _ => false
  def RVal.beqDict : List (String × RVal) → List (String × RVal) → Bool
    | [], [] => true
    | (k, x) :: xs, (l, y) :: ys => k == l && RVal.beq x y && RVal.beqDict xs ys
    | _, _ => false
end

instance : BEq RVal := ⟨RVal.beq⟩

/-- The truthiness the operator layer sees (a dict's depends on the heap). -/
def truthySt (st : St) (v : Val) : Bool :=
  match v with
  | .dict _ d => match st.dicts[d]? with
    | some m => m.length > 0
    | none => false
  | v => truthy v

/-- `unpackNames` -/
def unpackNames (sc : Nat) (names : List String) (v : Val) : EM Unit :=
  match names with
  | [x] => setVar sc x v
  | names =>
    match v with
    | .list false arr off len _ => do
      if len != names.length then fail "Incorrect number of values to unpack"
      else do
        let xs ← elems arr off len
        let rec go : List String → List Val → EM Unit
          | n :: ns, x :: xs => do setVar sc n x; go ns xs
          | _, _ => pure ()
        go names xs
    | _ => fail "Cannot unpack"

/-- `indexAssign` -/
def indexAssign (obj idx v : Val) : EM Unit :=
  match obj with
  | .list false arr off len _ =>
    match idx with
    | .int i => if i < 0 ∨ i ≥ len then fail "index out of range" else writeAt arr (off + i.toNat) v
    | _ => fail "List indices must be integers"
  | .list true .. => fail "list is immutable"
  | .dict false d =>
    match idx with
    | .str k => do setDict d (dictPut (← getDict d) k v)
    | _ => fail "Dict keys must be strings"
  | .dict true _ => fail "dict is immutable"
  | o => fail s!"Object of type {typeName o} cannot be assigned into"

/-- `objLen` -/
def objLen (v : Val) : EM Int :=
  match v with
  | .str s => pure s.length
  | .list _ _ _ len _ => pure len
  | .dict _ d => do pure (← getDict d).length
  | .range a b c => if c == 0 then fail "integer divide by zero" else pure (Int.tdiv (b - a) c)
  | o => fail s!"object of type {typeName o} has no len()"

def isAscii (s : String) : Bool := s.toList.all fun c => c.toNat < 128

/-- `interpretSlice` -/
def sliceOp (F : Facts) (obj : Val) (lo hi : Option Val) : EM Val := do
  let start ← match lo with
    | some i => do pyIndex (← objLen obj) i true
    | none => pure 0
  match obj with
  | .list false arr off len cap => do
    let stop ← match hi with
      | some i => pyIndex len i true
      | none => pure (len : Int)
    if start < 0 ∨ start > stop then fail "slice bounds out of range"
    else
      let a := start.toNat
      let b := stop.toNat
      if F.sliceShares then pure (.list false arr (off + a) (b - a) (cap - a))
      else do mkList (← elems arr (off + a) (b - a))
  | .str s => do
    let stop ← match hi with
      | some i => pyIndex s.length i true
      | none => pure (s.length : Int)
    if start < 0 ∨ start > stop then fail "slice bounds out of range"
    else if !isAscii s then fail "model: slicing a non-ASCII string is outside the core"
    else pure (.str (String.ofList ((s.toList.drop start.toNat).take (stop.toNat - start.toNat))))
  | o => fail s!"Unsliceable type {typeName o}"

/-- bind call arguments of a native function: `callNative` (objects.go:753) with `validateType` -/
def bindNative (fname : String) (sig : Sig) (self : Option Val) (args : List (Option String × Val)) :
    EM (List Val × List Val) := do
  -- slots: one per declared parameter; extra positional values go to the varargs tail
  let n := sig.params.length
  let offset := if self.isSome then 1 else 0
  let init : List (Option Val) := (List.range n).map fun i => if i == 0 then self else none
  let rec go (i : Nat) (slots : List (Option Val)) (extra : List Val) :
      List (Option String × Val) → EM (List (Option Val) × List Val)
    | [] => pure (slots, extra)
    | (some k, v) :: r =>
      match sig.params.findIdx? (·.1 == k) with
      | some idx => do
        let p := sig.params[idx]!
        let v ← validate fname p v
        go (i + 1) (slots.set idx (some v)) extra r
      | none => fail s!"Unknown argument to {fname}: {k}"
    | (none, v) :: r =>
      if i ≥ n + extra.length then
        if sig.varargs then go (i + 1) slots (extra ++ [v]) r else fail s!"Too many arguments to {fname}"
      else if i + offset ≥ n then go (i + 1) slots (extra ++ [v]) r
      else do
        let p := sig.params[i + offset]!
        let v ← validate fname p v
        go (i + 1) (slots.set (i + offset) (some v)) extra r
  let (slots, extra) ← go 0 init [] args
  let rec fill : List (Option Val) → List (String × List Ty × Option Val) → EM (List Val)
    | some v :: r, _ :: ps => do pure (v :: (← fill r ps))
    | none :: r, p :: ps =>
      match p.2.2 with
      | some d => do pure (d :: (← fill r ps))
      | none => fail s!"Missing required argument to {fname}: {p.1}"
    | _, _ => pure []
  let vals ← fill slots sig.params
  pure (vals, extra)

def asUnfrozenList (what : String) (v : Val) : EM (Nat × Nat × Nat × Nat) :=
  match v with
  | .list false arr off len cap => pure (arr, off, len, cap)
  | o => fail s!"{what} must be a list, not {typeName o}"

/-- The list argument of the native builtin `fname`: `args[i].(pyList)` fails for a frozen list unless the
    function unwraps it (regenerated table `Facts.frozenOK`). -/
def asListFor (F : Facts) (fname what : String) (v : Val) : EM (Nat × Nat × Nat × Nat) :=
  match v with
  | .list fz arr off len cap =>
    if fz && !F.frozenOK fname then fail s!"{what} must be a list, not list" else pure (arr, off, len, cap)
  | o => fail s!"{what} must be a list, not {typeName o}"

/-- `extreme` (builtins.go:1090) without a key function -/
def bestOf (F : Facts) (op : BinOp) (best : Val) : List Val → EM Val
  | [] => pure best
  | x :: r => do
    if truthy (← cmpOp F 64 op x best) then bestOf F op x r else bestOf F op best r

/-- The sorting step of `sorted` on (key, element) pairs.
    * `reverse`: today the comparison is flipped (`order = GreaterThan`) and the same sort runs — tied elements keep
      their original order, as in Python; with the fact `sortedRevAfter` the list is sorted ascending and reversed.
    * the sort is an insertion sort front to back: the function every stable sort computes (`sort.SliceStable`, fact
      `sortedStable`).  Under the old fact value (`sort.Slice`: insertion sort up to 12 elements, pdqsort beyond) the
      order of tied elements of a longer list with a key function is unspecified and the model refuses to say. -/
def sortCore (F : Facts) (rev keyedByFn : Bool) (keyed : List (Val × Val)) : EM (List Val) := do
  if keyedByFn && !F.sortedStable && keyed.length > 12 then
    fail "model: sort.Slice beyond 12 elements with a key function is not stable; not modelled"
  else do
    let op := if rev && !F.sortedRevAfter then BinOp.gt else BinOp.lt
    let sorted ← stableSort (fun (a b : Val × Val) => do pure (truthy (← cmpOp F 64 op a.1 b.1))) keyed
    let out := sorted.map (·.2)
    pure (if rev && F.sortedRevAfter then out.reverse else out)

/-- positional values bound to the parameters of a function (a `Call` whose arguments are constants) -/
def bindVals (s2 : Nat) (fn : Func) : Nat → List Val → EM Unit
  | _, [] => pure ()
  | i, v :: r =>
    match fn.params[i]? with
    | some (p, _) => do setVar s2 p v; bindVals s2 fn (i + 1) r
    | none => fail s!"Too many arguments to {fn.name}"

/-- natives that do not call back into the interpreter -/
def callBuiltin (F : Facts) (fname : String) (args : List (Option String × Val)) : EM Val := do
  match builtinSig fname with
  | none => fail s!"name '{fname}' is not defined"
  | some sig =>
    let (vals, extra) ← bindNative fname sig none args
    match fname, vals with
    | "len", [obj] => do pure (.int (← objLen obj))
    | "sorted", [seq, key, reverse] => do
      let (arr, off, len, cap) ← asListFor F fname "Argument seq" seq
      let rev ← match reverse with
        | .bool b => pure b
        | _ => fail "Argument reverse must be a bool"
      if key != .none then fail "model: sorted(key=) is evaluated by sortedCall"
      else do
        let xs ← elems arr off len
        let sorted ← sortCore F rev false (xs.map fun x => (x, x))
        -- the comparisons that `sort.Slice` makes on a list of ≥ 2 elements raise on incomparable neighbours
        if F.sortedInPlace then do
          writeMany arr off sorted
          pure (.list false arr off len cap)
        else mkList sorted
    | "reversed", [seq] => do
      let (arr, off, len, cap) ← asListFor F fname "irreversible type" seq
      let xs ← elems arr off len
      if F.reversedInPlace then do
        writeMany arr off xs.reverse
        pure (.list false arr off len cap)
      else mkList xs.reverse
    | "range", [start, stop, step] =>
      match start, stop, step with
      | .int a, .int b, .int c => pure (.range a b c)
      | .int a, _, .int c => pure (.range 0 a c)
      | _, _, _ => fail "interface conversion"
    | "enumerate", [seq] => do
      let (arr, off, len, _) ← asListFor F fname "Argument to enumerate" seq
      let xs ← elems arr off len
      let rec enumGo (i : Nat) : List Val → EM (List Val)
        | [] => pure []
        | x :: r => do let p ← mkList [.int i, x]; pure (p :: (← enumGo (i + 1) r))
      mkList (← enumGo 0 xs)
    | "zip", _ => do
      let seqs := vals ++ extra
      -- `zip(args)`: the declared parameter is the first positional slot
      let rec lens : List Val → EM (List (List Val))
        | [] => pure []
        | s :: r => do
          let (arr, off, len, _) ← asListFor F fname "Arguments to zip" s
          pure ((← elems arr off len) :: (← lens r))
      let ls ← lens seqs
      match ls with
      | [] => mkList []
      | l0 :: _ =>
        if ls.any (·.length != l0.length) then fail "All arguments to zip must have the same length"
        else do
          let rec rows (i : Nat) : Nat → EM (List Val)
            | 0 => pure []
            | k + 1 => do
              let row ← mkList (ls.map fun l => l[i]!)
              pure (row :: (← rows (i + 1) k))
          mkList (← rows 0 l0.length)
    | "any", [seq] => do
      let (arr, off, len, _) ← asListFor F fname "Argument to any" seq
      let xs ← elems arr off len
      let st ← get
      pure (.bool (xs.any (truthySt st)))
    | "all", [seq] => do
      let (arr, off, len, _) ← asListFor F fname "Argument to all" seq
      let xs ← elems arr off len
      let st ← get
      pure (.bool (xs.all (truthySt st)))
    | "min", [seq, key] | "max", [seq, key] => do
      let (arr, off, len, _) ← asListFor F fname "Argument seq" seq
      if len == 0 then fail "Argument seq must contain at least one item"
      else if key != .none then fail "model: min/max(key=) is outside the core"
      else do
        let xs ← elems arr off len
        let op := if fname == "min" then BinOp.lt else BinOp.gt
        match xs with
        | x :: r => bestOf F op x r
        | [] => fail "unreachable"
    | "bool", [b] => do pure (.bool (← truthyM b))
    | "int", [s] =>
      match s with
      | .str t => match parseIntStr t with
        | some n => pure (.int n)
        | none => fail "invalid syntax"
      | _ => fail "interface conversion"
    | "str", [s] =>
      match s with
      | .int n => pure (.str (toString n))
      | .str t => pure (.str t)
      | .bool b => pure (.str (if b then "True" else "False"))
      | .none => pure (.str "None")
      | _ => fail "model: str() of a container is outside the core"
    | _, _ => fail "model: builtin arity"

/-- native methods of str and dict (`self` is the receiver; a frozen dict hands over its inner map) -/
def callMethod (m : String) (self : Val) (args : List (Option String × Val)) : EM Val := do
  match methodSig m with
  | none => fail s!"object has no property {m}"
  | some sig =>
    let (vals, _) ← bindNative m sig (some self) args
    match m, vals with
    | "get", [.dict _ d, .str k, dflt] => do
      match dictGet (← getDict d) k with
      | some v => pure v
      | none => pure dflt
    | "keys", [.dict _ d] => do mkList ((sortedKeys (← getDict d)).map Val.str)
    | "values", [.dict _ d] => do
      let m ← getDict d
      mkList ((sortedKeys m).filterMap (dictGet m))
    | "items", [.dict _ d] => do
      let m ← getDict d
      let rec go : List String → EM (List Val)
        | [] => pure []
        | k :: r => do
          let p ← mkList [.str k, (dictGet m k).getD .none]
          pure (p :: (← go r))
      mkList (← go (sortedKeys m))
    | "copy", [.dict _ d] => do
      let id ← allocDict (← getDict d)
      pure (.dict false id)
    | "join", [.str sep, seq] => do
      -- asStringList unwraps a frozen list
      match seq with
      | .list _ arr off len _ => do
        let xs ← elems arr off len
        let rec strs : List Val → EM (List String)
          | [] => pure []
          | .str s :: r => do pure (s :: (← strs r))
          | _ :: _ => fail "seq must be a list of strings"
        pure (.str (sep.intercalate (← strs xs)))
      | _ => fail "argument seq must be a list"
    | "split", [.str s, .str on] => do mkList ((← goSplit s on).map Val.str)
    | "replace", [.str s, .str old, .str new] => do pure (.str (← goReplace s old new))
    | "startswith", [.str s, .str x] => pure (.bool (x.toList.isPrefixOf s.toList))
    | "endswith", [.str s, .str x] => pure (.bool (x.toList.reverse.isPrefixOf s.toList.reverse))
    | "upper", [.str s] =>
      if isAscii s then pure (.str (String.ofList (s.toList.map asciiUpper))) else fail "model: non-ASCII upper"
    | "lower", [.str s] =>
      if isAscii s then pure (.str (String.ofList (s.toList.map asciiLower))) else fail "model: non-ASCII lower"
    | "find", [.str s, .str x] =>
      if isAscii s then pure (.int (strFind s x)) else fail "model: non-ASCII find"
    | "count", [.str s, .str x] => do pure (.int (← goCount s x))
    | "strip", [.str s, .str cut] =>
      pure (.str (String.ofList (trimLeft cut.toList (trimLeft cut.toList s.toList).reverse).reverse))
    | "lstrip", [.str s, .str cut] => pure (.str (String.ofList (trimLeft cut.toList s.toList)))
    | "rstrip", [.str s, .str cut] => pure (.str (String.ofList (trimLeft cut.toList s.toList.reverse).reverse))
    | "removeprefix", [.str s, .str p] =>
      pure (.str (if p.toList.isPrefixOf s.toList then String.ofList (s.toList.drop p.length) else s))
    | "removesuffix", [.str s, .str p] =>
      pure (.str (if p.toList.reverse.isPrefixOf s.toList.reverse then String.ofList (s.toList.take (s.length - p.length)) else s))
    | _, _ => fail "interface conversion"

/-- capacity hint of `iterableLen` and the live item source of a `for` / comprehension -/
inductive Iter
  | list (arr off len : Nat)
  | vals (l : List Val)

def iterOf (v : Val) : EM (Iter × Int) :=
  match v with
  | .list _ arr off len _ => pure (.list arr off len, len)
  | .range a b c =>
    if c == 0 then fail "integer divide by zero"
    else if c < 0 ∧ a < b then fail "model: non-terminating range"
    else pure (.vals (rangeElems a b c ((b - a).toNat + 1)), Int.tdiv (b - a) c)
  | o => fail s!"Non-iterable type {typeName o}"

def iterLen : Iter → Nat
  | .list _ _ len => len
  | .vals l => l.length

def iterGet (it : Iter) (i : Nat) : EM Val :=
  match it with
  | .list arr off _ => do
    match (← getArr arr)[off + i]? with
    | some v => pure v
    | none => fail "model: slice outside array"
  | .vals l => match l[i]? with
    | some v => pure v
    | none => fail "model: iterator"

mutual
  /-- `interpretExpression`.  `pos` = the node is a whole `Expression` (operator-free, no inline if, no
      slices/property/call): only then can `Constant()` fold a list literal. -/
  def evalExpr (F : Facts) (opt : Bool) : Nat → Nat → Bool → Expr → EM Val
    | 0, _, _, _ => fail "fuel"
    | f + 1, sc, pos, e =>
      match e with
      | .int n =>
        -- grammar_parse.go: `p.assert(len(tok.Value) < 19, tok, "int literal is too large: %s", tok)` (the token of a
        -- negative literal includes its sign): 19 characters = 10^18 and up, or -10^17 and down
        if n ≥ 1000000000000000000 ∨ n ≤ -100000000000000000 then fail "int literal is too large" else pure (.int n)
      | .str s => pure (.str s)
      | .tru => pure (.bool true)
      | .fls => pure (.bool false)
      | .none => pure .none
      | .name x => lookup sc x
      | .list id es =>
        if es.isEmpty then pure emptyList
        else if opt && F.constLists && pos && es.all (isConstExpr 64) then do
          match (← get).pool.find? (·.1 == id) with
          | some (_, v) => pure v
          | none => do
            -- created once, by `Constant()`, with no optimised sub-expressions
            let vs ← evalExprs F false f sc es
            let v ← mkList vs
            modify fun st => { st with pool := (id, v) :: st.pool }
            pure v
        else do
          let vs ← evalExprs F opt f sc es
          mkList vs
      | .dict kvs => do
        let id ← allocDict []
        evalDictItems F opt f sc id kvs
        pure (.dict false id)
      | .paren e => evalExpr F opt f sc true e
      | .tuple es => do
        let vs ← evalExprs F opt f sc es
        mkList vs
      | .call fn args => do
        let st ← get
        match lookupIn st.scopes (st.scopes.length + 1) sc fn with
        | some (.func id) => callUser F opt f sc id args
        | some o => fail s!"Non-callable object '{fn}' (is a {typeName o})"
        | none =>
          if fn == "subinclude" then do
            let vs ← evalArgs F opt f sc args
            subincludeAll F f sc (vs.map (·.2))
            pure .none
          else if (builtinSig fn).isSome then do
            let vs ← evalArgs F opt f sc args
            if fn == "sorted" then sortedCall F opt f sc vs else callBuiltin F fn vs
          else fail s!"name '{fn}' is not defined"
      | .index a i => do
        let obj ← evalExpr F opt f sc false a
        let idx ← evalExpr F opt f sc true i
        indexOp obj idx
      | .slice a lo hi => do
        let obj ← evalExpr F opt f sc false a
        let lo' ← match lo with
          | some e => do pure (some (← evalExpr F opt f sc true e))
          | none => pure none
        -- `start` is computed (and may fail) before `End` is evaluated
        match lo' with
        | some i => do let _ ← pyIndex (← objLen obj) i true
        | none => pure ()
        match obj with
        | .list false .. | .str _ => do
          let hi' ← match hi with
            | some e => do pure (some (← evalExpr F opt f sc true e))
            | none => pure none
          sliceOp F obj lo' hi'
        | o => fail s!"Unsliceable type {typeName o}"
      | .method a m args => do
        let obj ← evalExpr F opt f sc false a
        match obj with
        | .str _ =>
          if isStrMethod m then do
            let vs ← evalArgs F opt f sc args
            callMethod m obj vs
          else fail s!"str object has no property {m}"
        | .dict fz d => do
          match dictGet (← getDict d) m with
          | some (.func id) => callUser F opt f sc id args
          | some o => fail s!"Non-callable object (is a {typeName o})"
          | none =>
            if fz && m == "setdefault" then fail "dict is immutable"
            else if isDictMethod m then do
              let vs ← evalArgs F opt f sc args
              callMethod m (.dict false d) vs
            else fail s!"dict object has no property {m}"
        | o => fail s!"{typeName o} object has no property {m}"
      | .comp _ body vars iter cond => do
        let cs ← newScope (some sc)
        let itv ← evalExpr F opt f sc true iter
        let (it, hint) ← iterOf itv
        if hint < 0 then fail "makeslice: cap out of range"
        else do
          let vs ← compLoop F opt f cs body vars cond it 0
          -- `make(pyList, 0, hint)` then append: spare capacity stays behind the result
          let arr ← allocArr (vs ++ List.replicate (hint.toNat - vs.length) Val.none)
          pure (.list false arr 0 vs.length (max hint.toNat vs.length))
      | .dcomp k v vars iter cond => do
        let cs ← newScope (some sc)
        let itv ← evalExpr F opt f sc true iter
        let (it, hint) ← iterOf itv
        if hint < 0 then fail "makemap: size out of range"
        else do
          let id ← allocDict []
          dcompLoop F opt f cs id k v vars cond it 0
          pure (.dict false id)
      | .lam params body => do
        let st ← get
        let fn : Func := { name := "<lambda>", params := params.map (·, Default.required), body := [Stmt.ret [body]], scope := sc, opt := opt }
        set { st with funcs := st.funcs ++ [fn] }
        pure (.func st.funcs.length)
      | .chain hu head rest => do
        let obj ← evalExpr F opt f sc false head
        let S : OpsSem St String Val Expr :=
          { prec := F.prec, truthy := truthySt, ev := fun x => evalExpr F opt f sc true x, un := unOp, bin := binOp F }
        match flatten hu rest with
        | [] => pure obj
        | o :: os => interpretOps S obj o os
      | .ite t c e => do
        let cv ← evalExpr F opt f sc true c
        if ← truthyM cv then evalExpr F opt f sc false t else evalExpr F opt f sc true e
  termination_by structural fuel _ _ _ => fuel

  /-- `subinclude(label, …)` (builtins.go:330) followed by `interpreter.Subinclude` (interpreter.go:218):
      the file is interpreted once, in a scope below the root scope, optimised; its scope is frozen and cached;
      every caller gets all of its variables copied into its own scope (`SetAll(…, false)`). -/
  def subincludeAll (F : Facts) : Nat → Nat → List Val → EM Unit
    | 0, _, _ => fail "fuel"
    | _ + 1, _, [] => pure ()
    | f + 1, sc, v :: r => do
      match v with
      | .str label => do
        let st ← get
        let sub ← match st.subs.find? (·.1 == label) with
          | some (_, s) => pure s
          | none =>
            match st.files.find? (·.1 == label) with
            | none => fail s!"model: no such subinclude {label}"
            | some (_, prog) => do
              let s ← newScope (some 0)
              let _ ← execStmts F true f s prog
              freezeScope F s
              modify fun st => { st with subs := (label, s) :: st.subs }
              pure s
        match (← get).scopes[sub]? with
        | none => fail "model: bad scope"
        | some ss => ss.vars.forM fun (k, x) => setVar sc k x
        subincludeAll F f sc r
      | _ => fail "cannot subinclude type"
  termination_by structural fuel _ _ => fuel

  def evalExprs (F : Facts) (opt : Bool) : Nat → Nat → List Expr → EM (List Val)
    | 0, _, _ => fail "fuel"
    | _ + 1, _, [] => pure []
    | f + 1, sc, e :: es => do
      let v ← evalExpr F opt f sc true e
      pure (v :: (← evalExprs F opt f sc es))
  termination_by structural fuel _ _ => fuel

  def evalArgs (F : Facts) (opt : Bool) : Nat → Nat → List (Option String × Expr) → EM (List (Option String × Val))
    | 0, _, _ => fail "fuel"
    | _ + 1, _, [] => pure []
    | f + 1, sc, (k, e) :: es => do
      let v ← evalExpr F opt f sc true e
      pure ((k, v) :: (← evalArgs F opt f sc es))
  termination_by structural fuel _ _ => fuel

  def evalDictItems (F : Facts) (opt : Bool) : Nat → Nat → Nat → List (Expr × Expr) → EM Unit
    | 0, _, _, _ => fail "fuel"
    | _ + 1, _, _, [] => pure ()
    | f + 1, sc, id, (k, v) :: r => do
      let kv ← evalExpr F opt f sc true k
      let vv ← evalExpr F opt f sc true v
      indexAssign (.dict false id) kv vv
      evalDictItems F opt f sc id r
  termination_by structural fuel _ _ _ => fuel

  /-- `evaluateComprehension` (single `for`), reading the iterated list live -/
  def compLoop (F : Facts) (opt : Bool) :
      Nat → Nat → Expr → List String → Option Expr → Iter → Nat → EM (List Val)
    | 0, _, _, _, _, _, _ => fail "fuel"
    | f + 1, cs, body, vars, cond, it, i =>
      if i ≥ iterLen it then pure []
      else do
        let item ← iterGet it i
        unpackNames cs vars item
        let keep ← match cond with
          | some c => do truthyM (← evalExpr F opt f cs true c)
          | none => pure true
        if keep then do
          let v ← evalExpr F opt f cs true body
          pure (v :: (← compLoop F opt f cs body vars cond it (i + 1)))
        else compLoop F opt f cs body vars cond it (i + 1)
  termination_by structural fuel _ _ _ _ _ _ => fuel

  def dcompLoop (F : Facts) (opt : Bool) :
      Nat → Nat → Nat → Expr → Expr → List String → Option Expr → Iter → Nat → EM Unit
    | 0, _, _, _, _, _, _, _, _ => fail "fuel"
    | f + 1, cs, id, k, v, vars, cond, it, i =>
      if i ≥ iterLen it then pure ()
      else do
        let item ← iterGet it i
        unpackNames cs vars item
        let keep ← match cond with
          | some c => do truthyM (← evalExpr F opt f cs true c)
          | none => pure true
        if keep then do
          let kv ← evalExpr F opt f cs true k
          let vv ← evalExpr F opt f cs true v
          indexAssign (.dict false id) kv vv
        dcompLoop F opt f cs id k v vars cond it (i + 1)
  termination_by structural fuel _ _ _ _ _ _ _ _ => fuel

  /-- `pyFunc.Call` for a function defined in the language (objects.go:694) -/
  def callUser (F : Facts) (opt : Bool) : Nat → Nat → Nat → List (Option String × Expr) → EM Val
    | 0, _, _, _ => fail "fuel"
    | f + 1, sc, id, args => do
      match (← get).funcs[id]? with
      | none => fail "model: bad function"
      | some fn => do
        let s2 ← newScope (some fn.scope)
        bindArgs F opt f sc s2 fn 0 args
        fillDefaults F fn.opt f sc s2 fn.name fn.params
        match ← execStmts F fn.opt f s2 fn.body with
        | .ret v => pure v
        | _ => pure .none
  termination_by structural fuel _ _ _ => fuel

  /-- `f.Call(s, &Call{Arguments: constants})`: a function value applied to values (the `key` of `sorted`) -/
  def callUserVals (F : Facts) (opt : Bool) : Nat → Nat → Nat → List Val → EM Val
    | 0, _, _, _ => fail "fuel"
    | f + 1, sc, id, vals => do
      match (← get).funcs[id]? with
      | none => fail "model: bad function"
      | some fn => do
        let s2 ← newScope (some fn.scope)
        bindVals s2 fn 0 vals
        fillDefaults F fn.opt f sc s2 fn.name fn.params
        match ← execStmts F fn.opt f s2 fn.body with
        | .ret v => pure v
        | _ => pure .none
  termination_by structural fuel _ _ _ => fuel

  /-- the keys of the elements (`key.Call` inside the comparison function: never called on fewer than 2 elements) -/
  def keysOf (F : Facts) (opt : Bool) : Nat → Nat → Nat → List Val → EM (List (Val × Val))
    | 0, _, _, _ => fail "fuel"
    | _ + 1, _, _, [] => pure []
    | f + 1, sc, id, x :: r => do
      let k ← callUserVals F opt f sc id [x]
      pure ((k, x) :: (← keysOf F opt f sc id r))
  termination_by structural fuel _ _ _ => fuel

  /-- `sorted(seq, key=None, reverse=False)` (builtins.go); without a key function it is `callBuiltin`'s case -/
  def sortedCall (F : Facts) (opt : Bool) : Nat → Nat → List (Option String × Val) → EM Val
    | 0, _, _ => fail "fuel"
    | f + 1, sc, vs =>
      match builtinSig "sorted" with
      | none => fail "model: sorted"
      | some sig => do
        let (vals, _) ← bindNative "sorted" sig none vs
        match vals with
        | [seq, .func id, reverse] => do
          let (arr, off, len, cap) ← asListFor F "sorted" "Argument seq" seq
          let rev ← match reverse with
            | .bool b => pure b
            | _ => fail "Argument reverse must be a bool"
          let xs ← elems arr off len
          let keyed ← if xs.length < 2 then pure (xs.map fun x => (x, x)) else keysOf F opt f sc id xs
          let sorted ← sortCore F rev true keyed
          if F.sortedInPlace then do
            writeMany arr off sorted
            pure (.list false arr off len cap)
          else mkList sorted
        | _ => callBuiltin F "sorted" vs
  termination_by structural fuel _ _ => fuel

  def bindArgs (F : Facts) (opt : Bool) : Nat → Nat → Nat → Func → Nat → List (Option String × Expr) → EM Unit
    | 0, _, _, _, _, _ => fail "fuel"
    | _ + 1, _, _, _, _, [] => pure ()
    | f + 1, sc, s2, fn, i, (k, e) :: r => do
      match k with
      | some name =>
        if fn.params.any (·.1 == name) then do
          let v ← evalExpr F opt f sc true e
          setVar s2 name v
        else fail s!"Unknown argument to {fn.name}: {name}"
      | none =>
        match fn.params[i]? with
        | some (p, _) => do
          let v ← evalExpr F opt f sc true e
          setVar s2 p v
        | none => fail s!"Too many arguments to {fn.name}"
      bindArgs F opt f sc s2 fn (i + 1) r
  termination_by structural fuel _ _ _ _ _ => fuel

  def fillDefaults (F : Facts) (opt : Bool) : Nat → Nat → Nat → String → List (String × Default) → EM Unit
    | 0, _, _, _, _ => fail "fuel"
    | _ + 1, _, _, _, [] => pure ()
    | f + 1, sc, s2, fname, (p, d) :: r => do
      match ← localLookup s2 p with
      | some _ => pure ()
      | none =>
        match d with
        | .const v => setVar s2 p v
        | .expr e => do
          -- evaluated at call time, in the *caller's* scope (`f.defaultArg(s, i, a)`)
          let v ← evalExpr F opt f sc true e
          setVar s2 p v
        | .required => fail s!"Missing required argument to {fname}: {p}"
      fillDefaults F opt f sc s2 fname r
  termination_by structural fuel _ _ _ _ => fuel

  /-- `newPyFunc`: constant defaults are evaluated now (`parentScope.Constant`), the others kept as expressions -/
  def mkParams (F : Facts) (opt : Bool) : Nat → Nat → List (String × Option Expr) → EM (List (String × Default))
    | 0, _, _ => fail "fuel"
    | _ + 1, _, [] => pure []
    | f + 1, sc, (p, d) :: r => do
      let d' ← match d with
        | none => pure Default.required
        | some e =>
          let isConst := match e with
            | .list _ _ => F.constLists && isConstExpr 64 e
            | e => isConstExpr 64 e
          if isConst then do pure (Default.const (← evalExpr F opt f sc true e))
          else pure (Default.expr e)
      pure ((p, d') :: (← mkParams F opt f sc r))
  termination_by structural fuel _ _ => fuel

  /-- `interpretStatements` -/
  def execStmts (F : Facts) (opt : Bool) : Nat → Nat → List Stmt → EM Flow
    | 0, _, _ => fail "fuel"
    | _ + 1, _, [] => pure .normal
    | f + 1, sc, s :: rest => do
      match ← execStmt F opt f sc s with
      | .normal => execStmts F opt f sc rest
      | fl => pure fl
  termination_by structural fuel _ _ => fuel

  def execStmt (F : Facts) (opt : Bool) : Nat → Nat → Stmt → EM Flow
    | 0, _, _ => fail "fuel"
    | f + 1, sc, s =>
      match s with
      | .assign x e => do
        let v ← evalExpr F opt f sc true e
        setVar sc x v
        pure .normal
      | .idxAssign x i e => do
        let obj ← lookup sc x
        let idx ← evalExpr F opt f sc true i
        let v ← evalExpr F opt f sc true e
        indexAssign obj idx v
        pure .normal
      | .augAssign x e => do
        let cur ← lookup sc x
        let v ← evalExpr F opt f sc true e
        let r ← binOp F .add cur v
        setVar sc x r
        pure .normal
      | .idxAug x i e => do
        let obj ← lookup sc x
        let idx ← evalExpr F opt f sc true i
        let cur ← indexOp obj idx
        let v ← evalExpr F opt f sc true e
        let r ← binOp F .add cur v
        indexAssign obj idx r
        pure .normal
      | .unpack xs e => do
        let v ← evalExpr F opt f sc true e
        match v with
        | .list false _ _ len _ =>
          if len != xs.length then fail "Wrong number of items to unpack"
          else do unpackNames sc xs v; pure .normal
        | _ => fail "Cannot unpack type"
      | .expr e =>
        -- `Parser.optimise` rewrites `x.append(e)` / `x.extend(e)` statements into `x += [e]` / `x += e`
        match opt, e with
        | true, .method (.name x) "append" [(_, a)] => do
          let cur ← lookup sc x
          let v ← evalExpr F opt f sc true a
          let l ← mkList [v]
          let r ← binOp F .add cur l
          setVar sc x r
          pure .normal
        | true, .method (.name x) "extend" [(_, a)] => do
          let cur ← lookup sc x
          let v ← evalExpr F opt f sc true a
          let r ← binOp F .add cur v
          setVar sc x r
          pure .normal
        | _, e => do
          let _ ← evalExpr F opt f sc true e
          pure .normal
      | .def_ fname params body => do
        let ps ← mkParams F opt f sc params
        let st ← get
        set { st with funcs := st.funcs ++ [({ name := fname, params := ps, body := body, scope := sc, opt := opt } : Func)] }
        setVar sc fname (.func st.funcs.length)
        pure .normal
      | .ret es =>
        match es with
        | [] => pure (.ret .none)
        | [e] => do pure (.ret (← evalExpr F opt f sc true e))
        | es => do
          let vs ← evalExprs F opt f sc es
          pure (.ret (← mkList vs))
      | .for_ xs e body => do
        let itv ← evalExpr F opt f sc true e
        let (it, _) ← iterOf itv
        forLoop F opt f sc xs body it 0
      | .cond branches els => condLoop F opt f sc branches els
      | .pass => pure .normal
      | .brk => pure .brk
      | .cont => pure .cont
      | .assert_ e => do
        let v ← evalExpr F opt f sc true e
        if ← truthyM v then pure .normal else fail "assertion failed"
  termination_by structural fuel _ _ => fuel

  def condLoop (F : Facts) (opt : Bool) : Nat → Nat → List (Expr × List Stmt) → List Stmt → EM Flow
    | 0, _, _, _ => fail "fuel"
    | f + 1, sc, [], els => execStmts F opt f sc els
    | f + 1, sc, (c, body) :: r, els => do
      let v ← evalExpr F opt f sc true c
      if ← truthyM v then execStmts F opt f sc body else condLoop F opt f sc r els
  termination_by structural fuel _ _ _ => fuel

  /-- `interpretFor` -/
  def forLoop (F : Facts) (opt : Bool) : Nat → Nat → List String → List Stmt → Iter → Nat → EM Flow
    | 0, _, _, _, _, _ => fail "fuel"
    | f + 1, sc, xs, body, it, i =>
      if i ≥ iterLen it then pure .normal
      else do
        let item ← iterGet it i
        unpackNames sc xs item
        match ← execStmts F opt f sc body with
        | .ret v => pure (.ret v)
        | .brk => pure .normal
        | _ => forLoop F opt f sc xs body it (i + 1)
  termination_by structural fuel _ _ _ _ _ => fuel
end

/-! ### Whole programs -/

mutual
  /-- fuel decreases on every call (structural recursion); `depth` is the nesting cut-off of the rendering -/
  def renderVal : Nat → Nat → Val → EM RVal
    | 0, _, _ => fail "fuel"
    | _ + 1, 0, _ => pure .deep
    | f + 1, d + 1, v =>
      match v with
      | .int n => pure (.int n)
      | .str s => pure (.str s)
      | .bool b => pure (.bool b)
      | .none => pure .none
      | .list _ arr off len _ => do
        let xs ← elems arr off len
        pure (.list (← renderList f d xs))
      | .dict _ id => do
        let m ← getDict id
        pure (.dict (← renderKvs f d m (sortedKeys m)))
      | .func id => do pure (.fn (((← get).funcs[id]?).map (·.name) |>.getD "?"))
      | .range a b c => pure (.list ((rangeElems a b c ((b - a).toNat + 1)).map fun | .int n => .int n | _ => .none))
  def renderList : Nat → Nat → List Val → EM (List RVal)
    | 0, _, _ => fail "fuel"
    | _ + 1, _, [] => pure []
    | f + 1, d, x :: r => do pure ((← renderVal f d x) :: (← renderList f d r))
  def renderKvs : Nat → Nat → List (String × Val) → List String → EM (List (String × RVal))
    | 0, _, _, _ => fail "fuel"
    | _ + 1, _, _, [] => pure []
    | f + 1, d, m, k :: r => do pure ((k, ← renderVal f d ((dictGet m k).getD .none)) :: (← renderKvs f d m r))
end

/-- The variables of a scope, without functions, sorted by name. -/
def renderScope (sc : Nat) : EM (List (String × RVal)) := do
  match (← get).scopes[sc]? with
  | none => fail "model: bad scope"
  | some s =>
    let vars := s.vars.filter fun e => match e.2 with | .func _ => false | _ => true
    renderKvs 100000 13 vars (sortedKeys vars)

abbrev Globals := List (String × RVal)

/-- One package file on its own (`ParseFile` → `interpretAll`; no optimisation passes) when `opt = false`;
    with `opt = true` the file is interpreted the way a subincluded file is (`parseSubinclude` + `Subinclude`):
    optimised, then frozen. -/
def runProgram (F : Facts) (opt : Bool) (fuel : Nat) (p : Program) : Except String Globals :=
  let m : EM Globals := do
    let root ← newScope none
    let pkg ← newScope (some root)
    let _ ← execStmts F opt fuel pkg p
    if opt then freezeScope F pkg
    renderScope pkg
  match m.run {} with
  | .ok (g, _) => .ok g
  | .error e => .error e

/-! ### Several files in one interpreter (C17, C18) -/

/-- Package files interpreted one after the other in one interpreter; `files` are what they can subinclude.
    Result: the globals of every package right after it was interpreted, and the globals of every package
    once all of them have been interpreted. -/
def runPackages (F : Facts) (fuel : Nat) (files : List (String × Program)) (pkgs : List (String × Program)) :
    Except String (List (String × Globals) × List (String × Globals)) :=
  let m : EM (List (String × Globals) × List (String × Globals)) := do
    let _root ← newScope none
    modify fun st => { st with files := files }
    let rec go : List (String × Program) → EM (List (String × Nat × Globals))
      | [] => pure []
      | (name, p) :: r => do
        let sc ← newScope (some 0)
        let _ ← execStmts F false fuel sc p
        let g ← renderScope sc
        pure ((name, sc, g) :: (← go r))
    let rs ← go pkgs
    let rec final : List (String × Nat × Globals) → EM (List (String × Globals))
      | [] => pure []
      | (name, sc, _) :: r => do pure ((name, ← renderScope sc) :: (← final r))
    let fin ← final rs
    pure (rs.map fun e => (e.1, e.2.2), fin)
  match m.run {} with
  | .ok (g, _) => .ok g
  | .error e => .error e

end PlzVerif.Asp
