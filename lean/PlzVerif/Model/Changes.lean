import PlzVerif.Model.Query
/-!
C24 model: transcription of `changedTargets` (src/query/changes.go) with `BuildTarget.HasAbsoluteSource` /
`HasSource` (src/core/build_target.go); the reverse-dependency closure is `FindRevdeps` of Model/Query.lean,
called as the code calls it (`hidden = true`, no subincludes).  Core Lean only.

Go                                                    here
----------------------------------------------------  ----------------------------------------------------
file names, package names, source strings             `Path = List String` (components of a clean relative path;
                                                       the root package "" is `[]`, `filepath.Dir` is `dropLast`)
`state.Graph.Package(pkgName, "")`                    membership in `C.pkgs`
`pkg.AllTargets()`                                    targets `t` with `C.pkgOf t = pkg` (a Go map: order irrelevant, a set is built)
`append(AllSources(), AllData()...)` as `String()`    `C.inputs t` (labels and system files can never match a repo path)
`s == source || strings.HasPrefix(source, s+"/")`     `s = rel ∨ s` is a proper component prefix of `rel`
`diffGraphs(before, after)`                           `changed0` (given: the model does not contain RuleHash, see C08)
`state.ShouldInclude(t)` (`--include`/`--exclude`)     `C.incl t`, computed by `shouldInclude` from the target's labels; subrepos and
                                                      `ExcludeTargets`, label patterns ending in `*` and the pseudo-label `test` are not modelled
-/
namespace PlzVerif.Changes
open PlzVerif.Query

abbrev Path := List String

structure CGraph where
  G : Graph                      -- targets and dependency edges (Model/Query.lean)
  pkgs : List Path               -- registered packages
  pkgOf : Nat → Path             -- `t.Label.PackageName`
  inputs : Nat → List Path       -- sources and data of `t`, relative to its package
  tools : Nat → List Path        -- local file tools of `t` (`AllTools()` that are `FileLabel`s)
  incl : Nat → Bool              -- `state.ShouldInclude(t)`

/-- `target.ShouldInclude(includes, excludes)`: each entry is a comma-separated list of labels the target must ALL have -/
def shouldInclude (labels : List String) (includes excludes : List (List String)) : Bool :=
  if includes.isEmpty && excludes.isEmpty then true
  else
    let inc := includes.isEmpty || includes.any fun i => i.all (labels.contains ·)
    let exc := excludes.any fun e => e.all (labels.contains ·)
    if exc then false else inc

/-- `s == source || strings.HasPrefix(source, s+"/")` on clean paths -/
def matchesInput (s rel : Path) : Bool := s == rel || (s.length < rel.length && s.isPrefixOf rel)

/-- `target.HasAbsoluteSource(filename)`: `strings.TrimPrefix(filename, pkg+"/")`, then `HasSource`, then the file tools -/
def hasAbsoluteSource (C : CGraph) (t : Nat) (file : Path) : Bool :=
  let pkg := C.pkgOf t
  -- the root package has the empty name: TrimPrefix(file, "/") changes nothing
  let rel := if pkg != [] && pkg.isPrefixOf file then file.drop pkg.length else file
  -- `HasSource` (sources and data), then the file tools
  ((C.inputs t).any fun s => matchesInput s rel) || ((C.tools t).any fun s => matchesInput s rel)

/-- the `for dir := filename; dir != "." && dir != "/"; { dir = filepath.Dir(dir); … }` loop: the closest
enclosing directory of `file` that is a package, if any (`fuel` = number of components) -/
def closestPkg (C : CGraph) : Nat → Path → Option Path
  | 0, _ => none
  | fuel+1, dir =>
    -- loop condition: dir != "." (the empty path)
    if dir == [] then none
    else
      let d := dir.dropLast
      if C.pkgs.contains d then some d else closestPkg C fuel d

/-- targets marked changed because they consume one of the files -/
def changedByFiles (C : CGraph) (files : List Path) : List Nat :=
  files.flatMap fun f =>
    match closestPkg C (f.length + 1) f with
    | none => []
    | some pkg => C.G.nodes.filter fun t => C.pkgOf t == pkg && hasAbsoluteSource C t f

/-- `changedTargets(state, files, changed0, level, false)`: ids, unsorted, possibly repeated.
`seedsFiltered` is read from the source: does the loop that collects the labels of the directly changed targets — the
seeds of the reverse-dependency walk — test `ShouldInclude`?  (The pinned code filters only the final list.) -/
def changedTargets (cfg : Cfg) (seedsFiltered : Bool) (C : CGraph) (files : List Path) (changed0 : List Nat)
    (level : Option Limit) : List Nat :=
  let changed := changed0 ++ changedByFiles C files
  -- `for target := range changed { labels = append(labels, target.Label) }`
  let seeds := if seedsFiltered then changed.filter C.incl else changed
  let labels := match level with
    | none => seeds                                       -- `level == 0`: no reverse dependencies
    | some lim => seeds ++ ((findRevdeps cfg C.G lim true seeds).ret.filter fun d => !changed.contains d)
  -- `if state.ShouldInclude(t) && … { ls = append(ls, l) }`
  labels.filter C.incl

end PlzVerif.Changes
