/-
Model of the directory cache's Store / Retrieve (src/cache/dir_cache.go, src/fs/copy.go) as LISTS OF ATOMIC
FILESYSTEM OPERATIONS over one cache key's slice of the filesystem.  Core Lean only.

A key owns two names inside `<cache>/<pkg>/<name>/`:  the entry  `<b64 key><suffix>`  (Root.final)  and the
temporary  `<b64 key>=<suffix>`  (Root.tmp).  Plain mode (`U…`): both are directories holding the outputs.
Compressed mode (`C…`): both are single `.tar.gz` files.

What is atomic here is what the kernel makes atomic: unlink/rmdir of one node, mkdir, link(2), symlink(2),
rename(2).  `os.RemoveAll`, `fs.RecursiveLink` and the tarball writer are sequences of such operations.
-/
namespace PlzVerif.DirCache

abbrev Path := List String
abbrev Bytes := List UInt8

/-- One filesystem node.  Directories do not list their children: a child exists iff its path is mapped. -/
inductive Item
  | file (c : Bytes) (exec : Bool)
  | link (target : Bytes)
  | dir
  deriving DecidableEq, Repr, Inhabited

inductive Root | final | tmp
  deriving DecidableEq, Repr

/-- The outputs of a target (`plz-out/gen/<pkg>/…`) in the order `fs.Walk` visits them (a directory before its
    contents).  Paths are relative to the package's output directory. -/
abbrev Tree := List (Path × Item)

def Tree.get (t : Tree) (p : Path) : Option Item := (t.find? (·.1 = p)).map (·.2)

/-- The entries at or below `o`, in walk order. -/
def Tree.below (t : Tree) (o : Path) : Tree := t.filter (fun e => o.isPrefixOf e.1)

/-! ## Plain (uncompressed) mode -/

abbrev FS := Root → Path → Option Item

def FS.empty : FS := fun _ _ => none

/-- No prefix of `q` (including `q`) is occupied by a non-directory: `MkdirAll` can get as far as `q`. -/
def FS.clearTo (fs : FS) (r : Root) (q : Path) : Bool :=
  (List.range (q.length + 1)).all fun k => fs r (q.take k) = none || fs r (q.take k) = some .dir

inductive Op
  /-- the subtree at `r/p` is gone (some number of completed unlink/rmdir calls of a recursive removal). -/
  | rmSub (r : Root) (p : Path)
  /-- `os.MkdirAll(r/p)`: creates the missing prefixes top-down until it meets a non-directory. -/
  | mkdirAll (r : Root) (p : Path)
  /-- link(2) / symlink(2) of one node: succeeds iff the parent is a directory and the name is free. -/
  | put (r : Root) (p : Path) (i : Item)
  /-- the content of an existing regular file is replaced (copy fallback: a longer prefix has been written). -/
  | write (r : Root) (p : Path) (c : Bytes)
  /-- rename(2) inside one root (copy fallback: temp name → destination), replacing a non-directory. -/
  | mv (r : Root) (p q : Path)
  /-- `os.Rename(tmp, final)`. -/
  | rename
  deriving DecidableEq, Repr

def apply1 (fs : FS) : Op → FS
  | .rmSub r p => fun r' q => if r' = r ∧ p.isPrefixOf q then none else fs r' q
  | .mkdirAll r p => fun r' q =>
      if r' = r ∧ q.isPrefixOf p ∧ fs r q = none ∧ fs.clearTo r q then some .dir else fs r' q
  | .put r p i => fun r' q =>
      if r' = r ∧ q = p ∧ fs r p = none ∧ p ≠ [] ∧ fs r p.dropLast = some .dir then some i else fs r' q
  | .write r p c => fun r' q =>
      if r' = r ∧ q = p then
        match fs r p with
        | some (.file _ x) => some (.file c x)
        | o => o
      else fs r' q
  | .mv r p q => fun r' s =>
      match fs r p, fs r q with
      | some (.file c x), none | some (.file c x), some (.file _ _) | some (.file c x), some (.link _) =>
          if r' = r ∧ s = q then some (.file c x) else if r' = r ∧ s = p then none else fs r' s
      | _, _ => fs r' s
  | .rename =>
      -- ENOENT when the temporary does not exist (ignored by Store); an existing entry directory makes the
      -- rename fail (ENOTEMPTY; the empty-directory case is not distinguished) and is only logged.
      if fs .tmp [] = none then fs
      else if fs .final [] ≠ none then fs
      else fun r' q => match r' with
        | .final => fs .tmp q
        | .tmp => none

def applyOps (fs : FS) (ops : List Op) : FS := ops.foldl apply1 fs

/-- Operations that can only change the temporary root. -/
def Op.tmpOnly : Op → Bool
  | .rmSub .tmp _ | .mkdirAll .tmp _ | .put .tmp _ _ | .write .tmp _ _ | .mv .tmp _ _ => true
  | _ => false

/-- `fs.RecursiveLink(plz-out/…/o, tmp/o)`: nothing when the source does not exist (the error is only logged);
    otherwise one operation per walked node — `MkdirAll` for a directory, link/symlink for the rest. -/
def linkTreeOps (src : Tree) (o : Path) : List Op :=
  (src.below o).map fun e =>
    match e.2 with
    | .dir => .mkdirAll .tmp e.1
    | i => .put .tmp e.1 i

/-- `ensureStoreReady(tmp/o)`: `MkdirAll(dir(tmp/o))`, `RemoveAll(tmp/o)`. -/
def readyOps (o : Path) : List Op := [.mkdirAll .tmp o.dropLast, .rmSub .tmp o]

/-- The coarse steps of `Store` — one per `verifOp` call site. -/
inductive Step
  | rmFinal | ready (o : Path) | linkTree (o : Path) | rename
  | readyC | create | tarEntry (p : Path) | close | stat | rmFailed
  deriving DecidableEq, Repr

/-- `Store`'s step sequence in plain mode, driven by the order of the three phases read from the source
    (`order`: regenerated fact, normally `["remove-final", "store-tmp", "rename-tmp-final"]`). -/
def stepsU (order : List String) (outs : List Path) : List Step :=
  order.flatMap fun ph =>
    if ph = "remove-final" then [.rmFinal]
    else if ph = "store-tmp" then outs.flatMap fun o => [.ready o, .linkTree o]
    else if ph = "rename-tmp-final" then [.rename]
    else []

/-- The atomic operations of one step.  `rm` lists the nodes a recursive removal of the old entry has already
    deleted, in deletion order (any list: the crash theorems quantify over it). -/
def expandU (src : Tree) (rm : List Path) : Step → List Op
  | .rmFinal => rm.map (.rmSub .final) ++ [.rmSub .final []]
  | .ready o => readyOps o
  | .linkTree o => linkTreeOps src o
  | .rename => [.rename]
  | _ => []

def storeOpsU (order : List String) (src : Tree) (rm : List Path) (outs : List Path) : List Op :=
  (stepsU order outs).flatMap (expandU src rm)

inductive Res
  | miss
  | hit (restored : Tree)
  deriving DecidableEq, Repr

/-- `retrieveFiles` on a quiescent cache: miss when the entry does not exist; hit with nothing when no outputs
    are requested; a missing output is `ENOENT` → (`os.IsNotExist`) miss; otherwise everything at or below each
    requested output is linked back.  `cands` is the finite universe of paths that may exist. -/
def retrieveU (fs : FS) (cands : List Path) (outs : List Path) : Res :=
  if fs .final [] = none then .miss
  else if outs.any (fun o => fs .final o = none) then .miss
  else .hit (cands.filterMap fun p =>
    if outs.any (·.isPrefixOf p) then (fs .final p).map (p, ·) else none)

/-! ### Small-step reader (for interleavings): every step reads the filesystem as it is at that moment. -/

inductive RState
  | start
  | walking (work : List Path) (acc : Tree)
  | done (r : Res)
  deriving DecidableEq, Repr

/-- Names present directly below `p`. -/
def children (fs : FS) (cands : List Path) (p : Path) : List Path :=
  cands.filter fun q => q ≠ [] ∧ q.dropLast = p ∧ fs .final q ≠ none

def readStep (cands : List Path) (outs : List Path) (fs : FS) : RState → RState
  | .start =>
      if fs .final [] = none then .done .miss            -- `!core.PathExists(cacheDir)`
      else if outs = [] then .done (.hit [])
      else .walking outs []
  | .walking [] acc => .done (.hit acc)
  | .walking (p :: work) acc =>
      match fs .final p with
      | none => .done .miss                              -- Lstat / link fails with ENOENT → reported as a miss
      | some .dir => .walking (children fs cands p ++ work) (acc ++ [(p, .dir)])
      | some i => .walking work (acc ++ [(p, i)])
  | .done r => .done r

/-- Run the reader for `n` steps; step `i` sees `snaps i`. -/
def readRun (cands : List Path) (outs : List Path) (snaps : Nat → FS) : Nat → RState
  | 0 => .start
  | n + 1 => readStep cands outs (snaps n) (readRun cands outs snaps n)

/-! ## Compressed mode: the entry and the temporary are single tarballs -/

/-- A `.tar.gz` on disk: the entries written so far and whether the gzip/tar trailers are there.
    An archive without trailers does not decompress to the end (`unexpected EOF`). -/
structure Tar where
  es : Tree
  closed : Bool
  deriving DecidableEq, Repr

abbrev CFS := Root → Option Tar

def CFS.empty : CFS := fun _ => none

inductive COp
  | rm (r : Root)              -- unlink of the one file
  | create                     -- os.Create(tmp): empty or truncated
  | append (e : Path × Item)   -- header (+ body) of one entry reaches the file (any amount of it: still unclosed)
  | close                      -- tar, gzip, bufio, file closed: trailers written
  | nop                        -- mkdir of the parent directory / stat: no change inside the slice
  | rename
  deriving DecidableEq, Repr

def applyC1 (fs : CFS) : COp → CFS
  | .rm r => fun r' => if r' = r then none else fs r'
  | .create => fun r' => if r' = .tmp then some ⟨[], false⟩ else fs r'
  | .append e => fun r' =>
      if r' = .tmp then
        match fs .tmp with
        | some ⟨es, false⟩ => some ⟨es ++ [e], false⟩
        | o => o
      else fs r'
  | .close => fun r' =>
      if r' = .tmp then (fs .tmp).map fun t => { t with closed := true } else fs r'
  | .nop => fs
  | .rename =>
      if fs .tmp = none then fs
      else fun r' => match r' with
        | .final => fs .tmp
        | .tmp => none

def applyOpsC (fs : CFS) (ops : List COp) : CFS := ops.foldl applyC1 fs

def COp.tmpOnly : COp → Bool
  | .rm .tmp | .create | .append _ | .close | .nop => true
  | _ => false

/-- What the walk over the requested outputs yields before it fails: all entries, or those of the outputs
    that precede the first one missing from the source tree (`fs.Walk` → `Lstat` error). -/
def tarEntries (src : Tree) : List Path → Tree × Bool
  | [] => ([], true)
  | o :: os =>
    if src.get o = none then ([], false)
    else
      let (es, ok) := tarEntries src os
      (src.below o ++ es, ok)

def stepsC (order : List String) (src : Tree) (outs : List Path) : List Step :=
  order.flatMap fun ph =>
    if ph = "remove-final" then [.rmFinal]
    else if ph = "store-tmp" then
      let (es, ok) := tarEntries src outs
      [.readyC, .create] ++ es.map (fun e => .tarEntry e.1) ++ [.close] ++ (if ok then [.stat] else [.rmFailed])
    else if ph = "rename-tmp-final" then [.rename]
    else []

def expandC (src : Tree) : Step → List COp
  | .rmFinal => [.rm .final]
  | .readyC => [.nop, .rm .tmp]
  | .create => [.create]
  | .tarEntry p => match src.find? (·.1 = p) with
      | some e => [.append e]
      | none => []
  | .close => [.close]
  | .stat => [.nop]
  | .rmFailed => [.rm .tmp]
  | .rename => [.rename]
  | _ => []

def storeOpsC (order : List String) (src : Tree) (outs : List Path) : List COp :=
  (stepsC order src outs).flatMap (expandC src)

/-- `retrieveFiles` in compressed mode on a quiescent cache.  `dmg` is the regenerated fact "an error from reading
    the archive other than not-exist is reported as a miss" (`retrieve`: `err != nil && !os.IsNotExist(err)`);
    were it false, a truncated archive would be a hit restoring whatever decoded before the error. -/
def retrieveC (dmg : Bool) (fs : CFS) (outs : List Path) : Res :=
  match fs .final with
  | none => .miss
  | some t => if outs = [] then .hit [] else if t.closed then .hit t.es else if dmg then .miss else .hit t.es

/-- The two reads of a compressed retrieve: `PathExists` sees `s1`, `os.Open` + untar see `s2`.
    `enoentIsMiss` is the regenerated fact "a not-exist error from the archive read is reported as a miss";
    in the code as it is, `retrieveFiles` returns `true, err` and `retrieve` lets `os.IsNotExist(err)` through
    with `found = true`. -/
def retrieveC2 (enoentIsMiss dmg : Bool) (s1 s2 : CFS) (outs : List Path) : Res :=
  match s1 .final with
  | none => .miss
  | some _ =>
    if outs = [] then .hit []
    else match s2 .final with
      | none => if enoentIsMiss then .miss else .hit []
      | some t => if t.closed then .hit t.es else if dmg then .miss else .hit t.es

/-! ## Restoring a tarball into an output directory that is not empty

`retrieveCompressed` handles one archive entry at a time: `ensureRetrieveReady` (create the parent directory when the
name has a `/`, unlink whatever is at the destination), then `MkdirAll` / `Symlink` / `OpenFile(O_WRONLY|O_CREATE)`.
The open does NOT truncate: without the unlink a longer stale file keeps its tail (and its mode). -/

/-- The output directory of the target, paths relative to it. -/
abbrev Dest := Path → Option Item

def Dest.clearTo (d : Dest) (q : Path) : Bool :=
  (List.range (q.length + 1)).all fun k => d (q.take k) = none || d (q.take k) = some .dir

/-- `os.MkdirAll`: fails on a non-directory in the way. -/
def Dest.mkdirAll (d : Dest) (p : Path) : Option Dest :=
  if d.clearTo p then some (fun q => if q.isPrefixOf p then some .dir else d q) else none

def Dest.rmSub (d : Dest) (p : Path) : Dest := fun q => if p.isPrefixOf q then none else d q

/-- the parent exists as a directory (the output directory itself always does) -/
def Dest.parentOK (d : Dest) (p : Path) : Bool := p.length ≤ 1 || d p.dropLast = some .dir

/-- `ensureRetrieveReady(out)`. -/
def Dest.ready (d : Dest) (p : Path) : Option Dest :=
  (if p.length ≥ 2 then d.mkdirAll p.dropLast else some d).map (·.rmSub p)

/-- One archive entry.  `prep`: regenerated fact "ensureRetrieveReady is called for every header, unconditionally, and
    unlinks the destination unconditionally"; `trunc`: regenerated fact "the open has O_TRUNC".  `none` = an error. -/
def restoreEntry (prep trunc : Bool) (d : Dest) (e : Path × Item) : Option Dest :=
  (if prep then d.ready e.1 else some d).bind fun d =>
    match e.2 with
    | .dir => d.mkdirAll e.1
    | .link t =>
      if d e.1 = none ∧ d.parentOK e.1 then some (fun q => if q = e.1 then some (.link t) else d q) else none
    | .file c x =>
      if !d.parentOK e.1 then none
      else match d e.1 with
        | none => some (fun q => if q = e.1 then some (.file c x) else d q)
        | some (.file c' x') =>
          some (fun q => if q = e.1 then some (.file (if trunc then c else c ++ c'.drop c.length) x') else d q)
        | some _ => none

def restoreAll (prep trunc : Bool) : Dest → Tree → Option Dest
  | d, [] => some d
  | d, e :: es => (restoreEntry prep trunc d e).bind fun d' => restoreAll prep trunc d' es

/-- What is found at and below the requested outputs afterwards. -/
def Dest.listing (d : Dest) (cands outs : List Path) : Tree :=
  cands.filterMap fun p => if outs.any (·.isPrefixOf p) then (d p).map (p, ·) else none

/-- `Retrieve` of a compressed cache into an output directory holding `d0`. -/
def retrieveCInto (prep trunc dmg : Bool) (fs : CFS) (d0 : Dest) (cands outs : List Path) : Res :=
  match fs .final with
  | none => .miss
  | some t =>
    if outs = [] then .hit []
    else if !t.closed then (if dmg then .miss else .hit (d0.listing cands outs))
    else match restoreAll prep trunc d0 t.es with
      | none => .miss
      | some d => .hit (d.listing cands outs)

end PlzVerif.DirCache
