import PlzVerif.Base.Proto
import PlzVerif.Model.Walk
/-! Line-protocol helpers shared by the drivers that receive directory trees (C21, C22, C34).  Core only. -/
namespace PlzVerif.TreeProto
open PlzVerif PlzVerif.Walk PlzVerif.Proto

/-- Hex of valid UTF-8 only (the model compares code points, Go compares bytes: the two agree on valid UTF-8). -/
def nameOfHex (h : String) : Option Name := do
  let b ← bytesOfHex h
  let s ← String.fromUTF8? (ByteArray.mk b.toArray)
  pure s.toList

def parseList (s : String) : Option (List Name) :=
  if s = "_" then some [] else (s.splitOn ";").mapM nameOfHex

/-- An entry name the file system can hold. -/
def validEntry (n : Name) : Bool :=
  !n.isEmpty && !n.contains '/' && !n.contains (Char.ofNat 0) && n != ['.'] && n != ['.', '.'] &&
  (String.ofList n).utf8ByteSize ≤ 255

def Forest.names : Forest → List Name
  | .nil => []
  | .cons n _ rest => n :: Forest.names rest

def nodupNames : List Name → Bool
  | [] => true
  | n :: rest => !rest.contains n && nodupNames rest

/-- Parse tokens into a forest; returns the forest, the remaining tokens and whether a closing "^" ended it. -/
def parseForest : Nat → List String → Option (Forest × List String × Bool)
  | 0, _ => none
  | _ + 1, [] => some (.nil, [], false)
  | fuel + 1, tok :: rest =>
    if tok = "^" then some (.nil, rest, true) else
    let kind := (tok.take 1).toString
    match nameOfHex (tok.drop 1).toString with
    | none => none
    | some n =>
      if !validEntry n then none else
      if kind = "d" then
        match parseForest fuel rest with
        | some (kids, rest', true) =>
          if !nodupNames (Forest.names kids) then none else
          match parseForest fuel rest' with
          | some (sibs, rest'', c) => some (.cons n (.dir kids) sibs, rest'', c)
          | none => none
        | _ => none
      else
        let k : Option Kind := if kind = "f" then some .file else if kind = "l" then some .linkDir
          else if kind = "s" then some .linkOther else none
        match k with
        | none => none
        | some k =>
          match parseForest fuel rest with
          | some (sibs, rest', c) => some (.cons n (.leaf k) sibs, rest', c)
          | none => none

def Forest.find (n : Name) : Forest → Option Tree
  | .nil => none
  | .cons m t rest => if m = n then some t else Forest.find n rest

def lookup : Tree → List Name → Option Tree
  | t, [] => some t
  | .leaf _, _ :: _ => none
  | .dir cs, n :: rest => match Forest.find n cs with
    | none => none
    | some t => lookup t rest

def splitSlash (n : Name) : List Name :=
  if n.isEmpty then [] else (String.ofList n).splitOn "/" |>.map String.toList

def showNames (l : List Name) : String :=
  if l.isEmpty then "_" else ",".intercalate (l.map fun n => hexOfStr (String.ofList n))

end PlzVerif.TreeProto
