import PlzVerif.Model.Label
/-
Model of the label include/exclude filters (C36):
`match`, `BuildTarget.HasLabel`, `HasAllLabels`, `BuildTarget.ShouldInclude` (src/core/build_target.go:1243-1320),
`BuildState.SetIncludeAndExclude`, `BuildState.ShouldInclude`, `expandOriginalPseudoTarget`
(src/core/state.go:459-484, 808-830) and `LooksLikeABuildLabel` (build_label.go:602).
Core Lean only.  Strings are `List Char` as in `Model/Label.lean`; build-pattern excludes go through the
label parser and `includes` of that model.
-/
namespace PlzVerif.Filter
open PlzVerif.Label

structure FFacts where
  /-- separator of `strings.Split(include, ",")`. -/
  sep : Char
  /-- wildcard suffix of `match`. -/
  star : Char
  /-- the label every test target carries implicitly. -/
  testLabel : Str
  /-- `ShouldInclude` runs the exclude loop after the include loop (exclusion wins). -/
  excludeLast : Bool
  /-- with no include given the default is "included" (`shouldInclude := len(includes) == 0`). -/
  defaultInclude : Bool

/-- A target as the filters see it. -/
structure Target where
  label : Label
  labels : List Str
  isTest : Bool

/-- `strings.Split(s, sep)` for a one-character separator (never empty). -/
def splitOn (sep : Char) : Str → List Str
  | [] => [[]]
  | c :: r =>
    if c = sep then [] :: splitOn sep r
    else match splitOn sep r with
      | h :: t => (c :: h) :: t
      | [] => [[c]]

/-- `match(pattern, s)` (build_target.go:1253). -/
def matchLabel (ff : FFacts) (pattern s : Str) : Bool :=
  pattern == s ||
  (pattern.getLast? == some ff.star && startsWith s (pattern.take (pattern.length - 1)))

/-- `target.HasLabel(label)`. -/
def hasLabel (ff : FFacts) (t : Target) (label : Str) : Bool :=
  t.labels.any (fun l => matchLabel ff label l) || (label == ff.testLabel && t.isTest)

/-- `target.HasAllLabels(labels)`. -/
def hasAllLabels (ff : FFacts) (t : Target) (labels : List Str) : Bool :=
  labels.all (hasLabel ff t)

def groupHolds (ff : FFacts) (t : Target) (g : Str) : Bool := hasAllLabels ff t (splitOn ff.sep g)

/-- `target.ShouldInclude(includes, excludes)` (build_target.go:1298). -/
def shouldIncludeT (ff : FFacts) (t : Target) (includes excludes : List Str) : Bool :=
  if includes.isEmpty && excludes.isEmpty then true else
  let inc := (ff.defaultInclude && includes.isEmpty) || includes.any (groupHolds ff t)
  if ff.excludeLast then
    (if excludes.any (groupHolds ff t) then false else inc)
  else
    -- exclude loop first, include loop last: an include group would override an exclusion
    (if includes.any (groupHolds ff t) then true else
      if excludes.any (groupHolds ff t) then false else (ff.defaultInclude && includes.isEmpty))

/-- `LooksLikeABuildLabel`. -/
def looksLikeLabel (s : Str) : Bool :=
  startsWith s ['/', '/'] || startsWith s [':'] ||
  (startsWith s ['@'] && (s.contains ':' || hasDbl s))

/-- The state after `SetIncludeAndExclude(include, exclude)`: label-like excludes become `ExcludeTargets`
    (parsed in the empty context; `none` when one of them does not parse — the real code dies). -/
structure FilterState where
  incl : List Str
  excl : List Str
  excludeTargets : List Label

def setIncludeAndExclude (lf : Label.Facts) (incl excl : List Str) : Option FilterState :=
  let labs := excl.filter looksLikeLabel
  match labs.mapM (fun e => tryParse lf e [] []) with
  | none => none
  | some ls => some ⟨incl, excl.filter (fun e => !looksLikeLabel e), ls⟩

/-- `state.ShouldInclude(target)` (state.go:478). -/
def shouldIncludeS (lf : Label.Facts) (ff : FFacts) (st : FilterState) (t : Target) : Bool :=
  if st.excludeTargets.any (fun e => includes lf e t.label) then false
  else shouldIncludeT ff t st.incl st.excl

/-- A package of the graph: name and targets. -/
abbrev Pkg := Str × List Target

/-- `expandOriginalPseudoTarget(label, justTests)` before sorting; packages of the top-level repo. -/
def expand (lf : Label.Facts) (ff : FFacts) (st : FilterState) (pkgs : List Pkg) (pat : Label) (justTests : Bool) : List Label :=
  let addPackage (p : Pkg) : List Label :=
    (p.2.filter fun t => shouldIncludeS lf ff st t && (!justTests || t.isTest)).map (·.label)
  if pat.name == allName then
    (pkgs.filter fun p => p.1 == pat.pkg && pat.sub == []).flatMap addPackage
  else
    (pkgs.filter fun p => includes lf pat ⟨p.1, [], []⟩).flatMap addPackage

end PlzVerif.Filter
