/-!
SHA-1 (FIPS 180-4) on byte lists, core Lean only.  Used by the drivers so that the digest of a model
pre-image can be compared directly with the digest the real code produced (C07, C08, C09, C10).
No theorem is about this function: in the proofs the digest is idealised as injective on pre-images
(DESIGN.md §3); here it only has to agree with `crypto/sha1`, which every correspondence run checks
(plus the `#guard` test vectors below).
-/
namespace PlzVerif.Sha1

def rotl (x : UInt32) (n : UInt32) : UInt32 := (x <<< n) ||| (x >>> (32 - n))

def be64 (n : Nat) : List UInt8 :=
  [56, 48, 40, 32, 24, 16, 8, 0].map fun s => UInt8.ofNat ((n >>> s) % 256)

def pad (msg : List UInt8) : List UInt8 :=
  let l := msg.length
  msg ++ [0x80] ++ List.replicate ((119 - l % 64) % 64) 0 ++ be64 (l * 8)

def word (b : Array UInt8) (i : Nat) : UInt32 :=
  ((b.getD i 0).toUInt32 <<< 24) ||| ((b.getD (i + 1) 0).toUInt32 <<< 16) |||
  ((b.getD (i + 2) 0).toUInt32 <<< 8) ||| (b.getD (i + 3) 0).toUInt32

structure St where
  a : UInt32
  b : UInt32
  c : UInt32
  d : UInt32
  e : UInt32

def init : St := ⟨0x67452301, 0xEFCDAB89, 0x98BADCFE, 0x10325476, 0xC3D2E1F0⟩

def schedule (b : Array UInt8) (off : Nat) : Array UInt32 := Id.run do
  let mut w : Array UInt32 := Array.mkEmpty 80
  for i in [0:16] do
    w := w.push (word b (off + 4 * i))
  for i in [16:80] do
    w := w.push (rotl (w.getD (i - 3) 0 ^^^ w.getD (i - 8) 0 ^^^ w.getD (i - 14) 0 ^^^ w.getD (i - 16) 0) 1)
  return w

def block (h : St) (b : Array UInt8) (off : Nat) : St := Id.run do
  let w := schedule b off
  let mut s := h
  for i in [0:80] do
    let (f, k) : UInt32 × UInt32 :=
      if i < 20 then ((s.b &&& s.c) ||| ((~~~ s.b) &&& s.d), 0x5A827999)
      else if i < 40 then (s.b ^^^ s.c ^^^ s.d, 0x6ED9EBA1)
      else if i < 60 then ((s.b &&& s.c) ||| (s.b &&& s.d) ||| (s.c &&& s.d), 0x8F1BBCDC)
      else (s.b ^^^ s.c ^^^ s.d, 0xCA62C1D6)
    let t := rotl s.a 5 + f + s.e + k + w.getD i 0
    s := ⟨t, s.a, rotl s.b 30, s.c, s.d⟩
  return ⟨h.a + s.a, h.b + s.b, h.c + s.c, h.d + s.d, h.e + s.e⟩

def be32 (x : UInt32) : List UInt8 :=
  [(x >>> 24).toUInt8, (x >>> 16).toUInt8, (x >>> 8).toUInt8, x.toUInt8]

def sha1 (msg : List UInt8) : List UInt8 := Id.run do
  let p := (pad msg).toArray
  let mut h := init
  for j in [0:p.size / 64] do
    h := block h p (64 * j)
  return be32 h.a ++ be32 h.b ++ be32 h.c ++ be32 h.d ++ be32 h.e

def hexDigit (n : Nat) : Char := if n < 10 then Char.ofNat (48 + n) else Char.ofNat (87 + n)
def hex (b : List UInt8) : String :=
  String.ofList (b.flatMap fun x => [hexDigit (x.toNat / 16), hexDigit (x.toNat % 16)])

#guard hex (sha1 []) = "da39a3ee5e6b4b0d3255bfef95601890afd80709"
#guard hex (sha1 "abc".toUTF8.toList) = "a9993e364706816aba3e25717850c26c9cd0d89d"
#guard hex (sha1 "abcdbcdecdefdefgefghfghighijhijkijkljklmklmnlmnomnopnopq".toUTF8.toList)
  = "84983e441c3bd26ebaae4aa1f95129e5e54670f1"
#guard hex (sha1 (List.replicate 1000 97)) = "291e9a6c66994949b57ba5e650361e98fc36b1ba"

end PlzVerif.Sha1
