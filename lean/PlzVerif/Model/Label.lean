/-
Model of build labels (src/core/build_label.go) and of the pattern tests that use them:
`ParseBuildLabelParts`/`parseBuildLabelSubrepo`/`TryParseBuildLabel`, `BuildLabel.String`, the validators,
`Parent`, `Includes`, `Matches`, `isExperimental` and `validateSandbox` (src/parse/asp/targets.go:198).
Core Lean only.  Go strings are byte strings; here they are `List Char` (the driver maps one byte to one
`Char`; every character the code inspects is ASCII, so byte-wise and char-wise reading agree).

What is read from the source on every run (`Generated.C20`) and enters as `Facts`:
the two forbidden character sets, the reserved suffixes, and for each prefix test whether the pattern's
package is extended by "/" before `strings.HasPrefix` (`Includes` does, `Matches` and the experimental-dir
test of `validateSandbox` do not on the pinned tree).
-/
namespace PlzVerif.Label

abbrev Str := List Char

structure Facts where
  /-- `strings.ContainsAny` set of `validatePackageName`. -/
  pkgBad : List Char
  /-- `strings.ContainsAny` set of `validateTargetName`. -/
  tgtBad : List Char
  buildSuffix : Str
  testSuffix : Str
  /-- `Includes`: `HasPrefix(that.PackageName, label.PackageName + "/")` (with the equality disjunct). -/
  includesSlash : Bool
  /-- `Matches`, `...` case: prefix test is by component (equality or `pkg + "/"`) rather than raw `HasPrefix`. -/
  matchesSlash : Bool
  /-- `Matches`, `...` case: the `label.PackageName == "."` disjunct is present. -/
  matchesDot : Bool
  /-- `validateSandbox`: the experimental-dir test is by component rather than raw `HasPrefix`. -/
  sandboxExpSlash : Bool

structure Label where
  pkg : Str
  name : Str
  sub : Str
deriving DecidableEq, Repr

def dots : Str := ['.', '.', '.']
def allName : Str := ['a', 'l', 'l']

/-- `BuildLabel{}`. -/
def zero : Label := ⟨[], [], []⟩
/-- `OriginalTarget`. -/
def original : Label := ⟨[], "_ORIGINAL".toList, []⟩

/-! ### string primitives -/

/-- `strings.Contains(s, "//")`. -/
def hasDbl : Str → Bool
  | a :: b :: r => (a == '/' && b == '/') || hasDbl (b :: r)
  | _ => false

/-- Split at the first `c` (`strings.IndexRune`/`IndexByte`): `(s[:idx], s[idx+1:])`. -/
def splitFirst (c : Char) : Str → Option (Str × Str)
  | [] => none
  | x :: r => if x = c then some ([], r) else
      match splitFirst c r with
      | some (a, b) => some (x :: a, b)
      | none => none

/-- Split at the first "//" (`strings.Index(s, "//")`): `(s[:idx], s[idx:])`. -/
def splitDbl : Str → Option (Str × Str)
  | a :: b :: r => if a = '/' ∧ b = '/' then some ([], a :: b :: r) else
      match splitDbl (b :: r) with
      | some (p, q) => some (a :: p, q)
      | none => none
  | _ => none

/-- `s[strings.LastIndexByte(s,'/')+1:]`, the whole string when there is no '/'. -/
def lastSeg (s : Str) : Str := (s.reverse.takeWhile (· != '/')).reverse

/-- `strings.TrimRight(s, "/")`. -/
def trimRightSlash (s : Str) : Str := (s.reverse.dropWhile (· == '/')).reverse

/-- `strings.TrimLeft(s, "_")`. -/
def trimLeftUnderscore (s : Str) : Str := s.dropWhile (· == '_')

def startsWith (s pre : Str) : Bool := pre.isPrefixOf s
def endsWith (s suf : Str) : Bool := suf.isSuffixOf s

/-! ### validators (build_label.go:124-133) -/

def validPkg (f : Facts) (s : Str) : Bool :=
  s.isEmpty || (s.head? != some '/' && s.getLast? != some '/' && !(s.any f.pkgBad.contains) && !hasDbl s)

def validTgt (f : Facts) (s : Str) : Bool :=
  !s.isEmpty && !(s.any f.tgtBad.contains) && (s.head? != some '.' || s == dots) &&
  !endsWith s f.buildSuffix && !endsWith s f.testSuffix

/-- `validateNames` (used by `TryNewBuildLabel`): both validators, then `validateSuffixes`. -/
def validNames (f : Facts) (pkg name : Str) : Bool :=
  validPkg f pkg && validTgt f name &&
  !(endsWith name f.buildSuffix || endsWith name f.testSuffix || endsWith pkg f.buildSuffix || endsWith pkg f.testSuffix)

/-! ### parsing (build_label.go:183-236).  A failed parse is the triple with an empty name, as in Go. -/

abbrev Parts := Str × Str × Str   -- (pkg, name, subrepo)

def failParts : Parts := ([], [], [])

/-- `parseBuildLabelSubrepo(target, currentPath)`; `rec t` stands for `ParseBuildLabelParts(t, currentPath, "")`. -/
def subrepoWith (rec : Str → Parts) (target : Str) : Parts :=
  match splitDbl target with
  | some (pre, rest) =>
      if pre.contains ':' then failParts else
      let r := rec rest
      (r.1, r.2.1, pre)
  | none =>
      match splitFirst ':' target with
      | none => ([], lastSeg target, target)
      | some (pre, post) =>
          -- `strings.ContainsRune(target[:idx], ':')` is false: idx is the first ':'
          let r := rec (':' :: post)
          (r.1, r.2.1, pre)

def slashDots : Str := '/' :: dots

/-- The tail of `ParseBuildLabelParts` for `target = "//" ++ x` (build_label.go:199-216). -/
def parseAbs (f : Facts) (x sr : Str) : Parts :=
  match splitFirst ':' x with          -- idx := strings.IndexRune(target, ':')
  | some (pkg, name) =>
      if !validPkg f pkg || !validTgt f name || name == dots then failParts else (pkg, name, sr)
  | none =>
      if !validPkg f x then failParts
      else if endsWith ('/' :: '/' :: x) slashDots then
        (trimRightSlash (x.take (x.length - 3)), dots, [])
      else (x, lastSeg x, sr)           -- the name of the abbreviated form is not validated

/-- `ParseBuildLabelParts(target, currentPath, subrepo)`.  `fuel` bounds the `@sub//…` nesting; every
    recursive call is on a strictly shorter string, so `target.length + 1` is always enough. -/
def parsePartsF (f : Facts) : Nat → Str → Str → Str → Parts
  | 0, _, _, _ => failParts
  | n + 1, target, cp, sr =>
    if target.length < 2 then failParts
    else if target.head? = some ':' then
      (if !validTgt f target.tail then failParts else (cp, target.tail, []))
    else if target.head? = some '@' then
      subrepoWith (fun t => parsePartsF f n t cp []) target.tail
    else if startsWith target ['/', '/', '/'] then
      subrepoWith (fun t => parsePartsF f n t cp []) (target.drop 3)
    else if !startsWith target ['/', '/'] then failParts
    else parseAbs f (target.drop 2) sr

def parseParts (f : Facts) (target cp sr : Str) : Parts := parsePartsF f (target.length + 1) target cp sr

/-- `TryParseBuildLabel`: `none` is the error return. -/
def tryParse (f : Facts) (target cp sr : Str) : Option Label :=
  let r := parseParts f target cp sr
  if r.2.1 = [] then none else some ⟨r.1, r.2.1, r.2.2⟩

/-! ### printing (build_label.go:46-64) -/

def toStr (l : Label) : Str :=
  if l = zero then [] else
  if l = original then "command-line targets".toList else
  let s := ['/', '/'] ++ l.pkg
  let s := if l.sub ≠ [] then ['/', '/', '/'] ++ l.sub ++ s else s
  if l.name = dots then
    (if l.pkg = [] then s ++ dots else s ++ ('/' :: dots))
  else s ++ (':' :: l.name)

/-! ### Parent, Includes, Matches (build_label.go:295, 407, 530) -/

def parent (l : Label) : Label :=
  match splitFirst '#' l.name with
  | none => l
  | some (pre, _) =>
      if l.name.head? != some '_' then l else { l with name := trimLeftUnderscore pre }

/-- The prefix test of `Includes`: equality, or `HasPrefix(q, p + "/")` (raw `HasPrefix(q, p)` if the "/" were dropped). -/
def inclPrefix (f : Facts) (p q : Str) : Bool :=
  q == p || startsWith q (if f.includesSlash then p ++ ['/'] else p)

def includes (f : Facts) (l that : Label) : Bool :=
  if (l.pkg == [] && l.name == dots) || inclPrefix f l.pkg that.pkg then
    if l.name == dots then true
    else if l.pkg == that.pkg then (l.name == that.name || l.name == allName)
    else false
  else false

def matchesF (f : Facts) (l other : Label) : Bool :=
  if l.name == dots then
    (f.matchesDot && l.pkg == ['.']) ||
      (if f.matchesSlash then (l.pkg == [] || other.pkg == l.pkg || startsWith other.pkg (l.pkg ++ ['/']))
       else startsWith other.pkg l.pkg)
  else if l.name == allName then l.pkg == other.pkg
  else l == parent other

/-! ### experimental directories and the sandbox opt-out (build_label.go:515, state.go:1497, targets.go:198) -/

def isExperimental (f : Facts) (dirs : List Str) (l : Label) : Bool :=
  if l.sub != [] then false else dirs.any fun d => includes f ⟨d, dots, []⟩ l

structure SbxTarget where
  isFilegroup : Bool
  isRemoteFile : Bool
  sandbox : Bool
  /-- `target.Test`: `none` = nil, `some b` = `Test.Sandbox = b`. -/
  test : Option Bool
  label : Label

/-- The experimental-dir test of `validateSandbox` for one configured directory (targets.go:217). -/
def sbxDirTest (f : Facts) (pkg d : Str) : Bool :=
  if f.sandboxExpSlash then (d == [] || pkg == d || startsWith pkg (d ++ ['/'])) else startsWith pkg d

/-- `validateSandbox`: `true` = nil error. -/
def validateSandbox (f : Facts) (whitelist : List Label) (dirs : List Str) (t : SbxTarget) : Bool :=
  if t.isFilegroup || whitelist.isEmpty then true
  else if !t.isRemoteFile && (t.sandbox && (t.test == none || t.test == some true)) then true
  else if t.label.pkg == "_please".toList then true
  else if whitelist.any (fun w => matchesF f w t.label) then true
  else if dirs.any (fun d => sbxDirTest f t.label.pkg d) then true
  else false

/-! ### specification side: package names as lists of components -/

/-- Components of a package name (split on '/'; never empty). -/
def comps : Str → List Str
  | [] => [[]]
  | c :: r =>
    if c = '/' then [] :: comps r
    else match comps r with
      | h :: t => (c :: h) :: t
      | [] => [[c]]

/-- Package `q` is package `p` or lies under directory `p` (the repository root is `p = ""`). -/
def Under (p q : Str) : Prop := p = [] ∨ comps p <+: comps q

instance (p q : Str) : Decidable (Under p q) := by unfold Under; exact inferInstance

end PlzVerif.Label
