/-!
CONFIG as the asp interpreter keeps it (C17): an immutable base plus, per scope, an *overlay* map
(`pyConfig{base, overlay}`, src/parse/asp/objects.go).  A subincluded file is interpreted once; if it wrote to CONFIG,
its frozen config — i.e. its overlay map — is cached interpreter-wide and `Merge`d into the CONFIG of every package
that subincludes the file.  `Merge` gives the package an overlay of its OWN (a fresh map with the entries copied) the
first time and writes into that own map afterwards; `IndexAssign` writes into the own map as well.  The model is a heap
of overlay cells with exactly these allocation and write sites; `alias = true` is the variant in which the first
`Merge` adopts the cached map by reference (copy-on-write in `IndexAssign` only).
-/
namespace PlzVerif.AspConfig

abbrev Cell := List (String × Int)

def put (c : Cell) (k : String) (v : Int) : Cell :=
  if c.any (·.1 == k) then c.map (fun e => if e.1 == k then (k, v) else e) else c ++ [(k, v)]

/-- `for k, v := range other.overlay { c.overlay[k] = v }` -/
def mergeInto (c : Cell) (src : Cell) : Cell := src.foldl (fun c e => put c e.1 e.2) c

inductive Act
  | write (k : String) (v : Int)      -- CONFIG[k] = v
  | sub (f : String)                  -- subinclude(f)
  deriving Repr, DecidableEq

/-- the subincludable files: name ↦ the CONFIG entries the file sets, in order -/
abbrev Files := List (String × List (String × Int))

def fileWrites (files : Files) (f : String) : Option (List (String × Int)) := (files.find? (·.1 == f)).map (·.2)

/-- the overlay a file ends up with -/
def content (ws : List (String × Int)) : Cell := mergeInto [] ws

structure St where
  heap : List Cell := []
  /-- `interpreter.subincludes`: file ↦ the overlay cell of its frozen CONFIG (none: the file did not touch CONFIG) -/
  cache : List (String × Option Nat) := []
  deriving Repr

structure Cfg where
  ov : Option Nat := none
  borrowed : Bool := false
  deriving Repr

def cached (st : St) (f : String) : Option (Option Nat) := (st.cache.find? (·.1 == f)).map (·.2)

/-- `interpreter.Subinclude`: interpret the file once, in a scope with a CONFIG of its own, and cache the result -/
def ensure (files : Files) (st : St) (f : String) : Option Nat × St :=
  match cached st f with
  | some r => (r, st)
  | none =>
    match fileWrites files f with
    | none => (none, st)
    | some [] => (none, { st with cache := st.cache ++ [(f, none)] })
    | some ws => (some st.heap.length, { heap := st.heap ++ [content ws], cache := st.cache ++ [(f, some st.heap.length)] })

def cell (st : St) (i : Nat) : Cell := (st.heap[i]?).getD []

def step (alias : Bool) (files : Files) (cs : Cfg × St) : Act → Cfg × St
  | .write k v =>
    let (c, st) := cs
    match c.ov with
    | none => ({ ov := some st.heap.length, borrowed := false }, { st with heap := st.heap ++ [[(k, v)]] })
    | some d =>
      if c.borrowed then
        ({ ov := some st.heap.length, borrowed := false }, { st with heap := st.heap ++ [put (cell st d) k v] })
      else (c, { st with heap := st.heap.set d (put (cell st d) k v) })
  | .sub f =>
    let (c, st0) := cs
    let (r, st) := ensure files st0 f
    match r with
    | none => (c, st)
    | some o =>
      match c.ov with
      | none =>
        if alias then ({ ov := some o, borrowed := true }, st)
        else ({ ov := some st.heap.length, borrowed := false }, { st with heap := st.heap ++ [mergeInto [] (cell st o)] })
      | some d => (c, { st with heap := st.heap.set d (mergeInto (cell st d) (cell st o)) })

/-- one package file: a fresh CONFIG, its actions in order -/
def runPkg (alias : Bool) (files : Files) (st : St) (acts : List Act) : Cfg × St :=
  acts.foldl (step alias files) ({}, st)

/-- what the package sees in CONFIG on top of the base -/
def view (cs : Cfg × St) : Cell :=
  match cs.1.ov with
  | none => []
  | some d => cell cs.2 d

/-- The specification: a function of the package's own actions (and the files' texts) only. -/
def specStep (files : Files) (v : Cell) : Act → Cell
  | .write k x => put v k x
  | .sub f => match fileWrites files f with
    | some ws => mergeInto v (content ws)
    | none => v

def spec (files : Files) (acts : List Act) : Cell := acts.foldl (specStep files) []

/-- a sequence of packages in one interpreter: the views in order -/
def runAll (alias : Bool) (files : Files) : St → List (List Act) → List Cell
  | _, [] => []
  | st, p :: r => let cs := runPkg alias files st p; view cs :: runAll alias files cs.2 r

/-! ### Non-interference of the own-overlay semantics -/

/-- every cached file result is what the file's text says, and sits in the heap -/
def Inv (files : Files) (st : St) : Prop :=
  ∀ f r, cached st f = some r →
    match r with
    | none => fileWrites files f = some []
    | some o => ∃ ws, fileWrites files f = some ws ∧ st.heap[o]? = some (content ws)

/-- the package's CONFIG shows `v`, in a cell of its own -/
def CfgOK (st : St) (c : Cfg) (v : Cell) : Prop :=
  c.borrowed = false ∧
  match c.ov with
  | none => v = []
  | some d => st.heap[d]? = some v ∧ ∀ f o, cached st f = some (some o) → o ≠ d

theorem cached_new (st : St) (h' : List Cell) (f g : String) (r : Option Nat) :
    cached { heap := h', cache := st.cache ++ [(f, r)] } g =
      match cached st g with
      | some x => some x
      | none => if f == g then some r else none := by
  simp only [cached, List.find?_append]
  cases hg : st.cache.find? (fun e => e.1 == g) with
  | some x => simp
  | none =>
    simp only [Option.none_or, List.find?_cons, List.find?_nil, Option.map_none]
    by_cases hfg : (f == g) = true <;> simp [hfg]

theorem getElem?_lt {α : Type} {l : List α} {i : Nat} {x : α} (h : l[i]? = some x) : i < l.length := by
  rcases Nat.lt_or_ge i l.length with h' | h'
  · exact h'
  · rw [List.getElem?_eq_none h'] at h; cases h

/-- the invariant survives a new cache entry that is right, over a heap that only grew -/
theorem inv_new (files : Files) (st : St) (h' : List Cell) (f : String) (r : Option Nat) (hI : Inv files st)
    (hext : ∀ (i : Nat) (x : Cell), st.heap[i]? = some x → h'[i]? = some x)
    (hr : match r with
      | none => fileWrites files f = some []
      | some o => ∃ ws, fileWrites files f = some ws ∧ h'[o]? = some (content ws)) :
    Inv files { heap := h', cache := st.cache ++ [(f, r)] } := by
  intro g x hg
  rw [cached_new] at hg
  cases hcg : cached st g with
  | some y =>
    simp only [hcg] at hg; cases hg
    have := hI g x hcg
    cases x with
    | none => exact this
    | some o => obtain ⟨ws, h1, h2⟩ := this; exact ⟨ws, h1, hext o _ h2⟩
  | none =>
    simp only [hcg] at hg
    by_cases hfg : (f == g) = true
    · simp only [hfg, if_true] at hg; cases hg
      have : f = g := by simpa using hfg
      subst this; exact hr
    · simp [hfg] at hg

/-- `ensure` keeps the invariant, only extends the heap, caches at most one new cell (the next free one), and its
    result is the file's content -/
theorem ensure_spec (files : Files) (st : St) (f : String) (hI : Inv files st) :
    Inv files (ensure files st f).2 ∧
    (∀ (i : Nat) (x : Cell), st.heap[i]? = some x → (ensure files st f).2.heap[i]? = some x) ∧
    (∀ g o, cached (ensure files st f).2 g = some (some o) → cached st g = some (some o) ∨ o = st.heap.length) ∧
    (match (ensure files st f).1 with
      | none => fileWrites files f = none ∨ fileWrites files f = some []
      | some o => ∃ ws, fileWrites files f = some ws ∧ (ensure files st f).2.heap[o]? = some (content ws)) := by
  unfold ensure
  cases hc : cached st f with
  | some r =>
    refine ⟨hI, fun _ _ h => h, fun g o h => Or.inl h, ?_⟩
    have := hI f r hc
    cases r with
    | none => exact Or.inr this
    | some o => exact this
  | none =>
    cases hw : fileWrites files f with
    | none => exact ⟨hI, fun _ _ h => h, fun g o h => Or.inl h, Or.inl rfl⟩
    | some ws =>
      cases ws with
      | nil =>
        refine ⟨inv_new files st st.heap f none hI (fun _ _ h => h) hw, fun _ _ h => h, ?_, Or.inr rfl⟩
        intro g o hg
        simp only [] at hg
        rw [cached_new] at hg
        cases hcg : cached st g with
        | some y => simp only [hcg] at hg; cases hg; exact Or.inl rfl
        | none =>
          simp only [hcg] at hg
          by_cases hfg : (f == g) = true <;> simp [hfg] at hg
      | cons w ws' =>
        have hext : ∀ (i : Nat) (x : Cell), st.heap[i]? = some x → (st.heap ++ [content (w :: ws')])[i]? = some x := by
          intro i x h; rw [List.getElem?_append_left (getElem?_lt h)]; exact h
        refine ⟨inv_new files st _ f (some st.heap.length) hI hext ⟨w :: ws', hw, by simp⟩, hext, ?_, ⟨w :: ws', rfl, by simp⟩⟩
        intro g o hg
        simp only [] at hg
        rw [cached_new] at hg
        cases hcg : cached st g with
        | some y => simp only [hcg] at hg; cases hg; exact Or.inl rfl
        | none =>
          simp only [hcg] at hg
          by_cases hfg : (f == g) = true
          · simp only [hfg, if_true] at hg; cases hg; exact Or.inr rfl
          · simp [hfg] at hg

theorem inv_heap (files : Files) (st : St) (h' : List Cell) (hI : Inv files st)
    (hk : ∀ g o, cached st g = some (some o) → ∀ x, st.heap[o]? = some x → h'[o]? = some x) :
    Inv files { st with heap := h' } := by
  intro g r hg
  have hg' : cached st g = some r := hg
  have := hI g r hg'
  cases r with
  | none => exact this
  | some o => obtain ⟨ws, h1, h2⟩ := this; exact ⟨ws, h1, hk g o hg' _ h2⟩

theorem cached_lt (files : Files) (st : St) (hI : Inv files st) (g : String) (o : Nat)
    (h : cached st g = some (some o)) : o < st.heap.length := by
  obtain ⟨ws, _, h2⟩ := hI g (some o) h
  exact getElem?_lt h2

theorem cell_of (st : St) (d : Nat) (v : Cell) (h : st.heap[d]? = some v) : cell st d = v := by
  simp [cell, h]

theorem mergeInto_nil (v : Cell) : mergeInto v [] = v := rfl

/-- **One action of a package**, own-overlay semantics: the invariant is kept, and the package's CONFIG shows what
    the specification says — whatever the state of the interpreter. -/
theorem step_ok (files : Files) (st : St) (c : Cfg) (v : Cell) (a : Act) (hI : Inv files st) (hC : CfgOK st c v) :
    Inv files (step false files (c, st) a).2 ∧
    CfgOK (step false files (c, st) a).2 (step false files (c, st) a).1 (specStep files v a) := by
  obtain ⟨hb, hov⟩ := hC
  cases a with
  | write k x =>
    cases hd : c.ov with
    | none =>
      simp only [hd] at hov; subst hov
      simp only [step, hd, specStep]
      refine ⟨inv_heap files st _ hI ?_, rfl, ?_, ?_⟩
      · intro g o _ y hy; rw [List.getElem?_append_left (getElem?_lt hy)]; exact hy
      · simp [put]
      · intro f o h; have hc : cached st f = some (some o) := h
        have := cached_lt files st hI f o hc; omega
    | some d =>
      simp only [hd] at hov
      obtain ⟨hv, hne⟩ := hov
      have hlt := getElem?_lt hv
      simp only [step, hd, hb, Bool.false_eq_true, if_false, specStep, cell_of st d v hv]
      refine ⟨inv_heap files st _ hI ?_, hb, ?_⟩
      · intro g o hc y hy
        have := hne g o hc
        rw [List.getElem?_set_ne (Ne.symm this)]; exact hy
      · simp only [hd]
        exact ⟨by simp [hlt], fun f o h => hne f o h⟩
  | sub f =>
    obtain ⟨hI1, hext, hnew, hres⟩ := ensure_spec files st f hI
    simp only [step]
    cases hr : (ensure files st f).1 with
    | none =>
      simp only [hr] at hres
      have hspec : specStep files v (.sub f) = v := by
        simp only [specStep]
        rcases hres with h | h <;> simp [h, content, mergeInto_nil]
      rw [hspec]
      refine ⟨hI1, hb, ?_⟩
      cases hd : c.ov with
      | none => simp only [hd] at hov ⊢; exact hov
      | some d =>
        simp only [hd] at hov ⊢
        obtain ⟨hv, hne⟩ := hov
        refine ⟨hext d v hv, ?_⟩
        intro g o h
        rcases hnew g o h with h' | h'
        · exact hne g o h'
        · have := getElem?_lt hv; omega
    | some o =>
      simp only [hr] at hres
      obtain ⟨ws, hw, ho⟩ := hres
      have hspec : specStep files v (.sub f) = mergeInto v (content ws) := by simp [specStep, hw]
      rw [hspec]
      have hco : cell (ensure files st f).2 o = content ws := cell_of _ o _ ho
      cases hd : c.ov with
      | none =>
        simp only [hd] at hov; subst hov
        simp only [Bool.false_eq_true, if_false, hco]
        refine ⟨inv_heap files _ _ hI1 ?_, rfl, ?_, ?_⟩
        · intro g o' _ y hy; rw [List.getElem?_append_left (getElem?_lt hy)]; exact hy
        · simp
        · intro g o' h
          have hc : cached (ensure files st f).2 g = some (some o') := h
          have := cached_lt files _ hI1 g o' hc; omega
      | some d =>
        simp only [hd] at hov
        obtain ⟨hv, hne⟩ := hov
        have hv1 := hext d v hv
        have hlt := getElem?_lt hv1
        have hne1 : ∀ g o', cached (ensure files st f).2 g = some (some o') → o' ≠ d := by
          intro g o' h
          rcases hnew g o' h with h' | h'
          · exact hne g o' h'
          · have := getElem?_lt hv; omega
        simp only [hco, cell_of _ d v hv1]
        refine ⟨inv_heap files _ _ hI1 ?_, hb, ?_⟩
        · intro g o' hc y hy
          rw [List.getElem?_set_ne (Ne.symm (hne1 g o' hc))]; exact hy
        · simp only [hd]
          exact ⟨by simp [hlt], fun g o' h => hne1 g o' h⟩

theorem fold_ok (files : Files) : ∀ (acts : List Act) (st : St) (c : Cfg) (v : Cell), Inv files st → CfgOK st c v →
    Inv files (acts.foldl (step false files) (c, st)).2 ∧
    CfgOK (acts.foldl (step false files) (c, st)).2 (acts.foldl (step false files) (c, st)).1
      (acts.foldl (specStep files) v) := by
  intro acts
  induction acts with
  | nil => intro st c v hI hC; exact ⟨hI, hC⟩
  | cons a r ih =>
    intro st c v hI hC
    obtain ⟨hI1, hC1⟩ := step_ok files st c v a hI hC
    simp only [List.foldl_cons]
    exact ih _ _ _ hI1 hC1

theorem view_of_ok (st : St) (c : Cfg) (v : Cell) (h : CfgOK st c v) : view (c, st) = v := by
  obtain ⟨_, hov⟩ := h
  simp only [view]
  cases hd : c.ov with
  | none => simp only [hd] at hov; exact hov.symm
  | some d => simp only [hd] at hov; exact cell_of st d v hov.1

/-- **One package, any interpreter state**: what the package sees in CONFIG is `spec` of its own actions — it does
    not depend on which packages were interpreted before it (the state `st`), and the invariant is handed on. -/
theorem runPkg_noninterference (files : Files) (st : St) (acts : List Act) (hI : Inv files st) :
    view (runPkg false files st acts) = spec files acts ∧ Inv files (runPkg false files st acts).2 := by
  have h0 : CfgOK st ({} : Cfg) [] := ⟨rfl, rfl⟩
  obtain ⟨hI1, hC1⟩ := fold_ok files acts st {} [] hI h0
  exact ⟨view_of_ok _ _ _ hC1, hI1⟩

/-- **Every sequence of package evaluations** (any order, any subinclude sets, any writes) in one interpreter: each
    package's CONFIG is the function `spec` of its own subincludes and writes — by induction over the sequence. -/
theorem runAll_noninterference (files : Files) : ∀ (pkgs : List (List Act)) (st : St), Inv files st →
    runAll false files st pkgs = pkgs.map (spec files) := by
  intro pkgs
  induction pkgs with
  | nil => intro st _; rfl
  | cons p r ih =>
    intro st hI
    obtain ⟨hv, hI1⟩ := runPkg_noninterference files st p hI
    simp only [runAll, List.map_cons, hv, ih _ hI1]

theorem inv_init (files : Files) : Inv files {} := by
  intro f r h; simp [cached] at h

/-- In particular the order of the packages does not matter: a package sees the same CONFIG first, last or alone. -/
theorem order_irrelevant (files : Files) (p q : List Act) :
    (runAll false files {} [p, q])[1]? = (runAll false files {} [q])[0]? ∧
    (runAll false files {} [q, p])[0]? = (runAll false files {} [q])[0]? := by
  simp [runAll_noninterference files _ {} (inv_init files)]

/-! ### The aliasing variant interferes -/

/-- files `a` (sets KA) and `b` (sets KB); `p1` subincludes both, `p2` only `a` -/
def wFiles : Files := [("a", [("KA", 1)]), ("b", [("KB", 2)])]
def wP1 : List Act := [.sub "a", .sub "b"]
def wP2 : List Act := [.sub "a"]

/-- **Adopting the cached overlay by reference lets one package write into another's CONFIG**: with `alias = true`
    `p2` sees `KB` when `p1` ran before it and does not when it runs alone or first — with the own-overlay
    semantics it sees `[KA]` in all three cases. -/
theorem alias_interferes :
    runAll true wFiles {} [wP1, wP2] = [[("KA", 1), ("KB", 2)], [("KA", 1), ("KB", 2)]] ∧
    runAll true wFiles {} [wP2] = [[("KA", 1)]] ∧
    runAll true wFiles {} [wP2, wP1] = [[("KA", 1)], [("KA", 1), ("KB", 2)]] ∧
    runAll false wFiles {} [wP1, wP2] = [[("KA", 1), ("KB", 2)], [("KA", 1)]] := by decide

end PlzVerif.AspConfig
