/-
C32: fs.WriteFile (src/fs/fs.go:94) as a list of atomic operations on the regular files of the destination directory:
MkdirAll / CreateTemp (a NEW name in the SAME directory) / io.Copy in arbitrary pieces / Close / Chmod / os.Rename.
Core Lean only.
-/
namespace PlzVerif.WriteFile

structure File where
  data : List UInt8
  mode : Nat
deriving DecidableEq, Repr

/-- the regular files of the destination directory, by name -/
abbrev Dir := String → Option File

inductive Op where
  | mkdirAll
  | createTemp (t : String)                 -- os.CreateTemp(dir, file): O_EXCL, mode 0600, empty
  | write (t : String) (chunk : List UInt8) -- one write(2) of io.Copy
  | close
  | chmod (t : String) (mode : Nat)
  | rename (t dest : String)                -- os.Rename: atomic replace
deriving DecidableEq, Repr

def step (d : Dir) : Op → Dir
  | .mkdirAll => d
  | .close => d
  | .createTemp t => fun x => if x = t then some ⟨[], 0o600⟩ else d x
  | .write t c => fun x => if x = t then (d t).map (fun f => { f with data := f.data ++ c }) else d x
  | .chmod t m => fun x => if x = t then (d t).map (fun f => { f with mode := m }) else d x
  | .rename t dest =>
    match d t with
    | none => d                                     -- ENOENT
    | some f => fun x => if x = dest then some f else if x = t then none else d x

def run (d : Dir) (ops : List Op) : Dir := ops.foldl step d

/-- `if mode == 0 { mode = 0664 }` -/
def effMode (mode : Nat) : Nat := if mode = 0 then 0o664 else mode

/-- the calls of fs.WriteFile, by the name the fact extractor gives them; `ct` = the path handed to Chmod (the
    temporary in the code as it is: the mode is set BEFORE the file appears under its final name) -/
def callOps (ct t dest : String) (chunks : List (List UInt8)) (mode : Nat) : String → List Op
  | "MkdirAll" => [.mkdirAll]
  | "CreateTemp" => [.createTemp t]
  | "Copy" => chunks.map (.write t)
  | "Close" => [.close]
  | "Chmod" => [.chmod ct (effMode mode)]
  | "renameFile" => [.rename t dest]
  | _ => []

def opsWith (order : List String) (ct t dest : String) (chunks : List (List UInt8)) (mode : Nat) : List Op :=
  order.flatMap (callOps ct t dest chunks mode)

def codedCalls : List String := ["MkdirAll", "CreateTemp", "Copy", "Close", "Chmod", "renameFile"]

def ops (t dest : String) (chunks : List (List UInt8)) (mode : Nat) : List Op := opsWith codedCalls t t dest chunks mode

end PlzVerif.WriteFile
