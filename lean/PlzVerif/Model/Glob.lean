import PlzVerif.Model.Walk
/-
Model of `fs.Glob` / `(*Globber).Glob` (src/fs/glob.go) as called by the BUILD language's `glob()`
(src/parse/asp/builtins.go:711), over the abstract directory tree of Model/Walk.lean.  Core Lean only.

  * `walkDir`      the `io/fs.WalkDir` callback: sub-package cut-off, `plz-out`, symlinks, and WalkDir's rule that
                   `SkipDir` returned for a non-directory drops the remaining entries of the containing directory;
  * `gmatch`       `filepath.Match` on the documented fragment (`*`, `?`, `[class]`, literals);
  * `toRegexString` the chain of `strings.ReplaceAll` calls, *interpreted from a regenerated list of pairs*;
  * `parseRe` / `rmatch`  the fragment of Go's regexp syntax those strings fall into (literals, `\c`, `.`, `[class]`,
                   `[class]*`, `.*`, groups, `|`, postfix `?`) with its own matcher;
  * `globOne` / `globAll`  matching, sub-package / hidden / exclude filtering, prefix trimming.

Specification (segment-wise documented semantics, docs/lexicon.html#glob) at the end: `specGlob`.
-/
namespace PlzVerif.Glob
open PlzVerif.Walk

/-! ### strings -/

/-- `strings.ReplaceAll(s, pat, rep)` for non-empty `pat`: left to right, non-overlapping. -/
def replaceAllAux (pat rep : List Char) : Nat → List Char → List Char
  | _, [] => []
  | skip + 1, _ :: s => replaceAllAux pat rep skip s
  | 0, c :: s =>
    if pat.isPrefixOf (c :: s) then rep ++ replaceAllAux pat rep (pat.length - 1) s
    else c :: replaceAllAux pat rep 0 s

def replaceAll (pat rep s : List Char) : List Char := if pat.isEmpty then s else replaceAllAux pat rep 0 s

/-- `strings.Contains(s, sub)`. -/
def containsSub (sub : List Char) : List Char → Bool
  | [] => sub.isEmpty
  | c :: s => sub.isPrefixOf (c :: s) || containsSub sub s

/-- `filepath.Dir` on a clean relative path. -/
def dirOf (n : Name) : Name :=
  let d := (n.reverse.dropWhile (· != '/')).drop 1 |>.reverse
  if d.isEmpty then ['.'] else d

def splitOnSlash : List Char → List Name
  | [] => [[]]
  | c :: s =>
    match splitOnSlash s with
    | [] => [[c]]     -- unreachable
    | h :: t => if c = '/' then [] :: h :: t else (c :: h) :: t

/-! ### `filepath.Match` on the fragment -/

inductive GItem
  | lit (c : Char)
  | star
  | any
  | cls (neg : Bool) (ranges : List (Char × Char))
  deriving DecidableEq, Repr

def inRanges (rs : List (Char × Char)) (c : Char) : Bool := rs.any fun r => r.1.toNat ≤ c.toNat && c.toNat ≤ r.2.toNat

/-- `k` holds on some suffix reached by skipping non-'/' characters (what a `*` can consume). -/
def starSkip (k : List Char → Bool) : List Char → Bool
  | [] => k []
  | c :: s => k (c :: s) || (c != '/' && starSkip k s)

/-- `filepath.Match(pattern, name)`: `*` and `?` never match '/', a character class matches any one character
    in (or, negated, not in) its ranges -- including '/'. -/
def gmatch : List GItem → List Char → Bool
  | [] => fun s => s.isEmpty
  | .lit c :: p => fun s => match s with | x :: s' => c == x && gmatch p s' | [] => false
  | .any :: p => fun s => match s with | x :: s' => x != '/' && gmatch p s' | [] => false
  | .cls neg rs :: p => fun s => match s with | x :: s' => (inRanges rs x != neg) && gmatch p s' | [] => false
  | .star :: p => fun s => starSkip (gmatch p) s

def isAlnum (c : Char) : Bool :=
  ('a'.toNat ≤ c.toNat && c.toNat ≤ 'z'.toNat) || ('A'.toNat ≤ c.toNat && c.toNat ≤ 'Z'.toNat) ||
  ('0'.toNat ≤ c.toNat && c.toNat ≤ '9'.toNat)

/-- Body of a character class after `[` / `[^`: alphanumeric singles and ranges up to `]`.
    Returns the ranges and what follows the `]`; `none` outside the fragment. -/
def parseClassBody : Nat → List Char → List (Char × Char) → Option (List (Char × Char) × List Char)
  | 0, _, _ => none
  | _ + 1, [], _ => none
  | fuel + 1, c :: s, acc =>
    if c = ']' then (if acc.isEmpty then none else some (acc.reverse, s))
    else if !isAlnum c then none
    else match s with
      | '-' :: d :: s' => if isAlnum d && c.toNat ≤ d.toNat then parseClassBody fuel s' ((c, d) :: acc) else none
      | _ => parseClassBody fuel s ((c, c) :: acc)

/-- Characters that are neither glob syntax nor (unescaped by `toRegexString`) regexp syntax the model does not cover. -/
def plainChar (c : Char) : Bool :=
  !(c = '*' || c = '?' || c = '[' || c = ']' || c = '\\' || c = '{' || c = '}' || c = '^' || c = '$' ||
    c = '\n' || c.toNat = 0)

/-- `[^...]` or `[...]`: negated?, and the class body. -/
def classNeg : List Char → Bool × List Char
  | '^' :: b => (true, b)
  | s => (false, s)

/-- Parse a glob pattern of the fragment into items ('/' is a literal). -/
def parseGlob : Nat → List Char → Option (List GItem)
  | 0, _ => none
  | _ + 1, [] => some []
  | fuel + 1, c :: s =>
    if c = '*' then (parseGlob fuel s).map (.star :: ·)
    else if c = '?' then (parseGlob fuel s).map (.any :: ·)
    else if c = '[' then
      let nb := classNeg s
      match parseClassBody (nb.2.length + 1) nb.2 [] with
      | some (rs, rest) => if rest.length < (c :: s).length then (parseGlob fuel rest).map (.cls nb.1 rs :: ·) else none
      | none => none
    else if plainChar c then (parseGlob fuel s).map (.lit c :: ·)
    else none

/-! ### the regexp fragment -/

inductive Re
  | eps
  | chr (c : Char)
  | dot                                   -- any character except '\n'
  | cls (neg : Bool) (ranges : List (Char × Char))
  | starCls (neg : Bool) (ranges : List (Char × Char))   -- `[...]*`
  | dotStar                               -- `.*`
  | cat (a b : Re)
  | alt (a b : Re)
  | opt (a : Re)                          -- `(...)?`
  deriving Repr, DecidableEq

def clsHit (neg : Bool) (rs : List (Char × Char)) (c : Char) : Bool := inRanges rs c != neg

def starWhile (p : Char → Bool) (k : List Char → Bool) : List Char → Bool
  | [] => k []
  | c :: s => k (c :: s) || (p c && starWhile p k s)

/-- Backtracking matcher in continuation-passing style: `rmatch r k s` iff some prefix of `s` matches `r` and `k`
    accepts the rest. -/
def rmatch : Re → (List Char → Bool) → List Char → Bool
  | .eps, k, s => k s
  | .chr c, k, s => match s with | x :: s' => c == x && k s' | [] => false
  | .dot, k, s => match s with | x :: s' => x != '\n' && k s' | [] => false
  | .cls neg rs, k, s => match s with | x :: s' => clsHit neg rs x && k s' | [] => false
  | .starCls neg rs, k, s => starWhile (clsHit neg rs) k s
  | .dotStar, k, s => starWhile (· != '\n') k s
  | .cat a b, k, s => rmatch a (rmatch b k) s
  | .alt a b, k, s => rmatch a k s || rmatch b k s
  | .opt a, k, s => rmatch a k s || k s

/-- `k` holds on some suffix of `s` (an unanchored match may start anywhere). -/
def anySuffix (k : List Char → Bool) : List Char → Bool
  | [] => k []
  | c :: s => k (c :: s) || anySuffix k s

/-- `regexp.MatchString` (unanchored search) for `^a1|a2|...|an$`: `^` binds to the first top-level alternative
    only and `$` to the last one only. -/
def reSearch : List Re → Bool → List Char → Bool
  | [], _, _ => false
  | [r], first, s => if first then rmatch r (·.isEmpty) s else anySuffix (rmatch r (·.isEmpty)) s
  | r :: r' :: rest, first, s =>
    (if first then rmatch r (fun _ => true) s else anySuffix (rmatch r (fun _ => true)) s) ||
    reSearch (r' :: rest) false s

def reFull (alts : List Re) (s : List Char) : Bool := reSearch alts true s

/-- Regexp class body: like `parseClassBody` but also accepts the one non-alphanumeric class the translation itself
    produces, `[^/]`. -/
def parseReClass (s : List Char) : Option (Bool × List (Char × Char) × List Char) :=
  match s with
  | '^' :: '/' :: ']' :: rest => some (true, [('/', '/')], rest)
  | '^' :: b => (parseClassBody (b.length + 1) b []).map fun (rs, rest) => (true, rs, rest)
  | b => (parseClassBody (b.length + 1) b []).map fun (rs, rest) => (false, rs, rest)

mutual
/-- alternation: cat ('|' cat)*; stops before ')' or at the end. -/
def parseAlt : Nat → List Char → Option (Re × List Char)
  | 0, _ => none
  | fuel + 1, s =>
    match parseCat fuel s with
    | none => none
    | some (a, '|' :: rest) =>
      match parseAlt fuel rest with
      | some (b, rest') => some (.alt a b, rest')
      | none => none
    | some (a, rest) => some (a, rest)
/-- concatenation of repeated atoms; stops before ')' , '|' or at the end. -/
def parseCat : Nat → List Char → Option (Re × List Char)
  | 0, _ => none
  | _ + 1, [] => some (.eps, [])
  | fuel + 1, c :: s =>
    if c = ')' || c = '|' then some (.eps, c :: s) else
    match parseAtom fuel (c :: s) with
    | none => none
    | some (a, rest) =>
      match parseCat fuel rest with
      | some (b, rest') => some (.cat a b, rest')
      | none => none
/-- one atom with its postfix operator. -/
def parseAtom : Nat → List Char → Option (Re × List Char)
  | 0, _ => none
  | _ + 1, [] => none
  | fuel + 1, c :: s =>
    if c = '(' then
      match parseAlt fuel s with
      | some (r, ')' :: rest) =>
        (match rest with
         | '?' :: rest' => some (.opt r, rest')
         | '*' :: _ => none                     -- general star: outside the fragment
         | _ => some (r, rest))
      | _ => none
    else if c = '[' then
      match parseReClass s with
      | some (neg, rs, '*' :: rest) => some (.starCls neg rs, rest)
      | some (neg, rs, rest) => some (.cls neg rs, rest)
      | none => none
    else if c = '.' then
      (match s with
       | '*' :: rest => some (.dotStar, rest)
       | _ => some (.dot, s))
    else if c = '\\' then
      (match s with
       | d :: rest => if isAlnum d || d.toNat ≥ 128 then none else some (.chr d, rest)   -- escaped punctuation is literal
       | [] => none)
    else if c = '*' || c = '?' || c = '+' || c = ']' || c = '{' || c = '}' || c = '^' || c = '$' then none
    else some (.chr c, s)
end

/-- The alternatives of a top-level `a|b|c`. -/
def Re.topAlts : Re → List Re
  | .alt a b => a :: b.topAlts
  | r => [r]

/-- Compile `^...$`; `none` = `regexp.Compile` fails (unbalanced parentheses) or the string leaves the fragment. -/
def compileRe (s : List Char) : Option (List Re) :=
  match s with
  | '^' :: body =>
    match body.reverse with
    | '$' :: rb =>
      let b := rb.reverse
      match parseAlt (b.length * 3 + 6) b with
      | some (r, []) => some r.topAlts
      | _ => none
    | _ => none
  | _ => none

/-! ### facts and matchers -/

structure Facts where
  reWrap : Name × Name                    -- "^" , "$"
  replacements : List (Name × Name)       -- the `strings.ReplaceAll` chain of `toRegexString`, in order
  doubleStar : Name                       -- `strings.Contains(pattern, "**")` selects the regexp matcher
  outDir : Name                           -- "plz-out", skipped when `rootPath == "."`
  hiddenPrefix : Name                     -- "."
  hiddenWrap : Name                       -- "#" (prefix and suffix)

def toRegexString (F : Facts) (pattern : Name) : Name :=
  F.replacements.foldl (fun p r => replaceAll r.1 r.2 p) (F.reWrap.1 ++ pattern ++ F.reWrap.2)

inductive Matcher
  | builtin (p : List GItem)
  | regex (alts : List Re)

/-- A clean relative pattern: no empty, `.` or `..` segment (so `filepath.Join(root, pattern)`, which calls `Clean`,
    is plain concatenation with a '/'). -/
def cleanPat (pattern : Name) : Bool :=
  (splitOnSlash pattern).all fun s => !s.isEmpty && s != ['.'] && s != ['.', '.']

/-- `patternToMatcher(root, pattern)`; `root = []` is Go's `""`.  `none`: compile error (the Go code returns an error,
    `Glob` panics) -- or the pattern is not clean: `filepath.Join` would rewrite it (`./a`, `a//b`, `a/`), which the
    model does not follow (the driver answers `unmodelled` for such input before it gets here). -/
def patternToMatcher (F : Facts) (root pattern : Name) : Option Matcher :=
  if !cleanPat pattern then none else
  let full := if root.isEmpty || root == ['.'] then pattern else root ++ '/' :: pattern   -- filepath.Join on clean operands
  if !containsSub F.doubleStar pattern then (parseGlob (full.length + 1) full).map .builtin
  else (compileRe (toRegexString F full)).map .regex

def Matcher.run : Matcher → Name → Bool
  | .builtin p, n => gmatch p n
  | .regex r, n => reFull r n

/-! ### the walk -/

structure Walked where
  files : List Name := []
  symlinks : List Name := []
  subPackages : List Name := []

structure Cfg where
  buildNames : List Name

/-- The `WalkDir` callback on one entry: `some w'` = recorded (or sub-package noted), the Bool = `SkipDir` returned. -/
def visit (F : Facts) (cfg : Cfg) (rootName : Name) (path parent bname : Name) (isLink : Bool) (w : Walked) : Walked × Bool :=
  if cfg.buildNames.contains bname && parent != rootName then
    ({ w with subPackages := w.subPackages ++ [parent] }, true)
  else if bname == F.outDir && rootName == ['.'] then (w, true)
  else if isLink then ({ w with symlinks := w.symlinks ++ [path] }, false)
  else ({ w with files := w.files ++ [path] }, false)

mutual
/-- `io/fs.walkDir`: returns the accumulated state and whether `SkipDir` propagates to the parent's loop. -/
def walkT (F : Facts) (cfg : Cfg) (rootName : Name) (path parent bname : Name) : Tree → Walked → Walked × Bool
  | .leaf k, w => visit F cfg rootName path parent bname (k != .file) w
  | .dir cs, w =>
    let r := visit F cfg rootName path parent bname false w
    if r.2 then (r.1, false) else (walkFo F cfg rootName path cs r.1, false)
def walkFo (F : Facts) (cfg : Cfg) (rootName : Name) (parent : Name) : Forest → Walked → Walked
  | .nil, w => w
  | .cons n t rest, w =>
    let r := walkT F cfg rootName (join parent n) parent n t w
    if r.2 then r.1 else walkFo F cfg rootName parent rest r.1
end

/-- `globber.walkDir(rootPath)` for the directory `t` found at `root` (children visited in sorted order). -/
def walkDir (F : Facts) (cfg : Cfg) (root : List Name) (t : Tree) : Walked :=
  (walkT F cfg (nameOf root) (nameOf root) (dirOf (nameOf root)) (lastOr root) t.sort {}).1

/-! ### filters -/

def isInDirectories (name : Name) (dirs : List Name) : Bool :=
  dirs.any fun d => (d ++ ['/']).isPrefixOf name || name == d

def isHidden (F : Facts) (name : Name) : Bool :=
  let f := base name
  F.hiddenPrefix.isPrefixOf f || (F.hiddenWrap.isPrefixOf f && F.hiddenWrap.reverse.isPrefixOf f.reverse)

def isBasePathOf (path b : Name) : Bool :=
  b.isPrefixOf path && (match path.drop b.length with | [] => true | c :: _ => c == '/')

/-- `shouldExcludeMatch`; `none` = an exclude pattern does not compile. -/
def shouldExclude (F : Facts) (rootName m : Name) : List Name → Option Bool
  | [] => some false
  | excl :: rest =>
    if excl.isEmpty then none else            -- mustBeValidGlobString panics
    let joined := if rootName == ['.'] then excl else rootName ++ '/' :: excl
    if isBasePathOf m joined then some true else
    let rel := m.contains '/' && !excl.contains '/'
    match patternToMatcher F (if rel then [] else rootName) excl with
    | none => none
    | some mt => if mt.run (if rel then base m else m) then some true else shouldExclude F rootName m rest

/-- `globber.glob`: one include pattern.  `none` = error (panic in `Glob`). -/
def globOne (F : Facts) (rootName : Name) (w : Walked) (incl : Name) (excludes : List Name)
    (hidden symlinks : Bool) : Option (List Name) :=
  match patternToMatcher F rootName incl with
  | none => none
  | some mt =>
    let names := if symlinks then w.files ++ w.symlinks else w.files
    let cands := (names.filter mt.run).filter fun m =>
      !isInDirectories m w.subPackages && !(!hidden && isHidden F m)
    cands.foldr (fun m acc =>
      match acc, shouldExclude F rootName m excludes with
      | some l, some false => some (m :: l)
      | some l, some true => some l
      | _, _ => none) (some [])

def trimRoot (rootName m : Name) : Name :=
  let p := rootName ++ ['/']
  if p.isPrefixOf m then m.drop p.length else m

/-- `(*Globber).Glob(rootPath, includes, excludes, includeHidden, includeSymlinks)`. -/
def globAll (F : Facts) (cfg : Cfg) (root : List Name) (t : Tree) (includes excludes : List Name)
    (hidden symlinks : Bool) : Option (List Name) :=
  let rootName := nameOf root
  let w := walkDir F cfg root t
  includes.foldr (fun incl acc =>
    if incl.isEmpty then none else            -- mustBeValidGlobString panics
    match globOne F rootName w incl excludes hidden symlinks, acc with
    | some l, some rest => some (l.map (trimRoot rootName) ++ rest)
    | _, _ => none) (some [])

/-- Which optional repairs of `toRegexString` the `ReplaceAll` chain contains. -/
structure MOpts where
  qmarkClass : Bool     -- `?` ↦ `[^/]` instead of `.`
  leadOpt : Bool        -- a leading `^.*/` ↦ `^(.*/)?`
  escParens : Bool      -- `(`, `)`, `|`, `{`, `}` are escaped like `+` and `.`
  deriving DecidableEq, Repr

/-- The `ReplaceAll` chain of `toRegexString` with the optional repairs switched on or off. -/
def chainFor (o : MOpts) : List (Name × Name) :=
  [(['+'], ['\\', '+']), (['.'], ['\\', '.'])] ++
  (if o.escParens then [(['('], ['\\', '(']), ([')'], ['\\', ')']), (['|'], ['\\', '|']), (['{'], ['\\', '{']), (['}'], ['\\', '}'])]
   else []) ++
  [(['?'], if o.qmarkClass then ['[', '^', '/', ']'] else ['.']),
   (['*'], ['[', '^', '/', ']', '*']),
   (['[', '^', '/', ']', '*', '[', '^', '/', ']', '*'], ['.', '*']),
   (['/', '.', '*', '/'], ['/', '(', '.', '*', '/', ')', '?'])] ++
  (if o.leadOpt then [(['^', '.', '*', '/'], ['^', '(', '.', '*', '/', ')', '?'])] else [])

/-- The options a chain exhibits. -/
def optsOfChain (c : List (Name × Name)) : MOpts :=
  { qmarkClass := c.contains (['?'], ['[', '^', '/', ']'])
    leadOpt := c.contains (['^', '.', '*', '/'], ['^', '(', '.', '*', '/', ')', '?'])
    escParens := c.contains (['('], ['\\', '(']) }

/-- The structure src/fs/glob.go had when the check was written: no optional repair. -/
def MOpts.none : MOpts := ⟨false, false, false⟩

/-- The structure of src/fs/glob.go with the given optional repairs of `toRegexString`. -/
def Facts.withOpts (o : MOpts) : Facts where
  reWrap := (['^'], ['$'])
  replacements := chainFor o
  doubleStar := ['*', '*']
  outDir := plzOut
  hiddenPrefix := ['.']
  hiddenWrap := ['#']

/-- The structure src/fs/glob.go had when the check was written (no repair): the one the witnesses are about. -/
def Facts.canon : Facts := Facts.withOpts MOpts.none

/-! ### specification: segment-wise documented semantics -/

inductive Seg
  | dstar                      -- `**`: any number of complete path components
  | items (p : List GItem)     -- `*`, `?`, `[class]`, literals within one component
  deriving Repr

/-- Within one path component `?` is one character, `*` any run of characters, `[class]` one character of the class. -/
def compMatch1 : List GItem → List Char → Bool
  | [] => fun s => s.isEmpty
  | .lit c :: p => fun s => match s with | x :: s' => c == x && compMatch1 p s' | [] => false
  | .any :: p => fun s => match s with | _ :: s' => compMatch1 p s' | [] => false
  | .cls neg rs :: p => fun s => match s with | x :: s' => (inRanges rs x != neg) && compMatch1 p s' | [] => false
  | .star :: p => fun s => starWhile (fun _ => true) (compMatch1 p) s

def dstarSkip (k : List Name → Bool) : List Name → Bool
  | [] => k []
  | c :: cs => k (c :: cs) || dstarSkip k cs

/-- A pattern (list of segments) against a path (list of components).  `**` stands for zero or more complete
    components; as the last segment it stands for one or more (it selects what is below, not the directory itself). -/
def segMatch : List Seg → List Name → Bool
  | [], cs => cs.isEmpty
  | .dstar :: rest, cs =>
    (match rest with
     | [] => !cs.isEmpty
     | _ :: _ => dstarSkip (segMatch rest) cs)
  | .items p :: rest, cs =>
    (match cs with
     | c :: cs' => compMatch1 p c && segMatch rest cs'
     | [] => false)

/-- No two `**` next to each other (`a/**/**/b` is outside the fragment). -/
def noAdjacentDstar : List Seg → Bool
  | .dstar :: .dstar :: _ => false
  | _ :: rest => noAdjacentDstar rest
  | [] => true

/-- Parse a clean pattern into segments; `none` outside the fragment (`**` glued to other characters, empty / `.` /
    `..` segments, characters outside the fragment). -/
def parseSegs (pattern : Name) : Option (List Seg) :=
  match (splitOnSlash pattern).mapM fun s =>
    if s == ['*', '*'] then some Seg.dstar
    else if s.isEmpty || s == ['.'] || s == ['.', '.'] || containsSub ['*', '*'] s || s.contains '/' then none
    else (parseGlob (s.length + 1) s).map Seg.items with
  | some segs => if noAdjacentDstar segs then some segs else none
  | none => none

/-! ### the matchers on *parsed* patterns (what the string-level pipeline yields on the fragment) -/

/-- How a matcher reads a parsed pattern. -/
structure Mode where
  anyCls : Bool         -- `?` is one non-'/' character (always so for `filepath.Match`)
  litsFree : Bool       -- every literal is read as itself (no unescaped regexp syntax)
  leadOpt : Bool        -- a leading `**/` may stand for no directory at all
  allowDstar : Bool     -- `**` segments exist (regexp matcher only)

def Mode.builtin : Mode := ⟨true, true, true, false⟩
def Mode.regex (o : MOpts) : Mode := ⟨o.qmarkClass, o.escParens, o.leadOpt, true⟩

/-- One pattern item as the matcher reads it: the regexp `toRegexString` makes of it, resp. what `filepath.Match`
    does with it (`?` is one non-'/' character there). -/
def itemRe (m : Mode) : GItem → Re
  | .lit c => .chr c
  | .star => .starCls true [('/', '/')]
  | .any => if m.anyCls then .cls true [('/', '/')] else .dot
  | .cls neg rs => .cls neg rs

def itemsRe (m : Mode) : List GItem → Re
  | [] => .eps
  | i :: p => .cat (itemRe m i) (itemsRe m p)

/-- `toRegexString` on a parsed pattern: `a/**/b` ↦ `a/(.*/)?b`, a trailing `a/**` ↦ `a/.*`, a leading `**/x` ↦
    `.*/x` -- unless the chain also rewrites a leading `^.*/` (`leadOpt`), then `(.*/)?x` like everywhere else. -/
def toReSegs (m : Mode) : Bool → List Seg → Re
  | _, [] => .eps
  | _, .items p :: rest =>
    (match rest with
     | [] => itemsRe m p
     | _ :: _ => .cat (itemsRe m p) (.cat (.chr '/') (toReSegs m false rest)))
  | atStart, .dstar :: rest =>
    (match rest with
     | [] => .dotStar
     | _ :: _ =>
       if atStart && !m.leadOpt then .cat .dotStar (.cat (.chr '/') (toReSegs m false rest))
       else .cat (.opt (.cat .dotStar (.chr '/'))) (toReSegs m false rest))

/-- A literal path component as a pattern segment. -/
def litSeg (c : Name) : Seg := .items (c.map .lit)

/-- Characters `toRegexString` passes to `regexp.Compile` unescaped although they are regexp syntax. -/
def reSafe (c : Char) : Bool := !(c = '(' || c = ')' || c = '|')

/-- Items whose reading by the matcher is the documented one and which cannot match '/': literals other than '/'
    (and, for a regexp chain that does not escape them, other than `(` `)` `|`), `*`, `?` where it is read as one
    non-'/' character, and
    non-negated classes without '/'. -/
def okItem (m : Mode) : GItem → Bool
  | .lit c => c != '/' && (m.litsFree || reSafe c)
  | .star => true
  | .any => m.anyCls
  | .cls neg rs => !neg && !inRanges rs '/'

def okSegs (m : Mode) : List Seg → Bool
  | [] => true
  | .dstar :: rest => m.allowDstar && okSegs m rest
  | .items p :: rest => p.all (okItem m) && okSegs m rest

/-- The pattern `filepath.Match` sees for parsed segments: items joined by a literal '/'. -/
def flattenSegs : List Seg → List GItem
  | [] => []
  | .dstar :: rest => .star :: .star :: (match rest with | [] => [] | _ :: _ => .lit '/' :: flattenSegs rest)
  | .items p :: rest => p ++ (match rest with | [] => [] | _ :: _ => .lit '/' :: flattenSegs rest)

/-- The package path contains none of the characters the regexp translation leaves unescaped. -/
def safePath (m : Mode) (root : List Name) : Bool := root.all fun c => c.all fun x => m.litsFree || reSafe x

def hasDstar (segs : List Seg) : Bool := segs.any fun s => match s with | .dstar => true | _ => false

/-- `patternToMatcher(root, pattern).Match(name)` on a parsed pattern: the package path is prepended as literal
    segments (`filepath.Join`), `**` selects the regexp translation. -/
def structMatch (o : MOpts) (root : List Name) (segs : List Seg) (name : Name) : Bool :=
  let full := root.map litSeg ++ segs
  if hasDstar segs then rmatch (toReSegs (Mode.regex o) true full) (·.isEmpty) name
  else gmatch (flattenSegs full) name

/-- The mode `patternToMatcher` uses for a parsed pattern. -/
def modeOf (o : MOpts) (segs : List Seg) : Mode := if hasDstar segs then Mode.regex o else Mode.builtin

def hiddenComp (c : Name) : Bool :=
  (match c with | '.' :: _ => true | _ => false) ||
  ((match c with | '#' :: _ => true | _ => false) && (match c.reverse with | '#' :: _ => true | _ => false))

structure Query where
  includes : List (List Seg)
  excludes : List (Name × List Seg)      -- raw text and parsed form
  hidden : Bool
  symlinks : Bool

/-- An exclude pattern removes the entry `rel` (components below the package directory). -/
def specExcludes (q : Query) (rel : List Name) : Bool :=
  q.excludes.any fun (raw, segs) =>
    (match segs, rel.getLast? with
     | [s], some b => segMatch [s] [b]        -- no separator: against the file name only
     | _, _ => false) ||
    segMatch segs rel ||                       -- from the package directory
    ((splitOnSlash raw).isPrefixOf rel)        -- names a directory above the entry (or the entry): literally

/-- The directory contains an entry named like a BUILD file: it is a package of its own. -/
def hasBuild (cfg : Cfg) : Forest → Bool
  | .nil => false
  | .cons n _ rest => cfg.buildNames.contains n || hasBuild cfg rest

mutual
/-- Entries (files, directories, symlinks) of the package rooted at the directory `t`, as component lists below it,
    that the query selects.  `top` = the package is the repository root (only there `plz-out` is special). -/
def specT (cfg : Cfg) (q : Query) (top : Bool) (rel : List Name) : Tree → List (List Name)
  | .leaf k => if (k == .file || q.symlinks) && q.includes.any (segMatch · rel) && !specExcludes q rel then [rel] else []
  | .dir cs =>
    (if q.includes.any (segMatch · rel) && !specExcludes q rel then [rel] else []) ++ specFo cfg q top rel cs
def specFo (cfg : Cfg) (q : Query) (top : Bool) (rel : List Name) : Forest → List (List Name)
  | .nil => []
  | .cons n t rest =>
    (if (!q.hidden && hiddenComp n) || (top && rel.isEmpty && n == plzOut) then []
     else match t with
       | .leaf k => specT cfg q top (rel ++ [n]) (.leaf k)
       | .dir cs => if hasBuild cfg cs then [] else specT cfg q top (rel ++ [n]) (.dir cs)) ++
    specFo cfg q top rel rest
end

/-- Parse the textual query; `none` when a pattern is outside the fragment the specification is defined on. -/
def mkQuery (includes excludes : List Name) (hidden symlinks : Bool) : Option Query :=
  match includes.mapM parseSegs, excludes.mapM (fun e => (parseSegs e).map fun s => (e, s)) with
  | some i, some e => some { includes := i, excludes := e, hidden := hidden, symlinks := symlinks }
  | _, _ => none

/-- What `glob(include, exclude, hidden)` must return in the package at `root` (paths relative to it). -/
def specGlob (cfg : Cfg) (q : Query) (root : List Name) (t : Tree) : List Name :=
  match t with
  | .leaf _ => []
  | .dir cs => (specFo cfg q root.isEmpty [] cs.sort).map joinSlash

end PlzVerif.Glob
