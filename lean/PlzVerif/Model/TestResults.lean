/-
Model of the test result summary (src/core/test_results.go:53-223), of `TestSuite.Add` and the flake loop
(`doFlakeRun`, src/test/test_step.go:244-271) and of the two small conversions that sit between the
third-party parsers and `core.TestSuite` (`toCoreTestSuite`/`appendResult` in src/test/xml_results.go,
the `switch test.Result` of src/test/go_results.go).  Core Lean only.

`encoding/xml` and go-junit-report themselves are NOT modelled: the correspondence run renders outcome
sets to real XML / `go test -v` text and runs the real parser.
-/
namespace PlzVerif.TestResults

/-- `core.TestExecution`, reduced to which of Failure / Error / Skip is non-nil. -/
structure Exec where
  failure : Bool
  error : Bool
  skip : Bool
  deriving DecidableEq, Repr

def Exec.pass : Exec := ⟨false, false, false⟩
def Exec.fail : Exec := ⟨true, false, false⟩
def Exec.err : Exec := ⟨false, true, false⟩
def Exec.skipped : Exec := ⟨false, false, true⟩

/-- `execution.Failure == nil && execution.Error == nil && execution.Skip == nil` -/
def Exec.isSuccess (e : Exec) : Bool := !e.failure && !e.error && !e.skip

/-- `core.TestCase` -/
structure Case where
  cls : String
  name : String
  execs : List Exec
  deriving DecidableEq, Repr

/-- `Success() != nil` -/
def Case.hasSuccess (c : Case) : Bool := c.execs.any Exec.isSuccess
/-- `Skip() != nil` -/
def Case.hasSkip (c : Case) : Bool := c.execs.any (·.skip)
/-- `len(Failures()) > 0` -/
def Case.hasFailure (c : Case) : Bool := c.execs.any (·.failure)
/-- `len(Errors()) > 0` -/
def Case.hasError (c : Case) : Bool := c.execs.any (·.error)

/-! ### the summary counters, as written -/

def isPass (c : Case) : Bool := !c.hasFailure && !c.hasError && !c.hasSkip
def isError (c : Case) : Bool := !c.hasSuccess && !c.hasSkip && c.hasError
def isFailure (c : Case) : Bool := !c.hasSuccess && !c.hasSkip && !c.hasError && c.hasFailure
def isSkip (c : Case) : Bool := c.hasSkip
/-- `FlakyPasses`.  `strict` (regenerated from the condition in the source): the repaired counter
    `Success() != nil && Skip() == nil && (len(Failures()) > 0 || len(Errors()) > 0)`; otherwise the
    original `Success() != nil && len(Executions) > 1`. -/
def isFlakyPassWith (strict : Bool) (c : Case) : Bool :=
  if strict then c.hasSuccess && !c.hasSkip && (c.hasFailure || c.hasError)
  else c.hasSuccess && decide (c.execs.length > 1)

def flakyStrictOf (cond : String) : Bool :=
  cond == "(len(C.Failures()) > 0 || len(C.Errors()) > 0) && C.Skip() == nil && C.Success() != nil"

def tests (l : List Case) : Nat := l.length
def passes (l : List Case) : Nat := l.countP isPass
def errors (l : List Case) : Nat := l.countP isError
def failures (l : List Case) : Nat := l.countP isFailure
def skips (l : List Case) : Nat := l.countP isSkip
def flakyPassesWith (strict : Bool) (l : List Case) : Nat := l.countP (isFlakyPassWith strict)

/-- `TestCases.AllSucceeded` -/
def allSucceeded (l : List Case) : Bool := l.all fun c => c.hasSuccess || c.hasSkip

/-! ### Add and the flake loop -/

def sameKey (a b : Case) : Bool := a.name == b.name && a.cls == b.cls

/-- `TestSuite.Add` for one case: append the executions to the first case with the same name and class
    name, or append the case. -/
def add1 : List Case → Case → List Case
  | [], c => [c]
  | x :: xs, c => if sameKey x c then { x with execs := x.execs ++ c.execs } :: xs else x :: add1 xs c

def addAll (acc : List Case) (cs : List Case) : List Case := cs.foldl add1 acc

/-- `doFlakeRun`: `runs` are the results `doTest` would return, in order.  `flakes` counts from 1 to
    `flakiness`; after adding a run whose own cases all succeeded the loop stops. -/
def flakeLoop : Nat → List (List Case) → List Case → List Case
  | 0, _, acc => acc
  | _, [], acc => acc
  | n + 1, run :: rest, acc =>
    let acc' := addAll acc run
    if allSucceeded run then acc' else flakeLoop n rest acc'

/-- The runs that `doFlakeRun` actually performs. -/
def executedRuns : Nat → List (List Case) → List (List Case)
  | 0, _ => []
  | _, [] => []
  | n + 1, run :: rest => if allSucceeded run then [run] else run :: executedRuns n rest

/-! ### JUnit XML: from the decoded structs to core.TestSuite -/

/-- The part of a decoded `<testcase>` that decides the executions: which main result elements are
    present and how many flaky/rerun children there are. -/
structure XCase where
  cls : String
  name : String
  failure : Bool
  error : Bool
  skipped : Bool
  flakyFailures : Nat
  flakyErrors : Nat
  rerunFailures : Nat
  rerunErrors : Nat
  deriving Repr

/-- `appendResult`: "there can be only one of these" (failure, else error, else skipped, else success), then
    the flaky failures, flaky errors, rerun failures, rerun errors. -/
def XCase.toCase (x : XCase) : Case :=
  let main := if x.failure then Exec.fail else if x.error then Exec.err else if x.skipped then Exec.skipped else Exec.pass
  ⟨x.cls, x.name, main :: (List.replicate x.flakyFailures Exec.fail ++ List.replicate x.flakyErrors Exec.err
    ++ List.replicate x.rerunFailures Exec.fail ++ List.replicate x.rerunErrors Exec.err)⟩

/-- A bare top-level `<testcase>` (`case "testcase":` in `parseJUnitXMLTestResults`): the synthetic
    `core.TestCase` is built with the fields listed in `fields` only (regenerated; today none, so the name
    and class name of such a case are lost). -/
def bareCase (fields : List String) (x : XCase) : Case :=
  let c := x.toCase
  ⟨if fields.contains "ClassName" then c.cls else "", if fields.contains "Name" then c.name else "", c.execs⟩

/-- A decoded `<testsuite>`: its own `<testcase>` children and any `<testsuite>` children. -/
inductive XSuite
  | mk (cases : List XCase) (nested : List XSuite)

/-- `toCoreTestSuite`.  `nestedSupported` is a regenerated fact: does `jUnitXMLTestSuite` have a field for
    child `<testsuite>` elements?  (Today it does not: they are silently dropped by encoding/xml.) -/
def XSuite.cases (nestedSupported : Bool) : XSuite → List Case
  | .mk cs nested => cs.map XCase.toCase ++ (if nestedSupported then casesList nestedSupported nested else [])
where casesList (nestedSupported : Bool) : List XSuite → List Case
  | [] => []
  | s :: rest => s.cases nestedSupported ++ casesList nestedSupported rest

/-- Every `<testcase>` of a suite tree, at every depth (own cases first, then the nested suites in order). -/
def XSuite.all : XSuite → List XCase
  | .mk cs nested => cs ++ allList nested
where allList : List XSuite → List XCase
  | [] => []
  | s :: rest => s.all ++ allList rest

/-- How `toCoreTestSuite` reaches the nested suites (regenerated fact `nestedTraversal`):
    "recursive" — it calls itself on every element of `TestSuites` (the code after the repair);
    "none" — it does not look at them; "direct" — only the direct children's own cases.
    Anything else cannot be followed by the model (it then assumes "recursive" and `FactsOK` fails). -/
def XSuite.casesMode (mode : String) (s : XSuite) : List Case :=
  if mode = "none" then s.cases false
  else if mode = "direct" then
    match s with
    | .mk cs nested => cs.map XCase.toCase ++ nested.flatMap fun n => match n with | .mk cs' _ => cs'.map XCase.toCase
  else s.cases true

/-! ### go test -v: from go-junit-report's result to an execution -/

inductive GoResult | pass | fail | skip | unknown
  deriving DecidableEq, Repr

def GoResult.tag : GoResult → String
  | .pass => "Pass" | .fail => "Fail" | .skip => "Skip" | .unknown => "Unknown"

/-- The `switch test.Result` of `parseGoTestResults`.  `sets` (regenerated) lists, for every `case` of the
    switch, which of Failure / Error / Skip it assigns ("default" for a default clause); a result without
    a clause leaves the execution without failure, error or skip. -/
def goExec (sets : List (String × String)) (r : GoResult) : Exec :=
  let field := match sets.find? (fun s => s.1 == r.tag) with
    | some s => s.2
    | none => match sets.find? (fun s => s.1 == "default") with
      | some s => s.2
      | none => ""
  if field = "Failure" then Exec.fail
  else if field = "Error" then Exec.err
  else if field = "Skip" then Exec.skipped
  else Exec.pass

end PlzVerif.TestResults
