import PlzVerif.Model.AspOps
import PlzVerif.Model.AspInterp
/-
The specification side of C16: an independently written evaluator with **Python 3** semantics for the same
surface syntax.  Operator chains are grouped by precedence climbing (`pyGroup`), integers are unbounded with
floor division / modulo, every list or dict display creates a fresh object, `+` and slicing copy, `sorted`
and `reversed` return new lists, `+=` on a list extends it in place, names assigned in a function body are
local to it.

Reference choices where Python 3 returns lazy objects: `range`, `zip`, `enumerate`, `reversed`, `map`, `filter`
return lists (the harness installs list-returning wrappers in python3 the same way); tuples are their own
immutable value and render as lists.  True division `/` produces a float, which the BUILD language does not
have: it is the error "unsupported" here and the harness does not send such programs to python3.

Shares only the syntax tree, the rendered-value type `RVal`/`Globals` and the tree evaluator `evalTree`
with the asp model.  Core Lean only.
-/
namespace PlzVerif.Py
open PlzVerif.Asp (BinOp UnOp Expr Stmt Program RVal Globals Tree OpsSem evalTree pyGroup pyPrec)

inductive Val
  | int (n : Int)
  | str (s : String)
  | bool (b : Bool)
  | none
  | list (id : Nat)
  | tuple (vs : List Val)
  | dict (id : Nat)
  | func (id : Nat)
  deriving Repr, Inhabited

structure Func where
  name : String
  params : List (String × Option Val)      -- defaults evaluated at definition time
  body : List Stmt
  locals : List String                     -- names bound anywhere in the body (compile-time decision)
  env : Nat                                -- defining frame
  deriving Repr, Inhabited

/-- A frame: function locals (or module globals, or a comprehension's own variables). -/
structure Frame where
  parent : Option Nat
  vars : List (String × Val)
  locals : List String := []               -- names that are local here even before they are bound
  deriving Repr, Inhabited

structure St where
  lists : List (List Val) := []
  dicts : List (List (String × Val)) := []
  funcs : List Func := []
  frames : List Frame := []
  deriving Repr, Inhabited

abbrev PM := StateT St (Except String)

inductive Flow
  | normal
  | ret (v : Val)
  | brk
  | cont

def err {α : Type} (m : String) : PM α := throw m

/-! ### Heap -/

def newList (vs : List Val) : PM Val := do
  let st ← get
  set { st with lists := st.lists ++ [vs] }
  pure (.list st.lists.length)

def getList (id : Nat) : PM (List Val) := do
  match (← get).lists[id]? with
  | some l => pure l
  | none => err "ref: bad list"

def setList (id : Nat) (vs : List Val) : PM Unit :=
  modify fun st => { st with lists := st.lists.set id vs }

def newDict (kvs : List (String × Val)) : PM Val := do
  let st ← get
  set { st with dicts := st.dicts ++ [kvs] }
  pure (.dict st.dicts.length)

def getDict (id : Nat) : PM (List (String × Val)) := do
  match (← get).dicts[id]? with
  | some l => pure l
  | none => err "ref: bad dict"

def setDict (id : Nat) (kvs : List (String × Val)) : PM Unit :=
  modify fun st => { st with dicts := st.dicts.set id kvs }

def assocGet (kvs : List (String × Val)) (k : String) : Option Val := (kvs.find? (·.1 == k)).map (·.2)

/-- insertion order is kept; re-assigning a key keeps its position -/
def assocPut (kvs : List (String × Val)) (k : String) (v : Val) : List (String × Val) :=
  if kvs.any (·.1 == k) then kvs.map (fun e => if e.1 == k then (k, v) else e) else kvs ++ [(k, v)]

/-! ### Frames: LEGB lookup with compile-time locals -/

def newFrame (parent : Option Nat) (locals : List String) : PM Nat := do
  let st ← get
  set { st with frames := st.frames ++ [({ parent := parent, vars := [], locals := locals } : Frame)] }
  pure st.frames.length

def lookupIn (frames : List Frame) : Nat → Nat → String → Except String Val
  | 0, _, _ => .error "ref: frame chain"
  | f + 1, fr, x =>
    match frames[fr]? with
    | none => .error "ref: bad frame"
    | some fm =>
      match assocGet fm.vars x with
      | some v => .ok v
      | none =>
        if fm.locals.contains x then .error s!"UnboundLocalError: {x}"
        else match fm.parent with
          | some p => lookupIn frames f p x
          | none => .error s!"NameError: {x}"

def lookup (fr : Nat) (x : String) : PM Val := do
  let st ← get
  match lookupIn st.frames (st.frames.length + 1) fr x with
  | .ok v => pure v
  | .error e => err e

def bind (fr : Nat) (x : String) (v : Val) : PM Unit := do
  let st ← get
  match st.frames[fr]? with
  | some fm => set { st with frames := st.frames.set fr { fm with vars := assocPut fm.vars x v } }
  | none => err "ref: bad frame"

/-! ### Values -/

def tyName : Val → String
  | .int _ => "int" | .str _ => "str" | .bool _ => "bool" | .none => "NoneType" | .list _ => "list"
  | .tuple _ => "tuple" | .dict _ => "dict" | .func _ => "function"

def truth (v : Val) : PM Bool :=
  match v with
  | .int n => pure (n != 0)
  | .str s => pure (s != "")
  | .bool b => pure b
  | .none => pure false
  | .list id => do pure (!(← getList id).isEmpty)
  | .tuple vs => pure (!vs.isEmpty)
  | .dict id => do pure (!(← getDict id).isEmpty)
  | .func _ => pure true

/-- bool is a subtype of int -/
def asInt : Val → Option Int
  | .int n => some n
  | .bool b => some (if b then 1 else 0)
  | _ => none

/-- the elements of a sequence value (list, tuple); strings and dicts are iterable in Python too -/
def seqElems (v : Val) : PM (List Val) :=
  match v with
  | .list id => getList id
  | .tuple vs => pure vs
  | .str s => pure (s.toList.map fun c => .str (String.singleton c))
  | .dict id => do pure ((← getDict id).map fun e => .str e.1)
  | o => err s!"TypeError: '{tyName o}' object is not iterable"

mutual
  /-- `==` -/
  def pyEq : Nat → Val → Val → PM Bool
    | 0, _, _ => err "fuel"
    | f + 1, a, b =>
      match a, b with
      | .str x, .str y => pure (x == y)
      | .none, .none => pure true
      | .list x, .list y => do
        if x == y then pure true else pyEqList f (← getList x) (← getList y)
      | .tuple x, .tuple y => pyEqList f x y
      | .dict x, .dict y => do
        if x == y then pure true
        else do
          let m1 ← getDict x
          let m2 ← getDict y
          if m1.length != m2.length then pure false else pyEqDict f m1 m2
      | .func x, .func y => pure (x == y)
      | a, b =>
        match asInt a, asInt b with
        | some x, some y => pure (x == y)
        | _, _ => pure false
  def pyEqList : Nat → List Val → List Val → PM Bool
    | 0, _, _ => err "fuel"
    | _ + 1, [], [] => pure true
    | f + 1, x :: xs, y :: ys => do if ← pyEq f x y then pyEqList f xs ys else pure false
    | _ + 1, _, _ => pure false
  def pyEqDict : Nat → List (String × Val) → List (String × Val) → PM Bool
    | 0, _, _ => err "fuel"
    | _ + 1, [], _ => pure true
    | f + 1, (k, v) :: r, m2 =>
      match assocGet m2 k with
      | none => pure false
      | some w => do if ← pyEq f v w then pyEqDict f r m2 else pure false
end

mutual
  /-- `a < b` (the other orderings are derived the way Python's rich comparison of sequences derives them) -/
  def pyLt : Nat → Val → Val → PM Bool
    | 0, _, _ => err "fuel"
    | f + 1, a, b =>
      match a, b with
      | .str x, .str y => pure (x < y)
      | .list x, .list y => do pyLtList f (← getList x) (← getList y)
      | .tuple x, .tuple y => pyLtList f x y
      | a, b =>
        match asInt a, asInt b with
        | some x, some y => pure (x < y)
        | _, _ => err s!"TypeError: '<' not supported between instances of '{tyName a}' and '{tyName b}'"
  /-- lexicographic: the first differing pair decides -/
  def pyLtList : Nat → List Val → List Val → PM Bool
    | 0, _, _ => err "fuel"
    | _ + 1, [], ys => pure (!ys.isEmpty)
    | _ + 1, _ :: _, [] => pure false
    | f + 1, x :: xs, y :: ys => do
      if ← pyEq 64 x y then pyLtList f xs ys else pyLt f x y
end

def pyLe (a b : Val) : PM Bool := do
  -- for the totally ordered kinds we support, a <= b  iff  a < b or a == b (sequence <= compares the first
  -- differing pair with <=, which is the same thing)
  match a, b with
  | .list _, .list _ | .tuple _, .tuple _ | .str _, .str _ => do
    if ← pyLt 64 a b then pure true else pyEq 64 a b
  | a, b =>
    match asInt a, asInt b with
    | some x, some y => pure (x ≤ y)
    | _, _ => err s!"TypeError: '<=' not supported between instances of '{tyName a}' and '{tyName b}'"

def contains (s sub : String) : Bool :=
  let l := s.toList
  let p := sub.toList
  (List.range (l.length + 1)).any fun i => p.isPrefixOf (l.drop i)

def anyEq (item : Val) : List Val → PM Bool
  | [] => pure false
  | x :: r => do if ← pyEq 64 x item then pure true else anyEq item r

def pyIn (item container : Val) : PM Bool :=
  match container with
  | .list _ | .tuple _ => do
    let xs ← seqElems container
    anyEq item xs
  | .str s =>
    match item with
    | .str t => pure (contains s t)
    | o => err s!"TypeError: 'in <string>' requires string as left operand, not {tyName o}"
  | .dict id =>
    match item with
    | .str k => do pure ((assocGet (← getDict id) k).isSome)
    | .list _ | .dict _ => err "TypeError: unhashable type"
    | _ => pure false
  | o => err s!"TypeError: argument of type '{tyName o}' is not iterable"

def repeatList (xs : List Val) (n : Int) : List Val := (List.replicate n.toNat xs).flatten

/-- normalise a subscript: negative counts from the end; out of range is an IndexError -/
def normIndex (len : Nat) (i : Int) : PM Nat :=
  let j := if i < 0 then i + len else i
  if j < 0 ∨ j ≥ len then err "IndexError" else pure j.toNat

/-- slice bounds clamp -/
def clampBound (len : Nat) (i : Int) : Nat :=
  let j := if i < 0 then i + len else i
  if j < 0 then 0 else if j > len then len else j.toNat

def sliceList {α : Type} (l : List α) (lo hi : Option Int) : List α :=
  let a := match lo with | some i => clampBound l.length i | none => 0
  let b := match hi with | some i => clampBound l.length i | none => l.length
  (l.drop a).take (b - a)

def idxInt (v : Val) : PM Int :=
  match asInt v with
  | some i => pure i
  | none => err s!"TypeError: indices must be integers, not {tyName v}"

def subscript (obj idx : Val) : PM Val :=
  match obj with
  | .list id => do
    let l ← getList id
    let i ← normIndex l.length (← idxInt idx)
    pure l[i]!
  | .tuple vs => do
    let i ← normIndex vs.length (← idxInt idx)
    pure vs[i]!
  | .str s => do
    let l := s.toList
    let i ← normIndex l.length (← idxInt idx)
    pure (.str (String.singleton l[i]!))
  | .dict id =>
    match idx with
    | .str k => do
      match assocGet (← getDict id) k with
      | some v => pure v
      | none => err "KeyError"
    | .list _ | .dict _ => err "TypeError: unhashable type"
    | _ => err "KeyError"
  | o => err s!"TypeError: '{tyName o}' object is not subscriptable"

def storeSubscript (obj idx v : Val) : PM Unit :=
  match obj with
  | .list id => do
    let l ← getList id
    let i ← normIndex l.length (← idxInt idx)
    setList id (l.set i v)
  | .dict id =>
    match idx with
    | .str k => do setDict id (assocPut (← getDict id) k v)
    | .list _ | .dict _ => err "TypeError: unhashable type"
    | _ => err "ref: non-string dict keys are outside the subset"
  | o => err s!"TypeError: '{tyName o}' object does not support item assignment"

/-- strict binary operators -/
def binOp (op : BinOp) (a b : Val) : PM Val :=
  match op with
  | .eq => do pure (.bool (← pyEq 64 a b))
  | .ne => do pure (.bool (!(← pyEq 64 a b)))
  | .lt => do pure (.bool (← pyLt 64 a b))
  | .gt => do pure (.bool (← pyLt 64 b a))
  | .le => do pure (.bool (← pyLe a b))
  | .ge => do pure (.bool (← pyLe b a))
  | .in_ => do pure (.bool (← pyIn a b))
  | .notIn => do pure (.bool (!(← pyIn a b)))
  | .is_ | .isNot =>
    let r : PM Bool := match a, b with
      | .none, .none => pure true
      | .bool x, .bool y => pure (x == y)
      | .list x, .list y => pure (x == y)
      | .dict x, .dict y => pure (x == y)
      | .func x, .func y => pure (x == y)
      | .int _, .int _ | .str _, .str _ | .tuple _, .tuple _ => err "ref: identity of immutable values is unspecified"
      | _, _ => pure false
    do pure (.bool ((← r) == (op == .is_)))
  | .and_ | .or_ => err "ref: lazy operator"
  | .add =>
    match a, b with
    | .str x, .str y => pure (.str (x ++ y))
    | .list x, .list y => do newList ((← getList x) ++ (← getList y))
    | .tuple x, .tuple y => pure (.tuple (x ++ y))
    | a, b => match asInt a, asInt b with
      | some x, some y => pure (.int (x + y))
      | _, _ => err s!"TypeError: unsupported operand type(s) for +: '{tyName a}' and '{tyName b}'"
  | .sub =>
    match asInt a, asInt b with
    | some x, some y => pure (.int (x - y))
    | _, _ => err "TypeError: unsupported operand type(s) for -"
  | .mul =>
    match a, b with
    | .str s, b' | b', .str s =>
      match asInt b' with
      | some n => pure (.str (String.join (List.replicate n.toNat s)))
      | none => err "TypeError: can't multiply sequence by non-int"
    | .list id, b' | b', .list id =>
      match asInt b' with
      | some n => do newList (repeatList (← getList id) n)
      | none => err "TypeError: can't multiply sequence by non-int"
    | .tuple vs, b' | b', .tuple vs =>
      match asInt b' with
      | some n => pure (.tuple (repeatList vs n))
      | none => err "TypeError: can't multiply sequence by non-int"
    | a, b => match asInt a, asInt b with
      | some x, some y => pure (.int (x * y))
      | _, _ => err "TypeError: unsupported operand type(s) for *"
  | .div => err "unsupported: true division yields a float"
  | .fdiv =>
    match asInt a, asInt b with
    | some x, some y => if y == 0 then err "ZeroDivisionError" else pure (.int (Int.fdiv x y))
    | _, _ => err "TypeError: unsupported operand type(s) for //"
  | .mod =>
    match a with
    | .str _ => err "unsupported: % formatting"
    | _ => match asInt a, asInt b with
      | some x, some y => if y == 0 then err "ZeroDivisionError" else pure (.int (Int.fmod x y))
      | _, _ => err "TypeError: unsupported operand type(s) for %"
  | .union =>
    match a, b with
    | .dict x, .dict y => do
      let m1 ← getDict x
      let m2 ← getDict y
      newDict (m2.foldl (fun acc e => assocPut acc e.1 e.2) m1)
    | _, _ => err "unsupported: | on non-dicts"

def unOp (u : UnOp) (v : Val) : PM Val :=
  match u with
  | .not_ => do pure (.bool (!(← truth v)))
  | .neg => match asInt v with
    | some i => pure (.int (-i))
    | none => err s!"TypeError: bad operand type for unary -: '{tyName v}'"

/-- pure truthiness for the tree evaluator: read the heap passed in -/
def truthSt (st : St) (v : Val) : Bool :=
  match v with
  | .int n => n != 0
  | .str s => s != ""
  | .bool b => b
  | .none => false
  | .list id => match st.lists[id]? with | some l => !l.isEmpty | none => false
  | .tuple vs => !vs.isEmpty
  | .dict id => match st.dicts[id]? with | some l => !l.isEmpty | none => false
  | .func _ => true

/-! ### Sorting (Python's sort is stable) -/

def insertBy (less : Val → Val → PM Bool) (x : Val) : List Val → PM (List Val)
  | [] => pure [x]
  | y :: ys => do if ← less x y then pure (x :: y :: ys) else do pure (y :: (← insertBy less x ys))

/-- insertion of the elements from the back keeps equal elements in their original order -/
def stableSort (less : Val → Val → PM Bool) : List Val → PM (List Val)
  | [] => pure []
  | x :: xs => do
    let s ← stableSort less xs
    -- x precedes everything equal to it in the original order: insert before the first element not less than x
    let rec ins : List Val → PM (List Val)
      | [] => pure [x]
      | y :: ys => do if ← less y x then do pure (y :: (← ins ys)) else pure (x :: y :: ys)
    ins s

/-! ### Compile-time locals of a function body -/

mutual
  def boundNames : Nat → List Stmt → List String
    | 0, _ => []
    | _ + 1, [] => []
    | f + 1, s :: r => boundStmt f s ++ boundNames f r
  def boundStmt : Nat → Stmt → List String
    | 0, _ => []
    | f + 1, s =>
      match s with
      | .assign x _ | .augAssign x _ => [x]
      | .unpack xs _ => xs
      | .def_ fn _ _ => [fn]
      | .for_ xs _ body => xs ++ boundNames f body
      | .cond brs els => boundBranches f brs ++ boundNames f els
      | _ => []
  def boundBranches : Nat → List (Expr × List Stmt) → List String
    | 0, _ => []
    | _ + 1, [] => []
    | f + 1, (_, b) :: r => boundNames f b ++ boundBranches f r
end

/-! ### String helpers -/

def splitOnChars : Nat → List Char → List Char → List Char → List (List Char)
  | 0, _, cur, _ => [cur.reverse]
  | _ + 1, _, cur, [] => [cur.reverse]
  | f + 1, sep, cur, c :: cs =>
    if sep.isPrefixOf (c :: cs) then cur.reverse :: splitOnChars f sep [] ((c :: cs).drop sep.length)
    else splitOnChars f sep (c :: cur) cs

def pySplit (s sep : String) : PM (List String) :=
  if sep == "" then err "ValueError: empty separator"
  else pure ((splitOnChars (s.length + 1) sep.toList [] s.toList).map String.ofList)

def isWs (c : Char) : Bool := c == ' ' || c == '\n' || c == '\t' || c == '\r' || c.toNat == 11 || c.toNat == 12

/-- `str.split()` with no separator: runs of whitespace separate, no empty strings -/
def splitWs : List Char → List Char → List String
  | [], cur => if cur.isEmpty then [] else [String.ofList cur.reverse]
  | c :: cs, cur =>
    if isWs c then (if cur.isEmpty then splitWs cs [] else String.ofList cur.reverse :: splitWs cs [])
    else splitWs cs (c :: cur)

def dropWhileIn (cut : List Char) : List Char → List Char
  | [] => []
  | c :: cs => if cut.contains c then dropWhileIn cut cs else c :: cs

def dropWs : List Char → List Char
  | [] => []
  | c :: cs => if isWs c then dropWs cs else c :: cs

def upperC (c : Char) : Char := if 'a' ≤ c ∧ c ≤ 'z' then Char.ofNat (c.toNat - 32) else c
def lowerC (c : Char) : Char := if 'A' ≤ c ∧ c ≤ 'Z' then Char.ofNat (c.toNat + 32) else c
def asciiOnly (s : String) : Bool := s.toList.all fun c => c.toNat < 128

def findStr (s sub : String) : Int :=
  let l := s.toList
  let p := sub.toList
  match (List.range (l.length + 1)).find? (fun i => p.isPrefixOf (l.drop i)) with
  | some i => i
  | none => -1

/-- `int("…")` on the clean decimal strings the harness generates -/
def parseInt (s : String) : Option Int :=
  match s.toList with
  | '+' :: r => if r.isEmpty then none else (String.ofList r).toNat?.map Int.ofNat
  | '-' :: r => if r.isEmpty then none else (String.ofList r).toNat?.map fun n => -(Int.ofNat n)
  | _ => s.toNat?.map Int.ofNat

/-- positional / keyword binding of a call to a builtin with the given parameter names and defaults -/
def bindBuiltin (fname : String) (params : List (String × Option Val)) (posOnly : Nat)
    (args : List (Option String × Val)) : PM (List Val) := do
  let pos := args.filterMap fun a => match a.1 with | none => some a.2 | some _ => none
  let kws := args.filterMap fun a => match a.1 with | some k => some (k, a.2) | none => none
  if pos.length > params.length then err s!"TypeError: {fname}() takes at most {params.length} arguments"
  else do
    for (k, _) in kws do
      match params.findIdx? (·.1 == k) with
      | none => err s!"TypeError: {fname}() got an unexpected keyword argument '{k}'"
      | some i =>
        if i < pos.length then err s!"TypeError: {fname}() got multiple values for argument '{k}'"
        else if i < posOnly then err s!"TypeError: {fname}() takes no keyword argument '{k}'"
        else pure ()
    let rec fill (i : Nat) : List (String × Option Val) → PM (List Val)
      | [] => pure []
      | (p, d) :: r => do
        let v ← match pos[i]? with
          | some v => pure v
          | none => match assocGet kws p with
            | some v => pure v
            | none => match d with
              | some v => pure v
              | none => err s!"TypeError: {fname}() missing required argument '{p}'"
        pure (v :: (← fill (i + 1) r))
    fill 0 params

end PlzVerif.Py
