import PlzVerif.Model.Label
import PlzVerif.Generated.C20
/-! The `Label.Facts` record read from /repo on this run; shared by the C20 theorems and the C20 driver,
so the model that is diffed against the code is the one the theorems are about. -/
namespace PlzVerif.Label

def generatedFacts : Facts :=
  { pkgBad := Generated.C20.pkgBadChars, tgtBad := Generated.C20.tgtBadChars,
    buildSuffix := Generated.C20.buildDirSuffix.toList, testSuffix := Generated.C20.testDirSuffix.toList,
    includesSlash := Generated.C20.includesSlash, matchesSlash := Generated.C20.matchesSlash,
    matchesDot := Generated.C20.matchesDot, sandboxExpSlash := Generated.C20.sandboxExpSlash }

end PlzVerif.Label
