/-
Model of the HTTP and command caches' Store / Retrieve (src/cache/http_cache.go, cmd_cache.go) at the level of
tar ENTRIES.  Core Lean only.

A store turns the walked outputs into a stream of entries.  An output can fail in two ways (`storeFile`):
* `vanished`   — `os.Lstat` fails: nothing is written for it;
* `unreadable` — `Lstat` and the header succeed, `os.Open` (or the copy) fails: the header promises more bytes than
                 follow.  From then on `tar.Writer` refuses every further header ("missed writing N bytes") and its
                 `Close` writes no end marker.  (A zero-length file has nothing missing: its entry is complete.)
`fs.Walk` stops at the first error inside one output.

What the tar reader (`readTar`) makes of a stream: it restores entry after entry; an entry with a short body is an
error (a miss); when the input simply ends at an entry boundary — with or without the end marker — that is the end
of the archive (a hit).  gzip / the tar byte format are not modelled.
-/
namespace PlzVerif.RemoteCache

abbrev Bytes := List Nat

structure Ent where
  name : Bytes
  kind : Nat          -- 0 regular file, 1 directory, 2 symlink
  data : Bytes        -- content / link target
  deriving DecidableEq, Repr

/-- One walked item of an output. -/
inductive Src
  | ok (e : Ent)
  | vanished (e : Ent)        -- `e`: what should have been there
  | unreadable (e : Ent)
  deriving DecidableEq, Repr

def Src.faulty : Src → Bool
  | .ok _ => false
  | _ => true

/-- An entry as it sits in a stream: `full = false` when fewer body bytes follow than the header says. -/
structure Tok where
  ent : Ent
  full : Bool
  deriving DecidableEq, Repr

/-- The tar writer while a store runs. -/
structure W where
  toks : List Tok
  broken : Bool       -- a short body has been written: nothing more goes out, no end marker
  deriving DecidableEq, Repr

/-- `storeFile` for one walked item.  Returns the writer and whether an error came back. -/
def storeItem (w : W) : Src → W × Bool
  | .ok e => if w.broken then (w, true) else ({ w with toks := w.toks ++ [⟨e, true⟩] }, false)
  | .vanished _ => (w, true)
  | .unreadable e =>
    if w.broken then (w, true)
    else if e.data.isEmpty then ({ w with toks := w.toks ++ [⟨e, true⟩] }, true)
    else ({ toks := w.toks ++ [⟨e, false⟩], broken := true }, true)

/-- `fs.Walk` over one output: stops at the first error. -/
def walkOut (w : W) : List Src → W × Bool
  | [] => (w, false)
  | s :: rest =>
    let r := storeItem w s
    if r.2 then r else walkOut r.1 rest

/-- `httpCache.write`: an error is only logged, the next output is walked (`continueAfterError`, a regenerated
    fact; with `false` the writer would stop, as the command cache's does). -/
def httpWrite (continueAfterError : Bool) (w : W) : List (List Src) → W × Bool
  | [] => (w, false)
  | o :: os =>
    let r := walkOut w o
    if r.2 then
      if continueAfterError then
        let r' := httpWrite continueAfterError r.1 os
        (r'.1, true)
      else (r.1, true)
    else httpWrite continueAfterError r.1 os

/-- `write` of the command cache: the first error cancels the command and returns. -/
def cmdWrite (w : W) (outs : List (List Src)) : W × Bool := httpWrite false w outs

inductive Res
  | miss
  | hit (restored : List Ent)
  deriving DecidableEq, Repr

/-- `readTar` over the entries that arrive. -/
def readToks (ts : List Tok) : Res :=
  if ts.all (·.full) then .hit (ts.map (·.ent)) else .miss

/-- Everything the outputs hold when nothing fails. -/
def Src.ent : Src → Ent
  | .ok e => e
  | .vanished e => e
  | .unreadable e => e

def allEnts (outs : List (List Src)) : List Ent := outs.flatMap fun o => o.map Src.ent

def anyFault (outs : List (List Src)) : Bool := outs.any (·.any Src.faulty)

/-! ## HTTP cache -/

/-- What the server holds after `Store`.  A server that commits complete requests commits this one unless the
    transport failed — or the writer made the request fail: `propagates` is the regenerated fact "a read error
    closes the pipe WITH the error" (false on the pinned tree: the pipe is always closed normally). -/
def httpStored (continueAfterError propagates : Bool) (transportOK : Bool) (outs : List (List Src)) : Option (List Tok) :=
  let r := httpWrite continueAfterError ⟨[], false⟩ outs
  if !transportOK then none
  else if propagates && r.2 then none
  else some r.1.toks

/-- A later `Retrieve`: 404 → miss; a body cut by the transport → gzip/tar error → miss; else `readTar`. -/
def httpRetrieve (stored : Option (List Tok)) (bodyIntact : Bool) : Res :=
  match stored with
  | none => .miss
  | some ts => if bodyIntact then readToks ts else .miss

/-! ## Command cache -/

/-- How the user's store command treats its input. -/
inductive CmdKind
  | naive      -- `cat > $CACHE_KEY`: whatever arrived stays under the key
  | atomic     -- `cat > tmp && mv tmp $CACHE_KEY`: committed only if the shell runs to the end
  deriving DecidableEq, Repr

/-- What can be left under the key.  After a read fault the writer calls `cancel()` — the command is killed
    asynchronously — and THEN closes its pipe, so the command may see end-of-input before the kill lands.
    * `naive`: whatever got through stays: `arrived` tokens of the stream, the last possibly cut (`cutLast`);
    * `atomic`: nothing if the kill won (`killWon`); otherwise the command ran to its end on a cleanly closed input and
      committed everything the writer had produced — an archive that stops at the failed output.
    (Observed on the pinned tree: the kill wins on an idle machine; under load it loses now and then.) -/
def cmdStored (k : CmdKind) (outs : List (List Src)) (arrived : Nat) (cutLast : Bool) (killWon : Bool) :
    Option (List Tok) :=
  let r := cmdWrite ⟨[], false⟩ outs
  if r.2 then
    match k with
    | .atomic => if killWon then none else some r.1.toks
    | .naive =>
      let ts := r.1.toks.take arrived
      some (if cutLast then
        match ts.reverse with
        | [] => []
        | t :: rest => (⟨t.ent, false⟩ :: rest).reverse
      else ts)
  else some r.1.toks

/-- `Retrieve`: `tarOk && commandExitedZero`. -/
def cmdRetrieve (stored : Option (List Tok)) (commandOK : Bool) : Res :=
  match stored with
  | none => .miss                       -- `cat` of a missing file fails
  | some ts => if commandOK then readToks ts else .miss

end PlzVerif.RemoteCache
