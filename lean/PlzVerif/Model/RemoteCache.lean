/-
Model of the HTTP and command caches' Store / Retrieve (src/cache/http_cache.go, cmd_cache.go) at the level of
tar ENTRIES.  Core Lean only.

A store turns the walked outputs into a stream of entries.  An output can fail in two ways (`storeFile`):
* `vanished`   — `os.Lstat` fails: nothing is written for it;
* `unreadable` — `Lstat` and the header succeed, `os.Open` (or the copy) fails: the header promises more bytes than
                 follow.  From then on `tar.Writer` refuses every further header ("missed writing N bytes") and its
                 `Close` writes no end marker.  (A zero-length file has nothing missing: its entry is complete.)
`fs.Walk` stops at the first error inside one output.

What the tar reader (`readTar`) makes of a stream: it restores entry after entry; an entry with a short body is an
error (a miss); tar's end marker is the end of the archive (a hit).  When the input ends at an entry boundary WITHOUT
the marker, it depends on how the input ends: a real end-of-input (the HTTP body, through gzip) is also taken for the
end of the archive; the command cache never sees a real end-of-input — nobody closes the write end of its pipe, and
`Retrieve` closes the READ end once the command has exited — so there the next read fails (`ErrClosedPipe`): a miss.
gzip / the tar byte format are not modelled.
-/
namespace PlzVerif.RemoteCache

abbrev Bytes := List Nat

structure Ent where
  name : Bytes
  kind : Nat          -- 0 regular file, 1 directory, 2 symlink
  data : Bytes        -- content / link target
  deriving DecidableEq, Repr

/-- One walked item of an output. -/
inductive Src
  | ok (e : Ent)
  | vanished (e : Ent)        -- `e`: what should have been there
  | unreadable (e : Ent)
  deriving DecidableEq, Repr

def Src.faulty : Src → Bool
  | .ok _ => false
  | _ => true

/-- An entry as it sits in a stream: `full = false` when fewer body bytes follow than the header says. -/
structure Tok where
  ent : Ent
  full : Bool
  deriving DecidableEq, Repr

/-- The tar writer while a store runs. -/
structure W where
  toks : List Tok
  broken : Bool       -- a short body has been written: nothing more goes out, no end marker
  deriving DecidableEq, Repr

/-- `storeFile` for one walked item.  Returns the writer and whether an error came back. -/
def storeItem (w : W) : Src → W × Bool
  | .ok e => if w.broken then (w, true) else ({ w with toks := w.toks ++ [⟨e, true⟩] }, false)
  | .vanished _ => (w, true)
  | .unreadable e =>
    if w.broken then (w, true)
    else if e.data.isEmpty then ({ w with toks := w.toks ++ [⟨e, true⟩] }, true)
    else ({ toks := w.toks ++ [⟨e, false⟩], broken := true }, true)

/-- `fs.Walk` over one output: stops at the first error. -/
def walkOut (w : W) : List Src → W × Bool
  | [] => (w, false)
  | s :: rest =>
    let r := storeItem w s
    if r.2 then r else walkOut r.1 rest

/-- `httpCache.write`: an error is only logged, the next output is walked (`continueAfterError`, a regenerated
    fact; with `false` the writer would stop, as the command cache's does). -/
def httpWrite (continueAfterError : Bool) (w : W) : List (List Src) → W × Bool
  | [] => (w, false)
  | o :: os =>
    let r := walkOut w o
    if r.2 then
      if continueAfterError then
        let r' := httpWrite continueAfterError r.1 os
        (r'.1, true)
      else (r.1, true)
    else httpWrite continueAfterError r.1 os

/-- `write` of the command cache: the first error cancels the command and returns. -/
def cmdWrite (w : W) (outs : List (List Src)) : W × Bool := httpWrite false w outs

inductive Res
  | miss
  | hit (restored : List Ent)
  deriving DecidableEq, Repr

/-- `readTar` over the entries that arrive. -/
def readToks (ts : List Tok) : Res :=
  if ts.all (·.full) then .hit (ts.map (·.ent)) else .miss

/-- Everything the outputs hold when nothing fails. -/
def Src.ent : Src → Ent
  | .ok e => e
  | .vanished e => e
  | .unreadable e => e

def allEnts (outs : List (List Src)) : List Ent := outs.flatMap fun o => o.map Src.ent

def anyFault (outs : List (List Src)) : Bool := outs.any (·.any Src.faulty)

/-! ## HTTP cache -/

/-- What the server holds after `Store`.  A server that commits complete requests commits this one unless the
    transport failed — or the writer made the request fail: `propagates` is the regenerated fact "a read error
    closes the pipe WITH the error" (false on the pinned tree: the pipe is always closed normally). -/
def httpStored (continueAfterError propagates : Bool) (transportOK : Bool) (outs : List (List Src)) : Option (List Tok) :=
  let r := httpWrite continueAfterError ⟨[], false⟩ outs
  if !transportOK then none
  else if propagates && r.2 then none
  else some r.1.toks

/-- A later `Retrieve`: 404 → miss; a body cut by the transport → gzip/tar error → miss; else `readTar`. -/
def httpRetrieve (stored : Option (List Tok)) (bodyIntact : Bool) : Res :=
  match stored with
  | none => .miss
  | some ts => if bodyIntact then readToks ts else .miss

/-! ## Command cache -/

/-- How the user's store command treats its input. -/
inductive CmdKind
  | naive      -- `cat > $CACHE_KEY`: whatever arrived stays under the key
  | atomic     -- `cat > tmp && mv tmp $CACHE_KEY`: committed only if the shell runs to the end
  deriving DecidableEq, Repr

/-- What sits under a command cache's key: the entries and whether tar's end marker follows them. -/
structure Stored where
  toks : List Tok
  marker : Bool
  deriving DecidableEq, Repr

/-- What can be left under the key.
    The store goes wrong in two ways: a read fault — the writer calls `cancel()` (the command is killed asynchronously)
    and returns; the pipe is closed (end-of-input), and IF `tw.Close()` is deferred (`finishOnError`) the archive is
    FINISHED first: end marker (unless the writer is stuck on a short body) — or the command fails by itself (`cmdFailed`: it stops reading, exits
    non-zero).
    * `naive`: whatever got through stays: `arrived` tokens of the stream, the last possibly cut (`cutLast`), and the
      end marker if it got through as well (`markerArrived`; only possible behind the complete stream);
    * `atomic`: a command that failed by itself commits nothing; after a read fault nothing if the kill won
      (`killWon`), otherwise the command ran to its end on a cleanly finished input and committed everything the
      writer had produced — an archive that stops at the failed output.
    (Observed on the pinned tree: for a commit-on-success command the kill wins on an idle machine and loses now and
    then under load; `cat > $KEY` receives the finished archive every time once the data exceeds the pipe buffer.) -/
def cmdStored (finishOnError : Bool) (k : CmdKind) (outs : List (List Src)) (cmdFailed : Bool) (arrived : Nat)
    (cutLast markerArrived : Bool) (killWon : Bool) : Option Stored :=
  let r := cmdWrite ⟨[], false⟩ outs
  -- `finishOnError`: regenerated fact "tar's Close is deferred", i.e. the end marker is written even after a read fault
  let finished : Stored := ⟨r.1.toks, !r.1.broken && (finishOnError || !r.2)⟩
  if r.2 || cmdFailed then
    match k with
    | .atomic => if cmdFailed || killWon then none else some finished
    | .naive =>
      let ts := r.1.toks.take arrived
      if cutLast then
        some ⟨(match ts.reverse with
          | [] => []
          | t :: rest => (⟨t.ent, false⟩ :: rest).reverse), false⟩
      else some ⟨ts, markerArrived && decide (r.1.toks.length ≤ arrived) && finished.marker⟩
  else some finished

/-- `Retrieve`: `tarOk && commandExitedZero`, where the tar reader needs the end marker (see the header). -/
def cmdRetrieve (stored : Option Stored) (commandOK : Bool) : Res :=
  match stored with
  | none => .miss                       -- `cat` of a missing file fails
  | some st => if commandOK && st.marker then readToks st.toks else .miss

end PlzVerif.RemoteCache
