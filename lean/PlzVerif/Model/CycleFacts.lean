import PlzVerif.Model.Cycle
import PlzVerif.Generated.C06
/-! The `Cfg` of the cycle-detector model as regenerated from /repo's `visit` on this run. -/
namespace PlzVerif.Cycle
open PlzVerif.Generated

def genCfg : Cfg where
  completeFirst := C06.completeFirst
  closeLast := C06.closeLast
  closeUsesDone := C06.closeUsesDone
  closeRet := C06.closeRet
  prepend := C06.prepend
  extRet := C06.extRet
  topSkip := C06.topSkip

/-- the accessor `visit` iterates, as read from the source on this run (anything unknown counts as the build subset, so
that the facts theorem fails rather than silently assuming the full relation) -/
def genAccessor : Accessor := if C06.loopMethod == "Dependencies" then .all else .build

/-- which sets persist in the detector between two `Check()` calls, as read from the source on this run -/
def genPersist : Persist := ⟨C06.persistPost, C06.persistPre⟩

end PlzVerif.Cycle
