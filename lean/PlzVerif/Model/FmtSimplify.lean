/-!
Model of please's own formatting step `simplify` (src/format/fmt.go:90): consecutive `subinclude(...)` calls
whose arguments are all string literals are merged into one call.  Core Lean only.

A top-level statement is either such a subinclude (its label list) or anything else (an opaque id; this
includes subinclude calls with a non-string argument, for which `subinclude()` in fmt.go returns nil).
-/
namespace PlzVerif.FmtSimplify

inductive Stmt where
  | sub (labels : List String)
  | other (id : Nat)
  deriving DecidableEq, Repr

/-- One iteration of the Go loop at index `i`:
    `if call := subinclude(f.Stmt[i]); call != nil { if next := subinclude(f.Stmt[i+1]); next != nil {
       call.List = append(call.List, next.List...); f.Stmt = slices.Delete(f.Stmt, i+1, i+2) } }` -/
def mergeAt : Nat → List Stmt → List Stmt
  | 0, .sub a :: .sub b :: r => .sub (a ++ b) :: r
  | 0, s => s
  | i + 1, x :: r => x :: mergeAt i r
  | _ + 1, [] => []

/-- `for i := k - 1; i >= 0; i-- { … }` -/
def loop : Nat → List Stmt → List Stmt
  | 0, s => s
  | k + 1, s => loop k (mergeAt k s)

/-- The Go function as written: `for i := len(f.Stmt) - 2; i >= 0; i--`. -/
def simplifyLoop (s : List Stmt) : List Stmt := loop (s.length - 1) s

/-- The same function by structural recursion (merge from the right); `simplifyLoop_eq` ties the two. -/
def simplify : List Stmt → List Stmt
  | [] => []
  | x :: rest =>
    match x, simplify rest with
    | .sub a, .sub b :: r => .sub (a ++ b) :: r
    | x, r => x :: r

/-- Meaning of a statement list, for any interpretation of "include one label" and of the other
    statements: `subinclude(a, b)` includes `a`, then `b`. -/
def exec {σ : Type} (incl : σ → String → σ) (run : Nat → σ → σ) : List Stmt → σ → σ
  | [], st => st
  | .sub ls :: rest, st => exec incl run rest (ls.foldl incl st)
  | .other k :: rest, st => exec incl run rest (run k st)

/-- The label sequence with the other statements as barriers. -/
def flatten : List Stmt → List (Sum String Nat)
  | [] => []
  | .sub ls :: rest => ls.map Sum.inl ++ flatten rest
  | .other k :: rest => Sum.inr k :: flatten rest

/-- No two mergeable subincludes are adjacent. -/
def NoAdjacent : List Stmt → Prop
  | .sub _ :: .sub _ :: _ => False
  | _ :: r => NoAdjacent r
  | [] => True

end PlzVerif.FmtSimplify
