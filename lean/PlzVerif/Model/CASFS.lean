import PlzVerif.Model.Cmd
/-
Model of the CAS-backed `io/fs` view, `src/remote/fs/fs.go` + `info.go`.

A REAPI `Tree` (root `Directory` + children addressed by digest) is modelled as the nested tree it denotes;
every `Directory` keeps its three lists in proto order (`directories`, `files`, `symlinks`).  Paths are
`List Char`; `filepath.Join/Clean/Dir` come from `Model/Cmd.lean`.

`openAt` recurses on symlinks exactly as `CASFileSystem.open` does, with explicit fuel; `openWith` adds the
depth limit read from the code (fact `openDepthLimit`): without one, running out of fuel is the model's image
of an unbounded recursion (a fatal stack overflow in Go); with one, it is the clean "too many levels" error.

`readDir` is the listing as a function of the directory alone (a handle without a read offset);
`readDirStep`/`readDirCall` model a handle that keeps one.  Which of the two the code has is the regenerated fact
`readDirHasOffset`.

`New` cleans the working directory, `ChangeDir` stores it raw (`statCD`/`openCD`): they differ for the empty
working directory only (`Join("", "") = ""` is not found, `Join(".", "") = "."` is the root).

Not modelled: blob download errors other than "missing", mtime, a `Tree` whose children do not contain a
referenced digest (nil dereference in Go), `FindNode` on foreign `fs.FS` values.
-/
namespace PlzVerif.CASFS
open PlzVerif.Cmd (Str pathClean pathJoin splitOnChar hasPrefix)

structure FileN where
  name : Str
  blob : Nat        -- identifies the content (digest)
  size : Nat
  perm : Nat        -- NodeProperties.UnixMode (0 when absent)
deriving DecidableEq, Repr

structure LinkN where
  name : Str
  target : Str
  perm : Nat
deriving DecidableEq, Repr

inductive Dir where
  | mk (dirs : List (Str × Dir)) (files : List FileN) (links : List LinkN) (perm : Nat)
deriving Repr

def Dir.dirs : Dir → List (Str × Dir) | .mk d _ _ _ => d
def Dir.files : Dir → List FileN | .mk _ f _ _ => f
def Dir.links : Dir → List LinkN | .mk _ _ l _ => l
def Dir.perm : Dir → Nat | .mk _ _ _ p => p

inductive Node where
  | file (f : FileN)
  | dir (name : Str) (d : Dir)
  | link (l : LinkN)
deriving Repr

/-- `filepath.Dir`. -/
def pathDir (p : Str) : Str := pathClean (p.reverse.dropWhile (· ≠ '/')).reverse

/-- `rest == ""` after `strings.Cut(name, "/")`, on the list of components that follow. -/
def restEmpty (tail : List Str) : Bool := tail = [] || tail = [[]]

/-- `findNode(wd, name)` (fs.go:155-203) on the `/`-separated components of `name`.  `none` = `os.ErrNotExist`. -/
def findNode : Dir → List Str → Option Node
  | _, [] => none
  | wd, name :: tail =>
    if name = ['.'] then
      if !restEmpty tail then findNode wd tail else some (.dir ['.'] wd)
    else if name = ['.', '.'] then none
    else
      match wd.dirs.find? (fun e => e.1 = name) with
      | some (_, sub) => if restEmpty tail then some (.dir name sub) else findNode sub tail
      | none =>
        if tail ≠ [] then none       -- hasToBeDir
        else
          match wd.files.find? (fun f => f.name = name) with
          | some f => some (.file f)
          | none =>
            match wd.links.find? (fun l => l.name = name) with
            | some l => some (.link l)
            | none => none

def comps (p : Str) : List Str := splitOnChar '/' p

/-- What `Stat`/`Info` report: name, kind (0 file, 1 dir, 2 symlink), size, permission bits. -/
structure Info where
  name : Str
  kind : Nat
  size : Nat
  perm : Nat
deriving DecidableEq, Repr

def fileInfo (f : FileN) : Info := ⟨f.name, 0, f.size, f.perm⟩
def dirInfo (name : Str) (d : Dir) : Info := ⟨name, 1, 0, d.perm⟩
def linkInfo (l : LinkN) : Info := ⟨l.name, 2, 0, l.perm⟩

def Node.info : Node → Info
  | .file f => fileInfo f
  | .dir n d => dirInfo n d
  | .link l => linkInfo l

/-- `Stat(name)` with working directory `wd`. -/
def stat (root : Dir) (wd name : Str) : Option Info :=
  (findNode root (comps (pathJoin [pathClean wd, name]))).map Node.info

inductive OpenRes where
  | file (f : FileN)
  | dir (name : Str) (d : Dir)
  | notExist
  | absLink
  | tooManyLinks        -- the clean error of the depth limit
  | outOfFuel
deriving Repr

/-- `open(name)` (fs.go:110-130). -/
def openAt (root : Dir) : Nat → Str → OpenRes
  | 0, _ => .outOfFuel
  | fuel + 1, path =>
    match findNode root (comps path) with
    | none => .notExist
    | some (.link l) =>
      if hasPrefix l.target ['/'] then .absLink
      else openAt root fuel (pathJoin [pathDir path, l.target])
    | some (.file f) => .file f
    | some (.dir n d) => .dir n d

/-- `open(name, 0)` with the regenerated depth limit: `none` = the recursion is unbounded (fuel decides, and
    running out of it is the stack overflow); `some l` = `if depth > l { return error }`, i.e. `l + 1` lookups
    are made and the next one is refused with a clean error. -/
def openWith (limit : Option Nat) (root : Dir) (fuel : Nat) (path : Str) : OpenRes :=
  match limit with
  | none => openAt root fuel path
  | some l =>
    match openAt root (l + 1) path with
    | .outOfFuel => .tooManyLinks
    | r => r

/-- `Open(name)`. -/
def openFS (root : Dir) (fuel : Nat) (wd name : Str) : OpenRes := openAt root fuel (pathJoin [pathClean wd, name])

/-- `ChangeDir(path)` keeps the working directory exactly as given (`New` cleans it): `Stat`/`FindNode` and
    `Open` on such a view. -/
def statCD (root : Dir) (wd name : Str) : Option Info :=
  (findNode root (comps (pathJoin [wd, name]))).map Node.info

def openCD (root : Dir) (fuel : Nat) (wd name : Str) : OpenRes := openAt root fuel (pathJoin [wd, name])

/-- The entries of a directory in the order `ReadDir` produces them. -/
def entries (d : Dir) : List Info :=
  d.dirs.map (fun e => dirInfo e.1 e.2) ++ d.files.map fileInfo ++ d.links.map linkInfo

/-- `(*dir).ReadDir(n)` (fs.go:225-252): no state, never an error. -/
def readDir (d : Dir) (n : Int) : List Info :=
  if n ≤ 0 then entries d else (entries d).take n.toNat

/-- One `ReadDir(n)` on a directory handle that keeps a read offset (the repaired code): the result, whether
    it is `io.EOF`, and the new offset.  `n ≤ 0`: everything not yet returned, never an error. -/
def readDirStep (all : List Info) (off : Nat) (n : Int) : (List Info × Bool) × Nat :=
  let rest := all.drop off
  if n ≤ 0 then ((rest, false), all.length)
  else if rest.isEmpty then (([], true), off)
  else ((rest.take n.toNat, false), off + min n.toNat rest.length)

/-- The offset before the `k`-th of successive calls `ReadDir(n)`. -/
def rdOffset (all : List Info) (n : Int) : Nat → Nat
  | 0 => 0
  | k + 1 => (readDirStep all (rdOffset all n k) n).2

/-- The `k`-th of successive calls, according to the regenerated fact "the handle keeps an offset". -/
def readDirCall (hasOffset : Bool) (d : Dir) (n : Int) (k : Nat) : List Info × Bool :=
  if hasOffset then (readDirStep (entries d) (rdOffset (entries d) n k) n).1 else (readDir d n, false)

/-- What `io/fs.ReadDirFile` demands of the `k`-th of successive calls `ReadDir(n)`, `n > 0`: the next chunk
    of at most `n` entries and no error, or, once everything has been returned, nothing and `io.EOF`. -/
def readDirSpec (all : List Info) (n : Nat) (k : Nat) : List Info × Bool :=
  let chunk := (all.drop (k * n)).take n
  (chunk, chunk.isEmpty)

end PlzVerif.CASFS
