import PlzVerif.Model.AspFacts
import PlzVerif.Generated.C16
import PlzVerif.Generated.C18
/-
The asp model instantiated at the facts read from /repo on this run (`Generated/C16.lean`, or the committed
`Expected/C16.lean` when the extractor cannot read the source).  Shared by the C16–C18 property files and drivers.
-/
namespace PlzVerif.Asp
open PlzVerif.Generated

def genRaw : RawFacts :=
  { precTable := C16.precTable, precDefault := C16.precDefault, lazyOps := C16.lazyOps,
    operators := C16.operators, intOps := C16.intOps,
    listAddAppendsToReceiver := C16.listAddAppendsToReceiver, listAddClips := C16.listAddClips,
    freezeWraps := C16.freezeWraps,
    sortedArg := C16.sortedArg, reversedArg := C16.reversedArg,
    constantFoldsLists := C16.constantFoldsLists, listSlice := C16.listSlice,
    natives := C18.natives, equalVia := C18.equalVia,
    listAddAcceptsFrozen := C18.listAddAcceptsFrozen, listAddFrozenClipsResult := C18.listAddFrozenClipsResult, frozenListEmbedsList := C18.frozenListEmbedsList,
    frozenListMethods := C18.frozenListMethods,
    sortedReverse := C16.sortedReverse, sortedSortFns := C16.sortedSortFns,
    opsCompare := C16.opsCompare, opsRestCalls := C16.opsRestCalls, opsRecheck := C16.opsRecheck }

/-- The asp model at the regenerated facts. -/
def genF : Facts := factsOf genRaw

end PlzVerif.Asp
