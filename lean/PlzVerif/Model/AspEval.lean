import PlzVerif.Model.AspOps
/-
Executable model of the asp interpreter (src/parse/asp/interpreter.go, objects.go, builtins.go) on the core
of the BUILD language, transcribed **as the code is**:

* lists are Go slices `(array, offset, len, cap)` over heap arrays — slicing aliases, `+` is
  `slices.Clip(append(l, l2...))` and writes into spare capacity, `sorted`/`reversed` work in place on `l[:]`;
* dicts are heap maps (association lists; every observable iteration goes through the sorted `Keys()`);
* integers are Go `int` (64-bit wrap-around, truncated `/` and `%`, `//` through float64 floor);
* expressions are a head value and a flat operator list run through `interpretOps` (Model/AspOps.lean);
* the optimiser's constant pool (`optimiseExpressions`/`Constant`, interpreter.go:271,1052) makes a constant list
  literal one shared object in files that go through `parseSubinclude` (mode `opt`);
* `Freeze` as written (objects.go:430): the deep-frozen copy is computed and dropped, the wrapper keeps the
  original elements.

Everything is total: recursion is on a fuel argument; running out of fuel is the error "fuel".
Core Lean only.
-/
namespace PlzVerif.Asp

/-- Facts about the Go source that the extractor regenerates (harness/extract/c16). -/
structure Facts where
  /-- `Operator.Precedence()` -/
  prec : Op → Int
  /-- `pyInt.Operator`, operand `pyInt`: the Go expression behind each operator ("+", "-", "*", "/", "%",
      "floor(float/float)", "<", ...; "" when the switch has no case for it) -/
  intKind : BinOp → String
  /-- `sorted` sorts `l[:]` (the argument's own backing array) -/
  sortedInPlace : Bool
  /-- `reversed` reverses `l[:]` -/
  reversedInPlace : Bool
  /-- `Constant()` folds list literals whose elements are constant -/
  constLists : Bool
  /-- `pyList.Freeze` returns a wrapper around the original (unfrozen) elements -/
  freezeKeepsElems : Bool
  /-- list `+` is `slices.Clip(append(l, l2...))` (no copy of `l` when capacity allows) -/
  addAppends : Bool
  /-- `interpretSlice` returns `t[start:end]` (shares the backing array) -/
  sliceShares : Bool
  /-- does the native builtin of this name accept a frozen list where it takes a list?  (false when its Go
      function asserts `.(pyList)` and never mentions `pyFrozenList` — regenerated, harness/extract/c18) -/
  frozenOK : String → Bool
  /-- list `+` accepts a frozen list as its right operand (`pyList.Operator`, case Add: a branch on
      `operand.(pyFrozenList)`; without it the sum fails with "Cannot add list and list") -/
  addAcceptsFrozen : Bool := true
  /-- in that branch the RESULT is clipped (`slices.Clip(append(l, l2.pyList...))`): the sum has no spare capacity.
      `false`: `append(slices.Clip(l), l2.pyList...)` — a fresh array, but with the capacity Go's `append` gives it -/
  addFrozenClipsResult : Bool := true
  /-- `sorted(reverse=True)` sorts ascending and then reverses the result (`slices.Reverse`), instead of sorting with
      the flipped comparison: tied elements then come out in reversed original order -/
  sortedRevAfter : Bool := false
  /-- `sorted` uses a stable sort function (`sort.SliceStable`, `slices.SortStableFunc`); with `sort.Slice` the order
      of tied elements is the original one only up to 12 elements (insertion sort), unspecified beyond -/
  sortedStable : Bool := false

inductive Val
  | int (n : Int)
  | str (s : String)
  | bool (b : Bool)
  | none
  | list (fz : Bool) (arr off len cap : Nat)
  | dict (fz : Bool) (id : Nat)
  | func (id : Nat)
  | range (a b c : Int)
  deriving DecidableEq, Repr, Inhabited

structure Scope where
  parent : Option Nat
  vars : List (String × Val)
  deriving Repr, Inhabited

inductive Default
  | required
  | const (v : Val)
  | expr (e : Expr)
  deriving Repr, Inhabited

structure Func where
  name : String
  params : List (String × Default)
  body : List Stmt
  scope : Nat
  /-- the defining file went through the optimiser (its statements are the optimised ones whoever calls) -/
  opt : Bool := false
  deriving Repr, Inhabited

structure St where
  arrays : List (List Val) := [[]]      -- array 0 is the backing store of `emptyList`
  dicts : List (List (String × Val)) := []
  funcs : List Func := []
  scopes : List Scope := []
  pool : List (Nat × Val) := []
  /-- files that `subinclude()` can name: label ↦ statements (C17/C18) -/
  files : List (String × Program) := []
  /-- `interpreter.subincludes`: label ↦ the frozen scope of the file, interpreted once -/
  subs : List (String × Nat) := []
  deriving Repr, Inhabited

abbrev EM := StateT St (Except String)

inductive Flow
  | normal
  | ret (v : Val)
  | brk
  | cont
  deriving Repr, Inhabited

/-! ### Heap primitives -/

def fail {α : Type} (msg : String) : EM α := throw msg

def wrap64 (n : Int) : Int :=
  let m := n % 18446744073709551616
  if m ≥ 9223372036854775808 then m - 18446744073709551616 else m

def allocArr (vs : List Val) : EM Nat := do
  let st ← get
  set { st with arrays := st.arrays ++ [vs] }
  pure st.arrays.length

def getArr (a : Nat) : EM (List Val) := do
  match (← get).arrays[a]? with
  | some l => pure l
  | none => fail "model: bad array"

def setArr (a : Nat) (l : List Val) : EM Unit :=
  modify fun st => { st with arrays := st.arrays.set a l }

def allocDict (kvs : List (String × Val)) : EM Nat := do
  let st ← get
  set { st with dicts := st.dicts ++ [kvs] }
  pure st.dicts.length

def getDict (d : Nat) : EM (List (String × Val)) := do
  match (← get).dicts[d]? with
  | some l => pure l
  | none => fail "model: bad dict"

def setDict (d : Nat) (l : List (String × Val)) : EM Unit :=
  modify fun st => { st with dicts := st.dicts.set d l }

/-- A fresh list value holding `vs` (`make(pyList, n)` filled in: cap = len). -/
def mkList (vs : List Val) : EM Val := do
  let a ← allocArr vs
  pure (.list false a 0 vs.length vs.length)

def emptyList : Val := .list false 0 0 0 0

/-- The elements visible through a slice header. -/
def elems (arr off len : Nat) : EM (List Val) := do
  pure (((← getArr arr).drop off).take len)

def writeAt (arr i : Nat) (v : Val) : EM Unit := do
  let l ← getArr arr
  if i < l.length then setArr arr (l.set i v) else fail "model: write outside array"

def writeMany (arr i : Nat) : List Val → EM Unit
  | [] => pure ()
  | v :: vs => do writeAt arr i v; writeMany arr (i + 1) vs

def dictGet (kvs : List (String × Val)) (k : String) : Option Val := (kvs.find? (·.1 == k)).map (·.2)

def dictPut (kvs : List (String × Val)) (k : String) (v : Val) : List (String × Val) :=
  if kvs.any (·.1 == k) then kvs.map (fun e => if e.1 == k then (k, v) else e) else kvs ++ [(k, v)]

def insertSorted (k : String) : List String → List String
  | [] => [k]
  | x :: xs => if k < x then k :: x :: xs else x :: insertSorted k xs

/-- `pyDict.Keys()`: sorted. -/
def sortedKeys (kvs : List (String × Val)) : List String := kvs.foldr (fun e acc => insertSorted e.1 acc) []

/-! ### Scopes -/

def newScope (parent : Option Nat) : EM Nat := do
  let st ← get
  set { st with scopes := st.scopes ++ [({ parent := parent, vars := [] } : Scope)] }
  pure st.scopes.length

def lookupIn (scopes : List Scope) : Nat → Nat → String → Option Val
  | 0, _, _ => none
  | f + 1, sc, x =>
    match scopes[sc]? with
    | none => none
    | some s =>
      match dictGet s.vars x with
      | some v => some v
      | none => match s.parent with
        | some p => lookupIn scopes f p x
        | none => none

/-- `scope.Lookup`: walk the parent chain. -/
def lookup (sc : Nat) (x : String) : EM Val := do
  let st ← get
  match lookupIn st.scopes (st.scopes.length + 1) sc x with
  | some v => pure v
  | none => fail s!"name '{x}' is not defined"

def localLookup (sc : Nat) (x : String) : EM (Option Val) := do
  match (← get).scopes[sc]? with
  | some s => pure (dictGet s.vars x)
  | none => fail "model: bad scope"

/-- `scope.Set`: always the local scope. -/
def setVar (sc : Nat) (x : String) (v : Val) : EM Unit := do
  let st ← get
  match st.scopes[sc]? with
  | some s => set { st with scopes := st.scopes.set sc { s with vars := dictPut s.vars x v } }
  | none => fail "model: bad scope"

/-! ### Values -/

def typeName : Val → String
  | .int _ => "int" | .str _ => "str" | .bool _ => "bool" | .none => "none"
  | .list .. => "list" | .dict .. => "dict" | .func _ => "function" | .range .. => "range"

/-- `IsTruthy()` -/
def truthy : Val → Bool
  | .int n => n != 0
  | .str s => s != ""
  | .bool b => b
  | .none => false
  | .list _ _ _ len _ => len > 0
  | .dict .. => true        -- refined by `truthyM` (needs the heap)
  | .func _ => true
  | .range .. => true

def truthyM (v : Val) : EM Bool :=
  match v with
  | .dict _ d => do pure ((← getDict d).length > 0)
  | v => pure (truthy v)

/-- `pyIndex(obj, index, slice)` with `l = objLen(obj)`. -/
def pyIndex (l : Int) (idx : Val) (slice : Bool) : EM Int :=
  match idx with
  | .int i =>
    if i < 0 then pure (l + i)
    else if i > l then (if slice then pure l else fail "index out of range")
    else pure i
  | _ => fail "indices must be integers"

/-- Go interface `==` as used by `pyList.Operator(In)`: comparable dynamic types only. -/
def ifaceEq (a b : Val) : EM Bool :=
  match a, b with
  | .int x, .int y => pure (x == y)
  | .str x, .str y => pure (x == y)
  | .bool x, .bool y => pure (x == y)
  | .none, .none => pure true
  | .func x, .func y => pure (x == y)
  | .list f1 .., .list f2 .. => if f1 == f2 then fail "comparing uncomparable type pyList" else pure false
  | .dict f1 _, .dict f2 _ => if f1 == f2 then fail "comparing uncomparable type pyDict" else pure false
  | .range .., .range .. => fail "model: range identity"
  | _, _ => pure false

def cmpStr (a b : String) : Ordering := compare a b

mutual
  /-- `reflect.DeepEqual` on interpreter values (fuel bounds the depth). -/
  def deepEq : Nat → Val → Val → EM Bool
    | 0, _, _ => fail "fuel"
    | f + 1, a, b =>
      match a, b with
      | .int x, .int y => pure (x == y)
      | .str x, .str y => pure (x == y)
      | .bool x, .bool y => pure (x == y)
      | .none, .none => pure true
      | .range a1 b1 c1, .range a2 b2 c2 => pure (a1 == a2 && b1 == b2 && c1 == c2)
      | .func x, .func y => if x == y then pure true else fail "model: DeepEqual on functions"
      | .list f1 a1 o1 l1 _, .list f2 a2 o2 l2 _ =>
        if f1 != f2 then pure false        -- pyList vs pyFrozenList: different Go types
        else if l1 != l2 then pure false
        else if l1 == 0 then pure true
        else if a1 == a2 && o1 == o2 then pure true   -- same first element address
        else do
          let xs ← elems a1 o1 l1
          let ys ← elems a2 o2 l2
          deepEqList f xs ys
      | .dict f1 d1, .dict f2 d2 =>
        if f1 != f2 then pure false
        else if d1 == d2 then pure true
        else do
          let m1 ← getDict d1
          let m2 ← getDict d2
          if m1.length != m2.length then pure false
          else deepEqDict f m1 m2
      | _, _ => pure false
  def deepEqList : Nat → List Val → List Val → EM Bool
    | 0, _, _ => fail "fuel"
    | f + 1, x :: xs, y :: ys => do if ← deepEq f x y then deepEqList f xs ys else pure false
    | _ + 1, _, _ => pure true
  def deepEqDict : Nat → List (String × Val) → List (String × Val) → EM Bool
    | 0, _, _ => fail "fuel"
    | _ + 1, [], _ => pure true
    | f + 1, (k, v) :: r, m2 =>
      match dictGet m2 k with
      | none => pure false
      | some w => do if ← deepEq f v w then deepEqDict f r m2 else pure false
end

/-! ### Operators (objects.go) -/

/-! #### `int(math.Floor(float64(i) / float64(o)))`, exactly

The float64 detour of `//` (objects.go, `case FloorDivide` before the repair) in integer arithmetic: conversion of
both operands to the nearest double (ties to even), a correctly rounded division, `math.Floor`, and the amd64
conversion back (NaN, ±Inf and anything outside int64 give the "integer indefinite" value -2^63). -/

/-- Nearest float64 to the positive rational `p / q` (`p, q > 0`), ties to even, as `(m, e)` meaning `m · 2^e` with
    `2^52 ≤ m ≤ 2^53`.  No subnormals, no overflow: quotients of int64 magnitudes lie in `[2^-63, 2^63]`. -/
def f64RoundPos (p q : Nat) : Nat × Int :=
  let k : Int := (Nat.log2 p : Int) - (Nat.log2 q : Int)
  let scaled (e : Int) : Nat × Nat := if e ≥ 0 then (p, q * 2 ^ e.toNat) else (p * 2 ^ (-e).toNat, q)
  let e1 := k - 52
  let (n1, d1) := scaled e1
  let e := if n1 / d1 < 2 ^ 52 then e1 - 1 else e1
  let (n, d) := scaled e
  let m0 := n / d
  let r := n % d
  let m := if 2 * r > d ∨ (2 * r = d ∧ m0 % 2 = 1) then m0 + 1 else m0
  (m, e)

/-- ⌊m · 2^e⌋ -/
def f64FloorPos (m : Nat) (e : Int) : Nat := if e ≥ 0 then m * 2 ^ e.toNat else m / 2 ^ (-e).toNat
/-- ⌈m · 2^e⌉ -/
def f64CeilPos (m : Nat) (e : Int) : Nat :=
  if e ≥ 0 then m * 2 ^ e.toNat else (m + 2 ^ (-e).toNat - 1) / 2 ^ (-e).toNat

/-- `float64(n)` for a positive integer magnitude. -/
def f64OfNat (n : Nat) : Nat × Int := if n = 0 then (0, 0) else f64RoundPos n 1

def intFloorDiv (i o : Int) : Int :=
  let indefinite : Int := -9223372036854775808
  if o == 0 then indefinite
  else if i == 0 then 0
  else
    let (mi, ei) := f64OfNat i.natAbs
    let (mo, eo) := f64OfNat o.natAbs
    -- quotient of the two doubles, (mi / mo) · 2^(ei - eo), rounded to the nearest double
    let de := ei - eo
    let (p, q) : Nat × Nat := if de ≥ 0 then (mi * 2 ^ de.toNat, mo) else (mi, mo * 2 ^ (-de).toNat)
    let (m, e) := f64RoundPos p q
    let neg := (decide (i < 0)) != (decide (o < 0))
    let r : Int := if neg then -(f64CeilPos m e : Int) else (f64FloorPos m e : Int)
    if r ≥ 9223372036854775808 ∨ r < -9223372036854775808 then indefinite else r

/-- The Go function `floorMod` (objects.go, after the repair of `%`): Go's remainder, moved to the divisor's sign. -/
def goFloorMod (i o : Int) : Int :=
  let m := Int.tmod i o
  if m != 0 && (decide (m < 0) != decide (o < 0)) then m + o else m

/-- The Go function `floorDiv` (objects.go, after the repair of `//`): Go's quotient, one less when the division is
    inexact and the signs differ. -/
def goFloorDiv (i o : Int) : Int :=
  let q := Int.tdiv i o
  if Int.tmod i o != 0 && (decide (i < 0) != decide (o < 0)) then q - 1 else q

def goRepeatStr (s : String) (n : Int) : EM Val :=
  if n < 0 then fail "strings: negative Repeat count"
  else pure (.str (String.join (List.replicate n.toNat s)))

/-- `pyList.Repeat` -/
def listRepeat (arr off len : Nat) (n : Int) : EM Val := do
  if n < 0 ∧ len > 0 then fail "makeslice: cap out of range"
  else do
    let xs ← elems arr off len
    let out := (List.replicate n.toNat xs).flatten
    let a ← allocArr out
    pure (.list false a 0 out.length out.length)

/-- capacities (in elements) of the allocator's size classes for 16-byte elements (`pyObject` is an interface) -/
def sizeClassCaps : List Nat :=
  [1, 2, 3, 4, 5, 6, 7, 8, 9, 10, 11, 12, 13, 14, 15, 16, 18, 20, 22, 24, 26, 28, 30, 32, 36, 40, 44, 48, 56, 64,
   72, 80, 88, 96, 112, 128]

/-- `growslice`: the capacity `append` gives a slice of capacity `old` (< 256) that has to hold `needed` elements -/
def goGrowCap (old needed : Nat) : Option Nat :=
  let want := if needed > 2 * old then needed else 2 * old
  sizeClassCaps.find? (· ≥ want)

/-- `append(slices.Clip(l), ys...)`: never writes into `l`'s array; a non-empty `ys` gives a fresh array with the
    capacity of `growslice`, i.e. possibly with spare capacity behind the result -/
def listAppendClipFirst (arr off len : Nat) (ys : List Val) : EM Val := do
  if ys.isEmpty then pure (.list false arr off len len)
  else do
    let xs ← elems arr off len
    let n := len + ys.length
    match goGrowCap len n with
    | none => fail "model: growslice beyond 128 elements is not modelled"
    | some c => do
      let a ← allocArr (xs ++ ys ++ List.replicate (c - n) Val.none)
      pure (.list false a 0 n c)

/-- `slices.Clip(append(l, l2...))` -/
def listAppend (F : Facts) (arr off len cap : Nat) (ys : List Val) : EM Val := do
  let n := ys.length
  if F.addAppends then
    if n == 0 then pure (.list false arr off len len)
    else if len + n ≤ cap then do
      writeMany arr (off + len) ys
      pure (.list false arr off (len + n) (len + n))
    else do
      let xs ← elems arr off len
      mkList (xs ++ ys)
  else do
    let xs ← elems arr off len
    mkList (xs ++ ys)

def strIndex (s : String) (i : Int) : EM Val :=
  match s.toList[i.toNat]? with
  | some c => if i < 0 then fail "index out of range" else pure (.str (String.singleton c))
  | none => fail "index out of range"

/-- A Go integer expression `i <kind> o` on `int` operands. -/
def goIntBin (kind : String) (i o : Int) : EM Val :=
  if kind = "+" then pure (.int (wrap64 (i + o)))
  else if kind = "-" then pure (.int (wrap64 (i - o)))
  else if kind = "*" then pure (.int (wrap64 (i * o)))
  else if kind = "/" then (if o == 0 then fail "integer divide by zero" else pure (.int (wrap64 (Int.tdiv i o))))
  else if kind = "%" then (if o == 0 then fail "integer divide by zero" else pure (.int (Int.tmod i o)))
  else if kind = "floormod" then (if o == 0 then fail "integer divide by zero" else pure (.int (goFloorMod i o)))
  else if kind = "floor(float/float)" then pure (.int (intFloorDiv i o))
  else if kind = "floordiv" then (if o == 0 then fail "integer divide by zero" else pure (.int (wrap64 (goFloorDiv i o))))
  else if kind = "<" then pure (.bool (i < o))
  else if kind = ">" then pure (.bool (i > o))
  else if kind = "<=" then pure (.bool (i ≤ o))
  else if kind = ">=" then pure (.bool (i ≥ o))
  else if kind = "==" then pure (.bool (i == o))
  else if kind = "!=" then pure (.bool (i != o))
  else fail "model: int operator of unknown shape"

/-- `pyInt.Operator` -/
def intOp (F : Facts) (op : BinOp) (i : Int) (operand : Val) : EM Val :=
  match operand with
  | .int o =>
    if op == .in_ then fail "bad operator: 'in' int"
    else if F.intKind op == "" then fail "unknown operator"
    else goIntBin (F.intKind op) i o
  | .str s => if op == .mul then goRepeatStr s i else fail "Cannot operate on int and str"
  | .list false arr off len _ => if op == .mul then listRepeat arr off len i else fail "Cannot operate on int and list"
  | v => fail s!"Cannot operate on int and {typeName v}"

/-- `pyString.Operator` (`%` formatting is outside the modelled core). -/
def strOp (op : BinOp) (s : String) (operand : Val) : EM Val :=
  let isStr := match operand with | .str _ => true | _ => false
  if !isStr && op != .mod && op != .mul then fail s!"Cannot operate on str and {typeName operand}"
  else
    let s2 := match operand with | .str t => t | _ => ""
    match op with
    | .add => pure (.str (s ++ s2))
    | .mul => match operand with
      | .int n => goRepeatStr s n
      | _ => fail "Can only multiply string with int"
    | .lt => pure (.bool (s < s2))
    | .gt => pure (.bool (s2 < s))
    | .le => pure (.bool (!(s2 < s)))
    | .ge => pure (.bool (!(s < s2)))
    | .mod => fail "model: string interpolation is outside the core"
    | _ => fail "Unknown operator for string"

/-- substring test (`strings.Contains`) -/
def strContains (s sub : String) : Bool :=
  let l := s.toList
  let p := sub.toList
  (List.range (l.length + 1)).any fun i => p.isPrefixOf (l.drop i)

mutual
  /-- `operatable.Operator(LessThan | GreaterThan | …)` between two values, as the sort / min / max / list
      comparison code calls it. -/
  def cmpOp (F : Facts) : Nat → BinOp → Val → Val → EM Val
    | 0, _, _, _ => fail "fuel"
    | f + 1, op, a, b =>
      match a with
      | .int i => intOp F op i b
      | .str s => strOp op s b
      | .list _ arr off len _ =>
        if op == .lt then
          match b with
          | .list false arr2 off2 len2 _ => do
            let xs ← elems arr off len
            let ys ← elems arr2 off2 len2
            listLess F f xs ys
          | _ => fail "Cannot compare list and other"
        else fail "Unsupported operator on list"
      | .dict .. => fail "Unsupported operator on dict"
      | .range .. => fail "operator not implemented on type range"
      | v => fail s!"operator not implemented on type {typeName v}"
  /-- `pyList.Operator(LessThan)` loop -/
  def listLess (F : Facts) : Nat → List Val → List Val → EM Val
    | 0, _, _ => fail "fuel"
    | _ + 1, [], ys => pure (.bool (!ys.isEmpty))
    | _ + 1, _ :: _, [] => pure (.bool false)
    | f + 1, x :: xs, y :: ys => do
      let operatable : Val → Bool
        | .int _ | .str _ | .list .. | .dict .. | .range .. => true
        | _ => false
      if !operatable x then fail "operator < not implemented"
      else if !operatable y then fail "operator < not implemented"
      else if truthy (← cmpOp F f .lt y x) then pure (.bool false)
      else if truthy (← cmpOp F f .lt x y) then pure (.bool true)
      else listLess F f xs ys
end

/-- `operator(Index, obj, idx)` -/
def indexOp (obj idx : Val) : EM Val :=
  match obj with
  | .list _ arr off len _ => do
    let i ← pyIndex len idx false
    if i < 0 ∨ i ≥ len then fail "index out of range"
    else match (← getArr arr)[off + i.toNat]? with
      | some v => pure v
      | none => fail "model: slice outside array"
  | .dict _ d =>
    match idx with
    | .str k => do
      match dictGet (← getDict d) k with
      | some v => pure v
      | none => fail "unknown dict key"
    | _ => fail "Dict keys must be strings"
  | .str s => do
    let i ← pyIndex s.length idx false
    strIndex s i
  | .int _ => fail "unknown operator"
  | .range .. => fail "operator [ not implemented on type range"
  | v => fail s!"operator [ not implemented on type {typeName v}"

/-- `container.Operator(In | NotIn, item)` -/
def inOp (neg : Bool) (container item : Val) : EM Val :=
  match container with
  | .list _ arr off len _ => do
    let xs ← elems arr off len
    let rec go : List Val → EM Val
      | [] => pure (.bool neg)
      | x :: xs => do if ← ifaceEq x item then pure (.bool (!neg)) else go xs
    go xs
  | .str s =>
    match item with
    | .str t => pure (.bool (strContains s t != neg))
    | v => fail s!"Cannot operate on str and {typeName v}"
  | .dict _ d =>
    match item with
    | .str k => do pure (.bool (((dictGet (← getDict d) k).isSome) != neg))
    | _ => pure (.bool neg)
  | .int _ =>
    match item with
    | .int _ => if neg then fail "unknown operator" else fail "bad operator: 'in' int"
    | .str _ => fail "Cannot operate on int and str"
    | .list false .. => fail "Cannot operate on int and list"
    | v => fail s!"Cannot operate on int and {typeName v}"
  | .range .. => fail "operator in not implemented on type range"
  | v => fail s!"operator in not implemented on type {typeName v}"

/-- `interpretIs` -/
def isOp (obj operand : Val) : Val :=
  match obj, operand with
  | .none, .none => .bool true
  | .bool a, .bool b => .bool (a == b)
  | _, _ => .bool false

/-- The strict binary operators of `interpretOp` (everything but `and` / `or`). -/
def binOp (F : Facts) (op : BinOp) (obj operand : Val) : EM Val :=
  match op with
  | .eq => do pure (.bool (← deepEq 64 obj operand))
  | .ne => do pure (.bool (!(← deepEq 64 obj operand)))
  | .is_ => pure (isOp obj operand)
  | .isNot => pure (.bool (!truthy (isOp obj operand)))
  | .in_ => inOp false operand obj
  | .notIn => inOp true operand obj
  | .and_ | .or_ => fail "model: lazy operator reached binOp"
  | _ =>
    match obj with
    | .int i => intOp F op i operand
    | .str s => strOp op s operand
    | .list _ arr off len cap =>
      match op with
      | .add =>
        match operand with
        | .list fz2 arr2 off2 len2 _ =>
          if fz2 && !F.addAcceptsFrozen then fail "Cannot add list and list"
          else do
            let ys ← elems arr2 off2 len2
            if fz2 && !F.addFrozenClipsResult then listAppendClipFirst arr off len ys
            else listAppend F arr off len cap ys
        | v => fail s!"Cannot add list and {typeName v}"
      | .lt => cmpOp F 64 .lt obj operand
      | .mul =>
        match operand with
        | .int n => listRepeat arr off len n
        | _ => fail "Can only multiply list with int"
      | _ => fail "Unsupported operator on list"
    | .dict _ d =>
      match op with
      | .union =>
        match operand with
        | .dict false d2 => do
          let m1 ← getDict d
          let m2 ← getDict d2
          let id ← allocDict (m2.foldl (fun acc e => dictPut acc e.1 e.2) m1)
          pure (.dict false id)
        | v => fail s!"Operator to | must be another dict, not {typeName v}"
      | _ => fail "Unsupported operator on dict"
    | .range .. => fail "model: range operators are outside the core"
    | v => fail s!"operator not implemented on type {typeName v}"

def unOp (u : UnOp) (v : Val) : EM Val :=
  match u with
  | .not_ => do pure (.bool (!(← truthyM v)))
  | .neg =>
    match v with
    | .int i => pure (.int (wrap64 (-i)))
    | _ => fail "Unary - can only be applied to an integer"

/-- Iteration snapshot of `iterable.Iter()`: lists are read live through their header, ranges are expanded. -/
def rangeElems (a b c : Int) : Nat → List Val
  | 0 => []
  | f + 1 => if a < b then .int a :: rangeElems (a + c) b c f else []

/-- Stable insertion sort (what `sort.Slice` does for n ≤ 12), `less` may fail. -/
def insertBy {α : Type} (less : α → α → EM Bool) (x : α) : List α → EM (List α)
  | [] => pure [x]
  | y :: ys => do
    -- insert after all elements that are not greater than x (stability)
    if ← less x y then pure (x :: y :: ys) else do pure (y :: (← insertBy less x ys))

def sortBy {α : Type} (less : α → α → EM Bool) : List α → EM (List α)
  | [] => pure []
  | x :: xs => do let s ← sortBy less xs; insertBy less x s

/-- Insertion sort front to back, every element placed after the elements that are not greater: what
    `sort.Slice` does on up to 12 elements (`insertionSortLessFunc`), and a stable sort. -/
def stableSort {α : Type} (less : α → α → EM Bool) (l : List α) : EM (List α) := do
  let r ← sortBy (fun a b => less a b) l.reverse
  pure r

def isConstExpr : Nat → Expr → Bool
  | 0, _ => false
  | f + 1, e =>
    match e with
    | .int _ | .str _ | .tru | .fls | .none => true
    | .list _ es => es.all (isConstExpr f)
    | _ => false

/-- Types of `validateType` annotations. -/
inductive Ty | bool | str | int | list | dict | func | none
  deriving DecidableEq

def hasTy (v : Val) (t : Ty) : Bool :=
  match v, t with
  | .bool _, .bool | .str _, .str | .int _, .int | .list .., .list | .dict .., .dict | .func _, .func
  | .none, .none => true
  | _, _ => false

/-- Signature of a native builtin as declared in rules/builtins.build_defs. -/
structure Sig where
  params : List (String × List Ty × Option Val)   -- name, annotation ([] = none), default
  varargs : Bool := false

def builtinSig : String → Option Sig
  | "len" => some { params := [("obj", [.list, .dict, .str], none)] }
  | "sorted" => some { params := [("seq", [.list], none), ("key", [.func], some .none), ("reverse", [.bool], some (.bool false))] }
  | "reversed" => some { params := [("seq", [.list], none)] }
  | "range" => some { params := [("start", [.int], none), ("stop", [.int], some .none), ("step", [.int], some (.int 1))] }
  | "enumerate" => some { params := [("seq", [.list], none)] }
  | "zip" => some { params := [("args", [], none)], varargs := true }
  | "any" => some { params := [("seq", [.list], none)] }
  | "all" => some { params := [("seq", [.list], none)] }
  | "min" => some { params := [("seq", [.list], none), ("key", [.func], some .none)] }
  | "max" => some { params := [("seq", [.list], none), ("key", [.func], some .none)] }
  | "bool" => some { params := [("b", [], none)] }
  | "int" => some { params := [("s", [.str], none)] }
  | "str" => some { params := [("s", [], none)] }
  | _ => none

def methodSig : String → Option Sig
  | "get" => some { params := [("self", [.dict], none), ("key", [.str], none), ("default", [], some .none)] }
  | "keys" => some { params := [("self", [.dict], none)] }
  | "values" => some { params := [("self", [.dict], none)] }
  | "items" => some { params := [("self", [.dict], none)] }
  | "copy" => some { params := [("self", [.dict], none)] }
  | "join" => some { params := [("self", [.str], none), ("seq", [.list], none)] }
  | "split" => some { params := [("self", [.str], none), ("on", [.str], some (.str " "))] }
  | "replace" => some { params := [("self", [.str], none), ("old", [.str], none), ("new", [.str], none)] }
  | "startswith" => some { params := [("self", [.str], none), ("s", [.str], none)] }
  | "endswith" => some { params := [("self", [.str], none), ("s", [.str], none)] }
  | "upper" => some { params := [("self", [.str], none)] }
  | "lower" => some { params := [("self", [.str], none)] }
  | "find" => some { params := [("self", [.str], none), ("needle", [.str], none)] }
  | "count" => some { params := [("self", [.str], none), ("needle", [.str], none)] }
  | "strip" => some { params := [("self", [.str], none), ("cutset", [.str], some (.str " \n"))] }
  | "lstrip" => some { params := [("self", [.str], none), ("cutset", [.str], some (.str " \n"))] }
  | "rstrip" => some { params := [("self", [.str], none), ("cutset", [.str], some (.str " \n"))] }
  | "removeprefix" => some { params := [("self", [.str], none), ("prefix", [.str], none)] }
  | "removesuffix" => some { params := [("self", [.str], none), ("suffix", [.str], none)] }
  | _ => none

def isDictMethod (m : String) : Bool := m ∈ ["get", "keys", "values", "items", "copy"]
def isStrMethod (m : String) : Bool :=
  m ∈ ["join", "split", "replace", "startswith", "endswith", "upper", "lower", "find", "count", "strip",
       "lstrip", "rstrip", "removeprefix", "removesuffix"]

/-- `validateType` once the argument value is known. -/
def validate (fname : String) (p : String × List Ty × Option Val) (v : Val) : EM Val :=
  if p.2.1.isEmpty then pure v
  else if v == .none then
    match p.2.2 with
    | none => pure v
    | some d => pure d
  else if p.2.1.any (hasTy v) then pure v
  else fail s!"Invalid type for argument {p.1} to {fname}"

/-! ### String helpers (Go `strings` semantics on the inputs the harness generates) -/

def isPrefixAt (p : List Char) (l : List Char) : Bool := p.isPrefixOf l

/-- `strings.Index` in characters (ASCII needles only in the modelled stream → byte offset = char offset
    when the haystack prefix is ASCII; the harness keeps `find` to ASCII strings). -/
def strFind (s sub : String) : Int :=
  let l := s.toList
  let p := sub.toList
  match (List.range (l.length + 1)).find? (fun i => p.isPrefixOf (l.drop i)) with
  | some i => i
  | none => -1

/-- `strings.Split(s, sep)` for non-empty `sep`. -/
def splitOnChars : Nat → List Char → List Char → List Char → List (List Char)
  | 0, _, cur, _ => [cur.reverse]
  | _ + 1, _, cur, [] => [cur.reverse]
  | f + 1, sep, cur, c :: cs =>
    if sep.isPrefixOf (c :: cs) then cur.reverse :: splitOnChars f sep [] ((c :: cs).drop sep.length)
    else splitOnChars f sep (c :: cur) cs

def goSplit (s sep : String) : EM (List String) :=
  if sep == "" then fail "model: split on empty separator is outside the core"
  else pure ((splitOnChars (s.length + 1) sep.toList [] s.toList).map String.ofList)

def goReplace (s old new : String) : EM String := do
  if old == "" then fail "model: replace of empty string is outside the core"
  else do pure (new.intercalate (← goSplit s old))

def goCount (s sub : String) : EM Int := do
  if sub == "" then fail "model: count of empty string is outside the core"
  else do pure (((← goSplit s sub).length : Int) - 1)

def trimLeft (cut : List Char) : List Char → List Char
  | [] => []
  | c :: cs => if cut.contains c then trimLeft cut cs else c :: cs

def asciiUpper (c : Char) : Char := if 'a' ≤ c ∧ c ≤ 'z' then Char.ofNat (c.toNat - 32) else c
def asciiLower (c : Char) : Char := if 'A' ≤ c ∧ c ≤ 'Z' then Char.ofNat (c.toNat + 32) else c

def parseIntStr (s : String) : Option Int :=
  -- strconv.Atoi: optional sign, decimal digits only
  match s.toList with
  | '+' :: r => if r.isEmpty then none else (String.ofList r).toNat?.map Int.ofNat
  | '-' :: r => if r.isEmpty then none else (String.ofList r).toNat?.map fun n => -(Int.ofNat n)
  | _ => s.toNat?.map Int.ofNat

/-! ### Freezing (objects.go:430, 572; interpreter.go:497) -/

mutual
  /-- `freezable.Freeze()`.  For a list the deep-frozen copy is computed (allocations and all) and then dropped:
      the result wraps the original slice.  For a dict the copy with frozen values is what is returned. -/
  def freeze (F : Facts) : Nat → Val → EM Val
    | 0, _ => fail "fuel"
    | f + 1, v =>
      match v with
      | .list _ arr off len cap => do
        let xs ← elems arr off len
        let frozen ← freezeList F f xs
        if F.freezeKeepsElems then pure (.list true arr off len cap)
        else do
          let a ← allocArr frozen
          pure (.list true a 0 len len)
      | .dict _ d => do
        let m ← getDict d
        let id ← allocDict (← freezeKvs F f m)
        pure (.dict true id)
      | v => pure v
  def freezeList (F : Facts) : Nat → List Val → EM (List Val)
    | 0, _ => fail "fuel"
    | _ + 1, [] => pure []
    | f + 1, x :: r => do let x' ← freeze F f x; pure (x' :: (← freezeList F f r))
  def freezeKvs (F : Facts) : Nat → List (String × Val) → EM (List (String × Val))
    | 0, _ => fail "fuel"
    | _ + 1, [] => pure []
    | f + 1, (k, x) :: r => do let x' ← freeze F f x; pure ((k, x') :: (← freezeKvs F f r))
end

/-- `scope.Freeze()`: every local that is freezable is replaced by its frozen form. -/
def freezeScope (F : Facts) (sc : Nat) : EM Unit := do
  let st ← get
  match st.scopes[sc]? with
  | none => fail "model: bad scope"
  | some s =>
    let vars ← freezeKvs F 64 s.vars
    modify fun st => { st with scopes := st.scopes.set sc { s with vars := vars } }

end PlzVerif.Asp
