/-
C31, test step: several `plz test` processes running the SAME test target (src/test/test_step.go `test`), core Lean only.

  acquire      AcquireExclusiveFileLock(target.TestLockFile(run))            -- test_step.go:172
  useCached    needToRun() = false: the target was not (re)built by this process (state Unchanged/Reused) and the
               results file exists with the current runtime hash → cachedTestResults()
  clear        needToRun() = true: RemoveTestOutputs (the cached results file goes away)
  run          doFlakeRun + moveOutputFiles: the test executes; its results file is stored with the hash
  release      deferred ReleaseFileLock

`built p` says that process p itself (re)built the target with changed outputs (state Built): such a process reruns
the test regardless of cached results (test_step.go:147, `s == core.Unchanged || s == core.Reused`).  All processes
compute the same runtime hash `h` because they see identical outputs (Props.C31.C31_final_eq_clean).
-/
namespace PlzVerif.LockTest

inductive TPC where
  | idle | locked | cached | cleared | ran | done
deriving DecidableEq, Repr

def TPC.inCS : TPC → Bool
  | .locked | .cached | .cleared | .ran => true
  | _ => false

structure TState (P Hh : Type) where
  lock : Option P
  res  : Option Hh        -- results file and the hash recorded on it
  pc   : P → TPC
  runs : Nat              -- ghost: how many times the test has been executed

def upd {α β : Type} [DecidableEq α] (f : α → β) (a : α) (b : β) : α → β := fun x => if x = a then b else f x

variable {P Hh : Type} [DecidableEq P] [DecidableEq Hh]

section
variable (ps : List P) (want built : P → Bool) (h : Hh) (excl : Bool)

inductive TStep : TState P Hh → TState P Hh → Prop where
  | acquire (s) (p : P) : p ∈ ps → want p = true → s.pc p = .idle → (excl = true → s.lock = none) →
      TStep s { s with lock := some p, pc := upd s.pc p .locked }
  | useCached (s) (p : P) : s.pc p = .locked → built p = false → s.res = some h →
      TStep s { s with pc := upd s.pc p .cached }
  | clear (s) (p : P) : s.pc p = .locked → (built p = true ∨ s.res ≠ some h) →
      TStep s { s with res := none, pc := upd s.pc p .cleared }
  | run (s) (p : P) : s.pc p = .cleared →
      TStep s { s with res := some h, runs := s.runs + 1, pc := upd s.pc p .ran }
  | release (s) (p : P) : (s.pc p = .cached ∨ s.pc p = .ran) →
      TStep s { s with lock := none, pc := upd s.pc p .done }

inductive TReach (s0 : TState P Hh) : TState P Hh → Prop where
  | init : TReach s0 s0
  | step {s s'} : TReach s0 s → TStep ps want built h excl s s' → TReach s0 s'

/-- Nothing is running; an arbitrary (possibly stale or absent) results file. -/
structure TInit (s0 : TState P Hh) : Prop where
  pc   : ∀ p, s0.pc p = .idle
  lock : s0.lock = none
  runs : s0.runs = 0

/-- Every process that was asked to run the test is done. -/
def TTerminal (s : TState P Hh) : Prop := ∀ p ∈ ps, want p = true → s.pc p = .done

end
end PlzVerif.LockTest
