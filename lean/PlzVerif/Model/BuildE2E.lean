import PlzVerif.Model.Build
import PlzVerif.Model.BuildFacts
/-
Concrete instance of `Model/Build.lean` for the end-to-end correspondence (C01/C02/C03): the generator's
command language has a direct interpretation here, so whole output trees can be compared with what the
real `plz build` leaves in plz-out/gen.

Trees are one level deep (an output is a file or a flat directory of files) — what the generated commands produce.
-/
namespace PlzVerif.BuildE2E
open PlzVerif.Build

inductive Tree where
  | file (c : String)
  | dir (es : List (String × String))      -- entries sorted by name
  | fileOpt (c : String) (extra : Option String)   -- a file output plus a discovered optional output (`<out>.extra`)
  | filex (c : String)                             -- a regular file with the executable bits set
deriving DecidableEq, Repr

inductive Cmd where
  | cat                    -- concatenate every input (files of a directory input in name order, each preceded by "./name\n")
  | catfirst               -- the same, but only the first input is read (the others are declared and ignored)
  | mkdir                  -- first input holds "name content" lines; output is a directory with one file per line
  | const (text : String)  -- `echo text > $OUT`
  | catn                   -- like cat, but each input is preceded by its name as presented in $SRCS
  | fg                     -- filegroup over one source file: the output IS the source (no command)
  | opt                    -- like cat; additionally writes `$OUT.extra` (an optional output) iff the result contains "hello"
  | text (content : String) -- `text_file(content=…)`: no command, the output is the content
  | catx                   -- like cat, then `chmod +x $OUT`
deriving DecidableEq, Repr

structure Attrs where
  label   : String
  cmd     : Cmd
  srcs    : List String      -- sources as written in the BUILD file (file names or labels)
  out     : String
deriving DecidableEq, Repr

/-- Path pre-image as coded (fs/hash.go:203): a file is its contents; a directory is the contents of its
    files in walk order — no names. -/
def pathSer : Tree → String
  | .file c => c
  | .dir es => String.join (es.map (·.2))
  | .fileOpt c _ => c          -- optional outputs do not contribute to any hash (build_step.go:726)
  | .filex c => c              -- fileHash hashes the bytes only: the mode is in no hash (fs/hash.go:253)

def cmdTag : Cmd → String
  | .cat => "cat" | .catfirst => "catfirst" | .mkdir => "mkdir" | .const t => "const:" ++ t
  | .catn => "catn" | .fg => "fg" | .opt => "opt" | .text t => "text:" ++ t | .catx => "catx"

/-- Rule pre-image restricted to what the generator varies, concatenated unframed in `ruleHash`'s order
    (label, sources, output, command). -/
def ruleSer (a : Attrs) : String :=
  a.label ++ String.join a.srcs ++ a.out ++ "\x01" ++ cmdTag a.cmd

def render : Tree → String
  | .file c => c
  | .dir es => String.join (es.map fun e => "./" ++ e.1 ++ "\n" ++ e.2)
  | .fileOpt c _ => c          -- dependents only see the declared output
  | .filex c => c

def insertEntry (e : String × String) : List (String × String) → List (String × String)
  | [] => [e]
  | x :: xs => if e.1 < x.1 then e :: x :: xs else if e.1 = x.1 then e :: xs else x :: insertEntry e xs

def parseLine (l : String) : Option (String × String) :=
  match l.splitOn " " with
  | [n, c] => if n.isEmpty then none else some (n, c ++ "\n")
  | _ => none

def exec (a : Attrs) (ins : List (String × Tree)) : Tree :=
  match a.cmd with
  | .cat => .file (String.join (ins.map fun p => render p.2))
  | .catfirst => .file (match ins with | [] => "" | p :: _ => render p.2)
  | .const t => .file (t ++ "\n")
  | .catn => .file (String.join (ins.map fun p => p.1 ++ "\n" ++ render p.2))
  | .fg => .file (match ins with | [] => "" | p :: _ => render p.2)
  | .text t => .file t
  | .catx => .filex (String.join (ins.map fun p => render p.2))
  | .opt =>
    let c := String.join (ins.map fun p => render p.2)
    .fileOpt c (if (c.splitOn "hello").length > 1 then some c else none)
  | .mkdir =>
    match ins with
    | (_, .file c) :: _ => .dir (((c.splitOn "\n").filterMap parseLine).foldl (fun acc e => insertEntry e acc) [])
    | _ => .dir []

def extraOf : Tree → Option String
  | .fileOpt _ e => e
  | _ => none

/-- Moving outputs into plz-out as coded: declared outputs follow `mvCoded` (same hash ⇒ the old one stays);
    optional outputs are moved when produced and NEVER removed when no longer produced (build_step.go:726-737 only
    iterates over what the new run created), so an old `<out>.extra` lingers. -/
def mvE2E (old new : Tree) : Tree :=
  match new with
  | .fileOpt c e => .fileOpt c (match e with | some x => some x | none => extraOf old)
  | _ => mvCoded generatedFacts pathSer old new

/-- Restoring from the cache as coded: declared outputs are replaced by the cached artifact; an optional output
    the restored entry does not have is NOT removed (same lingering as in `mvE2E`). -/
def rsE2E (old new : Tree) : Tree :=
  match new with
  | .fileOpt c e => .fileOpt c (match e with | some x => some x | none => extraOf old)
  | _ => new

abbrev Stamp' := Stamp String String String
abbrev Out' := Out String Tree String String String
abbrev Repo' := Repo String Attrs String String Tree
abbrev Target' := Target String Attrs String

def buildE2E (r : Repo') (sel : String → Bool) (out : Out') : Out' × List String :=
  build generatedFacts mvE2E exec ruleSer pathSer r sel out

def cleanE2E (r : Repo') (sel : String → Bool) : List (String × Tree) :=
  clean exec r sel

end PlzVerif.BuildE2E
