import PlzVerif.Model.Walk
import PlzVerif.Model.Label
import PlzVerif.Generated.C22
/-
Command-line expansion of `//p/...` (src/plz/plz.go `findOriginalTask`): the walk `FindAllBuildFiles(config, p, "")`
of C22's model (`Model/Walk.lean`, callback interpreted from the formulas regenerated from plz.go on this run) over
a repository given as its set of packages, and the conversion of each BUILD file found to the label `//dir:all`.
Core Lean only.  Used by the C20 driver and by `Props/C20.lean` (`C20_cmdline_*`).
-/
namespace PlzVerif.LabelWalk
open PlzVerif.Walk PlzVerif.Generated

/-- The walk facts read from /repo on this run (the same record as `Props.C22.facts`). -/
def walkFacts : Facts :=
  { outDir := C22.outDir, chain := C22.chain, blCond := C22.blCond,
    cutOnNonDir := C22.cutOnNonDir, sorted := C22.sorted }

def buildName : Name := ['B', 'U', 'I', 'L', 'D']

def Forest.has (n : Name) : Forest → Bool
  | .nil => false
  | .cons m _ rest => m == n || Forest.has n rest

/-- Replace (or add) the entry `n`. -/
def Forest.update (n : Name) (f : Option Tree → Tree) : Forest → Forest
  | .nil => .cons n (f none) .nil
  | .cons m t rest => if m = n then .cons m (f (some t)) rest else .cons m t (Forest.update n f rest)

/-- Add the package with component path `q`: its directories and a regular file `BUILD` in the last one. -/
def insertPkg : List Name → Forest → Forest
  | [], cs => if Forest.has buildName cs then cs else .cons buildName (.leaf .file) cs
  | c :: rest, cs =>
    Forest.update c (fun t => match t with
      | some (.dir ds) => .dir (insertPkg rest ds)
      | _ => .dir (insertPkg rest .nil)) cs

/-- The repository whose packages are `pkgs`. -/
def repoOf (pkgs : List (List Name)) : Forest := pkgs.foldl (fun cs q => insertPkg q cs) .nil

def Forest.find (n : Name) : Forest → Option Tree
  | .nil => none
  | .cons m t rest => if m = n then some t else Forest.find n rest

/-- The listing of the directory `p` of the repository (through directories only). -/
def subAt : Forest → List Name → Option Forest
  | cs, [] => some cs
  | cs, c :: rest => match Forest.find c cs with
    | some (.dir ds) => subAt ds rest
    | _ => none

/-- `strings.TrimRight(dirname, "/")` of a BUILD file name sent by the walk: the package it stands for
    (`BUILD` at the root is the package ""). -/
def pkgOfBuildFile (x : Name) : Name :=
  let d := (x.reverse.dropWhile (· != '/')).reverse     -- filepath.Split: up to and including the last '/'
  (d.reverse.dropWhile (· == '/')).reverse

/-- The packages `//p/...` selects on the command line: `none` when `p` is not a directory of the repository
    (the real walk then fails). -/
def cmdlineSelect (F : Facts) (buildNames exp bl : List Name) (p : List Name) (repo : Forest) : Option (List Name) :=
  match subAt repo p with
  | none => none
  | some cs => some ((findAll F ⟨buildNames, exp, bl, []⟩ p (.dir cs)).map pkgOfBuildFile)

end PlzVerif.LabelWalk
