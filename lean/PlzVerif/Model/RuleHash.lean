/-!
Model of `build.ruleHash` (src/build/incrementality.go) and of the `core.BuildTarget` accessors it reads
(src/core/build_target.go, build_label.go).  Core Lean only.  Used by C07, C08 and C10.

Two layers:

* `Target` transcribes the fields of `core.BuildTarget` that the rule hash (or the property statements) talk
  about.  Go maps are association lists whose order nothing may depend on; `deps` is the raw, unsorted
  `dependencies` slice in insertion order.
* `View` is what `ruleHash` obtains through the accessors: one value per *attribute* (`SAttr`, `LAttr`, …).
  `view` transcribes the accessors (`DeclaredDependencies` sorts labels, `AllData` appends the named groups
  in key order, `DeclaredOutputNames` sorts, `GetCommand` picks the per-config command, …); whether each of
  them sorts is a regenerated fact.
* `ruleSer` interprets the *write schema* regenerated from the body of `ruleHash` on every run
  (`Generated.C08.facts.items`): the exact byte stream fed to SHA-1.

The digest is idealised as injective (DESIGN.md §3); the correspondence checks sha1(ruleSer t) = build.RuleHash(t).
-/
namespace PlzVerif.RuleHash

abbrev Bytes := List UInt8

/-! ### byte-string order (Go's `<` on strings) and insertion sort -/

def bytesLt : Bytes → Bytes → Bool
  | [], [] => false
  | [], _ :: _ => true
  | _ :: _, [] => false
  | a :: s, b :: t => a < b || (a == b && bytesLt s t)

def insertBy {α : Type} (lt : α → α → Bool) (x : α) : List α → List α
  | [] => [x]
  | y :: r => if lt x y then x :: y :: r else y :: insertBy lt x r

/-- Insertion sort; on lists without `lt`-equivalent duplicates it is *the* sorted permutation. -/
def isort {α : Type} (lt : α → α → Bool) (l : List α) : List α := l.foldr (insertBy lt) []

/-- Iteration order over a Go map: by key when the code sorts, otherwise whatever order the map yields
    (the association list's own order stands for that arbitrary order). -/
def keysOrder {β : Type} (sorted : Bool) (m : List (Bytes × β)) : List (Bytes × β) :=
  if sorted then isort (fun a b => bytesLt a.1 b.1) m else m

def lookup {β : Type} (k : Bytes) : List (Bytes × β) → Option β
  | [] => none
  | (k', v) :: r => if k = k' then some v else lookup k r

/-! ### build labels -/

structure Label where
  subrepo : Bytes
  pkg : Bytes
  name : Bytes
  deriving DecidableEq, Repr, Inhabited

/-- `BuildLabel.Less`: subrepo, then package, then name. -/
def Label.lt (a b : Label) : Bool :=
  if a.subrepo ≠ b.subrepo then bytesLt a.subrepo b.subrepo
  else if a.pkg ≠ b.pkg then bytesLt a.pkg b.pkg
  else bytesLt a.name b.name

def dots : Bytes := [46, 46, 46]
def originalName : Bytes := [95, 79, 82, 73, 71, 73, 78, 65, 76]           -- "_ORIGINAL"
def cmdLineTargets : Bytes :=                                                -- "command-line targets"
  [99, 111, 109, 109, 97, 110, 100, 45, 108, 105, 110, 101, 32, 116, 97, 114, 103, 101, 116, 115]

/-- `BuildLabel.String()`. -/
def Label.str (l : Label) : Bytes :=
  if l = ⟨[], [], []⟩ then []
  else if l = ⟨[], [], originalName⟩ then cmdLineTargets
  else
    let s := [47, 47] ++ l.pkg
    let s := if l.subrepo ≠ [] then [47, 47, 47] ++ l.subrepo ++ s else s
    if l.name = dots then (if l.pkg = [] then s ++ dots else s ++ 47 :: dots)
    else s ++ 58 :: l.name

/-! ### the target -/

structure Target where
  label : Label := default
  deps : List Label := []                          -- `dependencies[i].declared`, insertion order
  visibility : List Label := []
  hashes : List Bytes := []
  srcs : List Bytes := []                           -- `Sources[i].String()`
  namedSrcs : List (Bytes × List Bytes) := []       -- Go map
  outs : List Bytes := []                           -- `outputs` (kept sorted by `insert`)
  namedOuts : List (Bytes × List Bytes) := []       -- Go map
  licences : List Bytes := []
  optionalOuts : List Bytes := []
  labels : List Bytes := []
  secrets : List Bytes := []
  isBinary : Bool := false
  isSubrepo : Bool := false
  sandbox : Bool := false
  command : Bytes := []
  commands : Option (List (Bytes × Bytes)) := none  -- Go map, nil when there is a single command
  needsTransitiveDeps : Bool := false
  outputIsComplete : Bool := false
  stamp : Bool := false
  isFilegroup : Bool := false
  isTextFile : Bool := false
  isRemoteFile : Bool := false
  isLocal : Bool := false
  srcListFiles : Bool := false
  exitOnError : Bool := false
  requires : List Bytes := []
  provides : List (Bytes × List Label) := []        -- Go map
  preBuild : Bool := false                          -- `PreBuildFunction != nil`
  postBuild : Bool := false
  passEnv : Option (List Bytes) := none
  outputDirs : List Bytes := []
  entryPoints : List (Bytes × Bytes) := []          -- Go map
  env : List (Bytes × Bytes) := []                  -- Go map
  fileContent : Bytes := []
  -- runtime / test part
  data : List Bytes := []
  namedData : List (Bytes × List Bytes) := []       -- Go map
  isTest : Bool := false                            -- `Test != nil`
  testOutputs : List Bytes := []
  testSandbox : Bool := false
  testNoOutput : Bool := false                      -- `Test.NoOutput`
  testCommand : Bytes := []
  testCommands : Option (List (Bytes × Bytes)) := none
  testArgsPlaceholder : Bytes := []
  -- build-relevant fields `ruleHash` never reads (kept so the property can be stated about them)
  tools : List Bytes := []                          -- `Tools[i].String()`
  namedTools : List (Bytes × List Bytes) := []      -- Go map
  namedSecrets : List (Bytes × List Bytes) := []    -- Go map
  passUnsafeEnv : Option (List Bytes) := none
  deriving DecidableEq, Repr, Inhabited

/-- What the hash depends on besides the target: runtime flag, `[build] config` / fallback config, and the
    environment of the plz process (read by `os.Getenv` for `pass_env`). -/
structure Ctx where
  runtime : Bool := false
  config : Bytes := [111, 112, 116]                 -- "opt"
  fallback : Bytes := [111, 112, 116]
  environ : List (Bytes × Bytes) := []
  hashCheckers : List Bytes := []                   -- `[build] hashcheckers` (read when the target declares hashes)
  deriving DecidableEq, Repr

def Ctx.getenv (c : Ctx) (k : Bytes) : Bytes := (lookup k c.environ).getD []

/-! ### attributes and the write schema -/

inductive SAttr where
  | label | command | fileContent | testCommand | testArgsPlaceholder
  deriving DecidableEq, Repr
inductive LAttr where
  | deps | visibility | hashes | srcs | outs | licences | optionalOuts | labels | secrets | requires
  | outputDirs | data | testOutputs
  | hashCheckers   -- `state.Config.Build.HashCheckers`
  deriving DecidableEq, Repr
inductive GAttr where
  | namedOuts | provides | namedSrcs
  deriving DecidableEq, Repr
inductive MAttr where
  | entryPoints | env
  deriving DecidableEq, Repr
inductive BAttr where
  | isBinary | isSubrepo | sandbox | needsTransitiveDeps | outputIsComplete | stamp | isFilegroup | isTextFile
  | isRemoteFile | isLocal | srcListFiles | exitOnError | preBuild | postBuild | testSandbox | testNoOutput
  deriving DecidableEq, Repr

/-- One recognised write idiom of `ruleHash`. -/
inductive Item where
  | str (a : SAttr)        -- `h.Write([]byte(<string>))`
  | strs (a : LAttr)       -- `for _, x := range <list> { h.Write([]byte(x)) }`
  | groups (a : GAttr)     -- `for _, k := range <keys> { h.Write(k); for _, x := range m[k] { h.Write(x) } }`
  | kv (a : MAttr)         -- `hashMap(h, <map>)`
  | bool (a : BAttr)       -- `hashBool(h, <bool>)`
  | optBool (a : BAttr)    -- `hashOptionalBool(h, <bool>)`
  | passEnv                -- `if PassEnv != nil { for _, e := range *PassEnv { write e, "=", os.Getenv(e) } }`
  deriving DecidableEq, Repr

inductive Guard where
  | always | runtime | runtimeTest     -- `if runtime {…}` / `if runtime { if target.IsTest() {…} }`
  | hasHashes                          -- `if len(target.Hashes) > 0 {…}`
  deriving DecidableEq, Repr

/-- Everything the extractor reads from the source. -/
structure Facts where
  items : List (Guard × Item)
  boolTrue : Bytes
  boolFalse : Bytes
  optBoolWritesFalse : Bool      -- does `hashOptionalBool` write anything for `false`? (no, today)
  hashMapSorted : Bool
  hashMapSep : Bytes
  passEnvSep : Bytes
  providesSorted : Bool          -- the key sort inside `ruleHash`
  depsSorted : Bool              -- `DeclaredDependencies`
  outputNamesSorted : Bool       -- `DeclaredOutputNames`
  buildInputsSorted : Bool       -- `allBuildInputs` (AllData)
  namedSrcsSorted : Bool         -- the key sort over `target.NamedSources` inside `ruleHash`
  deriving DecidableEq, Repr

/-- What `ruleHash` sees of a target through the accessors. -/
structure View where
  str : SAttr → Bytes
  list : LAttr → List Bytes
  groups : GAttr → List (Bytes × List Bytes)      -- already in iteration order
  map : MAttr → List (Bytes × Bytes)              -- in `hashMap`'s iteration order
  flag : BAttr → Bool
  passEnv : Option (List Bytes)
  isTest : Bool

/-- `getCommand`: single command, else the one for the config, else for the fallback config, else the one
    with the greatest config name. -/
def getCommand (c : Ctx) (commands : Option (List (Bytes × Bytes))) (single : Bytes) : Bytes :=
  match commands with
  | none => single
  | some m =>
    match lookup c.config m with
    | some x => x
    | none =>
      match lookup c.fallback m with
      | some x => x
      | none => (m.foldl (fun (h : Bytes × Bytes) kv => if bytesLt h.1 kv.1 then kv else h) ([], [])).2

/-- `allBuildInputs(unnamed, named)`. -/
def allInputs (F : Facts) (unnamed : List Bytes) (named : List (Bytes × List Bytes)) : List Bytes :=
  unnamed ++ (keysOrder F.buildInputsSorted named).flatMap (·.2)

/-- The accessors `ruleHash` calls, transcribed. -/
def view (F : Facts) (c : Ctx) (t : Target) : View where
  str
    | .label => t.label.str
    | .command => getCommand c t.commands t.command
    | .fileContent => t.fileContent
    | .testCommand => getCommand c t.testCommands t.testCommand
    | .testArgsPlaceholder => t.testArgsPlaceholder
  list
    | .deps => ((if F.depsSorted then isort Label.lt t.deps else t.deps).map Label.str)
    | .visibility => t.visibility.map Label.str
    | .hashes => t.hashes
    | .srcs => t.srcs
    | .outs => t.outs
    | .licences => t.licences
    | .optionalOuts => t.optionalOuts
    | .labels => t.labels
    | .secrets => t.secrets
    | .requires => t.requires
    | .outputDirs => t.outputDirs
    | .data => allInputs F t.data t.namedData
    | .testOutputs => t.testOutputs
    | .hashCheckers => c.hashCheckers
  groups
    | .namedOuts => keysOrder F.outputNamesSorted t.namedOuts
    | .provides => keysOrder F.providesSorted (t.provides.map fun kv => (kv.1, kv.2.map Label.str))
    | .namedSrcs => keysOrder F.namedSrcsSorted t.namedSrcs
  map
    | .entryPoints => keysOrder F.hashMapSorted t.entryPoints
    | .env => keysOrder F.hashMapSorted t.env
  flag
    | .isBinary => t.isBinary | .isSubrepo => t.isSubrepo | .sandbox => t.sandbox
    | .needsTransitiveDeps => t.needsTransitiveDeps | .outputIsComplete => t.outputIsComplete
    | .stamp => t.stamp | .isFilegroup => t.isFilegroup | .isTextFile => t.isTextFile
    | .isRemoteFile => t.isRemoteFile | .isLocal => t.isLocal | .srcListFiles => t.srcListFiles
    | .exitOnError => t.exitOnError | .preBuild => t.preBuild | .postBuild => t.postBuild
    | .testSandbox => t.testSandbox
    | .testNoOutput => t.testNoOutput
  passEnv := t.passEnv
  isTest := t.isTest

/-- Bytes one item writes. -/
def serItem (F : Facts) (c : Ctx) (v : View) : Item → Bytes
  | .str a => v.str a
  | .strs a => (v.list a).flatten
  | .groups a => (v.groups a).flatMap fun kv => kv.1 ++ kv.2.flatten
  | .kv a => (v.map a).flatMap fun kv => kv.1 ++ F.hashMapSep ++ kv.2
  | .bool a => if v.flag a then F.boolTrue else F.boolFalse
  | .optBool a => if v.flag a then F.boolTrue else if F.optBoolWritesFalse then F.boolFalse else []
  | .passEnv =>
    match v.passEnv with
    | none => []
    | some l => l.flatMap fun e => e ++ F.passEnvSep ++ c.getenv e

def guardOn (c : Ctx) (v : View) : Guard → Bool
  | .always => true
  | .runtime => c.runtime
  | .runtimeTest => c.runtime && v.isTest
  | .hasHashes => !(v.list .hashes).isEmpty

def serGuarded (F : Facts) (c : Ctx) (v : View) (gi : Guard × Item) : Bytes :=
  if guardOn c v gi.1 then serItem F c v gi.2 else []

/-- The pre-image over a view. -/
def serView (F : Facts) (c : Ctx) (v : View) (items : List (Guard × Item)) : Bytes :=
  items.flatMap (serGuarded F c v)

/-- The pre-image `ruleHash(state, target, runtime)` feeds to SHA-1. -/
def ruleSer (F : Facts) (c : Ctx) (t : Target) : Bytes := serView F c (view F c t) F.items

/-- The build-relevant projection of a target: the attributes the property lists (maps in key order,
    dependencies in label order, `pass_env` with the values the action will see). -/
structure Relevant where
  command : Bytes
  srcs : List Bytes
  namedSrcs : List (Bytes × List Bytes)
  outs : List Bytes
  namedOuts : List (Bytes × List Bytes)
  optionalOuts : List Bytes
  deps : List Label
  tools : List Bytes
  namedTools : List (Bytes × List Bytes)
  env : List (Bytes × Bytes)
  passEnv : Option (List (Bytes × Bytes))
  labels : List Bytes
  secrets : List Bytes
  namedSecrets : List (Bytes × List Bytes)
  isBinary : Bool
  sandbox : Bool
  outputDirs : List Bytes
  entryPoints : List (Bytes × Bytes)
  fileContent : Bytes
  requires : List Bytes
  provides : List (Bytes × List Label)
  deriving DecidableEq

def relevant (c : Ctx) (t : Target) : Relevant where
  command := getCommand c t.commands t.command
  srcs := t.srcs
  namedSrcs := keysOrder true t.namedSrcs
  outs := t.outs
  namedOuts := keysOrder true t.namedOuts
  optionalOuts := t.optionalOuts
  deps := isort Label.lt t.deps
  tools := t.tools
  namedTools := keysOrder true t.namedTools
  env := keysOrder true t.env
  passEnv := t.passEnv.map fun l => l.map fun e => (e, c.getenv e)
  labels := t.labels
  secrets := t.secrets
  namedSecrets := keysOrder true t.namedSecrets
  isBinary := t.isBinary
  sandbox := t.sandbox
  outputDirs := t.outputDirs
  entryPoints := keysOrder true t.entryPoints
  fileContent := t.fileContent
  requires := t.requires
  provides := keysOrder true t.provides


/-! ### the individual writes (used by the drivers to name the root cause of a collision) -/

/-- The logical pieces one item writes (`flatten` of it is `serItem`). -/
def chunksItem (F : Facts) (c : Ctx) (v : View) : Item → List Bytes
  | .str a => [v.str a]
  | .strs a => v.list a
  | .groups a => (v.groups a).flatMap fun kv => kv.1 :: kv.2
  | .kv a => (v.map a).flatMap fun kv => [kv.1, F.hashMapSep, kv.2]
  | .bool a => [if v.flag a then F.boolTrue else F.boolFalse]
  | .optBool a => if v.flag a then [F.boolTrue] else if F.optBoolWritesFalse then [F.boolFalse] else []
  | .passEnv =>
    match v.passEnv with
    | none => []
    | some l => l.flatMap fun e => [e, F.passEnvSep, c.getenv e]

/-- Pieces per schema position (inactive guards write nothing). -/
def chunks (F : Facts) (c : Ctx) (v : View) : List (Item × List Bytes) :=
  F.items.map fun gi => (gi.2, if guardOn c v gi.1 then chunksItem F c v gi.2 else [])

/-! ### `RuleHash` as called around a build: memoisation and the in-place rewrite of `Hashes` -/

def isAsciiSpace (b : UInt8) : Bool := b == 32 || b == 9 || b == 10 || b == 11 || b == 12 || b == 13

def trimLeft : Bytes → Bytes
  | b :: r => if isAsciiSpace b then trimLeft r else b :: r
  | [] => []

/-- `strings.TrimSpace` on ASCII white space. -/
def trimSpace (b : Bytes) : Bytes := (trimLeft (trimLeft b).reverse).reverse

/-- Everything after the last `:` (`strings.LastIndexByte(h, ':')`), or `none` without a colon. -/
def afterLastColon : Bytes → Option Bytes
  | [] => none
  | b :: r =>
    match afterLastColon r with
    | some x => some x
    | none => if b == 58 then some r else none

/-- One element of `UnprefixedHashes`: `"sha1: abc"` becomes `"abc"`. -/
def unprefix (h : Bytes) : Bytes :=
  match afterLastColon h with
  | some x => trimSpace x
  | none => h

/-- The target after `BuildTarget.UnprefixedHashes` ran (`checkRuleHashes` calls it after every build).
    `aliases`: the regenerated fact "the prefixes are stripped through `target.Hashes[:]`, i.e. inside the target";
    when the function works on a copy the target is untouched. -/
def afterHashCheck (aliases : Bool) (t : Target) : Target :=
  if aliases then { t with hashes := t.hashes.map unprefix } else t

/-- `BuildCouldModifyTarget`. -/
def couldModify (t : Target) : Bool := t.postBuild || !t.outputDirs.isEmpty

/-- The post-build rule hash pre-image `RuleHash(state, target, false, true)` when the pre-build hash was memoised
    while the target was in state `t0` and the target is now `t`. -/
def postBuildSer (F : Facts) (c : Ctx) (t0 t : Target) : Bytes :=
  if couldModify t then ruleSer F c t else ruleSer F c t0

/-! ### when the memoised rule hash is first computed, relative to the pre-build function -/

/-- What `buildTarget` works with: `RuleHash(state, target, false, false)` memoises its first result in
    `target.RuleHash` and nothing resets it, so `needsBuilding`, `writeRuleHash`, the cache key and the remote action
    digest all see the hash of the target *as it was at that first call*.  `pb` is what the target's pre-build function
    does to it (`set_command`, `add_out`, `add_dep`, labels …); `early` is the regenerated fact "some call that memoises
    the rule hash is reachable in `Build()` / `buildTarget()` before `RunPreBuildFunction`". -/
def stampSer (F : Facts) (c : Ctx) (early : Bool) (pb : Target → Target) (t : Target) : Bytes :=
  if early then ruleSer F c t else ruleSer F c (pb t)

/-! ### a framed encoding over the same schema (the repair) -/

/-- Unary length header (stands for any self-delimiting length, e.g. 8 bytes big-endian in Go). -/
def hdr : Nat → Bytes
  | 0 => [0]
  | n + 1 => 1 :: hdr n

def framed (b : Bytes) : Bytes := hdr b.length ++ b
def framedList (l : List Bytes) : Bytes := hdr l.length ++ (l.map framed).flatten

/-- Every string length-prefixed, every list counted, every boolean written, `pass_env` tagged. -/
def serItemFramed (c : Ctx) (v : View) : Item → Bytes
  | .str a => framed (v.str a)
  | .strs a => framedList (v.list a)
  | .groups a => hdr (v.groups a).length ++ ((v.groups a).map fun kv => framed kv.1 ++ framedList kv.2).flatten
  | .kv a => hdr (v.map a).length ++ ((v.map a).map fun kv => framed kv.1 ++ framed kv.2).flatten
  | .bool a => [if v.flag a then 2 else 1]
  | .optBool a => [if v.flag a then 2 else 1]
  | .passEnv =>
    match v.passEnv with
    | none => [0]
    | some l => 1 :: (hdr l.length ++ (l.map fun e => framed e ++ framed (c.getenv e)).flatten)

def serViewFramed (c : Ctx) (v : View) (items : List Item) : Bytes :=
  items.flatMap (serItemFramed c v)

end PlzVerif.RuleHash
