import PlzVerif.Model.Lock
import PlzVerif.Model.BuildFacts
import PlzVerif.Generated.C31
/-! The locking facts the multi-process model (C31) is instantiated with on this run, regenerated from /repo by
    harness/extract/c31.  Core only. -/
namespace PlzVerif.Lock
open PlzVerif.Build PlzVerif.Generated

/-- `a` occurs before `b` in `l` (both present). -/
def before (l : List String) (a b : String) : Bool :=
  l.contains a && l.contains b && decide (l.idxOf a < l.idxOf b)

/-- The per-target lock really excludes (this is `LFacts.excl`):
    * `AcquireExclusiveFileLock` asks for `LOCK_EX`, and the mode reaches `flock(2)` unchanged;
    * `acquireFileLock` probes non-blocking and then WAITS in the requested mode; the release is `LOCK_UN`;
    * in `buildTarget` the lock is the first thing taken and its release is deferred (so it covers needsBuilding,
      the action, moveOutputs and the stamp written by calculateAndCheckRuleHash), and there is no early release;
    * what is locked is the target's build lock file, a SIBLING of the tmp dir (`TmpDir() + ".lock"`), so the
      `RemoveAll(TmpDir())` of prepareDirectories cannot unlink the inode another process is waiting on. -/
def targetLockExcludes : Bool :=
  C31.targetLockFlag == "syscall.LOCK_EX" && C31.openFileLockPassesMode &&
  C31.acquireFlockFlags == ["param1 | syscall.LOCK_NB", "param1"] &&
  C31.releaseFlockFlags == ["syscall.LOCK_UN"] &&
  C31.buildTargetCalls.take 2 == ["AcquireExclusiveFileLock", "defer ReleaseFileLock"] &&
  !C31.buildTargetCallSeq.contains "ReleaseFileLock" &&
  C31.buildLockArg == "BuildLockFile" &&
  C31.buildLockFileExpr == "recv.TmpDir() + lockFileSuffix" &&
  C31.lockFileSuffix != "" && !C31.lockFileSuffix.toList.contains '/'

/-- `plz build` / `plz test` go through `runPlease`; the first repo-lock call there says which lock.go wrapper is
    used, and that wrapper's flock flag gives the mode actually requested. -/
def repoLockExclusive : Bool :=
  match (C31.runPleaseCalls.filter fun c => c == "AcquireSharedRepoLock" || c == "AcquireExclusiveRepoLock").head? with
  | some "AcquireSharedRepoLock" => C31.repoSharedFlag == "syscall.LOCK_EX"
  | some "AcquireExclusiveRepoLock" => C31.repoExclusiveFlag == "syscall.LOCK_EX"
  | _ => false      -- no repo lock at all: nothing serialises the invocations

def generatedLFacts : LFacts := { excl := targetLockExcludes, repoExclusive := repoLockExclusive }

/-- The order of the worker steps in `Model/Lock.lean` is the order of the calls in `buildTarget`:
    check < prepare < exec < store < move < stamp. -/
def stepOrderOK : Bool :=
  before C31.buildTargetCalls "needsBuilding" "prepareDirectories" &&
  before C31.buildTargetCalls "prepareDirectories" "prepareSources" &&
  before C31.buildTargetCalls "prepareSources" "build" &&
  before C31.buildTargetCalls "build" "StoreTargetMetadata" &&
  before C31.buildTargetCalls "StoreTargetMetadata" "moveOutputs" &&
  (C31.buildTargetCallSeq.dropWhile (· != "moveOutputs")).contains "calculateAndCheckRuleHash"

/-- prepareDirectories removes the (shared) tmp dir and never the output dir; moveOutput puts an output in place
    by RemoveAll + os.Rename of the file the action wrote in the tmp dir (never by writing in place). -/
def moveOK : Bool :=
  C31.prepareDirectoriesArgs == ["TmpDir:true", "OutDir:false"] &&
  before C31.moveOutputCalls "Equal" "RemoveAll" && before C31.moveOutputCalls "RemoveAll" "Rename" &&
  C31.moveOutputRename == "os.Rename(param2, param3)" &&
  -- hash of the EXISTING output (param3 = realOutput) equals hash of the NEW one (param2 = tmpOutput) ⇒ the file stays
  C31.moveOutputKeepCond == "bytes.Equal(hashOf(param3), hashOf(param2))" &&
  !C31.moveOutputCalls.contains "WriteFile" && !C31.moveOutputCalls.contains "Create"

/-- The test step is bracketed in the same way by the per-run test lock. -/
def testBracketOK : Bool :=
  C31.testStepCalls.take 2 == ["AcquireExclusiveFileLock", "defer ReleaseFileLock"] &&
  before C31.testStepCalls "defer ReleaseFileLock" "needToRun" &&
  before C31.testStepCalls "needToRun" "RemoveTestOutputs" &&
  before C31.testStepCalls "RemoveTestOutputs" "doFlakeRun" &&
  C31.testLockArg == "TestLockFile" && C31.testLockFileExpr == "recv.TestDir(param0) + lockFileSuffix"

/-- Decidable side condition of the C31 theorems on the regenerated facts. -/
def LockFactsOK : Bool :=
  generatedFacts.cmpRule && generatedFacts.cmpSource && generatedFacts.keepOld &&
  C01.needsBuildingChecksOutputs && C01.needsBuildingChecksMetadata &&
  generatedLFacts.excl && stepOrderOK && moveOK && testBracketOK &&
  -- `--nolock` is declared (please.go:90) but read nowhere: no path skips the locks the model has
  C31.noLockFlagReads == 0

end PlzVerif.Lock
