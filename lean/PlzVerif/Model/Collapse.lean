/-
`core.CollapseHash` (src/core/utils.go:494): the 80-byte target hash (rule ++ postRule ++ config ++ source, 20 bytes
each) is folded to 20 bytes by XOR-ing blocks; when rule = postRule the rule block is XOR-ed once.
The block lists of the two branches are regenerated facts.  Keys are byte functions `Nat → Nat` (index ↦ byte).
-/
namespace PlzVerif.Collapse

def blockSize : Nat := 20

def xorBlocks (key : Nat → Nat) (blocks : List Nat) (i : Nat) : Nat :=
  blocks.foldl (fun acc b => acc ^^^ key (i + b * blockSize)) 0

/-- blocks 0 and 1 equal? (decidable over the 20 positions) -/
def rulesEqual (key : Nat → Nat) : Bool := (List.range blockSize).all fun i => key i == key (i + blockSize)

def collapse (eqBranch elseBranch : List Nat) (key : Nat → Nat) (i : Nat) : Nat :=
  if rulesEqual key then xorBlocks key eqBranch i else xorBlocks key elseBranch i

/-- list form used by the driver -/
def collapseList (eqBranch elseBranch : List Nat) (key : List Nat) : List Nat :=
  (List.range blockSize).map (collapse eqBranch elseBranch (fun j => key.getD j 0))

end PlzVerif.Collapse
