/-
Model of `core.MergeCoverageLines` and `(*TestCoverage).Aggregate` (src/core/test_results.go:268-300).
Core Lean only.  Line states are the uint8 values of the Go enum `LineCoverage`.
The comparison operator used by the Go loop is a regenerated fact (`Generated.C27.mergeCmp`).
-/
namespace PlzVerif.Coverage

/-- Interpretation of the Go comparison token found in `else if coverage[i] OP ret[i]`. -/
def cmpOf (op : String) (new old : Nat) : Bool :=
  if op = ">" then decide (new > old)
  else if op = ">=" then decide (new ≥ old)
  else if op = "<" then decide (new < old)
  else if op = "<=" then decide (new ≤ old)
  else if op = "!=" then decide (new ≠ old)
  else if op = "==" then decide (new = old)
  else false

/-- `MergeCoverageLines(existing, coverage)`: copy `existing`; for each index of `coverage`,
    append when past the end, else overwrite when `cmp coverage[i] ret[i]`. -/
def mergeWith (cmp : Nat → Nat → Bool) : List Nat → List Nat → List Nat
  | [], ys => ys
  | xs, [] => xs
  | x :: xs, y :: ys => (if cmp y x then y else x) :: mergeWith cmp xs ys

/-- Index-based transcription of the Go loop (kept to tie the structural definition to the code shape). -/
def mergeLoop (cmp : Nat → Nat → Bool) (existing coverage : List Nat) : List Nat :=
  let step := fun (acc : List Nat × Nat) (line : Nat) =>
    let (ret, i) := acc
    if i ≥ ret.length then (ret ++ [line], i + 1)
    else if cmp line (ret.getD i 0) then (ret.set i line, i + 1)
    else (ret, i + 1)
  (coverage.foldl step (existing, 0)).1

/-- `Files map[string][]LineCoverage` as an association list (a Go map: key order is not observable). -/
abbrev Files := List (String × List Nat)

def Files.get (f : Files) (k : String) : Option (List Nat) := (f.find? (·.1 = k)).map (·.2)

def Files.put (f : Files) (k : String) (v : List Nat) : Files :=
  if f.any (·.1 = k) then f.map (fun e => if e.1 = k then (k, v) else e) else f ++ [(k, v)]

/-- `coverage.Files[filename] = MergeCoverageLines(coverage.Files[filename], c)` for each entry of `cov`. -/
def aggregateWith (cmp : Nat → Nat → Bool) (acc cov : Files) : Files :=
  cov.foldl (fun a e => a.put e.1 (mergeWith cmp ((a.get e.1).getD []) e.2)) acc

end PlzVerif.Coverage
