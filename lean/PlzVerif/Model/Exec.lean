/-
Model of `process.Executor.ExecWithTimeout` / `killProcess` / `sendSignal` (src/process/process.go:89-214)
and of the process group `ExecCommand` sets up (`Setpgid: true`, src/process/exec_linux.go:40-44).

The supervisor is a small deterministic state machine over a clock in milliseconds:

  running ──(Wait returned)────────────────────────────────▶ returned normally
     │
     └─(deadline)─▶ SIGTERM to the group ─▶ termSent ──(Wait returned, or 30 ms)──▶ SIGKILL to the group
                                                         ─▶ killSent ──(Wait returned, or 1 s)──▶ returned, timed out

`cmd.Wait()` returns when the group leader has exited *and* nobody holds the write end of the output pipes
any more (the outputs are Go writers, so `os/exec` copies from pipes and waits for EOF).  Its result goes
through an unbuffered channel that is received at most once: when the SIGTERM round already received it, the
SIGKILL round waits out its full second (process.go:169-170 always runs the second `sendSignal` — the fact
`killAlways`; with `false` the model skips that round, which is the negative control of Props/C30).

The processes are the environment: while alive they may exit, fork (the child inherits group membership,
pipe ends and signal dispositions), close their pipe ends, start ignoring SIGTERM, or leave the group
(`setsid`).  Kernel assumptions, stated once: `kill(-pgid, SIGKILL)` ends every current member of the group,
`kill(-pgid, SIGTERM)` ends every current member that does not ignore it, a dead process does nothing.
The durations (30 ms, 1 s) and the signal order are regenerated facts (`Timing`).

Core Lean only.  Outside the model: real time and scheduling latency, process start-up, zombies/reaping,
`Pdeathsig`, namespaces and the sandbox tool.
-/
namespace PlzVerif.Exec

/-- The regenerated facts the supervisor is parameterised by. -/
structure Timing where
  termWait : Nat      -- ms to wait after SIGTERM
  killWait : Nat      -- ms to wait after SIGKILL
  killAlways : Bool   -- the SIGKILL round runs even when the SIGTERM round already received the Wait result
  killsGroup : Bool   -- signals go to the negated pid (the whole group), not to the leader alone
deriving Repr, DecidableEq

structure Proc where
  alive : Bool
  inGroup : Bool
  holdsPipe : Bool
  ignoresTerm : Bool
deriving Repr, DecidableEq

inductive Phase where
  | running
  | termSent (t : Nat)                 -- SIGTERM went out at time t
  | killSent (t : Nat)                 -- SIGKILL went out at time t
  | returned (timedOut : Bool) (t : Nat)
deriving Repr, DecidableEq

def Phase.isReturned : Phase → Bool
  | .returned _ _ => true
  | _ => false

/-- `leader` is the process `cmd.Start` created; `others` everything it (transitively) forked. -/
structure St where
  now : Nat
  deadline : Nat
  leader : Proc
  others : List Proc
  phase : Phase
  chTaken : Bool          -- the result of `cmd.Wait()` has been received from the channel
deriving Repr, DecidableEq

def St.procs (s : St) : List Proc := s.leader :: s.others

/-- `cmd.Wait()` has returned: leader gone and every pipe end closed. -/
def St.waitDone (s : St) : Bool := !s.leader.alive && s.others.all (fun p => !(p.alive && p.holdsPipe))

/-- Something can be received from the channel. -/
def St.chReady (s : St) : Bool := s.waitDone && !s.chTaken

def sigTerm (p : Proc) : Proc := if p.inGroup && !p.ignoresTerm then { p with alive := false } else p
def sigKill (p : Proc) : Proc := if p.inGroup then { p with alive := false } else p

/-- `syscall.Kill(±pid, sig)`: to the whole group, or (were the sign dropped) to the leader only. -/
def St.signal (tm : Timing) (s : St) (f : Proc → Proc) : St :=
  { s with leader := f s.leader, others := if tm.killsGroup then s.others.map f else s.others }

/-- The supervisor's next step, if one is due now (`none`: it is blocked in a `select`). -/
def sup (tm : Timing) (s : St) : Option St :=
  match s.phase with
  | .running =>
    if s.chReady then some { s with phase := .returned false s.now, chTaken := true }
    else if s.now ≥ s.deadline then some { (s.signal tm sigTerm) with phase := .termSent s.now }
    else none
  | .termSent t =>
    if s.chReady then
      if tm.killAlways then some { (s.signal tm sigKill) with phase := .killSent s.now, chTaken := true }
      else some { s with phase := .returned true s.now, chTaken := true }    -- `if !success && !sendSignal(KILL…)`
    else if s.now ≥ t + tm.termWait then some { (s.signal tm sigKill) with phase := .killSent s.now }
    else none
  | .killSent t =>
    if s.chReady then some { s with phase := .returned true s.now, chTaken := true }
    else if s.now ≥ t + tm.killWait then some { s with phase := .returned true s.now }
    else none
  | .returned _ _ => none

/-- What one live process can do in one step. -/
inductive ProcStep : Proc → Proc → Prop
  | exit (p : Proc) : p.alive = true → ProcStep p { p with alive := false }
  | closePipe (p : Proc) : p.alive = true → ProcStep p { p with holdsPipe := false }
  | ignoreTerm (p : Proc) : p.alive = true → ProcStep p { p with ignoresTerm := true }
  | setsid (p : Proc) : p.alive = true → ProcStep p { p with inGroup := false }

/-- One step of the whole system.  Time only passes when the supervisor has nothing due (its timers and
    channel receives are served at once: scheduling latency is outside the model). -/
inductive Step (tm : Timing) : St → St → Prop
  | sup {s s' : St} : sup tm s = some s' → Step tm s s'
  | tick {s : St} : sup tm s = none → Step tm s { s with now := s.now + 1 }
  | leader {s : St} {p' : Proc} : ProcStep s.leader p' → Step tm s { s with leader := p' }
  | other {s : St} (pre post : List Proc) (p p' : Proc) : s.others = pre ++ p :: post → ProcStep p p' →
      Step tm s { s with others := pre ++ p' :: post }
  | fork {s : St} (p : Proc) : p ∈ s.procs → p.alive = true → Step tm s { s with others := s.others ++ [p] }

inductive Reach (tm : Timing) : St → St → Prop
  | refl (s : St) : Reach tm s s
  | step {s t u : St} : Reach tm s t → Step tm t u → Reach tm s u

/-- The state right after `cmd.Start()`. -/
def init (deadline : Nat) (ignoresTerm : Bool) : St :=
  { now := 0, deadline := deadline, leader := ⟨true, true, true, ignoresTerm⟩, others := [], phase := .running, chTaken := false }

/-! ### an executable run against a fixed script (for the correspondence harness)

A script fixes when the leader exits by itself and, for each background child it starts at time 0, when that
child exits, whether it keeps the output pipe and whether it ignores SIGTERM. -/

structure Child where
  exitAt : Nat
  holdsPipe : Bool
  ignoresTerm : Bool
deriving Repr

structure Script where
  leaderExitAt : Nat
  leaderIgnoresTerm : Bool
  children : List Child
deriving Repr

/-- The processes' own exits that are due at time `now`. -/
def applyExits (sc : Script) (s : St) : St :=
  { s with
    leader := if s.now ≥ sc.leaderExitAt then { s.leader with alive := false } else s.leader,
    others := (s.others.zip sc.children).map fun (p, c) => if s.now ≥ c.exitAt then { p with alive := false } else p }

def initScript (deadline : Nat) (sc : Script) : St :=
  { init deadline sc.leaderIgnoresTerm with
    others := sc.children.map fun c => ⟨true, true, c.holdsPipe, c.ignoresTerm⟩ }

/-- Every instant at which something is scheduled: the scripted exits, the deadline, the supervisor's
    current timer. -/
def candidates (tm : Timing) (sc : Script) (s : St) : List Nat :=
  (sc.leaderExitAt :: s.deadline :: sc.children.map (·.exitAt)) ++
    (match s.phase with
     | .termSent t => [t + tm.termWait]
     | .killSent t => [t + tm.killWait]
     | _ => [])

/-- The smallest candidate later than `now` (`now + 1` when there is none). -/
def minAbove (cands : List Nat) (now : Nat) : Nat :=
  match cands.filter (· > now) with
  | [] => now + 1
  | c :: cs => cs.foldl min c

/-- The next instant at which anything is scheduled. -/
def nextTime (tm : Timing) (sc : Script) (s : St) : Nat := minAbove (candidates tm sc s) s.now

/-- One supervisor step if one is due. -/
def supOpt (tm : Timing) (s : St) : St := match sup tm s with | some s' => s' | none => s

/-- Up to three supervisor steps (there are at most three phase changes), stopping when it blocks. -/
def sup3 (tm : Timing) (s : St) : St := supOpt tm (supOpt tm (supOpt tm s))

/-- Run for at most `fuel` events: at each instant first the scripted exits, then supervisor steps until
    it blocks, then jump to the next scheduled instant. -/
def runScript (tm : Timing) (sc : Script) : Nat → St → St
  | 0, s => s
  | fuel + 1, s =>
    let s3 := sup3 tm (applyExits sc s)
    if s3.phase.isReturned then s3
    else runScript tm sc fuel { s3 with now := nextTime tm sc s3 }

/-- Group members still alive. -/
def St.survivors (s : St) : Nat := (s.procs.filter fun p => p.alive && p.inGroup).length

end PlzVerif.Exec
