import PlzVerif.Model.Build
/-
Build step with an artifact cache (src/build/build_step.go:306-330 retrieve, :386-400 store; src/cache/dir_cache.go).
The cache key is `CollapseHash(rule ++ postRule ++ config ++ source)` for the target's label — idealised as
injective, i.e. the key IS (label, stamp).  A hit restores the stored tree instead of running the action;
after a real build the tree now in plz-out (after moveOutput!) is stored under the new key.
-/
namespace PlzVerif.Build

variable {K A F N C S H : Type} [DecidableEq K] [DecidableEq S] [DecidableEq N] [DecidableEq H]

abbrev Cache (K C S N H : Type) := K × Stamp S N H → Option C

variable (fx : Facts) (mv : C → C → C) (rs : C → C → C) (exec : A → List (N × C) → C) (ruleSer : A → S) (pathSer : C → H)

/-- Restoring as coded for declared outputs: the cached artifact replaces whatever was there. -/
def rsCoded {C : Type} (_old new : C) : C := new

/-- (plz-out, cache, ran?) after one `buildTarget` with the cache configured. -/
def buildOneC (r : Repo K A F N C) (out : Out K C S N H) (cache : Cache K C S N H) (t : Target K A F) :
    Out K C S N H × Cache K C S N H × Bool :=
  match inputs r out t with
  | none => (out, cache, false)
  | some ins =>
    let st : Stamp S N H := stampOf ruleSer pathSer t.attrs ins
    let upToDate := match out t.key with
      | some (_, st0) => stampEq fx st0 st
      | none => false
    if upToDate then (out, cache, false)
    else match cache (t.key, st) with
      | some c =>                                                         -- restored, nothing runs
        let placed := match out t.key with
          | some (c0, _) => rs c0 c      -- `rs old restored`: what is in plz-out after restoring over an old output
          | none => c
        (fun j => if j = t.key then some (placed, st) else out j, cache, false)
      | none =>
        let out' := (buildOne fx mv exec ruleSer pathSer r out t).1
        let cache' : Cache K C S N H := fun q =>
          if q = (t.key, st) then (out' t.key).map Prod.fst else cache q                 -- store what is in plz-out now
        (out', cache', true)

def buildListC (r : Repo K A F N C) (sel : K → Bool) :
    List (Target K A F) → Out K C S N H → Cache K C S N H → Out K C S N H × Cache K C S N H × List K
  | [], out, cache => (out, cache, [])
  | t :: ts, out, cache =>
    if sel t.key then
      let (out', cache', ran) := buildOneC fx mv rs exec ruleSer pathSer r out cache t
      let (out'', cache'', rs) := buildListC r sel ts out' cache'
      (out'', cache'', if ran then t.key :: rs else rs)
    else buildListC r sel ts out cache

def buildC (r : Repo K A F N C) (sel : K → Bool) (out : Out K C S N H) (cache : Cache K C S N H) :=
  buildListC fx mv rs exec ruleSer pathSer r sel r.targets out cache

end PlzVerif.Build
