/-
Model of `plz.FindAllBuildFiles` (src/plz/plz.go:244) over an abstract directory tree, together with the
part of `godirwalk.Walk` (v1.17.0, walk.go `walk`) that `fs.Walk` relies on:

  * children are visited in byte-wise sorted order of their names (`newSortedScanner`);
  * symbolic links are reported with `isDir = false` and never followed;
  * when the callback returns `filepath.SkipDir` for a directory (or a symlink to one) only that entry is
    skipped; when it returns it for any *other* entry the remaining siblings are dropped (`break`).

Core Lean only.  Path names are `List Char` (the code works on strings: `strings.HasPrefix`,
`filepath.Base`), the specification works on lists of path components.

The callback's decision structure is *data* (`Facts`): the if / else-if chain and the blacklist test are
boolean formulas over a fixed set of atoms, written in reverse polish notation over `Nat` codes so that the
regenerated file needs nothing but core types.  `Facts.canon` is the structure the pinned source has.
-/
namespace PlzVerif.Walk

abbrev Name := List Char

/-- Non-directory entries: regular file, symlink that resolves to a directory, any other symlink. -/
inductive Kind | file | linkDir | linkOther
  deriving DecidableEq, Repr

mutual
inductive Tree
  | leaf (k : Kind)
  | dir (cs : Forest)
inductive Forest
  | nil
  | cons (n : Name) (t : Tree) (rest : Forest)
end

/-- `config.Parse.*` fields the walk reads, plus the `prefix` argument. -/
structure Config where
  buildNames : List Name      -- Parse.BuildFileName
  experimental : List Name    -- Parse.ExperimentalDir
  blacklist : List Name       -- Parse.BlacklistDirs
  pfx : Name                  -- the `prefix` argument ("" for `//dir/...`)

/-! ### strings -/

/-- `filepath.Base` on a clean relative path: what follows the last '/'. -/
def base (n : Name) : Name := (n.reverse.takeWhile (· != '/')).reverse

/-- `filepath.Join(parent, child)` for a clean `parent` and a plain entry name. -/
def join (parent child : Name) : Name := if parent = ['.'] then child else parent ++ '/' :: child

def joinSlash : List Name → Name
  | [] => []
  | [a] => a
  | a :: b :: r => a ++ '/' :: joinSlash (b :: r)

/-- The path string of a component list (`[]` is the repository root, printed "."). -/
def nameOf (p : List Name) : Name := if p.isEmpty then ['.'] else joinSlash p

/-! ### the callback as data -/

/-- Atom codes (`< 100`) of the formulas; `dir` is the blacklist loop variable. -/
def aBaseEqOut := 0      -- basename == core.OutDir
def aIsDir := 1          -- isDir
def aBaseHidden := 2     -- strings.HasPrefix(basename, ".")
def aNameEqDot := 3      -- name == "."
def aNameHasPfx := 4     -- strings.HasPrefix(name, prefix)
def aPfxHasName := 5     -- strings.HasPrefix(prefix, name)
def aIsBuild := 6        -- config.IsABuildFile(basename)
def aInExp := 7          -- cli.ContainsString(name, config.Parse.ExperimentalDir)
def aBlEqBase := 8       -- dir == basename
def aBlStrPfx := 9       -- strings.HasPrefix(name, dir)
def aBlEqName := 10      -- dir == name
def aBlSlashPfx := 11    -- strings.HasPrefix(name, dir + "/")
def opNot := 100
def opAnd := 101
def opOr := 102
def opTrue := 103
def opFalse := 104

abbrev Val := Nat → Bool

/-- Reverse-polish evaluation; `none` on a malformed program (stack underflow, unknown code, leftovers). -/
def evalRPN (v : Val) : List Nat → List Bool → Option Bool
  | [], [b] => some b
  | [], _ => none
  | c :: cs, st =>
    if c < 12 then evalRPN v cs (v c :: st)
    else if c = opTrue then evalRPN v cs (true :: st)
    else if c = opFalse then evalRPN v cs (false :: st)
    else if c = opNot then
      match st with
      | a :: st' => evalRPN v cs ((!a) :: st')
      | _ => none
    else if c = opAnd then
      match st with
      | b :: a :: st' => evalRPN v cs ((a && b) :: st')
      | _ => none
    else if c = opOr then
      match st with
      | b :: a :: st' => evalRPN v cs ((a || b) :: st')
      | _ => none
    else none

/-- Action of a chain branch: 0 = `return filepath.SkipDir`, 1 = `ch <- name` (then fall through). -/
def actSkip := 0
def actEmit := 1

structure Facts where
  outDir : Name
  chain : List (List Nat × Nat)     -- if / else-if branches in source order: (condition, action)
  blCond : List Nat                 -- condition inside `for _, dir := range BlacklistDirs`
  cutOnNonDir : Bool                -- godirwalk: SkipDir for a non-directory drops the remaining siblings
  sorted : Bool                     -- godirwalk: children visited in sorted order (Options.Unsorted unset)

/-- First branch whose condition holds: `some action`; `none` when no branch fires or a formula is malformed
    (malformed never happens for extracted facts; `FactsOK` rules it out). -/
def runChain (v : Val) : List (List Nat × Nat) → Option Nat
  | [] => none
  | (c, a) :: rest =>
    match evalRPN v c [] with
    | some true => some a
    | some false => runChain v rest
    | none => none

/-- The valuation of the atoms for one callback invocation and one blacklist entry. -/
def valOf (F : Facts) (cfg : Config) (name : Name) (isDir : Bool) (d : Name) : Val := fun a =>
  if a = aBaseEqOut then base name == F.outDir
  else if a = aIsDir then isDir
  else if a = aBaseHidden then ['.'].isPrefixOf (base name)
  else if a = aNameEqDot then name == ['.']
  else if a = aNameHasPfx then cfg.pfx.isPrefixOf name
  else if a = aPfxHasName then name.isPrefixOf cfg.pfx
  else if a = aIsBuild then cfg.buildNames.contains (base name)
  else if a = aInExp then cfg.experimental.contains name
  else if a = aBlEqBase then d == base name
  else if a = aBlStrPfx then d.isPrefixOf name
  else if a = aBlEqName then d == name
  else if a = aBlSlashPfx then (d ++ ['/']).isPrefixOf name
  else false

/-- One callback invocation: (name sent on the channel?, `filepath.SkipDir` returned?). -/
def callback (F : Facts) (cfg : Config) (name : Name) (isDir : Bool) : Bool × Bool :=
  let r := runChain (valOf F cfg name isDir []) F.chain
  if r = some actSkip then (false, true)
  else
    (r == some actEmit,
     cfg.blacklist.any fun d => evalRPN (valOf F cfg name isDir d) F.blCond [] == some true)

/-! ### the walk -/

mutual
/-- `godirwalk.walk`: result is (names sent in order, "the caller must stop visiting the siblings"). -/
def walk (cb : Name → Bool → Bool × Bool) (cut : Bool) (name : Name) : Tree → List Name × Bool
  | .leaf k =>
    let r := cb name false
    (if r.1 then [name] else [], cut && r.2 && k != .linkDir)
  | .dir cs =>
    let r := cb name true
    ((if r.1 then [name] else []) ++ (if r.2 then [] else walkF cb cut name cs), false)
def walkF (cb : Name → Bool → Bool × Bool) (cut : Bool) (parent : Name) : Forest → List Name
  | .nil => []
  | .cons n t rest =>
    let r := walk cb cut (join parent n) t
    if r.2 then r.1 else r.1 ++ walkF cb cut parent rest
end

/-- Lexicographic order on names by code point (= byte order of the UTF-8 encodings). -/
def nameLt : Name → Name → Bool
  | [], [] => false
  | [], _ :: _ => true
  | _ :: _, [] => false
  | a :: as, b :: bs => if a.toNat < b.toNat then true else if b.toNat < a.toNat then false else nameLt as bs

def Forest.insert (n : Name) (t : Tree) : Forest → Forest
  | .nil => .cons n t .nil
  | .cons m u rest => if nameLt n m then .cons n t (.cons m u rest) else .cons m u (Forest.insert n t rest)

mutual
/-- `sort.Sort(deChildren)` at every level. -/
def Tree.sort : Tree → Tree
  | .leaf k => .leaf k
  | .dir cs => .dir (Forest.sort cs)
def Forest.sort : Forest → Forest
  | .nil => .nil
  | .cons n t rest => Forest.insert n (Tree.sort t) (Forest.sort rest)
end

/-- `FindAllBuildFiles(config, rootPath, prefix)` for a clean `rootPath` given as components
    (`rootPath == ""` is replaced by "." in the code; both are `[]` here). -/
def findAll (F : Facts) (cfg : Config) (root : List Name) (t : Tree) : List Name :=
  (walk (callback F cfg) F.cutOnNonDir (nameOf root) (if F.sorted then t.sort else t)).1

/-! ### the structure of the pinned source -/

def plzOut : Name := ['p', 'l', 'z', '-', 'o', 'u', 't']

/-- What src/plz/plz.go:250-268 looks like today (committed copy: lean/Expected/C22.lean). -/
def Facts.canon : Facts where
  outDir := plzOut
  chain := [
    ([aBaseEqOut, aIsDir, aBaseHidden, opAnd, aNameEqDot, opNot, opAnd, opOr], actSkip),
    ([aIsDir, aNameHasPfx, opNot, opAnd, aPfxHasName, opNot, opAnd], actSkip),
    ([aIsBuild, aIsDir, opNot, opAnd], actEmit),
    ([aInExp], actSkip)]
  blCond := [aBlEqBase, aBlStrPfx, opOr]
  cutOnNonDir := true
  sorted := true

/-- The repaired structure: `filepath.SkipDir` is returned for directories only, blacklist entries match whole
    path components (`isDir && (dir == basename || name == dir || strings.HasPrefix(name, dir+"/"))`). -/
def Facts.repaired : Facts where
  outDir := plzOut
  chain := [
    ([aIsDir, aBaseEqOut, aBaseHidden, aNameEqDot, opNot, opAnd, opOr, opAnd], actSkip),
    ([aIsDir, aNameHasPfx, opNot, opAnd, aPfxHasName, opNot, opAnd], actSkip),
    ([aIsBuild, aIsDir, opNot, opAnd], actEmit),
    ([aIsDir, aInExp, opAnd], actSkip)]
  blCond := [aIsDir, aBlEqBase, aBlEqName, opOr, aBlSlashPfx, opOr, opAnd]
  cutOnNonDir := true
  sorted := true

/-- Blacklist test with whole-component matching (`dir == basename || name == dir || HasPrefix(name, dir+"/")`). -/
def blCondComponent : List Nat := [aBlEqBase, aBlEqName, opOr, aBlSlashPfx, opOr]

/-! ### specification: component-wise, no strings compared by prefix -/

def hiddenName (n : Name) : Bool := match n with | '.' :: _ => true | _ => false

/-- Last component of a path; the root is printed ".". -/
def lastOr (p : List Name) : Name := match p.getLast? with | some x => x | none => ['.']

/-- `d` names the directory `p` itself or one of its ancestors: equal as a whole sequence of components. -/
def compMatch (d : Name) (p : List Name) : Bool :=
  (List.range p.length).any fun k => d == joinSlash (p.take (k + 1))

/-- The directory with component path `p` (from the repository root) is excluded from `...` expansion:
    it is `plz-out`, hidden, an experimental directory, or blacklisted -- where a blacklist entry matches
    a directory name (last component) or a whole leading sequence of path components. -/
def specExcluded (outDir : Name) (cfg : Config) (p : List Name) : Bool :=
  let b := lastOr p
  b == outDir || (!p.isEmpty && hiddenName b) || cfg.experimental.contains (nameOf p) ||
  cfg.blacklist.any fun d => d == b || compMatch d p

mutual
/-- BUILD files (as component paths) that `//p/...` must yield for the tree `t` rooted at `p`. -/
def spec (outDir : Name) (cfg : Config) (p : List Name) : Tree → List (List Name)
  | .leaf _ => []
  | .dir cs => if specExcluded outDir cfg p then [] else specF outDir cfg p cs
def specF (outDir : Name) (cfg : Config) (p : List Name) : Forest → List (List Name)
  | .nil => []
  | .cons n t rest =>
    (match t with
     | .leaf _ => if cfg.buildNames.contains n then [p ++ [n]] else []
     | .dir cs => spec outDir cfg (p ++ [n]) (.dir cs)) ++ specF outDir cfg p rest
end

def specNames (outDir : Name) (cfg : Config) (p : List Name) (t : Tree) : List Name :=
  (spec outDir cfg p t).map nameOf

/-! ### where the pinned code agrees with the specification -/

mutual
/-- `P` holds at every node the specification's traversal reaches (`stop` = excluded directory: not entered).
    `P p none` is asked of a directory at path `p`, `P p (some k)` of a non-directory entry. -/
def allNodes (P : List Name → Option Kind → Bool) (stop : List Name → Bool) (p : List Name) : Tree → Bool
  | .leaf k => P p (some k)
  | .dir cs => P p none && (stop p || allNodesF P stop p cs)
def allNodesF (P : List Name → Option Kind → Bool) (stop : List Name → Bool) (p : List Name) : Forest → Bool
  | .nil => true
  | .cons n t rest => allNodes P stop (p ++ [n]) t && allNodesF P stop p rest
end

/-- Blacklist test of the pinned source: `dir == basename || strings.HasPrefix(name, dir)`. -/
def blStr (name b d : Name) : Bool := d == b || d.isPrefixOf name
/-- Whole-component variant: `dir == basename || dir == name || strings.HasPrefix(name, dir + "/")`. -/
def blComp (name b d : Name) : Bool := d == b || d == name || (d ++ ['/']).isPrefixOf name

/-- A node is *benign* for the blacklist test `blT` when neither known defect can bite there:
    * directory: every blacklist entry that `blT` matches is a whole-component match;
    * non-directory entry (other than a symlink to a directory): the callback has no reason to return
      `filepath.SkipDir` for it (not named `plz-out`, not an experimental path, not matched by `blT`). -/
def benignAt (blT : Name → Name → Name → Bool) (outDir : Name) (cfg : Config) (p : List Name) : Option Kind → Bool
  | none => cfg.blacklist.all fun d => !(blT (nameOf p) (lastOr p) d) || d == lastOr p || compMatch d p
  | some k => k == .linkDir ||
      !(lastOr p == outDir || (!(cfg.buildNames.contains (lastOr p)) && cfg.experimental.contains (nameOf p)) ||
        cfg.blacklist.any (blT (nameOf p) (lastOr p)))

def benign (blT : Name → Name → Name → Bool) (outDir : Name) (cfg : Config) (p : List Name) (t : Tree) : Bool :=
  allNodes (benignAt blT outDir cfg) (specExcluded outDir cfg) p t

/-! ### well-formedness of names -/

/-- An entry name: non-empty, no '/', not ".". -/
def goodName (n : Name) : Bool := !n.isEmpty && !n.contains '/' && n != ['.']

mutual
def Tree.wf : Tree → Bool
  | .leaf _ => true
  | .dir cs => Forest.wf cs
def Forest.wf : Forest → Bool
  | .nil => true
  | .cons n t rest => goodName n && Tree.wf t && Forest.wf rest
end

end PlzVerif.Walk
