/-!
Model for the package-level half of C07: the hashes reported for a target must be a function of its own package
closure (its BUILD file, the build_defs files it subincludes, its sources), not of which other packages were parsed in
the same invocation, nor of when.  Core Lean only.

The shared state between package evaluations is the cache of subincluded files: for every build_defs file the frozen
CONFIG overlay it left behind (`World`).  Evaluating a package merges the overlays of its subincludes, in order, into
its own scope (`pyConfig.Merge`, src/parse/asp/objects.go) and computes its targets from the merged CONFIG.
`borrow` selects the variant in which the first merge adopts the subincluded overlay *by reference* and later merges
write into it — the aliasing the property excludes; with `borrow = false` the merge copies.
-/
namespace PlzVerif.ParseOrder

abbrev Overlay := List (Nat × Nat)          -- CONFIG key ↦ value
abbrev World := Nat → Overlay               -- build_defs file ↦ its cached frozen overlay

def get (o : Overlay) (k : Nat) : Option Nat := (o.find? (·.1 = k)).map (·.2)

/-- `Merge`: entries of `other` written over `o` (last write wins). -/
def merge (o other : Overlay) : Overlay :=
  other.foldl (fun acc kv => (acc.filter (·.1 ≠ kv.1)) ++ [kv]) o

structure Pkg where
  subincludes : List Nat                    -- build_defs files, in subinclude order
  key : Nat                                 -- the CONFIG key its targets' commands use
  deriving DecidableEq, Repr

/-- The CONFIG a package ends up with. -/
def scopeOf (w : World) (p : Pkg) : Overlay := p.subincludes.foldl (fun acc d => merge acc (w d)) []

/-- What `plz hash` reports for the package's targets: a function of the CONFIG value their command embeds. -/
def hashOf (w : World) (p : Pkg) : Option Nat := get (scopeOf w p) p.key

/-- The cache after the package was evaluated.  Copying merge: untouched.  Borrowing merge: the overlay of the FIRST
    subincluded file is the scope's own overlay, so everything merged afterwards is written into the cache entry. -/
def worldAfter (borrow : Bool) (w : World) (p : Pkg) : World :=
  if borrow then
    match p.subincludes with
    | d0 :: _ => fun d => if d = d0 then scopeOf w p else w d
    | [] => w
  else w

/-- Run a schedule (the order in which an invocation happens to evaluate packages) with cache-update function `after`;
    the hashes it reports for `p` (`none`: `p` was not evaluated). -/
def runWith (after : World → Pkg → World) : World → List Pkg → Pkg → Option (Option Nat)
  | _, [], _ => none
  | w, q :: rest, p => if q = p then some (hashOf w p) else runWith after (after w q) rest p

def run (borrow : Bool) : World → List Pkg → Pkg → Option (Option Nat) := runWith (worldAfter borrow)

end PlzVerif.ParseOrder
