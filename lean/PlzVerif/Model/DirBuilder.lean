/-
Model of `dirBuilder` (src/remote/utils.go:404-545) and of `buildEnv` (src/remote/action.go:578).
Core Lean only.

* names are byte strings (`List Nat`), compared like Go strings (`<` on bytes, lexicographic);
* a directory under construction holds three *insertion lists* (files, directories, symlinks);
* `dir()` creates missing parents and registers the child in its parent unless `hasChild`;
* `walk` fills in the digests of child directories that have none, sorts the three lists, and removes
  adjacent duplicates **with one `last` variable shared by the three loops, as written**;
* Go's `sort.Slice` is not stable: the theorems quantify over *any* function that returns a sorted
  permutation (`IsSort`); the executable model uses a stable insertion sort (`sort.Slice` is an insertion
  sort, hence stable, below 12 elements);
* the digest of a directory message is `H msg` for an arbitrary `H` (the driver uses an injective
  rendering, see `ser`).
-/
namespace PlzVerif.DirBuilder

abbrev Name := List Nat
abbrev Dg := String

structure FileNode where
  name : Name
  dg : Dg
  exec : Bool
  deriving DecidableEq, Repr

structure DirNode where
  name : Name
  dg : Option Dg          -- `none`: not yet computed (`Digest == nil`)
  deriving DecidableEq, Repr

structure SymNode where
  name : Name
  target : List Nat
  deriving DecidableEq, Repr

/-- `pb.Directory`: while building, the lists are in insertion order. -/
structure Dir where
  files : List FileNode := []
  dirs : List DirNode := []
  syms : List SymNode := []
  deriving DecidableEq, Repr

/-- Go's `a < b` on strings. -/
def nameLe (a b : Name) : Bool := decide (a ≤ b)

/-! ### sort + adjacent de-duplication -/

/-- A legal result of `sort.Slice(xs, func(i, j) { xs[i].Name < xs[j].Name })`. -/
def IsSort {α : Type} (key : α → Name) (sort : List α → List α) : Prop :=
  ∀ l, (sort l).Perm l ∧ (sort l).Pairwise (fun a b => key a ≤ key b)

/-- The loop `for _, x := range xs { if x.Name != last { out = append(out, x); last = x.Name } }`.
    Returns the kept elements and the final value of `last`. -/
def dedupFrom {α : Type} (key : α → Name) : Name → List α → List α × Name
  | last, [] => ([], last)
  | last, x :: xs =>
    if key x ≠ last then
      let r := dedupFrom key (key x) xs
      (x :: r.1, r.2)
    else dedupFrom key last xs

/-- The second half of `walk` on one directory whose child digests are already filled in:
    three sorts, then the three de-duplication loops.  `shared` (a regenerated fact): the loops use one
    `last` variable, initialised to "" once (the code today); otherwise each loop starts from "". -/
def canonWith (shared : Bool) (sf : List FileNode → List FileNode) (sd : List DirNode → List DirNode)
    (ss : List SymNode → List SymNode) (d : Dir) : Dir :=
  let f := dedupFrom (·.name) [] (sf d.files)
  let g := dedupFrom (·.name) (if shared then f.2 else []) (sd d.dirs)
  let s := dedupFrom (·.name) (if shared then g.2 else []) (ss d.syms)
  { files := f.1, dirs := g.1, syms := s.1 }

/-- Insertion into a sorted list, before the first element that is not smaller (stable). -/
def insertBy {α : Type} (key : α → Name) (x : α) : List α → List α
  | [] => [x]
  | y :: ys => if nameLe (key x) (key y) then x :: y :: ys else y :: insertBy key x ys

/-- The sort of the executable model: a stable insertion sort (what `sort.Slice` does below 12 elements). -/
def msort {α : Type} (key : α → Name) : List α → List α
  | [] => []
  | x :: xs => insertBy key x (msort key xs)

def canon (shared : Bool) (d : Dir) : Dir :=
  canonWith shared (msort (·.name)) (msort (·.name)) (msort (·.name)) d

/-! ### the builder -/

/-- A directory path from the root, outermost component first; `[]` is the root ("." and ""). -/
abbrev Path := List Name

/-- `b.dirs`: a Go map, here an association list with unique keys. -/
abbrev Builder := List (Path × Dir)

def Builder.empty : Builder := [([], {})]

def Builder.get (b : Builder) (p : Path) : Option Dir := (b.find? (·.1 == p)).map (·.2)

def Builder.has (b : Builder) (p : Path) : Bool := b.any (·.1 == p)

def Builder.modify (b : Builder) (p : Path) (f : Dir → Dir) : Builder :=
  b.map fun e => if e.1 == p then (e.1, f e.2) else e

/-- `if child != "" && !hasChild(d, child) { d.Directories = append(d.Directories, {Name: child}) }` -/
def addChild (c : Name) (d : Dir) : Dir :=
  if d.dirs.any (·.name == c) then d else { d with dirs := d.dirs ++ [⟨c, none⟩] }

/-- `b.dir(dir, child)` with the path given innermost component first (so that the recursion on the
    parent is structural).  Creates the directory and its missing ancestors. -/
def ensureRev (b : Builder) : List Name → Builder
  | [] => b
  | c :: parentRev =>
    let p := (c :: parentRev).reverse
    if b.has p then b
    else
      let b1 := ensureRev (b ++ [(p, {})]) parentRev
      b1.modify parentRev.reverse (addChild c)

/-- `b.Dir(name)` -/
def ensure (b : Builder) (p : Path) : Builder := ensureRev b p.reverse

inductive Op
  | dir (p : Path)                       -- b.Dir(p)
  | file (p : Path) (n : FileNode)       -- d := b.Dir(p); d.Files = append(d.Files, n)
  | dirNode (p : Path) (n : DirNode)     -- d := b.Dir(p); d.Directories = append(d.Directories, n)
  | sym (p : Path) (n : SymNode)         -- d := b.Dir(p); d.Symlinks = append(d.Symlinks, n)
  deriving DecidableEq, Repr

def applyOp (b : Builder) : Op → Builder
  | .dir p => ensure b p
  | .file p n => (ensure b p).modify p fun d => { d with files := d.files ++ [n] }
  | .dirNode p n => (ensure b p).modify p fun d => { d with dirs := d.dirs ++ [n] }
  | .sym p n => (ensure b p).modify p fun d => { d with syms := d.syms ++ [n] }

def applyOps (ops : List Op) : Builder := ops.foldl applyOp Builder.empty

/-! ### walk -/

/-- Result of walking one directory: its canonical message and every message emitted below and at it
    (post-order, as they are sent on the upload channel). `none`: out of fuel or a nil-digest child that
    has no entry in `b.dirs` (the Go code would dereference nil). -/
structure Walked where
  msg : Dir
  emitted : List Dir

/-- Fill the digests of the children that have none by walking them (first loop of `walk`). -/
def fillWith (walkChild : Name → Option Walked) (H : Dir → Dg) :
    List DirNode → Option (List DirNode × List Dir)
  | [] => some ([], [])
  | n :: rest =>
    match n.dg with
    | some _ => (fillWith walkChild H rest).map fun r => (n :: r.1, r.2)
    | none =>
      match walkChild n.name, fillWith walkChild H rest with
      | some w, some r => some (⟨n.name, some (H w.msg)⟩ :: r.1, w.emitted ++ r.2)
      | _, _ => none

/-- `b.walk(name, ch)` for arbitrary sort functions and digest function. -/
def walkWith (shared : Bool) (sf : List FileNode → List FileNode) (sd : List DirNode → List DirNode)
    (ss : List SymNode → List SymNode) (H : Dir → Dg) (b : Builder) : Nat → Path → Option Walked
  | 0, _ => none
  | fuel + 1, p =>
    match b.get p with
    | none => none
    | some d =>
      match fillWith (fun c => walkWith shared sf sd ss H b fuel (p ++ [c])) H d.dirs with
      | none => none
      | some (dirs', em) =>
        let m := canonWith shared sf sd ss { d with dirs := dirs' }
        some ⟨m, em ++ [m]⟩

/-- Depth bound: no key of the builder is longer than this. -/
def Builder.depth (b : Builder) : Nat := b.foldl (fun a e => max a e.1.length) 0

def walk (shared : Bool) (H : Dir → Dg) (b : Builder) : Option Walked :=
  walkWith shared (msort (·.name)) (msort (·.name)) (msort (·.name)) H b (b.depth + 2) []

/-! ### an injective rendering used as the digest function by the driver -/

def hexDigit (n : Nat) : Char := if n < 10 then Char.ofNat (48 + n) else Char.ofNat (87 + n)
def hexName (n : List Nat) : String :=
  if n.isEmpty then "-" else String.ofList (n.flatMap fun x => [hexDigit (x / 16 % 16), hexDigit (x % 16)])

def ser (d : Dir) : String :=
  "(" ++ ",".intercalate (d.files.map fun f => hexName f.name ++ ":" ++ f.dg ++ ":" ++ (if f.exec then "1" else "0"))
  ++ ";" ++ ",".intercalate (d.dirs.map fun n => hexName n.name ++ ":" ++ (n.dg.getD "nil"))
  ++ ";" ++ ",".intercalate (d.syms.map fun s => hexName s.name ++ ">" ++ hexName s.target) ++ ")"

/-! ### buildEnv -/

/-- `buildEnv`: the map is ranged over in arbitrary order (`env` is any enumeration of it), PATH entries
    under the user's home / equal to the please location are dropped, then `slices.SortFunc` by name. -/
def stripPath (location home : List Nat) (parts : List (List Nat)) : List (List Nat) :=
  parts.filter fun p => !(p == location) && !(home.isPrefixOf p)

def envVars (pathName : Name) (fixPath : List Nat → List Nat) (env : List (Name × List Nat)) : List (Name × List Nat) :=
  env.map fun e => if e.1 == pathName then (e.1, fixPath e.2) else e

/-- `env[k] = v` on the Go map. -/
def setVar (k : Name) (v : List Nat) (env : List (Name × List Nat)) : List (Name × List Nat) :=
  if env.any (·.1 == k) then env.map (fun e => if e.1 == k then (k, v) else e) else env ++ [(k, v)]

def strBytes (s : String) : List Nat := s.toUTF8.toList.map (·.toNat)

def buildEnvWith (sort : List (Name × List Nat) → List (Name × List Nat)) (pathName : Name)
    (fixPath : List Nat → List Nat) (sandbox binary : Bool) (env : List (Name × List Nat)) : List (Name × List Nat) :=
  let e1 := if sandbox then setVar (strBytes "SANDBOX") (strBytes "true") env else env
  let e2 := if binary then setVar (strBytes "_BINARY") (strBytes "true") e1 else e1
  sort (envVars pathName fixPath e2)

end PlzVerif.DirBuilder
