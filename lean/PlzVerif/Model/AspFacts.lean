import PlzVerif.Model.AspEval
/-
From the regenerated tables (harness/extract/c16 → `Generated/C16.lean`) to the `Facts` record the asp model
takes.  The tables are passed in as arguments: `Props` and the drivers instantiate them at `Generated.C16`.
-/
namespace PlzVerif.Asp

/-- Name of the Go constant for an operator (grammar.go). -/
def Op.goName : Op → String
  | .bin .add => "Add" | .bin .sub => "Subtract" | .bin .mul => "Multiply" | .bin .div => "Divide"
  | .bin .fdiv => "FloorDivide" | .bin .mod => "Modulo" | .bin .lt => "LessThan" | .bin .gt => "GreaterThan"
  | .bin .le => "LessThanOrEqual" | .bin .ge => "GreaterThanOrEqual" | .bin .eq => "Equal"
  | .bin .ne => "NotEqual" | .bin .in_ => "In" | .bin .notIn => "NotIn" | .bin .and_ => "And"
  | .bin .or_ => "Or" | .bin .union => "Union" | .bin .is_ => "Is" | .bin .isNot => "IsNot"
  | .un .neg => "Negate" | .un .not_ => "Not"

def allBinOps : List BinOp :=
  [.add, .sub, .mul, .div, .fdiv, .mod, .lt, .gt, .le, .ge, .eq, .ne, .in_, .notIn, .and_, .or_, .union, .is_, .isNot]

def allOps : List Op := allBinOps.map Op.bin ++ [.un .neg, .un .not_]

def tableGet {α : Type} (t : List (String × α)) (k : String) : Option α := (t.find? (·.1 == k)).map (·.2)

/-- `Operator.Precedence()` as a function. -/
def precOf (table : List (String × Int)) (dflt : Int) (o : Op) : Int := (tableGet table o.goName).getD dflt

structure RawFacts where
  precTable : List (String × Int)
  precDefault : Int
  lazyOps : List String
  operators : List (String × String)
  intOps : List (String × String)
  listAddAppendsToReceiver : Bool
  /-- the sum is `slices.Clip(…)`: its capacity is exactly its length (the model relies on it) -/
  listAddClips : Bool
  freezeWraps : String
  sortedArg : String
  reversedArg : String
  constantFoldsLists : Bool
  listSlice : String
  /-- per native builtin: name, Go function, the Go types it asserts on its arguments, whether it unwraps the
      frozen variants itself (harness/extract/c18) -/
  natives : List (String × String × List String × Bool)
  /-- how `==` compares (`reflect.DeepEqual` today) -/
  equalVia : String
  /-- `pyList.Operator`, case Add, has a branch for a `pyFrozenList` operand (harness/extract/c18) -/
  listAddAcceptsFrozen : Bool
  /-- the frozen-operand branch of `pyList.Operator` Add returns `slices.Clip(…)` of the whole sum -/
  listAddFrozenClipsResult : Bool
  /-- `type pyFrozenList struct { pyList }`: the wrapper gets every method it does not redefine from the list -/
  frozenListEmbedsList : Bool
  /-- the methods `pyFrozenList` defines itself -/
  frozenListMethods : List String
  /-- how `sorted` honours `reverse`: "flip-comparator" (the same sort with `order = GreaterThan`) or "reverse-after"
      (ascending sort, then `slices.Reverse`) -/
  sortedReverse : String
  /-- the sort function(s) `sorted` calls, e.g. ["sort.Slice"] -/
  sortedSortFns : List String
  /-- `interpretOps`: the comparison that decides "one more operator" vs. "the rest first", as `lhs op rhs` over
      the indices of the operator list -/
  opsCompare : String
  /-- `interpretOps`: number of recursive calls on `ops[1:]` (3: one per branch) -/
  opsRestCalls : Nat
  /-- `interpretOps`: the last branch hands the evaluated rest back to `interpretOp(obj, …)`, which asks
      `obj.IsTruthy()` again for `and` / `or` -/
  opsRecheck : Bool

def factsOf (r : RawFacts) : Facts where
  prec := precOf r.precTable r.precDefault
  intKind := fun b => (tableGet r.intOps (Op.bin b).goName).getD ""
  sortedInPlace := r.sortedArg != "copy"
  reversedInPlace := r.reversedArg != "copy"
  constLists := r.constantFoldsLists
  freezeKeepsElems := r.freezeWraps == "receiver"
  addAppends := r.listAddAppendsToReceiver
  sliceShares := r.listSlice == "reslice"
  frozenOK := fun name =>
    match r.natives.find? (·.1 == name) with
    | some (_, _, asserted, unwraps) => unwraps || !asserted.contains "pyList"
    | none => false
  addAcceptsFrozen := r.listAddAcceptsFrozen
  addFrozenClipsResult := r.listAddFrozenClipsResult
  sortedRevAfter := r.sortedReverse == "reverse-after"
  sortedStable := r.sortedSortFns.all fun f => ["sort.SliceStable", "sort.Stable", "slices.SortStableFunc"].contains f

/-- The surface token of every operator the model knows, as the parser's `operators` map must have it. -/
def expectedTokens : List (String × String) :=
  [("!=", "NotEqual"), ("%", "Modulo"), ("*", "Multiply"), ("+", "Add"), ("-", "Subtract"), ("/", "Divide"),
   ("//", "FloorDivide"), ("<", "LessThan"), ("<=", "LessThanOrEqual"), ("==", "Equal"), (">", "GreaterThan"),
   (">=", "GreaterThanOrEqual"), ("and", "And"), ("in", "In"), ("is", "Is"), ("is not", "IsNot"), ("not", "Not"),
   ("not in", "NotIn"), ("or", "Or"), ("|", "Union")]

/-- The precedence table orders the operators the way the Python grammar does. -/
def precOrderOK (prec : Op → Int) : Bool :=
  allOps.all fun a => allOps.all fun b => decide (prec a ≥ prec b) == decide (pyPrec a ≥ pyPrec b)

end PlzVerif.Asp
