/-
Model of configuration layering in src/core/config.go:
  `defaultGlobalConfigFiles` / `defaultConfigFiles` (which files, in which order),
  `ReadConfigFiles` (per file: the file, then one file per profile; then slice defaults),
  `readConfigFile` (plugin sections are reset before and merged after every file),
  gcfg's `set` as far as layering is concerned (single-valued: overwrite; unnamed slice: append,
  blank = reset; `map[string]string` section: per-key overwrite; plugin extra values: append),
  `ApplyOverrides` / `applyOverrideOnSectionField` / `applyPluginOverride` for `-o`.
Core Lean only.  Options are numbered; the kind of every option is a parameter `K`, the pre-populated
values (`DefaultConfiguration`) are `init`, the `setDefault` values are `D`.
gcfg's lexical level (quoting, comments, case folding of names) is NOT modelled: it is validated by the
correspondence run, which renders the statements to real config file text.
-/
namespace PlzVerif.Config

/-- How gcfg / ApplyOverrides treat a field. -/
inductive Kind
  | str      -- string / int / duration …: `name = v` overwrites, blank is a fatal error
  | bool     -- bool: `name = v` overwrites, blank means true
  | list     -- unnamed slice: `name = v` appends, blank resets to the zero slice
  | mapKey   -- key of a `map[string]string` section ([buildconfig]): overwrite, blank stores ""
  | plugin   -- key of `[plugin "x"]` (`ExtraValues map[string][]string`): append, blank appends ""
  deriving DecidableEq, Repr

/-- One `name = value` (or blank `name`) line of a config file, for option number `opt`. -/
structure Stmt where
  opt : Nat
  val : Option String
  deriving DecidableEq, Repr

abbrev Source := List Stmt

def upd {α : Type} (f : Nat → α) (k : Nat) (v : α) : Nat → α := fun i => if i = k then v else f i

/-- The part of `core.Configuration` the model tracks. -/
structure Cfg where
  single : Nat → Option String          -- str/bool fields (always `some`), map keys (`none` = absent)
  list : Nat → List String              -- unnamed-slice fields
  plugin : Nat → Option (List String)   -- `config.Plugin[x].ExtraValues[key]`
  pluginPresent : Bool                  -- `config.Plugin[x]` exists

/-- gcfg `set` on one variable.  `none` = fatal error (`errBlankUnsupported`). -/
def setStmt (K : Nat → Kind) (c : Cfg) (s : Stmt) : Option Cfg :=
  match K s.opt, s.val with
  | .str, some v => some { c with single := upd c.single s.opt (some v) }
  | .str, none => none
  | .bool, some v => some { c with single := upd c.single s.opt (some v) }
  | .bool, none => some { c with single := upd c.single s.opt (some "true") }
  | .list, some v => some { c with list := upd c.list s.opt (c.list s.opt ++ [v]) }
  | .list, none => some { c with list := upd c.list s.opt [] }
  | .mapKey, v => some { c with single := upd c.single s.opt (some (v.getD "")) }
  | .plugin, v => some { c with plugin := upd c.plugin s.opt (some (((c.plugin s.opt).getD []) ++ [v.getD ""])),
                                pluginPresent := true }

/-- `gcfg.ReadInto`: the statements of one file in order; the first fatal error aborts. -/
def readStmts (K : Nat → Kind) : Cfg → Source → Option Cfg
  | c, [] => some c
  | c, s :: rest => match setStmt K c s with
    | none => none
    | some c' => readStmts K c' rest

/-- `normaliseAndMergePluginConfig`: a key the file just read did not set keeps its previous value. -/
def mergePlugin (new old : Nat → Option (List String)) : Nat → Option (List String) :=
  fun k => match new k with | some v => some v | none => old k

/-- `readConfigFile`: `plugins := config.Plugin; config.Plugin = {}`; read (a missing file reads nothing);
    `normaliseAndMergePluginConfig`: a key the new file did not set keeps its old value. -/
def readFile (K : Nat → Kind) (c : Cfg) (src : Option Source) : Option Cfg :=
  let old := c.plugin
  let oldPresent := c.pluginPresent
  match readStmts K { c with plugin := fun _ => none, pluginPresent := false } (src.getD []) with
  | none => none
  | some c1 => some { c1 with
      plugin := mergePlugin c1.plugin old,
      pluginPresent := c1.pluginPresent || oldPresent }

/-- The loop of `ReadConfigFiles` over the sources in reading order. -/
def readFiles (K : Nat → Kind) : Cfg → List (Option Source) → Option Cfg
  | c, [] => some c
  | c, s :: rest => match readFile K c s with
    | none => none
    | some c' => readFiles K c' rest

/-- `setDefault(&field, d…)` after the loop: only when the slice is empty. -/
def setDefaults (D : Nat → List String) (c : Cfg) : Cfg :=
  { c with list := fun o => if (c.list o).isEmpty then D o else c.list o }

/-- `ReadConfigFiles`: defaults object, every source in order, slice defaults. -/
def readConfig (K : Nat → Kind) (init : Cfg) (D : Nat → List String) (srcs : List (Option Source)) : Option Cfg :=
  (readFiles K init srcs).map (setDefaults D)

/-- One `-o section.name:value`.  `low` maps an option to the option its lower-cased name denotes
    (`strings.ToLower(k)` in `ApplyOverrides`; only map keys and plugin keys are case sensitive). -/
structure Override where
  opt : Nat
  val : String
  deriving DecidableEq, Repr

def applyOverride (K : Nat → Kind) (low : Nat → Nat) (c : Cfg) (o : Override) : Cfg :=
  match K o.opt with
  | .str => { c with single := upd c.single o.opt (some o.val) }
  | .bool => { c with single := upd c.single o.opt (some o.val) }
  | .list => { c with list := upd c.list o.opt (o.val.splitOn ",") }
  | .mapKey => { c with single := upd c.single (low o.opt) (some o.val) }
  | .plugin => { c with plugin := upd c.plugin (low o.opt) (some [o.val]) }

/-- `applyPluginOverride` fails when no file declared the plugin. -/
def overrideOk (K : Nat → Kind) (c : Cfg) (o : Override) : Bool :=
  match K o.opt with
  | .plugin => c.pluginPresent
  | _ => true

/-- `ApplyOverrides`: Go ranges over a map, so the list order is arbitrary (see `Props`). -/
def applyOverrides (K : Nat → Kind) (low : Nat → Nat) (c : Cfg) (ovs : List Override) : Option Cfg :=
  if ovs.all (overrideOk K c) then some (ovs.foldl (applyOverride K low) c) else none

/-- `readConfig()` of src/please.go: files first, then `-o`. -/
def effective (K : Nat → Kind) (low : Nat → Nat) (init : Cfg) (D : Nat → List String)
    (srcs : List (Option Source)) (ovs : List Override) : Option Cfg :=
  match readConfig K init D srcs with
  | none => none
  | some c => applyOverrides K low c ovs

/-! ### Reading order -/

/-- A source is a config file (`none`) or the profile file `filename.profile` next to it. -/
abbrev SrcName := String × Option String

/-- Where the profile loop sits relative to the per-file read (regenerated fact). -/
inductive ProfileMode
  | afterEachFile     -- for f in files { read f; for p in profiles { read f.p } }   (the code today)
  | beforeEachFile    -- for f in files { for p in profiles { read f.p }; read f }
  | afterAllFiles     -- for f in files { read f }; for f in files { for p … }
  | none              -- profiles are not read
  deriving DecidableEq, Repr

def ProfileMode.ofString : String → Option ProfileMode
  | "after-each-file" => some .afterEachFile
  | "before-each-file" => some .beforeEachFile
  | "after-all-files" => some .afterAllFiles
  | "none" => some .none
  | _ => Option.none

def block (profiles : List String) (f : String) : List SrcName :=
  (f, none) :: profiles.map fun p => (f, some p)

def readOrder (m : ProfileMode) (files profiles : List String) : List SrcName :=
  match m with
  | .afterEachFile => files.flatMap (block profiles)
  | .beforeEachFile => files.flatMap fun f => (profiles.map fun p => (f, some p)) ++ [(f, none)]
  | .afterAllFiles => (files.map fun f => (f, none)) ++ files.flatMap fun f => profiles.map fun p => (f, some p)
  | .none => files.map fun f => (f, none)

/-- The file roles of `defaultConfigFiles()` in order; XDG entries are present only when the
    environment variables are set (`xdgDirs` absolute entries of XDG_CONFIG_DIRS, `xdgHome`). -/
def expandRoles (roles : List String) (xdgDirs : Nat) (xdgHome : Bool) : List String :=
  roles.flatMap fun r =>
    if r = "xdgdirs" then (List.range xdgDirs).map fun i => "xdgdir" ++ toString i
    else if r = "xdghome" then (if xdgHome then ["xdghome"] else [])
    else [r]

end PlzVerif.Config

/-! ### The representative options used by the correspondence run and the instantiated theorems -/
namespace PlzVerif.Config

structure Opt where
  name : String
  kind : Kind

/-- One option of every kind (and two of the common ones, so that independence is exercised).
    The Go harness has the same table (harness/cmd/c39: `options`). -/
def table : List Opt := [
  ⟨"build.lang", .str⟩, ⟨"build.config", .str⟩, ⟨"please.numoldversions", .str⟩, ⟨"build.xattrs", .bool⟩,
  ⟨"parse.buildfilename", .list⟩, ⟨"parse.blacklistdirs", .list⟩, ⟨"parse.builddefsdir", .list⟩,
  ⟨"java.defaultmavenrepo", .list⟩,
  ⟨"buildconfig.Foo-Bar", .mapKey⟩, ⟨"buildconfig.foo-bar", .mapKey⟩,
  ⟨"plugin.foo.key", .plugin⟩, ⟨"plugin.foo.other", .plugin⟩,
  ⟨"display.updatetitle", .bool⟩, ⟨"please.version", .str⟩]

def kindOf (o : Nat) : Kind := (table[o]?.map (·.kind)).getD .str
def nameOf (o : Nat) : String := (table[o]?.map (·.name)).getD ""

/-- `strings.ToLower` on the option name: only "buildconfig.Foo-Bar" changes. -/
def lowOf (o : Nat) : Nat := if o = 8 then 9 else o

def lookup {α : Type} (l : List (String × α)) (k : String) : Option α := (l.find? (·.1 == k)).map (·.2)

/-- `DefaultConfiguration()` restricted to the table, from the regenerated facts. -/
def initOf (scalars : List (String × String)) (pre : List (String × List String)) : Cfg where
  single := fun o => match kindOf o with
    | .str => some ((lookup scalars (nameOf o)).getD "")
    | .bool => some ((lookup scalars (nameOf o)).getD "false")
    | _ => none
  list := fun o => (lookup pre (nameOf o)).getD []
  plugin := fun _ => none
  pluginPresent := false

def defaultsOf (sliceDefaults : List (String × List String)) (o : Nat) : List String :=
  (lookup sliceDefaults (nameOf o)).getD []

/-- Role of a symbolic file location as printed by the extractor. -/
def roleOf (d : String) : String :=
  if d = "/etc/please/plzconfig" then "machine"
  else if d = "$XDG_CONFIG_DIRS[i]/plzconfig" then "xdgdirs"
  else if d = "~/.config/please/plzconfig" then "user"
  else if d = "$XDG_CONFIG_HOME/plzconfig" then "xdghome"
  else if d = "$ROOT/.plzconfig" then "repo"
  else if d = "$ROOT/.plzconfig_$GOOS_$GOARCH" then "arch"
  else if d = "$ROOT/.plzconfig.local" then "local"
  else "unknown:" ++ d

end PlzVerif.Config
