import PlzVerif.Model.HashCheck
import PlzVerif.Generated.C35
import PlzVerif.Generated.C01
/-! The facts records the C35 model is instantiated with on this run (regenerated from /repo). -/
namespace PlzVerif.HashCheck
open PlzVerif.Generated

def genU : UFacts :=
  { lastColon := C35.unprefixIndexFn == "strings.LastIndexByte" || C35.unprefixIndexFn == "strings.LastIndex",
    trim := C35.unprefixWrap == "strings.TrimSpace",
    alias := C35.unprefixAliases }

def genC : CFacts :=
  { firstCompare := C35.checkFirstCompare, lenOp := C35.ofTypeLenOp, lenMult := C35.ofTypeLenMult }

def genS : SFacts :=
  { removeOnRetrieveFail := C35.retrieveOnFail == ["RemoveOutputs", "return false"],
    removeOnBuildFail := C35.buildErrRemovesOutputs,
    checkBeforeStamp := C35.calcOrder == ["OutputHash", "checkRuleHashes", "writeRuleHash"] && C35.calcGateReturnsErr,
    storeAfterCheck := C35.buildStoreAfterCheck && C35.buildCheckErrReturns,
    keepOld := C01.moveOutputKeepsOldOnEqualHash,   -- moveOutput's keep-old branch, read by the C01 extractor
    fgCheckOnlyIfChanged := C35.fgCheckInsideChanged }

/-- Decidable side condition under which the C35 theorems speak about the code as it is today. -/
def FactsOK : Bool :=
  -- UnprefixedHashes: text after the LAST ':' (when there is one), TrimSpace'd
  C35.unprefixIndexFn == "strings.LastIndexByte" && C35.unprefixSep == "':'" && C35.unprefixGuard == "i!=-1" &&
  C35.unprefixSliceLow == "i+1" && C35.unprefixSliceHigh == "-" && C35.unprefixWrap == "strings.TrimSpace" &&
  -- … computed on a copy that is returned (fix 656076b; before it the function wrote through `target.Hashes[:]`)
  !C35.unprefixAliases && C35.unprefixReturnsLocal &&
  -- checkRuleHashes
  C35.checkEmptyGuard && C35.checkUsesUnprefixed && C35.checkFirstCompare && C35.checkCombine == "len(outputs) != 1" &&
  C35.checkHashers == "state.OutputHashCheckers()" && C35.checkOutputs == "FullOutputs" && C35.checkValidReturnsNil &&
  -- checkRuleHashesOfType
  C35.ofTypeLenOp == "==" && C35.ofTypeLenMult == 2 && C35.ofTypeLenSizeOperand && C35.ofTypeCompareOp == "==" &&
  C35.ofTypeMatchReturnsTrue && C35.ofTypeHashErrIgnored && C35.ofTypeCombiner == "NewHash" &&
  -- outputHash / targetHasher
  C35.outputHashNameGuard == "len(target.Hashes)==0" && C35.outputHashRecalcArg == "true" &&
  C35.targetHasherSingleCond == "len(outs)==1&&fs.FileExists(outs[0])" && C35.targetHasherMemoises &&
  -- calculateAndCheckRuleHash: the stamp is written only after a successful (or waived) check
  C35.calcOrder == ["OutputHash", "checkRuleHashes", "writeRuleHash"] && C35.calcGate == "state.VerifyHashes" &&
  C35.calcGateReturnsErr &&
  -- buildTarget: moveOutputs → check (error returns) → storeInCache
  C35.buildTargetOrder == ["needsBuilding", "needsBuilding", "buildFilegroup", "calculateAndCheckRuleHash", "retrieveArtifacts",
    "writeRuleHash", "retrieveArtifacts", "build", "StoreTargetMetadata", "moveOutputs", "calculateAndCheckRuleHash",
    "storeInCache", "storeInCache"] &&
  C35.buildCheckErrReturns && C35.buildMoveBeforeCheck && C35.buildStoreAfterCheck &&
  -- filegroups: checked whenever hashes are declared, not only when a link changed
  !C35.fgCheckInsideChanged && C35.fgCheckCoversDeclared &&
  -- retrieveArtifacts / Build
  C35.retrieveOnFail == ["RemoveOutputs", "return false"] &&
  C35.retrieveOrder == ["retrieveFromCache", "calculateAndCheckRuleHash", "RemoveOutputs"] && C35.buildErrRemovesOutputs &&
  -- where the algorithms come from
  C35.checkersSource == "HashCheckers" && C35.checkersLookup == "Hasher" && C35.pathHasherFrom == "HashFunction" &&
  C35.hasherTable == ["sha1=sha1.New", "sha256=sha256.New", "crc32=newCRC32", "crc64=newCRC64", "blake3=newBlake3", "xxhash=newXXHash"] &&
  C35.defaultHashCheckers == ["sha1", "sha256", "blake3"] && C35.defaultHashFunction == "sha256" &&
  C35.ruleHashCoversHashes &&
  -- the configured checkers reach the stamp / cache key of every target that declares hashes (fix 477defb: rule hash)
  (C35.ruleHashCoversHashCheckers || C35.configHashCoversHashCheckers) &&
  -- the records the model runs with are the ones the theorems are about
  genU == UFacts.asCoded && genC == CFacts.asCoded && genS == SFacts.asCoded

/-- Does a change of `build.hashcheckers` change the key (stamp, cache key) of a target that declares hashes? -/
def keyCoversCheckers : Bool := C35.ruleHashCoversHashCheckers || C35.configHashCoversHashCheckers

end PlzVerif.HashCheck
